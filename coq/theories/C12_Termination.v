(* C12_Termination.v — termination of the coordinator/worker hand-shake (Handshake.v) under every schedule.

   A potential  Phi : state -> nat  with
     (1) every [step] of any thread lowers Phi by at least 1            (step_decreases)
     (2) every [spurious] wake-up raises Phi by at most 2                (spurious_raises)
     (3) Phi init = B0 N na, and Phi s <= Bmax N na for EVERY state      (Phi_init, Phi_le_Bmax)
         B0 N na = (6N + 6) + nblocks * (6 + 2N) + na * (7 + 2N)        (B0_closed_form, N >= 1, na >= 1)
   for every N, na, lt, both values of [fixed], and every state (reachable or not: the argument is local,
   it needs no invariant).  Why it works: a thread can repeat a program point only by going round a
   `while (...) pthread_cond_wait` loop, each round needs a wake-up, and wake-ups come from broadcasts (or are
   spurious).  So every broadcast is charged, at the broadcaster, 2 for each of the at most N threads it can move
   from "blocked in cond_wait" (potential p) to "woken" (potential p+2: re-acquire, re-test, wait again), and
   the coordinator's `state[j] = RUN` pre-pays one complete round of worker j (9 steps + its broadcast).
   Broadcasts themselves are bounded: one per block and one at the end by the coordinator, one per RUN by a
   worker.  Phi = cpot (coordinator: what is left of the for loop and the tail) + crt (threads still to create)
   + the sum over the workers of wpot (program counter, trial->state).

   Consequences (fixed = true and N >= 1, na >= 2 only where C12_Proofs is used):
     exec_bound           #steps + Phi(end) <= Phi(start) + 2 * #spurious     along every execution
     step_wf              the step relation is well-founded (on all states)
     no_infinite_steps    no infinite execution has a spurious-free tail
     eventually_finished  from every reachable state, against every scheduler that may also inject up to k
                          spurious wake-ups (k arbitrary), a finished state with result = walk_spec is
                          inevitable and no state before it is stuck.
   The bound is nearly exact: the longest schedule of small configurations (extract/handshake_driver `longest`,
   a test run by the check) is B0 - 2 for N = 1 and within 8 of B0 for N <= 3, na <= 5. *)
From Coq Require Import List Arith Bool Lia Wf_nat.
From PS Require Import Handshake C12_Proofs.
Import ListNotations.

(* sum of f over 0..n-1 *)
Fixpoint wsumn (n : nat) (f : nat -> nat) : nat := match n with 0 => 0 | S m => wsumn m f + f m end.

Lemma wsumn_bound : forall n f g c, (forall j, j < n -> g j <= f j + c) -> wsumn n g <= wsumn n f + n * c.
Proof.
  induction n as [|n IH]; intros f g c Hle; simpl; [lia|].
  assert (H1 := IH f g c (fun j Hj => Hle j (Nat.lt_lt_succ_r _ _ Hj))).
  assert (H2 := Hle n (Nat.lt_succ_diag_r n)). lia.
Qed.

Lemma wsumn_le : forall n f g, (forall j, j < n -> g j <= f j) -> wsumn n g <= wsumn n f.
Proof.
  intros n f g Hle. assert (H := wsumn_bound n f g 0). rewrite Nat.mul_0_r, Nat.add_0_r in H.
  apply H. intros j Hj. rewrite Nat.add_0_r. auto.
Qed.

Lemma wsumn_const0 : forall n f, (forall j, j < n -> f j = 0) -> wsumn n f = 0.
Proof.
  induction n as [|n IH]; intros f H0; simpl; [reflexivity|].
  rewrite (IH f (fun j Hj => H0 j (Nat.lt_lt_succ_r _ _ Hj))), (H0 n (Nat.lt_succ_diag_r n)). reflexivity.
Qed.

(* g differs from f arbitrarily at k and by at most c elsewhere *)
Lemma wsumn_single : forall n f g k c, k < n -> (forall j, j < n -> j <> k -> g j <= f j + c) ->
  wsumn n g + f k <= wsumn n f + g k + (n - 1) * c.
Proof.
  induction n as [|n IH]; intros f g k c Hk Hle; [lia|].
  simpl. rewrite Nat.sub_0_r.
  destruct (Nat.eq_dec k n) as [->|Hne].
  - assert (H1 := wsumn_bound n f g c). assert (H2 : wsumn n g <= wsumn n f + n * c).
    { apply H1. intros j Hj. apply Hle; lia. }
    lia.
  - assert (Hk' : k < n) by lia.
    assert (H1 := IH f g k c Hk' (fun j Hj Hjk => Hle j (Nat.lt_lt_succ_r _ _ Hj) Hjk)).
    assert (H2 : g n <= f n + c) by (apply Hle; lia).
    destruct n as [|m]; [lia|]. simpl in H1. rewrite Nat.sub_0_r in H1. simpl. lia.
Qed.

(* sums over a shifted range *)
Lemma wsumn_shift : forall m f a, wsumn (S m) (fun i => f (a + i)) = f a + wsumn m (fun i => f (S a + i)).
Proof.
  induction m as [|m IH]; intros f a.
  - simpl. rewrite Nat.add_0_r. lia.
  - change (wsumn (S (S m)) (fun i => f (a + i))) with (wsumn (S m) (fun i => f (a + i)) + f (a + S m)).
    rewrite IH. simpl. replace (a + S m) with (S (a + m)) by lia. lia.
Qed.

Lemma wsumn_suffix_le : forall m f a, wsumn m (fun i => f (a + i)) <= wsumn (a + m) f.
Proof.
  induction m as [|m IH]; intros f a; simpl; [lia|].
  replace (a + S m) with (S (a + m)) by lia. simpl. specialize (IH f a). lia.
Qed.

(* g exceeds f by at most 2, plus M where c holds *)
Lemma wsumn_marked : forall n (f g : nat -> nat) (c : nat -> bool) M,
  (forall j, j < n -> g j <= f j + 2 + (if c j then M else 0)) ->
  wsumn n g <= wsumn n f + 2 * n + wsumn n (fun j => if c j then 1 else 0) * M.
Proof.
  induction n as [|n IH]; intros f g c M Hle; simpl; [lia|].
  assert (H1 := IH f g c M (fun j Hj => Hle j (Nat.lt_lt_succ_r _ _ Hj))).
  assert (H2 := Hle n (Nat.lt_succ_diag_r n)).
  rewrite Nat.mul_add_distr_r. destruct (c n); lia.
Qed.

Lemma wsumn_affine : forall n (h : nat -> nat) a M, wsumn n (fun i => a + h i * M) = n * a + wsumn n h * M.
Proof. induction n as [|n IH]; intros h a M; simpl; [reflexivity|]. rewrite IH, Nat.mul_add_distr_r. lia. Qed.

Lemma wsumn_ext : forall n f g, (forall j, j < n -> f j = g j) -> wsumn n f = wsumn n g.
Proof.
  induction n as [|n IH]; intros f g He; simpl; [reflexivity|].
  rewrite (IH f g (fun j Hj => He j (Nat.lt_lt_succ_r _ _ Hj))), (He n (Nat.lt_succ_diag_r n)). reflexivity.
Qed.

Section Measure.
Variables N na : nat.

(* charge for one pthread_cond_broadcast: each of at most N sleepers (the other workers and the coordinator) gains 2 *)
Definition Kb : nat := 2 * N.

(* worker: potential at the test of trial->state (line 804) as a function of the state it will see *)
Definition wcheck (x : wst) : nat := match x with RUN => 8 + Kb | _ => 1 end.
Definition wpot (p : wpc) (x : wst) : nat :=
  match p with
  | WNotCreated | WExited => 0
  | WCvWait => wcheck x - 1
  | WCheck => wcheck x
  | WLock1 | WWoken => wcheck x + 1
  | WUnlock2 => wcheck x + 2
  | WReport => 4 + Kb | WLock2 => 5 + Kb | WCompute2 => 6 + Kb | WCompute1 => 7 + Kb
  end.
Definition wmax : nat := 10 + Kb.

(* coordinator *)
Definition cnt (b : nat) : nat := wsumn N (fun j => if in_block N na b j then 1 else 0).   (* trial steps of block b *)
(* pre-payment of CSetRun in block b: its broadcast may wake every worker (2 each); a worker of the block goes from
   (CvWait, WAIT) = 0 to (Woken, RUN) = 9 + Kb: one complete round *)
Definition Srun (b : nat) : nat := cnt b * (7 + Kb) + 2 * N.
Definition PB (b : nat) : nat := 6 + Srun b.    (* potential of block b of the for loop, at its first statement *)
Definition Tl : nat := 3 * N + 5.               (* potential of the tail (lock, set TERMINATE + broadcast, unlock, joins, clean-up) *)
Definition remb (b : nat) : nat := wsumn (nblocks N na - b - 1) (fun i => PB (S b + i)).   (* the blocks after block b *)
Definition allb : nat := wsumn (nblocks N na) PB.                                           (* all blocks *)
Definition PBmax : nat := 6 + N * (7 + Kb) + 2 * N.
Definition cpot (c : cpc) (b : nat) : nat :=
  let inblk r := Tl + remb b + r in
  match c with
  | CCreate k => inblk (PB b) + 1
  | CLockA => inblk (PB b)
  | CSetRun => inblk (5 + Srun b)
  | CUnlockA => inblk 4
  | CLockB => inblk 3
  | CLoopB _ => inblk 2
  | CCvWait => inblk 1
  | CWoken => inblk 3
  | CRead => inblk 1
  | CLockT => Tl
  | CSetTerm => 3 * N + 4
  | CUnlockT => N + 3
  | CJoin k => (N - k) + 2
  | CCleanup => 1
  | CDone => 0
  end.

(* while the threads are being created: one step per pthread_create still to come, and the potential the new worker
   starts with (3, or a whole round more should its trial->state already be RUN; it never is in a reachable state) *)
Definition crt (c : cpc) (x : nat -> wst) : nat :=
  match c with CCreate k => wsumn N (fun j => if k <=? j then 1 + wpot WLock1 (x j) else 0) | _ => 0 end.

Definition wsum (s : state) : nat := wsumn N (fun j => wpot (wp s j) (st s j)).
Definition Phi (s : state) : nat := cpot (cp s) (blk s) + crt (cp s) (st s) + wsum s.

(* the bounds *)
Definition B0 : nat := Tl + remb 0 + PB 0 + 1 + 3 * N.
Definition Bmax : nat := Tl + allb + PBmax + 1 + N * (1 + 2 * wmax).

Lemma cnt_le : forall b, cnt b <= N.
Proof.
  intro b. unfold cnt.
  assert (H := wsumn_bound N (fun _ => 0) (fun j => if in_block N na b j then 1 else 0) 1).
  rewrite (wsumn_const0 N (fun _ => 0)) in H by reflexivity. rewrite Nat.mul_1_r in H. apply H.
  intros j _. destruct (in_block N na b j); lia.
Qed.

Lemma PB_le : forall b, PB b <= PBmax.
Proof.
  intro b. unfold PB, Srun, PBmax. assert (H : cnt b * (7 + Kb) <= N * (7 + Kb)) by (apply Nat.mul_le_mono_r, cnt_le). lia.
Qed.

Lemma remb_le : forall b, remb b <= allb.
Proof.
  intro b. unfold remb, allb. destruct (Nat.lt_ge_cases b (nblocks N na)) as [Hb|Hb].
  - assert (H := wsumn_suffix_le (nblocks N na - b - 1) PB (S b)).
    replace (S b + (nblocks N na - b - 1)) with (nblocks N na) in H by lia. exact H.
  - replace (nblocks N na - b - 1) with 0 by lia. simpl. lia.
Qed.

(* B0 written out: 7 + 2N per trial step, 6 + 2N per block of the for loop, 6N + 6 for creation and termination *)
Lemma cnt_min : forall b, cnt b = Nat.min N (na - b * N).
Proof.
  intro b. unfold cnt.
  assert (H : forall n, n <= N -> wsumn n (fun j => if in_block N na b j then 1 else 0) = Nat.min n (na - b * N)).
  { induction n as [|n IH]; intro Hn; [reflexivity|]. cbn [wsumn]. rewrite IH by lia. unfold in_block.
    assert (E : (n <? N) = true) by (apply Nat.ltb_lt; lia). rewrite E. cbn [andb].
    destruct (b * N + n <? na) eqn:E2; [apply Nat.ltb_lt in E2|apply Nat.ltb_ge in E2]; lia. }
  apply H. lia.
Qed.

Lemma cnt_sum : forall m, wsumn m cnt = Nat.min (m * N) na.
Proof. induction m as [|m IH]; [reflexivity|]. cbn [wsumn]. rewrite IH, cnt_min. rewrite Nat.mul_succ_l. lia. Qed.

Lemma B0_closed_form : 1 <= N -> 1 <= na -> B0 = (6 * N + 6) + nblocks N na * (6 + 2 * N) + na * (7 + 2 * N).
Proof.
  intros HN Hna. unfold B0.
  assert (Hq : na + N - 1 = N * nblocks N na + (na + N - 1) mod N) by (apply Nat.div_mod; lia).
  assert (Hr : (na + N - 1) mod N < N) by (apply Nat.mod_upper_bound; lia).
  assert (Hpos : 1 <= nblocks N na).
  { destruct (nblocks N na) as [|q]; [|lia]. rewrite Nat.mul_0_r in Hq. lia. }
  assert (Hcov : na <= nblocks N na * N) by (rewrite (Nat.mul_comm (nblocks N na) N); lia).
  assert (Hall : remb 0 + PB 0 = allb).
  { unfold remb, allb. destruct (nblocks N na) as [|m]; [lia|].
    change (wsumn (S m) PB) with (wsumn (S m) (fun i => PB (0 + i))). rewrite wsumn_shift.
    replace (S m - 0 - 1) with m by lia. lia. }
  assert (Haff : allb = nblocks N na * (6 + 2 * N) + wsumn (nblocks N na) cnt * (7 + Kb)).
  { unfold allb. rewrite <- wsumn_affine. apply wsumn_ext. intros b _. unfold PB, Srun. lia. }
  rewrite cnt_sum in Haff. rewrite Nat.min_r in Haff by exact Hcov.
  unfold Tl, Kb in *. lia.
Qed.

Lemma remb_next : forall b, S b < nblocks N na -> remb b = PB (S b) + remb (S b).
Proof.
  intros b Hb. unfold remb. replace (nblocks N na - b - 1) with (S (nblocks N na - S b - 1)) by lia.
  apply wsumn_shift.
Qed.

Lemma wpot_le_wmax : forall p x, wpot p x <= wmax.
Proof. intros p x. unfold wmax. destruct p, x; simpl; lia. Qed.

Lemma wake_w_pot : forall p x, wpot (wake_w p) x <= wpot p x + 2.
Proof. intros p x. destruct p, x; simpl; lia. Qed.

Lemma wake_c_pot : forall c b, cpot (wake_c c) b <= cpot c b + 2.
Proof. intros c b. destruct c; simpl; lia. Qed.

Lemma term_pot : forall p x, wpot (wake_w p) TERM <= wpot p x + 2.
Proof. intros p x. destruct p, x; simpl; lia. Qed.

Lemma crt_le : forall c x, crt c x <= N * (1 + wmax).
Proof.
  intros c x. destruct c; cbn [crt]; try lia.
  assert (H := wsumn_bound N (fun _ => 0) (fun j => if k <=? j then 1 + wpot WLock1 (x j) else 0) (1 + wmax)).
  rewrite (wsumn_const0 N (fun _ => 0)) in H by reflexivity. apply H.
  intros j _. assert (H2 := wpot_le_wmax WLock1 (x j)). destruct (k <=? j); lia.
Qed.

(* trial->state = WAIT (the worker reports) can only lower it; a broadcast does not change it *)
Lemma crt_report : forall c x j0, crt (wake_c c) (upd x j0 WAIT) <= crt c x.
Proof.
  intros c x j0. destruct c; cbn [crt wake_c]; try lia.
  apply wsumn_le. intros j _. destruct (k <=? j); [|lia]. unfold upd. destruct (j =? j0); [|lia].
  destruct (x j); simpl; lia.
Qed.

Lemma crt_loop_head : forall i sc x, crt (loop_head N na i sc) x = 0.
Proof. intros i sc x. unfold loop_head. destruct ((i <? nblocks N na) && negb sc); reflexivity. Qed.

(* pthread_create of worker k: its share of crt pays the step and the new worker's potential *)
Lemma crt_create : forall k x, k < N -> crt (CCreate (S k)) x + 1 + wpot WLock1 (x k) <= crt (CCreate k) x.
Proof.
  intros k x Hk. cbn [crt].
  assert (H := wsumn_single N (fun j => if k <=? j then 1 + wpot WLock1 (x j) else 0)
                 (fun j => if S k <=? j then 1 + wpot WLock1 (x j) else 0) k 0 Hk).
  cbv beta in H. rewrite Nat.leb_refl in H. assert (E : (S k <=? k) = false) by (apply Nat.leb_gt; lia). rewrite E in H.
  rewrite Nat.mul_0_r in H.
  assert (H' : forall j, j < N -> j <> k -> (if S k <=? j then 1 + wpot WLock1 (x j) else 0) <= (if k <=? j then 1 + wpot WLock1 (x j) else 0) + 0).
  { intros j _ Hne. destruct (S k <=? j) eqn:E1; [|lia]. apply Nat.leb_le in E1.
    assert (E2 : (k <=? j) = true) by (apply Nat.leb_le; lia). rewrite E2. lia. }
  specialize (H H'). lia.
Qed.

Lemma wsumn_const : forall n c, wsumn n (fun _ => c) = n * c.
Proof. induction n as [|n IH]; intro c; simpl; [reflexivity|]. rewrite IH. lia. Qed.

Lemma Phi_init : Phi init = B0.
Proof.
  unfold Phi, wsum, B0. cbn [cp blk st wp init cpot crt].
  assert (E : wsumn N (fun j => if 0 <=? j then 1 + wpot WLock1 WAIT else 0) = wsumn N (fun _ => 3)) by reflexivity.
  rewrite E, wsumn_const. rewrite wsumn_const0 by reflexivity. lia.
Qed.

Lemma cpot_le : forall c b, cpot c b <= Tl + allb + PBmax + 1.
Proof.
  intros c b.
  assert (Hr := remb_le b). assert (Hp := PB_le b).
  assert (HS : Srun b + 6 = PB b) by (unfold PB; lia).
  destruct c as [k| | | | | | | | | | | |k| |]; cbn [cpot]; unfold Tl in *; lia.
Qed.

Lemma Phi_le_Bmax : forall s, Phi s <= Bmax.
Proof.
  intro s. unfold Phi, Bmax, wsum.
  assert (H1 := cpot_le (cp s) (blk s)). assert (H3 := crt_le (cp s) (st s)).
  assert (H2 : wsumn N (fun j => wpot (wp s j) (st s j)) <= wsumn N (fun _ => 0) + N * wmax).
  { apply wsumn_bound. intros j _. apply wpot_le_wmax. }
  rewrite (wsumn_const0 N (fun _ => 0)) in H2 by reflexivity. rewrite Nat.mul_add_distr_l. lia.
Qed.

(* ---- a worker step lowers Phi ---- *)
Lemma upd_eq : forall A (f : nat -> A) k v, upd f k v k = v.
Proof. intros. unfold upd. rewrite Nat.eqb_refl. reflexivity. Qed.
Lemma upd_ne : forall A (f : nat -> A) k v j, j <> k -> upd f k v j = f j.
Proof. intros A f k v j Hne. unfold upd. destruct (j =? k) eqn:E; [apply Nat.eqb_eq in E; contradiction|reflexivity]. Qed.

(* a step of worker j0 that only moves its own program counter *)
Lemma wsum_move : forall s j0 p', j0 < N ->
  wsumn N (fun j => wpot (upd (wp s) j0 p' j) (st s j)) + wpot (wp s j0) (st s j0) <= wsum s + wpot p' (st s j0).
Proof.
  intros s j0 p' Hj. unfold wsum.
  assert (H := wsumn_single N (fun j => wpot (wp s j) (st s j)) (fun j => wpot (upd (wp s) j0 p' j) (st s j)) j0 0 Hj).
  cbv beta in H. rewrite upd_eq, Nat.mul_0_r, Nat.add_0_r in H. apply H.
  intros j _ Hne. rewrite upd_ne by exact Hne. lia.
Qed.

Lemma wstep_decreases : forall s j0 s', j0 < N -> wstep s j0 = Some s' -> Phi s' < Phi s.
Proof.
  intros s j0 s' Hj Hs. unfold wstep in Hs.
  destruct (wp s j0) eqn:Hp; try discriminate Hs.
  - (* WLock1 *) destruct (free s); [|discriminate]. inversion Hs; subst s'; clear Hs.
    unfold Phi. cbn [cp blk set_wp set_mtx]. unfold wsum at 1. cbn [wp st set_wp set_mtx].
    assert (H := wsum_move s j0 WCheck Hj). rewrite Hp in H. cbn [wpot] in H. lia.
  - (* WCheck *) destruct (st s j0) eqn:Hst; inversion Hs; subst s'; clear Hs;
    unfold Phi; cbn [cp blk set_wp set_mtx]; unfold wsum at 1; cbn [wp st set_wp set_mtx].
    + assert (H := wsum_move s j0 WCvWait Hj). rewrite Hp, Hst in H. cbn [wpot wcheck] in H. lia.
    + assert (H := wsum_move s j0 WCompute1 Hj). rewrite Hp, Hst in H. cbn [wpot wcheck] in H. lia.
    + assert (H := wsum_move s j0 WExited Hj). rewrite Hp, Hst in H. cbn [wpot wcheck] in H. lia.
  - (* WWoken *) destruct (free s); [|discriminate]. inversion Hs; subst s'; clear Hs.
    unfold Phi. cbn [cp blk set_wp set_mtx]. unfold wsum at 1. cbn [wp st set_wp set_mtx].
    assert (H := wsum_move s j0 WCheck Hj). rewrite Hp in H. cbn [wpot] in H. lia.
  - (* WCompute1 *) inversion Hs; subst s'; clear Hs.
    unfold Phi. cbn [cp blk set_wp set_out]. unfold wsum at 1. cbn [wp st set_wp set_out].
    assert (H := wsum_move s j0 WCompute2 Hj). rewrite Hp in H. cbn [wpot] in H. lia.
  - (* WCompute2 *) inversion Hs; subst s'; clear Hs.
    unfold Phi. cbn [cp blk set_wp set_out]. unfold wsum at 1. cbn [wp st set_wp set_out].
    assert (H := wsum_move s j0 WLock2 Hj). rewrite Hp in H. cbn [wpot] in H. lia.
  - (* WLock2 *) destruct (free s); [|discriminate]. inversion Hs; subst s'; clear Hs.
    unfold Phi. cbn [cp blk set_wp set_mtx]. unfold wsum at 1. cbn [wp st set_wp set_mtx].
    assert (H := wsum_move s j0 WReport Hj). rewrite Hp in H. cbn [wpot] in H. lia.
  - (* WReport: state = WAIT; broadcast *) inversion Hs; subst s'; clear Hs.
    unfold Phi, wake_all. cbn [cp blk set_wp set_cp set_st]. unfold wsum at 1. cbn [wp st set_wp set_cp set_st].
    assert (Hc := wake_c_pot (cp s) (blk s)). assert (Hcr := crt_report (cp s) (st s) j0).
    assert (H := wsumn_single N (fun j => wpot (wp s j) (st s j))
                   (fun j => wpot (upd (fun j1 => wake_w (wp s j1)) j0 WUnlock2 j) (upd (st s) j0 WAIT j)) j0 2 Hj).
    cbv beta in H. rewrite !upd_eq, Hp in H. cbn [wpot wcheck] in H.
    assert (H' : forall j, j < N -> j <> j0 ->
               wpot (upd (fun j1 => wake_w (wp s j1)) j0 WUnlock2 j) (upd (st s) j0 WAIT j) <= wpot (wp s j) (st s j) + 2).
    { intros j _ Hne. rewrite !upd_ne by exact Hne. apply wake_w_pot. }
    specialize (H H'). fold (wsum s) in H.
    assert (HK : (N - 1) * 2 + 2 <= Kb) by (unfold Kb; lia).
    lia.
  - (* WUnlock2 *) inversion Hs; subst s'; clear Hs.
    unfold Phi. cbn [cp blk set_wp set_mtx]. unfold wsum at 1. cbn [wp st set_wp set_mtx].
    assert (H := wsum_move s j0 WLock1 Hj). rewrite Hp in H. cbn [wpot] in H. lia.
Qed.

(* ---- a coordinator step lowers Phi ---- *)
Variable lt : nat -> nat -> bool.
Variable fixed : bool.

Lemma loop_head_pot : forall b sc r, 1 <= r -> cpot (loop_head N na (S b) sc) (S b) < Tl + remb b + r.
Proof.
  intros b sc r Hr. unfold loop_head.
  destruct ((S b <? nblocks N na) && negb sc) eqn:E; cbn [cpot]; [|lia].
  apply andb_prop in E. destruct E as [E _]. apply Nat.ltb_lt in E.
  rewrite (remb_next b E). lia.
Qed.

Lemma loop_head0_pot : forall b, cpot (loop_head N na 0 false) b <= Tl + remb b + PB b.
Proof. intros b. unfold loop_head. destruct ((0 <? nblocks N na) && negb false); cbn [cpot]; lia. Qed.

Lemma cstep_decreases : forall s s', cstep N na lt fixed s = Some s' -> Phi s' < Phi s.
Proof.
  intros s s' Hs. unfold cstep in Hs.
  destruct (cp s) as [k| | | | |chk| | | | | | |k| |] eqn:Hc; try discriminate Hs.
  - (* CCreate k *) inversion Hs; subst s'; clear Hs.
    unfold Phi. cbn [cp blk set_wp set_cp]. rewrite Hc. unfold wsum at 1. cbn [wp st set_wp set_cp].
    assert (H0 := loop_head0_pot (blk s)). assert (Hl := crt_loop_head 0 false (st s)).
    destruct (k <? N) eqn:Ek'.
    + apply Nat.ltb_lt in Ek'. assert (Hm := wsum_move s k WLock1 Ek'). assert (Hcr := crt_create k (st s) Ek').
      destruct (S k <? N); [cbn [cpot]|rewrite Hl; cbn [cpot]]; lia.
    + apply Nat.ltb_ge in Ek'. assert (E : (S k <? N) = false) by (apply Nat.ltb_ge; lia). rewrite E.
      assert (H : wsumn N (fun j => wpot (upd (wp s) k WLock1 j) (st s j)) <= wsum s).
      { apply wsumn_le. intros j Hj. rewrite upd_ne by lia. lia. }
      cbn [cpot]. lia.
  - (* CLockA *) destruct (free s); [|discriminate]. inversion Hs; subst s'; clear Hs.
    unfold Phi, wsum. cbn [cp blk wp st set_cp set_mtx]. rewrite Hc. cbn [cpot crt]. unfold PB. lia.
  - (* CSetRun *) inversion Hs; subst s'; clear Hs.
    unfold Phi, wake_all. cbn [cp blk set_cp set_wp set_st set_alpha]. rewrite Hc. unfold wsum. cbn [wp st set_cp set_wp set_st set_alpha].
    assert (H := wsumn_marked N (fun j => wpot (wp s j) (st s j))
                   (fun j => wpot (wake_w (wp s j)) (if in_block N na (blk s) j then RUN else st s j))
                   (in_block N na (blk s)) (7 + Kb)).
    cbv beta in H. fold (cnt (blk s)) in H.
    assert (H' : forall j, j < N -> wpot (wake_w (wp s j)) (if in_block N na (blk s) j then RUN else st s j)
                                    <= wpot (wp s j) (st s j) + 2 + (if in_block N na (blk s) j then 7 + Kb else 0)).
    { intros j _. destruct (in_block N na (blk s) j).
      - destruct (wp s j), (st s j); simpl; lia.
      - assert (H' := wake_w_pot (wp s j) (st s j)). lia. }
    specialize (H H'). cbn [cpot crt]. unfold Srun. lia.
  - (* CUnlockA *) inversion Hs; subst s'; clear Hs.
    unfold Phi, wsum. cbn [cp blk wp st set_cp set_mtx]. rewrite Hc. cbn [cpot crt]. lia.
  - (* CLockB *) destruct (free s); [|discriminate]. inversion Hs; subst s'; clear Hs.
    unfold Phi, wsum. cbn [cp blk wp st set_cp set_mtx]. rewrite Hc. cbn [cpot crt]. lia.
  - (* CLoopB *) destruct (chk && all_done N na s); inversion Hs; subst s'; clear Hs;
    unfold Phi, wsum; cbn [cp blk wp st set_cp set_mtx]; rewrite Hc; cbn [cpot crt]; lia.
  - (* CWoken *) destruct (free s); [|discriminate]. inversion Hs; subst s'; clear Hs.
    unfold Phi, wsum. cbn [cp blk wp st set_cp set_mtx]. rewrite Hc. cbn [cpot crt]. lia.
  - (* CRead *) destruct (scan N na lt (blk s) (out s) (seq 0 N) (res s)) as [r sel]. inversion Hs; subst s'; clear Hs.
    unfold Phi, wsum. cbn [cp blk wp st]. rewrite Hc, crt_loop_head. cbn [cpot crt].
    assert (H := loop_head_pot (blk s) (match sel with Some _ => true | None => succ s end) 1 (le_n 1)). lia.
  - (* CLockT *) destruct (free s); [|discriminate]. inversion Hs; subst s'; clear Hs.
    unfold Phi, wsum. cbn [cp blk wp st set_cp set_mtx]. rewrite Hc. cbn [cpot crt]. unfold Tl. lia.
  - (* CSetTerm *) inversion Hs; subst s'; clear Hs.
    unfold Phi, wake_all. cbn [cp blk set_cp set_wp set_st]. rewrite Hc. unfold wsum. cbn [wp st set_cp set_wp set_st].
    assert (H : wsumn N (fun j => wpot (wake_w (wp s j)) (if j <? N then TERM else st s j))
                <= wsumn N (fun j => wpot (wp s j) (st s j)) + N * 2).
    { apply wsumn_bound. intros j Hj. apply Nat.ltb_lt in Hj. rewrite Hj. apply term_pot. }
    cbn [cpot crt]. lia.
  - (* CUnlockT *) inversion Hs; subst s'; clear Hs.
    unfold Phi, wsum. cbn [cp blk wp st set_cp set_mtx]. rewrite Hc. cbn [cpot crt]. lia.
  - (* CJoin k *) destruct (wp s k); try discriminate Hs. inversion Hs; subst s'; clear Hs.
    unfold Phi, wsum. cbn [cp blk wp st set_cp]. rewrite Hc.
    destruct (S k <? N) eqn:Ek; cbn [cpot crt]; [apply Nat.ltb_lt in Ek|]; lia.
  - (* CCleanup *) inversion Hs; subst s'; clear Hs.
    unfold Phi, wsum. cbn [cp blk wp st set_cp]. rewrite Hc. cbn [cpot crt]. lia.
Qed.

(* (1) *)
Lemma step_decreases : forall s t s', step N na lt fixed s t = Some s' -> Phi s' < Phi s.
Proof.
  intros s [|j] s' Hs; simpl in Hs; [exact (cstep_decreases s s' Hs)|].
  destruct (j <? N) eqn:Ej; [|discriminate]. apply Nat.ltb_lt in Ej. exact (wstep_decreases s j s' Ej Hs).
Qed.

(* (2) *)
Lemma spurious_raises : forall s t s', spurious N s t = Some s' -> Phi s' <= Phi s + 2.
Proof.
  intros s [|j] s' Hs; simpl in Hs.
  - destruct (cp s) eqn:Hc; try discriminate Hs. inversion Hs; subst s'; clear Hs.
    unfold Phi, wsum. cbn [cp blk wp st set_cp]. rewrite Hc. cbn [cpot crt]. lia.
  - destruct (j <? N) eqn:Ej; [|discriminate]. apply Nat.ltb_lt in Ej.
    destruct (wp s j) eqn:Hp; try discriminate Hs. inversion Hs; subst s'; clear Hs.
    unfold Phi. cbn [cp blk set_wp]. unfold wsum at 1. cbn [wp st set_wp].
    assert (H := wsum_move s j WWoken Ej). rewrite Hp in H. cbn [wpot] in H.
    assert (H1 : 1 <= wcheck (st s j)) by (destruct (st s j); simpl; lia). lia.
Qed.

(* ---- executions: any interleaving of thread steps and spurious wake-ups ---- *)
Inductive event := EStep (t : nat) | ESpur (t : nat).
Definition fire (s : state) (e : event) : option state :=
  match e with EStep t => step N na lt fixed s t | ESpur t => spurious N s t end.
Fixpoint exec (s : state) (evs : list event) : option state :=
  match evs with [] => Some s | e :: r => match fire s e with Some s' => exec s' r | None => None end end.
Definition is_step (e : event) : bool := match e with EStep _ => true | ESpur _ => false end.
Definition nsteps (evs : list event) : nat := length (filter is_step evs).
Definition nspur (evs : list event) : nat := length (filter (fun e => negb (is_step e)) evs).

Lemma exec_bound : forall evs s s', exec s evs = Some s' -> nsteps evs + Phi s' <= Phi s + 2 * nspur evs.
Proof.
  induction evs as [|e r IH]; intros s s' He; simpl in He.
  - inversion He; subst. unfold nsteps, nspur. simpl. lia.
  - destruct (fire s e) as [s1|] eqn:Hf; [|discriminate]. specialize (IH s1 s' He).
    unfold nsteps, nspur in *. destruct e as [t|t]; simpl in *.
    + assert (H := step_decreases s t s1 Hf). lia.
    + assert (H := spurious_raises s t s1 Hf). lia.
Qed.

Lemma exec_bound_init : forall evs s', exec init evs = Some s' -> nsteps evs <= B0 + 2 * nspur evs.
Proof. intros evs s' He. assert (H := exec_bound evs init s' He). rewrite Phi_init in H. lia. Qed.

Lemma exec_bound_any : forall evs s s', exec s evs = Some s' -> nsteps evs <= Bmax + 2 * nspur evs.
Proof. intros evs s s' He. assert (H := exec_bound evs s s' He). assert (H2 := Phi_le_Bmax s). lia. Qed.

Lemma run_exec : forall sch s, run N na lt fixed s sch = exec s (map EStep sch).
Proof. induction sch as [|t r IH]; intros s; simpl; [reflexivity|]. destruct (step N na lt fixed s t); auto. Qed.

Lemma nsteps_map_step : forall sch, nsteps (map EStep sch) = length sch /\ nspur (map EStep sch) = 0.
Proof. unfold nsteps, nspur. induction sch as [|t r [IH1 IH2]]; simpl; auto. Qed.

(* every schedule of thread steps, from ANY state, is at most Bmax long; from init, at most B0 *)
Lemma run_bound : forall sch s s', run N na lt fixed s sch = Some s' -> length sch + Phi s' <= Phi s.
Proof.
  intros sch s s' Hr. rewrite run_exec in Hr. assert (H := exec_bound _ _ _ Hr).
  destruct (nsteps_map_step sch) as [H1 H2]. rewrite H1, H2 in H. lia.
Qed.

Lemma run_bound_any : forall sch s s', run N na lt fixed s sch = Some s' -> length sch <= Bmax.
Proof. intros sch s s' Hr. assert (H := run_bound _ _ _ Hr). assert (H2 := Phi_le_Bmax s). lia. Qed.

Lemma run_bound_init : forall sch s', run N na lt fixed init sch = Some s' -> length sch <= B0.
Proof. intros sch s' Hr. assert (H := run_bound _ _ _ Hr). rewrite Phi_init in H. lia. Qed.

Lemma run_bounds : forall sch s s', run N na lt fixed s sch = Some s' -> length sch <= Bmax /\ (s = init -> length sch <= B0).
Proof.
  intros sch s s' Hr. split; [exact (run_bound_any sch s s' Hr)|]. intros ->. exact (run_bound_init sch s' Hr).
Qed.

Lemma measure_facts : forall s t s',
  (step N na lt fixed s t = Some s' -> Phi s' < Phi s) /\ (spurious N s t = Some s' -> Phi s' <= Phi s + 2).
Proof. intros s t s'. split; [apply step_decreases | apply spurious_raises]. Qed.

(* well-foundedness of the (converse) step relation, on all states *)
Definition step_succ (s' s : state) : Prop := exists t, step N na lt fixed s t = Some s'.
Lemma step_wf : well_founded step_succ.
Proof. apply (well_founded_lt_compat _ Phi). intros s' s [t Hs]. exact (step_decreases s t s' Hs). Qed.

(* no infinite sequence of states has a tail made of thread steps only:
   every infinite execution contains infinitely many spurious wake-ups *)
Lemma no_infinite_steps : forall (sigma : nat -> state) n0,
  ~ (forall n, n0 <= n -> exists t, step N na lt fixed (sigma n) t = Some (sigma (S n))).
Proof.
  intros sigma n0 Hinf.
  assert (H : forall i, Phi (sigma (n0 + i)) + i <= Phi (sigma n0)).
  { induction i as [|i IH]; [rewrite !Nat.add_0_r; lia|].
    destruct (Hinf (n0 + i)) as [t Ht]; [lia|]. apply step_decreases in Ht.
    replace (n0 + S i) with (S (n0 + i)) by lia. lia. }
  specialize (H (S (Phi (sigma n0)))). lia.
Qed.

(* "P is inevitable against a scheduler that may inject at most k spurious wake-ups":
   P holds now, or some thread can move and P is inevitable after whatever the scheduler does next *)
Inductive inevitably (P : state -> Prop) : nat -> state -> Prop :=
| inev_now : forall k s, P s -> inevitably P k s
| inev_later : forall k s,
    (exists t s', step N na lt fixed s t = Some s') ->
    (forall t s', step N na lt fixed s t = Some s' -> inevitably P k s') ->
    (forall t s' k', spurious N s t = Some s' -> k = S k' -> inevitably P k' s') ->
    inevitably P k s.

(* generic: a property closed under steps and spurious wake-ups whose non-goal states can always move *)
Lemma inevitably_intro : forall (R P : state -> Prop),
  (forall s t s', R s -> step N na lt fixed s t = Some s' -> R s') ->
  (forall s t s', R s -> spurious N s t = Some s' -> R s') ->
  (forall s, R s -> P s \/ exists t s', step N na lt fixed s t = Some s') ->
  forall k s, R s -> inevitably P k s.
Proof.
  intros R P Hstep Hspur Hprog.
  assert (H : forall m k s, Phi s + 3 * k < m -> R s -> inevitably P k s).
  { induction m as [|m IH]; intros k s Hm HR; [lia|].
    destruct (Hprog s HR) as [HP|Hen]; [apply inev_now; exact HP|].
    apply inev_later; [exact Hen| |].
    - intros t s' Hs. apply IH; [apply step_decreases in Hs; lia | exact (Hstep s t s' HR Hs)].
    - intros t s' k' Hs ->. apply IH; [apply spurious_raises in Hs; lia | exact (Hspur s t s' HR Hs)]. }
  intros k s HR. exact (H (S (Phi s + 3 * k)) k s (Nat.lt_succ_diag_r _) HR).
Qed.

End Measure.

(* ---- with the invariant of C12_Proofs (fixed = true, N >= 1, na >= 2) ---- *)
Section Live.
Variables N na : nat.
Variable lt : nat -> nat -> bool.
Hypothesis HN : 1 <= N.
Hypothesis Hna : 2 <= na.

Definition goal (s : state) : Prop := finished s /\ result s = walk_spec na lt.

Lemma eventually_finished : forall k s, reachable N na lt true s -> inevitably N na lt true goal k s.
Proof.
  apply (inevitably_intro N na lt true (reachable N na lt true) goal).
  - intros s t s' HR Hs. exact (reach_step _ _ _ _ s t s' HR Hs).
  - intros s t s' HR Hs. exact (reach_spur _ _ _ _ s t s' HR Hs).
  - intros s HR. destruct (no_deadlock_inv N na lt HN s (inv_reachable N na lt HN s HR)) as [Hf|Hen]; [left|right; exact Hen].
    split; [exact Hf | exact (deterministic_spec N na lt HN Hna s HR Hf)].
Qed.

Lemma exec_reachable : forall evs s s', reachable N na lt true s -> exec N na lt true s evs = Some s' -> reachable N na lt true s'.
Proof.
  induction evs as [|e r IH]; intros s s' HR He; simpl in He; [inversion He; subst; exact HR|].
  destruct (fire N na lt true s e) as [s1|] eqn:Hf; [|discriminate].
  apply (IH s1 s'); [|exact He]. destruct e as [t|t]; simpl in Hf; [eapply reach_step | eapply reach_spur]; eauto.
Qed.

(* a complete (maximal) execution: it stops in a state where no thread has a step.  It is finished with the
   sequential result, and its number of thread steps is bounded by B0 plus twice its number of spurious wake-ups *)
Lemma maximal_execution : forall evs s',
  exec N na lt true init evs = Some s' -> (forall t, step N na lt true s' t = None) ->
  finished s' /\ result s' = walk_spec na lt /\ nsteps evs <= B0 N na + 2 * nspur evs.
Proof.
  intros evs s' He Hstuck.
  assert (HR : reachable N na lt true s') by (eapply exec_reachable; [apply reach_init | exact He]).
  assert (Hf : finished s').
  { destruct (no_deadlock_inv N na lt HN s' (inv_reachable N na lt HN s' HR)) as [Hf|[t [s'' Hs]]]; [exact Hf|].
    rewrite Hstuck in Hs. discriminate. }
  split; [exact Hf|]. split; [exact (deterministic_spec N na lt HN Hna s' HR Hf)|].
  exact (exec_bound_init N na lt true evs s' He).
Qed.
End Live.

(* ---- the bound on a concrete instance: N = 2 workers, na = 3 trial steps (2 blocks) ---- *)
Lemma ex_bound : B0 2 3 = 71 /\ Bmax 2 3 = 155 /\ length ex_schedule <= B0 2 3 /\
  exists s, run 2 3 lt_ex true init ex_schedule = Some s /\ finished s /\ Phi 2 3 s = 0.
Proof.
  split; [vm_compute; reflexivity|]. split; [vm_compute; reflexivity|]. split; [vm_compute; lia|].
  assert (H1 : option_map (fun s => (cp s, Phi 2 3 s)) (run 2 3 lt_ex true init ex_schedule) = Some (CDone, 0)) by (vm_compute; reflexivity).
  destruct (run 2 3 lt_ex true init ex_schedule) as [s|]; [|discriminate H1].
  exists s. simpl in H1. inversion H1 as [[Hc Hp]].
  split; [reflexivity | split; [unfold finished; congruence | congruence]].
Qed.
