(* Properties_C02.v — C02: derivative and gradient evaluations are the true partial derivatives.
   Statements only; proofs in C02_Basis.v (bspline_deriv_nonzero = de Boor's derivative formula, one dimension,
   margins included), C02_Proofs.v (assembly) and C03_Proofs.v (gradient lanes).

   "Partial derivative" enters through de Boor's derivative formula applied to the Cox–de Boor functions,
       B'_{i,n} = n ( B_{i,n-1}/(t_{i+n}-t_i) - B_{i+1,n-1}/(t_{i+n+1}-t_{i+1}) )            (BSpline.dBfun),
   with the same one-sided convention as plain evaluation; the evaluation theorems below hold over every ordered field.
   That the formula IS the derivative is proved too, for strictly increasing knots: algebraically over every ordered
   field (C02_piece_derivative_formula: differentiating the polynomial piece by the sum and product rules yields the
   formula, for every x) and analytically over the real numbers (C02_formula_is_the_derivative: Coquelicot's is_derive at
   every point strictly inside a knot interval; this one theorem depends on the standard library's real-number axioms).

   Not covered by a theorem (stated, tested, and partly a known finding): ndsplineeval_deriv with a derivative order >= 2,
   which uses the recursive right-continuous bspline_deriv and therefore the RIGHT piece exactly on knots at or above the
   upper end of full support (finding D3, C02:deriv>=2@x>=upper_full_support_knot). *)
From Coq Require Import ZArith List Bool Lia QArith Qcanon.
From Coq Require Import Reals.
From Coquelicot Require Coquelicot.
From PS Require Import Arith EvalModel BSpline C04_Proofs OFieldKit C01_Basis C01_Core C01_Proofs C02_Basis C02_Proofs C03_Proofs C02_Analytic C02_AnalyticRep C02_Real.
Import ListNotations.
Local Open Scope Z_scope.

Section C02.
Context {A : Arith}.
Variable F : OField A.
Variable t : @table A.
Variable xs : list (T A).
Variable cs : list Z.

Hypothesis Hne  : dims t <> [].
Hypothesis Hwf  : Forall (wf_dim (fun _ => True)) (dims t).
Hypothesis Hrow : nth (ndim_of t - 1) (strides_of t) 0 = 1.
Hypothesis Hlen : length xs = length (dims t).
Hypothesis Hsc  : searchcenters t xs = CFound cs.
Hypothesis Hreg : Forall2 eval_regular (dims t) xs.

(* Every subset of dimensions flagged in the bitmask is differentiated once: the result is the tensor-product sum with the
   derivative formula along the flagged dimensions (bits_of: bit d set <-> derivative order 1 along dimension d). *)
Theorem C02_bitmask_is_derivative_sum : forall mask,
  ndsplineeval t xs cs mask = spline_spec t xs (bits_of (ndim_of t) mask).
Proof. intro mask. exact (eval_mask_is_tensor_sum F t xs cs mask Hne Hwf Hrow Hlen Hsc Hreg). Qed.

(* the gradient evaluation: component 0 is the plain value, component j+1 the derivative along dimension j *)
Theorem C02_gradient_components :
  ndsplineeval_gradient t xs cs =
  spline_spec t xs (bits_of (ndim_of t) 0) ::
  map (fun j => spline_spec t xs (bits_of (ndim_of t) (2 ^ Z.of_nat j))) (seq 0 (ndim_of t)).
Proof.
  rewrite (gradient_lanes (fun _ => True) (OField_OrdLaws A F) t xs cs Hwf (proj2 (Forall_forall _ _) (fun _ _ => I)) Hlen Hsc).
  rewrite C02_bitmask_is_derivative_sum. f_equal.
  apply map_ext. intro j. apply C02_bitmask_is_derivative_sum.
Qed.

(* a derivative along a dimension of order 0 is identically zero *)
Theorem C02_order0_derivative_zero : forall mask j, (j < ndim_of t)%nat ->
  nth j (bits_of (ndim_of t) mask) O = 1%nat ->
  d_order (nth j (dims t) (mkDim O 0 0 0 (fun _ => zero))) = O ->
  ndsplineeval t xs cs mask = zero.
Proof.
  intros mask j Hj Hbit Ho. rewrite C02_bitmask_is_derivative_sum. unfold spline_spec.
  apply (tensor_sum_order0 F). exists j. repeat split; try assumption.
  clear. unfold ndim_of. generalize mask. induction (dims t) as [|d ds IH]; intro m; cbn [length bits_of]; [reflexivity|].
  rewrite IH. reflexivity.
Qed.

(* Arbitrary derivative orders (ndsplineeval_deriv): order 0 and 1 along a dimension as above; an order >= 2 along a dimension
   is covered wherever that dimension's knots are strictly increasing (derivk_ok; the recursive definition divides by knot
   differences) — at EVERY point where lookup succeeds, with the same one-sided convention as plain evaluation (right-continuous
   below knots[naxes], left-continuous from there upwards: bspline_deriv / bspline_deriv_left; the left-continuous twin is the
   repair of finding D3). Orders above the spline order give zero (dBfun). *)
Theorem C02_deriv_is_derivative_sum : forall ks, length ks = length (dims t) ->
  Forall3 derivk_ok (dims t) xs ks ->
  ndsplineeval_deriv t xs cs ks = spline_spec t xs ks.
Proof. intros ks Hk Hok. exact (eval_deriv_is_tensor_sum F t xs cs ks Hne Hwf Hrow Hlen Hk Hsc Hreg Hok). Qed.
End C02.

(* a derivative order above the spline order vanishes identically in the formula *)
Theorem C02_high_order_zero : forall (A : Arith) (F : OField A) (kn : Z -> T A) side n k i x, (n < k)%nat -> dBfun kn side k n i x = zero.
Proof. intros A F kn side n k i x H. exact (dB_high_order_zero F kn side n k i x H). Qed.

(* The derivative formula is the derivative of the polynomial piece. [Bp l n i] is the Cox–de Boor recurrence with the order-0
   indicator replaced by "i = l" (a polynomial function of x, equal to B_{i,n} on knot interval l: Bfun_is_piece), [Dp l n i] is
   what the sum and product rules of differentiation give for that expression. For strictly increasing knots, for EVERY x: *)
Theorem C02_piece_derivative_formula : forall (A : Arith) (F : OField A),
  @ofZ A 0 = zero -> (forall z, 0 <= z -> @ofZ A (z + 1) = add (ofZ z) one) ->      (* int -> field conversion is the ring homomorphism *)
  forall (kn : Z -> T A) (nknots : Z), (forall i j, 0 <= i -> i < j -> j < nknots -> OFieldKit.lt (kn i) (kn j)) ->
  forall l n i x, 0 <= i -> i + Z.of_nat (S n) + 1 < nknots ->
  Dp kn l (S n) i x =
  mul (ofZ (Z.of_nat (S n)))
      (sub (div (Bp kn l n i x) (sub (kn (i + Z.of_nat (S n))) (kn i)))
           (div (Bp kn l n (i + 1) x) (sub (kn (i + Z.of_nat (S n) + 1)) (kn (i + 1))))).
Proof. intros A F H0 H1 kn nknots Hs l n i x Hi0 Hi1. exact (Dp_formula F H0 H1 kn nknots Hs l n i x Hi0 Hi1). Qed.

(* Over the real numbers: at every point strictly inside a knot interval the Cox–de Boor function is differentiable and its
   derivative is the value of the derivative formula. *)
Theorem C02_formula_is_the_derivative : forall (kn : Z -> R) (nknots : Z),
  (forall i j, 0 <= i -> i < j -> j < nknots -> (kn i < kn j)%R) ->
  forall l, 0 <= l -> l + 1 < nknots ->
  forall n i (x0 : R), 0 <= i -> i + Z.of_nat n + 1 < nknots -> (kn l < x0 < kn (l + 1)%Z)%R ->
  @Coquelicot.Derive.is_derive Coquelicot.Hierarchy.R_AbsRing Coquelicot.Hierarchy.R_NormedModule (fun x : R => @Bfun RA kn true n i x) x0 (@dBfun RA kn true 1 n i x0).
Proof. intros kn nknots Hs l Hl0 Hl1 n i x0 Hi0 Hi1 Hx. exact (dB_is_the_derivative kn nknots Hs l Hl0 Hl1 n i x0 Hi0 Hi1 Hx). Qed.

Definition qz_rep (i : Z) : Qc := Q2Qc (inject_Z (if i <? 1 then 0 else if i <? 3 then 1 else if i <? 4 then 2 else if i <? 7 then 3 else 4)).

(* The same two statements for NON-DECREASING knots — repeated knots allowed, which is the whole knot space of the first
   derivatives in C02 — with the dropped-term convention (BSpline.wdiv) of the specification. [Bq l n i] / [Dq l n i] are the
   piece and its derivative by the rules of differentiation, on an interval l of positive width. Whenever a knot difference
   vanishes, the basis function it divides vanishes identically on the interval (step_identity, flat_zero). *)
Theorem C02_piece_derivative_formula_repeated : forall (A : Arith) (F : OField A),
  @ofZ A 0 = zero -> (forall z, 0 <= z -> @ofZ A (z + 1) = add (ofZ z) one) ->
  forall (kn : Z -> T A) (nknots : Z), (forall i j, 0 <= i -> i <= j -> j < nknots -> OFieldKit.le (kn i) (kn j)) ->
  forall l, 0 <= l -> l + 1 < nknots -> OFieldKit.lt (kn l) (kn (l + 1)) ->
  forall n i x, 0 <= i -> i + Z.of_nat (S n) + 1 < nknots ->
  Dq kn l (S n) i x =
  mul (ofZ (Z.of_nat (S n)))
      (sub (wdiv (Bq kn l n i x) (sub (kn (i + Z.of_nat (S n))) (kn i)))
           (wdiv (Bq kn l n (i + 1) x) (sub (kn (i + Z.of_nat (S n) + 1)) (kn (i + 1))))).
Proof. intros A F H0 H1 kn nknots Hm l Hl0 Hl1 Hp n i x Hi0 Hi1. exact (Dq_formula F H0 H1 kn nknots Hm l Hl0 Hl1 Hp n i x Hi0 Hi1). Qed.

Theorem C02_formula_is_the_derivative_repeated : forall (kn : Z -> R) (nknots : Z),
  (forall i j, 0 <= i -> i <= j -> j < nknots -> (kn i <= kn j)%R) ->
  forall l, 0 <= l -> l + 1 < nknots ->
  forall n i (x0 : R), 0 <= i -> i + Z.of_nat n + 1 < nknots -> (kn l < x0 < kn (l + 1)%Z)%R ->
  @Coquelicot.Derive.is_derive Coquelicot.Hierarchy.R_AbsRing Coquelicot.Hierarchy.R_NormedModule (fun x : R => @Bfun RA kn true n i x) x0 (@dBfun RA kn true 1 n i x0).
Proof. intros kn nknots Hm l Hl0 Hl1 n i x0 Hi0 Hi1 Hx. exact (dB_is_the_derivative_rep kn nknots Hm l Hl0 Hl1 n i x0 Hi0 Hi1 Hx). Qed.

(* and for every derivative order: the (k+1)-st formula is the analytic derivative of the k-th, so [dBfun k] is the k-th
   derivative of the Cox–de Boor function at every point strictly inside a knot interval (non-decreasing knots) *)
Theorem C02_formula_k_is_the_kth_derivative : forall (kn : Z -> R) (nknots : Z),
  (forall i j, 0 <= i -> i <= j -> j < nknots -> (kn i <= kn j)%R) ->
  forall l, 0 <= l -> l + 1 < nknots ->
  forall k n i (x0 : R), 0 <= i -> i + Z.of_nat n + 1 < nknots -> (kn l < x0 < kn (l + 1)%Z)%R ->
  @Coquelicot.Derive.is_derive Coquelicot.Hierarchy.R_AbsRing Coquelicot.Hierarchy.R_NormedModule
     (fun x : R => @dBfun RA kn true k n i x) x0 (@dBfun RA kn true (S k) n i x0).
Proof. intros kn nknots Hm l Hl0 Hl1 k n i x0 Hi0 Hi1 Hx. exact (dBk_is_the_derivative kn nknots Hm l Hl0 Hl1 k n i x0 Hi0 Hi1 Hx). Qed.

(* non-vacuity: order 2 on the knots 0 1 1 2 3 3 3 4 (a double and a triple knot): the derivative formula at 3/2 in interval 2 *)
Example C02_repeated_example :
  let kn := fun i : Z => qz_rep i in
  OFieldKit.lt (A := QcA) (kn 2) (kn 3) /\
  Dq (A := QcA) kn 2 2 1 (Q2Qc (3 # 2)) = dBfun (A := QcA) kn true 1 2 1 (Q2Qc (3 # 2)) /\
  Dq (A := QcA) kn 2 2 1 (Q2Qc (3 # 2)) <> Q2Qc 0.
Proof. cbv zeta. split; [vm_compute; reflexivity|]. split; [apply Qc_is_canon; vm_compute; reflexivity|]. vm_compute. discriminate. Qed.

(* which derivative orders a bitmask denotes *)
Theorem C02_bits_of_spec : forall n mask d, 0 <= mask -> (d < n)%nat ->
  nth d (bits_of n mask) O = if Z.testbit mask (Z.of_nat d) then 1%nat else O.
Proof.
  induction n as [|n IH]; intros mask d Hm Hd; [lia|].
  cbn [bits_of]. destruct d as [|d].
  - cbn [nth Z.of_nat]. rewrite Z.bit0_odd. reflexivity.
  - cbn [nth]. rewrite IH by (try apply Z.div_pos; lia).
    rewrite Z.div2_bits by lia. replace (Z.succ (Z.of_nat d)) with (Z.of_nat (S d)) by lia. reflexivity.
Qed.

(* One dimension: bspline_deriv_nonzero returns de Boor's derivative formula for the n+1 functions of the center interval *)
Theorem C02_local_derivative_basis : forall (A : Arith) (F : OField A) (kn : Z -> T A) (nknots : Z),
  (forall i j, 0 <= i -> i <= j -> j < nknots -> OFieldKit.le (kn i) (kn j)) ->
  forall (n : nat) (x : T A) (side : bool) (c : Z),
  2 * Z.of_nat n + 2 <= nknots ->
  walk_post kn nknots n x side c (adjust_left kn nknots (Z.of_nat n) x c) ->
  bspline_deriv_nonzero kn nknots n x c = map (fun i => dBfun kn side 1 n (c - Z.of_nat n + Z.of_nat i) x) (seq 0 (S n)).
Proof. intros A F kn nknots Hm n x side c Hn W. exact (deriv_nonzero_dB F kn nknots Hm n x side c Hn W). Qed.

(* non-vacuity on exact rationals: order 2, knots 0..7, coefficients 1,2,5,10,17; derivative at 7/2 and in the left margin *)
Definition qz2 (z : Z) : Qc := Q2Qc (inject_Z z).
Definition ex_tab2 : @table QcA := @mkTable QcA [@mkDim QcA 2%nat 8 5 1 (fun i => qz2 i)] (fun i => qz2 (i * i + 1)).
Example C02_hypotheses_satisfiable :
  forall x, In x [Q2Qc (7 # 2); Q2Qc (1 # 2)] ->
  exists cs, searchcenters ex_tab2 [x] = CFound cs /\
             ndsplineeval ex_tab2 [x] cs 1 = spline_spec ex_tab2 [x] [1%nat] /\
             ndsplineeval ex_tab2 [x] cs 1 <> Q2Qc 0.
Proof.
  intros x Hx. cbn [In] in Hx.
  destruct Hx as [<-|[<-|[]]]; eexists; (split; [vm_compute; reflexivity|]); split; try (vm_compute; reflexivity); vm_compute; discriminate.
Qed.

(* second derivative of the order-2 example at 7/2 (interior) and at the knots 5 = knots[naxes], 6 and 7 (last knot), where the
   left-continuous twin is used: strictly increasing knots — hypotheses of
   C02_deriv_is_derivative_sum hold and the value is the non-zero constant second derivative of that piece *)
Example C02_deriv2_satisfiable :
  Forall3 derivk_ok (dims ex_tab2) [Q2Qc (7 # 2)] [2%nat] /\
  ndsplineeval_deriv ex_tab2 [Q2Qc (7 # 2)] [3] [2%nat] = spline_spec ex_tab2 [Q2Qc (7 # 2)] [2%nat] /\
  ndsplineeval_deriv ex_tab2 [Q2Qc (7 # 2)] [3] [2%nat] = Q2Qc 2 /\
  (forall x, In x [qz2 5; qz2 6; qz2 7] ->
     ndsplineeval_deriv ex_tab2 [x] [4] [2%nat] = spline_spec ex_tab2 [x] [2%nat] /\ ndsplineeval_deriv ex_tab2 [x] [4] [2%nat] <> Q2Qc 0).
Proof.
  split; [|split; [vm_compute; reflexivity|split; [vm_compute; reflexivity|]]].
  - constructor; [|constructor]. right.
    intros i j Hi Hij Hj. cbn [d_kn d_nknots] in *. unfold qz2. apply Qc_ltb_lt. unfold Qclt. cbn [this Q2Qc].
    rewrite !Qred_correct. rewrite <- Zlt_Qlt. lia.
  - intros x Hx. cbn [In] in Hx. destruct Hx as [<-|[<-|[<-|[]]]]; (split; [vm_compute; reflexivity|vm_compute; discriminate]).
Qed.

Print Assumptions C02_bitmask_is_derivative_sum.
Print Assumptions C02_gradient_components.
Print Assumptions C02_order0_derivative_zero.
Print Assumptions C02_deriv_is_derivative_sum.
Print Assumptions C02_high_order_zero.
Print Assumptions C02_piece_derivative_formula.
Print Assumptions C02_formula_is_the_derivative.
Print Assumptions C02_piece_derivative_formula_repeated.
Print Assumptions C02_formula_is_the_derivative_repeated.
Print Assumptions C02_formula_k_is_the_kth_derivative.
Print Assumptions C02_repeated_example.
Print Assumptions C02_bits_of_spec.
Print Assumptions C02_local_derivative_basis.
Print Assumptions C02_hypotheses_satisfiable.
Print Assumptions C02_deriv2_satisfiable.
