(* Properties_C02.v — statements for C02; being filled in *)
From Coq Require Import ZArith List.
From PS Require Import Arith EvalModel BSpline.
