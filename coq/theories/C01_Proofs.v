(* C01_Proofs.v — assembly: ndsplineeval (no derivatives) equals the tensor-product Cox–de Boor sum over ALL
   stored coefficients (BSpline.spline_spec), over any ordered field, for every well-formed table. *)
From Coq Require Import ZArith List Bool Lia Field Ring.
From PS Require Import Arith EvalModel BSpline C04_Proofs OFieldKit C01_Basis C01_Core.
Import ListNotations.
Local Open Scope Z_scope.

Section Assembly.
Context {A : Arith}.
Variable F : OField A.
Notation K := (T A).
Add Field Kfield3 : (OFth F).
Notation le := (@OFieldKit.le A).
Notation lt := (@OFieldKit.lt A).
Let anyord : K -> Prop := fun _ => True.
Let laws : OrdLaws A anyord := OField_OrdLaws A F.

(* ---------------------------------------------------------------------------------------------- *)
(* core_generic = nested block sum *)
Lemma last_nth_pred (l : list nat) d : l <> [] -> last l d = nth (length l - 1) l d.
Proof.
  induction l as [|a l IH]; intros H; [congruence|].
  destruct l as [|b l]; [reflexivity|].
  replace (length (a :: b :: l) - 1)%nat with (S (length (b :: l) - 1))%nat by (cbn [length]; lia).
  change (nth (S (length (b :: l) - 1)) (a :: b :: l) d) with (nth (length (b :: l) - 1) (b :: l) d).
  rewrite <- IH by discriminate. reflexivity.
Qed.

Lemma firstn_pred_snoc {X} (d : X) (l : list X) : l <> [] -> l = firstn (length l - 1) l ++ [nth (length l - 1) l d].
Proof.
  intro H. assert (Hl : (1 <= length l)%nat) by (destruct l; [congruence|cbn [length]; lia]).
  rewrite <- (firstn_S_snoc d (length l - 1) l) by lia.
  replace (S (length l - 1)) with (length l) by lia. rewrite firstn_all. reflexivity.
Qed.

Lemma nth_firstn_lt {X} (d : X) : forall k i (l : list X), (i < k)%nat -> nth i (firstn k l) d = nth i l d.
Proof.
  induction k as [|k IH]; intros i l H; [lia|]. destruct l as [|a l]; [destruct i; reflexivity|].
  destruct i as [|i]; [reflexivity|]. cbn [firstn nth]. apply IH. lia.
Qed.

Lemma init_pos_firstn : forall (os : list nat) (ss cs : list Z), init_pos os ss (firstn (length os) cs) = init_pos os ss cs.
Proof.
  induction os as [|o os IH]; intros ss cs; [destruct cs; reflexivity|].
  destruct ss as [|s ss]; [reflexivity|]. destruct cs as [|c cs]; [reflexivity|].
  cbn [length firstn init_pos]. rewrite IH. reflexivity.
Qed.

Lemma core_generic_block (t : @table A) (cs : list Z) (lbs : list (list K)) :
  dims t <> [] ->
  length lbs = ndim_of t ->
  (forall i, (i < ndim_of t)%nat -> length (nth i lbs []) = S (nth i (orders_of t) O)) ->
  nth (ndim_of t - 1) (strides_of t) 0 = 1 ->
  core_generic t cs lbs =
  block_sum (coef t) lbs (strides_of t) (init_pos (orders_of t) (strides_of t) cs) one.
Proof.
  intros Hne Hlen Hlb Hs1.
  unfold core_generic, core_run. cbv zeta.
  set (D := ndim_of t). set (os := orders_of t). set (ss := strides_of t).
  assert (HD : (1 <= D)%nat) by (subst D; unfold ndim_of; destruct (dims t); [congruence|cbn [length]; lia]).
  assert (Hos : length os = D) by (subst os D; unfold orders_of, ndim_of; apply map_length).
  assert (Hss : length ss = D) by (subst ss D; unfold strides_of, ndim_of; apply map_length).
  rewrite (firstn_all2 (n := D) os) by lia. rewrite (firstn_all2 (n := D) ss) by lia.
  set (lbs' := firstn (D - 1) lbs). set (lb_last := nth (D - 1) lbs []).
  assert (Hl' : length lbs' = (D - 1)%nat) by (subst lbs'; rewrite firstn_length; lia).
  assert (Hm : (D - 1)%nat = length lbs') by lia.
  assert (Hlast : firstn (S (last os O)) lb_last = lb_last).
  { subst lb_last. apply firstn_all2. rewrite (Hlb (D - 1)%nat) by (try fold D; lia).
    rewrite last_nth_pred by (intro E; rewrite E in Hos; cbn [length] in Hos; lia). rewrite Hos. fold os. lia. }
  rewrite Hlast. replace (firstn D cs) with (firstn (length os) cs) by (rewrite Hos; reflexivity). rewrite init_pos_firstn.
  assert (Hlb' : forall i, (i < length lbs')%nat -> length (nth i lbs' []) = S (nth i (firstn (length lbs') os) O)).
  { intros i Hi. subst lbs'. rewrite !nth_firstn_lt by lia. apply Hlb. try fold D. lia. }
  assert (E : lbs' ++ [lb_last] = lbs).
  { subst lbs' lb_last. assert (HlenD : length lbs = D) by exact Hlen. rewrite <- HlenD. symmetry. apply firstn_pred_snoc.
    intro E. rewrite E in HlenD. cbn [length] in HlenD. lia. }
  rewrite Hm. clearbody lbs' lb_last.
  assert (Hos' : length (firstn (length lbs') os) = length lbs') by (rewrite firstn_length; lia).
  assert (Hss' : length ss = S (length lbs')) by lia.
  assert (Hs1' : nth (length lbs') ss 0 = 1) by (rewrite <- Hm; exact Hs1).
  rewrite core_loop_loopG.
  rewrite <- (prodS_rev_trip lbs' ss (firstn (length lbs') os) Hos' Hss').
  rewrite loopG_nest by (apply trip_zero).
  pose proof (nest_shaped F (coef t) lbs' lb_last ss (firstn (length lbs') os) Hos' Hss' Hlb' (length lbs') (Nat.le_refl _) _
                          (shaped_base F (coef t) lbs' lb_last ss (firstn (length lbs') os) Hos' Hss' Hs1')) as N.
  rewrite firstn_all2 in N by (rewrite !combine_length, firstn_length, repeat_length; lia).
  rewrite N.
  rewrite E. ring.
Qed.


(* ---------------------------------------------------------------------------------------------- *)
(* the sum over ALL coefficients collapses to the block: local support *)
Lemma sum_range_zero (f : Z -> K) : forall n a, (forall i, a <= i < a + Z.of_nat n -> f i = zero) -> sum_range f a n = zero.
Proof.
  induction n as [|n IH]; intros a H; cbn [sum_range]; [reflexivity|].
  rewrite H by lia. rewrite IH by (intros i Hi; apply H; lia). ring.
Qed.
Lemma sum_range_app (f : Z -> K) : forall n1 n2 a,
  sum_range f a (n1 + n2) = add (sum_range f a n1) (sum_range f (a + Z.of_nat n1) n2).
Proof.
  induction n1 as [|n1 IH]; intros n2 a.
  - cbn [Nat.add sum_range]. replace (a + Z.of_nat 0) with a by lia. ring.
  - cbn [Nat.add sum_range]. rewrite IH. replace (a + 1 + Z.of_nat n1) with (a + Z.of_nat (S n1)) by lia. ring.
Qed.
Lemma sum_range_window (f : Z -> K) (a : Z) (len N : nat) : 0 <= a -> a + Z.of_nat len <= Z.of_nat N ->
  (forall i, 0 <= i < Z.of_nat N -> (i < a \/ a + Z.of_nat len <= i) -> f i = zero) ->
  sum_range f 0 N = sum_range f a len.
Proof.
  intros Ha Hlen Hz.
  replace N with (Z.to_nat a + (len + (N - Z.to_nat a - len)))%nat by lia.
  rewrite sum_range_app, sum_range_app.
  rewrite sum_range_zero by (intros i Hi; apply Hz; lia).
  replace (0 + Z.of_nat (Z.to_nat a)) with a by lia.
  rewrite (sum_range_zero f (N - Z.to_nat a - len)) by (intros i Hi; apply Hz; lia).
  ring.
Qed.
Lemma sum_range_lsum (f : Z -> K) (g : K -> Z -> K) (h : nat -> K) (s : Z) : forall m (z : Z) (k : nat) (P : Z),
  (forall i, (i < m)%nat -> f (z + Z.of_nat i) = g (h (k + i)%nat) (P + Z.of_nat i * s)) ->
  sum_range f z m = lsum g (map h (seq k m)) P s.
Proof.
  induction m as [|m IH]; intros z k P H; cbn [sum_range seq map lsum]; [reflexivity|].
  f_equal.
  - specialize (H 0%nat ltac:(lia)). rewrite Nat.add_0_r in H.
    replace (P + Z.of_nat 0 * s) with P in H by lia. replace (z + Z.of_nat 0) with z in H by lia. exact H.
  - apply IH. intros i Hi. specialize (H (S i) ltac:(lia)).
    replace (z + 1 + Z.of_nat i) with (z + Z.of_nat (S i)) by lia.
    replace (S k + i)%nat with (k + S i)%nat by lia.
    replace (P + s + Z.of_nat i * s) with (P + Z.of_nat (S i) * s) by lia. exact H.
Qed.

Lemma tensor_zero (cf : Z -> K) : forall ds xs ks pos, tensor_sum cf ds xs ks pos zero = zero.
Proof.
  induction ds as [|d ds IH]; intros xs ks pos.
  - cbn [tensor_sum]. ring.
  - destruct xs as [|x xs]; [cbn [tensor_sum]; ring|]. destruct ks as [|k ks]; [cbn [tensor_sum]; ring|].
    cbn [tensor_sum]. apply sum_range_zero. intros i Hi. cbv zeta.
    destruct (eqbK _ zero); [reflexivity|]. rewrite (mul_zero_l F). apply IH.
Qed.

(* what each dimension must supply: the local basis is the window [c-n, c] of a function b that vanishes on
   the rest of [0, naxes) *)
Definition dim_rel (d : @dimn A) (x : K) (k : nat) (c : Z) (lb : list K) : Prop :=
  let n := Z.of_nat (d_order d) in
  let b := fun i => dBfun (d_kn d) (side_of d x) k (d_order d) i x in
  n <= c <= d_naxes d - 1 /\
  lb = map (fun i => b (c - n + Z.of_nat i)) (seq 0 (S (d_order d))) /\
  (forall i, 0 <= i < d_naxes d -> (i < c - n \/ c < i) -> b i = zero).

Inductive all_rel : list (@dimn A) -> list K -> list nat -> list Z -> list (list K) -> Prop :=
| AR_nil : all_rel [] [] [] [] []
| AR_cons d x k c lb ds xs ks cs lbs : dim_rel d x k c lb -> all_rel ds xs ks cs lbs ->
    all_rel (d :: ds) (x :: xs) (k :: ks) (c :: cs) (lb :: lbs).

Lemma tensor_block (cf : Z -> K) ds xs ks cs lbs : all_rel ds xs ks cs lbs -> forall pos pr,
  tensor_sum cf ds xs ks pos pr =
  block_sum cf lbs (map d_stride ds) (pos + init_pos (map d_order ds) (map d_stride ds) cs) pr.
Proof.
  induction 1 as [|d x k c lb ds xs ks cs lbs [Hc [Hlb Hsupp]] Hrest IH]; intros pos pr.
  - cbn [tensor_sum block_sum map init_pos]. f_equal. f_equal. lia.
  - cbn [tensor_sum map init_pos block_sum]. cbv zeta in *.
    set (n := Z.of_nat (d_order d)) in *. set (s := d_stride d).
    pose (b := fun i => dBfun (d_kn d) (side_of d x) k (d_order d) i x).
    pose (f := fun i : Z => if eqbK (b i) zero then zero else tensor_sum cf ds xs ks (pos + i * s) (mul pr (b i))).
    change (sum_range f 0 (Z.to_nat (d_naxes d)) = lsum (fun l p => block_sum cf lbs (map d_stride ds) p (mul pr l)) lb
              (pos + ((c - n) * s + init_pos (map d_order ds) (map d_stride ds) cs)) s).
    assert (Hf : forall i, f i = tensor_sum cf ds xs ks (pos + i * s) (mul pr (b i))).
    { intro i. unfold f. destruct (eqbK (b i) zero) eqn:E; [|reflexivity].
      apply (eqbK_true F) in E. rewrite E, (mul_zero_r F), tensor_zero. reflexivity. }
    rewrite (sum_range_window f (c - n) (S (d_order d)) (Z.to_nat (d_naxes d))); [| lia | lia |].
    + rewrite Hlb. apply sum_range_lsum. intros i Hi. rewrite Hf, IH. cbn [Nat.add]. f_equal. lia.
    + intros i Hi Hout. rewrite Hf. unfold b. rewrite Hsupp by lia. rewrite (mul_zero_r F). apply tensor_zero.
Qed.


(* ---------------------------------------------------------------------------------------------- *)
(* one dimension of a looked-up point *)

(* The interval finally used by the recurrence has positive width. The lookup guarantees this everywhere (at
   x = knots[naxes] on a repeated knot it steps down to the nearest span of positive width — fix of D17) unless the
   fully supported range itself is degenerate: knots[order] = ... = knots[naxes] = x. [eval_regular] excludes exactly
   that; it follows from knots[order] < knots[naxes] ([full_support_nonempty], a condition on the table alone). *)
Definition eval_regular (d : @dimn A) (x : K) : Prop :=
  le (d_kn d (d_naxes d)) x -> lt (d_kn d (Z.of_nat (d_order d))) x.
Definition full_support_nonempty (d : @dimn A) : Prop :=
  lt (d_kn d (Z.of_nat (d_order d))) (d_kn d (d_naxes d)).
Lemma nonempty_regular (d : @dimn A) (x : K) : full_support_nonempty d -> eval_regular d x.
Proof. intros H Hx. eapply (lt_le_trans F); [exact H|exact Hx]. Qed.

(* what the lookup's postcondition gives the margin walk *)
Lemma lookup_walk_post (d : @dimn A) (x : K) (c : Z) :
  wf_dim anyord d -> in_range d x -> center_post d x c -> eval_regular d x ->
  (forall i j, 0 <= i -> i <= j -> j < d_nknots d -> le (d_kn d i) (d_kn d j)) /\
  2 * Z.of_nat (d_order d) + 2 <= d_nknots d /\ d_naxes d = d_nknots d - Z.of_nat (d_order d) - 1 /\
  Z.of_nat (d_order d) <= c <= d_naxes d - 1 /\
  walk_post (d_kn d) (d_nknots d) (d_order d) x (side_of d x) c
            (adjust_left (d_kn d) (d_nknots d) (Z.of_nat (d_order d)) x c).
Proof.
  intros [W1 [W2 [_ W4]]] [R1 R2] [P1 [P2 [P3 P4]]] Hreg.
  set (kn := d_kn d) in *. set (nk := d_nknots d) in *. set (n := d_order d) in *. set (na := d_naxes d) in *.
  assert (Hmono : forall i j, 0 <= i -> i <= j -> j < nk -> le (kn i) (kn j)) by exact W4.
  split; [exact Hmono|]. split; [exact W1|]. split; [exact W2|]. split; [lia|].
  unfold side_of. fold kn na.
  destruct (ltb x (kn (Z.of_nat n))) eqn:E1.
  - (* left margin *)
    specialize (P3 eq_refl). subst c.
    replace (ltb x (kn na)) with true.
    + apply (adjust_left_margin F kn nk n ltac:(lia) x R1 E1).
    + symmetry. apply (lt_le_trans F _ (kn (Z.of_nat n))); [exact E1|apply Hmono; lia].
  - assert (L1 : le (kn (Z.of_nat n)) x) by (apply (nlt_le F); exact E1).
    destruct (leb (kn na) x) eqn:E2.
    + (* upper end and right margin *)
      destruct (P4 eq_refl) as [Q1 [Q2 Q3]].
      replace (ltb x (kn na)) with false by (symmetry; apply (le_not_lt F); exact E2).
      assert (Hcx : lt (kn c) x).
      { destruct Q3 as [Q3|Q3]; [rewrite Q3; apply Hreg; exact E2|exact Q3]. }
      destruct (Z.eq_dec c (na - 1)) as [Hc1|Hc1].
      * assert (Hc : c = nk - Z.of_nat n - 2) by lia. rewrite Hc.
        apply (adjust_upper F kn nk n ltac:(lia) x).
        -- replace (nk - Z.of_nat n - 2 + 1) with na by lia. exact E2.
        -- exact R2.
        -- rewrite <- Hc. exact Hcx.
      * (* stepped down over zero-width spans: kn c < x = kn (c+1) *)
        apply (adjust_interior_left F kn nk n x c); [lia|]. split; [exact Hcx|].
        exact (proj1 (Q2 (c + 1) ltac:(lia))).
    + (* fully supported interior *)
      assert (L2 : lt x (kn na)) by (apply (nle_lt F); exact E2).
      destruct (P2 L1 L2) as [Q1 Q2]. replace (ltb x (kn na)) with true by (symmetry; exact L2).
      apply (adjust_interior F kn nk n x c); [lia|]. split; assumption.
Qed.

Lemma dim_rel_val (d : @dimn A) (x : K) (c : Z) :
  wf_dim anyord d -> in_range d x -> center_post d x c -> eval_regular d x ->
  dim_rel d x 0 c (localbasis_val d x c).
Proof.
  intros Hw Hr Hp Hreg.
  destruct (lookup_walk_post d x c Hw Hr Hp Hreg) as [Hmono [W1 [W2 [Hc W]]]].
  unfold dim_rel. cbv zeta. split; [exact Hc|]. split.
  - unfold localbasis_val.
    rewrite (bsplvb_simple_B F _ _ Hmono _ x _ c W). reflexivity.
  - intros i Hi Hout. cbn [dBfun].
    destruct W as [Hl0 [Hl1 [Hpc [Hcc Hrel]]]].
    apply (Bfun_support F _ _ Hmono _ _ x Hl0 Hl1 Hpc); lia.
Qed.

Lemma localbases_mask_zero : forall (ds : list (@dimn A)) xs cs,
  length xs = length ds -> length cs = length ds ->
  Forall2 in_range ds xs -> Forall3 center_post ds xs cs -> Forall2 eval_regular ds xs ->
  Forall (wf_dim anyord) ds ->
  all_rel ds xs (repeat O (length ds)) cs (localbases_mask ds xs cs 0).
Proof.
  induction ds as [|d ds IH]; intros xs cs Hx Hc HR HP HE HW.
  - destruct xs; [|discriminate]. destruct cs; [|discriminate]. constructor.
  - destruct xs as [|x xs]; [discriminate|]. destruct cs as [|c cs]; [discriminate|].
    inversion HR; subst. inversion HP; subst. inversion HE; subst. inversion HW; subst.
    cbn [length repeat localbases_mask]. change (Z.odd 0) with false. change (0 / 2) with 0. cbv iota.
    constructor.
    + apply dim_rel_val; assumption.
    + apply IH; try assumption; cbn [length] in *; lia.
Qed.

Lemma all_rel_lengths ds xs ks cs lbs : all_rel ds xs ks cs lbs ->
  length lbs = length ds /\ forall i, (i < length ds)%nat -> length (nth i lbs []) = S (nth i (map d_order ds) O).
Proof.
  induction 1 as [|d x k c lb ds xs ks cs lbs [_ [Hlb _]] _ [IH1 IH2]].
  - split; [reflexivity|]. intros i Hi. cbn [length] in Hi. lia.
  - split; [cbn [length]; lia|]. intros [|i] Hi.
    + cbn [nth map]. rewrite Hlb, map_length, seq_length. reflexivity.
    + cbn [nth map]. apply IH2. cbn [length] in Hi. lia.
Qed.

(* ---------------------------------------------------------------------------------------------- *)
Theorem eval_is_tensor_sum (t : @table A) (xs : list K) (cs : list Z) :
  dims t <> [] ->
  Forall (wf_dim anyord) (dims t) ->
  nth (ndim_of t - 1) (strides_of t) 0 = 1 ->          (* the last dimension is contiguous *)
  length xs = length (dims t) ->
  searchcenters t xs = CFound cs ->
  Forall2 eval_regular (dims t) xs ->
  ndsplineeval t xs cs 0 = spline_spec t xs (repeat O (ndim_of t)).
Proof.
  intros Hne Hwf Hs1 Hlen Hsc Hreg.
  assert (Hall : Forall anyord xs) by (apply Forall_forall; intros; exact I).
  pose proof (sc_post anyord laws t xs Hwf Hall Hlen cs Hsc) as HP.
  assert (HR : Forall2 in_range (dims t) xs).
  { apply (sc_accepts_iff anyord laws t xs Hwf Hall Hlen). exists cs. exact Hsc. }
  assert (Hcs : length cs = length (dims t)).
  { clear - HP. induction HP; cbn [length]; lia. }
  pose proof (localbases_mask_zero (dims t) xs cs Hlen Hcs HR HP Hreg Hwf) as AR.
  destruct (all_rel_lengths _ _ _ _ _ AR) as [L1 L2].
  unfold ndsplineeval, spline_spec.
  rewrite core_generic_block; [| exact Hne | exact L1 | exact L2 | exact Hs1].
  unfold ndim_of. rewrite (tensor_block (coef t) _ _ _ _ _ AR). reflexivity.
Qed.


(* ---------------------------------------------------------------------------------------------- *)
(* all coefficients one => value one in the fully supported region *)
Definition fully_supported (d : @dimn A) (x : K) : Prop :=
  le (d_kn d (Z.of_nat (d_order d))) x /\ le x (d_kn d (d_naxes d)).

Lemma localbasis_sum_one (d : @dimn A) (x : K) (c : Z) :
  wf_dim anyord d -> in_range d x -> center_post d x c -> eval_regular d x -> fully_supported d x ->
  sumK (localbasis_val d x c) = one.
Proof.
  intros Hw Hr Hp Hreg [S1 S2].
  destruct (lookup_walk_post d x c Hw Hr Hp Hreg) as [Hmono [W1 [W2 [Hc W]]]].
  unfold localbasis_val.
  apply (bsplvb_simple_sum_one F _ _ Hmono _ x _ c W).
  destruct Hp as [P1 [P2 [P3 P4]]].
  apply (adjust_left_stays F); [lia| |].
  - destruct (leb (d_kn d (d_naxes d)) x) eqn:E.
    + destruct (P4 eq_refl) as [Q1 _]. eapply (le_trans F); [|exact E]. apply Hmono; lia.
    + apply (nle_lt F) in E. exact (proj1 (P2 S1 E)).
  - destruct (leb (d_kn d (d_naxes d)) x) eqn:E.
    + destruct (P4 eq_refl) as [Q1 [Q2 _]]. destruct (Z.eq_dec c (d_naxes d - 1)) as [->|Hne].
      * replace (d_naxes d - 1 + 1) with (d_naxes d) by lia. exact S2.
      * exact (proj1 (Q2 (c + 1) ltac:(lia))).
    + apply (nle_lt F) in E. apply (lt_le F). exact (proj2 (P2 S1 E)).
Qed.

Theorem eval_all_ones (t : @table A) (xs : list K) (cs : list Z) :
  dims t <> [] ->
  Forall (wf_dim anyord) (dims t) ->
  nth (ndim_of t - 1) (strides_of t) 0 = 1 ->
  length xs = length (dims t) ->
  searchcenters t xs = CFound cs ->
  Forall2 eval_regular (dims t) xs ->
  (forall p, coef t p = one) ->
  Forall2 fully_supported (dims t) xs ->
  ndsplineeval t xs cs 0 = one.
Proof.
  intros Hne Hwf Hs1 Hlen Hsc Hreg Hones Hfs.
  assert (Hall : Forall anyord xs) by (apply Forall_forall; intros; exact I).
  pose proof (sc_post anyord laws t xs Hwf Hall Hlen cs Hsc) as HP.
  assert (HR : Forall2 in_range (dims t) xs).
  { apply (sc_accepts_iff anyord laws t xs Hwf Hall Hlen). exists cs. exact Hsc. }
  assert (Hcs : length cs = length (dims t)).
  { clear - HP. induction HP; cbn [length]; lia. }
  pose proof (localbases_mask_zero (dims t) xs cs Hlen Hcs HR HP Hreg Hwf) as AR.
  destruct (all_rel_lengths _ _ _ _ _ AR) as [L1 L2].
  unfold ndsplineeval.
  rewrite core_generic_block; [| exact Hne | exact L1 | exact L2 | exact Hs1].
  rewrite (block_sum_ones F (coef t) Hones) by (rewrite L1; unfold strides_of; rewrite map_length; reflexivity).
  assert (P : prodsum (localbases_mask (dims t) xs cs 0) = one).
  { clear - F HP HR Hreg Hwf Hfs. revert Hwf HR Hreg Hfs.
    induction HP as [|d x c ds xs' cs' Pd HP IH]; intros Hwf HR Hreg Hfs; [reflexivity|].
    inversion Hwf; subst. inversion HR; subst. inversion Hreg; subst. inversion Hfs; subst.
    cbn [localbases_mask]. change (Z.odd 0) with false. change (0 / 2) with 0. cbv iota. cbn [prodsum].
    rewrite IH by assumption. rewrite (localbasis_sum_one d x c) by assumption. apply (Rmul_1_l (F_R (OFth F))). }
  rewrite P. apply (Rmul_1_l (F_R (OFth F))).
Qed.

(* ---------------------------------------------------------------------------------------------- *)
(* the specification, hence the evaluated value, does not depend on the knot padding outside [0, nknots) nor on
   coefficient storage outside the table *)
Lemma Bfun_ext (kn kn' : Z -> K) side x : forall n i, (forall j, i <= j <= i + Z.of_nat n + 1 -> kn j = kn' j) ->
  Bfun kn side n i x = Bfun kn' side n i x.
Proof.
  induction n as [|n IH]; intros i H.
  - cbn [Bfun]. unfold B0. rewrite (H i), (H (i + 1)) by lia. reflexivity.
  - cbn [Bfun]. rewrite (IH i), (IH (i + 1)) by (intros; apply H; lia).
    rewrite (H i), (H (i + Z.of_nat (S n))), (H (i + Z.of_nat (S n) + 1)), (H (i + 1)) by lia. reflexivity.
Qed.


Lemma sum_range_ext (f g : Z -> K) : forall n a, (forall i, a <= i < a + Z.of_nat n -> f i = g i) -> sum_range f a n = sum_range g a n.
Proof.
  induction n as [|n IH]; intros a H; cbn [sum_range]; [reflexivity|].
  rewrite H by lia. rewrite (IH (a + 1)) by (intros i Hi; apply H; lia). reflexivity.
Qed.

(* two dimensions that differ only in the padding of the knot array *)
Definition same_dim (d d' : @dimn A) : Prop :=
  d_order d = d_order d' /\ d_nknots d = d_nknots d' /\ d_naxes d = d_naxes d' /\ d_stride d = d_stride d' /\
  forall i, 0 <= i < d_nknots d -> d_kn d i = d_kn d' i.

Lemma tensor_sum_padding (cf : Z -> K) : forall ds ds' xs pos pr,
  Forall2 same_dim ds ds' -> Forall (fun d => d_naxes d = d_nknots d - Z.of_nat (d_order d) - 1 /\ 0 <= Z.of_nat (d_order d) + 1 <= d_nknots d) ds ->
  tensor_sum cf ds xs (repeat O (length ds)) pos pr = tensor_sum cf ds' xs (repeat O (length ds')) pos pr.
Proof.
  induction ds as [|d ds IH]; intros ds' xs pos pr H2 Hw; inversion H2 as [|? d' ? ds'' Hd Hds]; subst; [reflexivity|].
  inversion Hw as [|? ? [W1 W2] Hws]; subst.
  destruct xs as [|x xs]; [reflexivity|]. cbn [length repeat tensor_sum].
  destruct Hd as [E1 [E2 [E3 [E4 E5]]]].
  rewrite <- E3. apply sum_range_ext. intros i Hi. cbv zeta. cbn [dBfun].
  assert (Es : side_of d x = side_of d' x) by (unfold side_of; rewrite <- E3, (E5 (d_naxes d)) by lia; reflexivity).
  assert (Eb : Bfun (d_kn d) (side_of d x) (d_order d) i x = Bfun (d_kn d') (side_of d' x) (d_order d') i x).
  { rewrite <- Es, <- E1. apply Bfun_ext. intros j Hj. apply E5. lia. }
  rewrite Eb, <- E4. destruct (eqbK _ zero); [reflexivity|]. apply IH; assumption.
Qed.

End Assembly.
