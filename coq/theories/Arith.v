(* Arith.v — the arithmetic interface every numeric model is polymorphic in (DESIGN §1.1).

   One Gallina term per algorithm; three uses:
     * any [Arith], no laws        : structural theorems (bit-identity of code paths);
     * [OField] laws (Qc instance)  : mathematical theorems, executed exactly;
     * OCaml native floats          : passed as closures by the extracted drivers for the
                                      bitwise correspondence with the C++ (binary64, and binary32 by
                                      re-rounding in [rnd]).
   No proofs about IEEE arithmetic are made or assumed anywhere. *)
From Coq Require Import ZArith QArith Qcanon List Bool Lia Field Ring.
Import ListNotations.

Record Arith := mkArith {
  T    : Type;
  add  : T -> T -> T;
  sub  : T -> T -> T;
  mul  : T -> T -> T;
  div  : T -> T -> T;
  opp  : T -> T;            (* unary minus (IEEE: sign flip, differs from 0 - x on zeros) *)
  zero : T;
  one  : T;
  ofZ  : Z -> T;            (* int -> double conversion *)
  ltb  : T -> T -> bool;    (* a <  b ; false when unordered (NaN) *)
  leb  : T -> T -> bool;    (* a <= b ; false when unordered (NaN) *)
  rnd  : T -> T;            (* store into the working precision Float (identity for double) *)
}.

Arguments add {a}. Arguments sub {a}. Arguments mul {a}. Arguments div {a}. Arguments opp {a}.
Arguments zero {a}. Arguments one {a}. Arguments ofZ {a}. Arguments ltb {a}. Arguments leb {a}.
Arguments rnd {a}.

(* C comparison operators in terms of the two primitives: x > y is y < x, x >= y is y <= x (this is
   also how IEEE defines them, NaN included). *)
Definition gtb {A : Arith} (a b : T A) : bool := ltb b a.
Definition geb {A : Arith} (a b : T A) : bool := leb b a.

(* ---------------------------------------------------------------------------------------------- *)
(* Order laws only (no arithmetic): what C04 needs. A total preorder decided by [leb], with [ltb]
   its strict part. IEEE comparison restricted to non-NaN values (infinities and signed zeros
   included) satisfies these; [ord x] says "x is not NaN". *)
Record OrdLaws (A : Arith) (ord : T A -> Prop) := {
  leb_refl  : forall a, ord a -> leb a a = true;
  leb_trans : forall a b c, ord a -> ord b -> ord c -> leb a b = true -> leb b c = true -> leb a c = true;
  leb_total : forall a b, ord a -> ord b -> leb a b = true \/ leb b a = true;
  ltb_leb   : forall a b, ord a -> ord b -> ltb a b = negb (leb b a);
}.

(* Unordered value (NaN): every comparison involving it is false. *)
Definition unordered {A : Arith} (x : T A) : Prop :=
  forall y, ltb x y = false /\ ltb y x = false /\ leb x y = false /\ leb y x = false.

(* ---------------------------------------------------------------------------------------------- *)
(* Ordered-field laws: Leibniz equality, exact arithmetic, [rnd] the identity. *)
Definition inv {A : Arith} (x : T A) : T A := div one x.

Record OField (A : Arith) := {
  OF_field : field_theory (@zero A) one add mul sub opp div inv (@eq (T A));
  OF_rnd   : forall x : T A, rnd x = x;
  OF_leb_refl  : forall a : T A, leb a a = true;
  OF_leb_trans : forall a b c : T A, leb a b = true -> leb b c = true -> leb a c = true;
  OF_leb_total : forall a b : T A, leb a b = true \/ leb b a = true;
  OF_leb_antisym : forall a b : T A, leb a b = true -> leb b a = true -> a = b;
  OF_ltb_leb   : forall a b : T A, ltb a b = negb (leb b a);
  OF_add_le    : forall a b c : T A, leb a b = true -> leb (add a c) (add b c) = true;
  OF_mul_pos   : forall a b : T A, leb zero a = true -> leb zero b = true -> leb zero (mul a b) = true;
}.

Lemma OField_OrdLaws A (F : OField A) : OrdLaws A (fun _ => True).
Proof.
  constructor; intros.
  - apply (OF_leb_refl A F).
  - eapply (OF_leb_trans A F); eauto.
  - apply (OF_leb_total A F).
  - apply (OF_ltb_leb A F).
Qed.

(* ---------------------------------------------------------------------------------------------- *)
(* The executed exact instance: canonical rationals. *)
Definition Qc_ltb (a b : Qc) : bool := match Qccompare a b with Lt => true | _ => false end.
Definition Qc_leb (a b : Qc) : bool := match Qccompare a b with Gt => false | _ => true end.

Definition QcA : Arith := {|
  T := Qc; add := Qcplus; sub := Qcminus; mul := Qcmult; div := Qcdiv; opp := Qcopp;
  zero := Q2Qc 0; one := Q2Qc 1; ofZ := fun z => Q2Qc (inject_Z z);
  ltb := Qc_ltb; leb := Qc_leb; rnd := fun x => x |}.

Lemma Qc_leb_le a b : Qc_leb a b = true <-> (a <= b)%Qc.
Proof.
  unfold Qc_leb. unfold Qcle, Qccompare. rewrite Qle_alt.
  destruct (Qcompare a b); split; intros H; try congruence; try reflexivity; try discriminate;
  try (exfalso; apply H; reflexivity).
Qed.

Lemma Qc_ltb_lt a b : Qc_ltb a b = true <-> (a < b)%Qc.
Proof.
  unfold Qc_ltb, Qclt, Qccompare. rewrite Qlt_alt.
  destruct (Qcompare a b); split; intros; congruence.
Qed.

Lemma QcA_OField : OField QcA.
Proof.
  constructor; simpl.
  - constructor.
    + constructor; intros; simpl; try ring.
    + intro H. discriminate H.
    + intros p q. unfold inv; simpl. unfold Qcdiv. ring.
    + intros p Hp. unfold inv; simpl. unfold Qcdiv. rewrite Qcmult_1_l. rewrite Qcmult_comm. apply Qcmult_inv_r. exact Hp.
  - reflexivity.
  - intro a. apply Qc_leb_le. apply Qcle_refl.
  - intros a b c. rewrite !Qc_leb_le. apply Qcle_trans.
  - intros a b. rewrite !Qc_leb_le. destruct (Qclt_le_dec a b) as [H|H]; [left; apply Qclt_le_weak; exact H | right; exact H].
  - intros a b. rewrite !Qc_leb_le. apply Qcle_antisym.
  - intros a b. destruct (Qc_ltb a b) eqn:E1; destruct (Qc_leb b a) eqn:E2; simpl; auto.
    + apply Qc_ltb_lt in E1. apply Qc_leb_le in E2. exfalso. eapply Qclt_not_le; eauto.
    + assert (~ (a < b)%Qc) as N1 by (rewrite <- Qc_ltb_lt; congruence).
      assert (~ (b <= a)%Qc) as N2 by (rewrite <- Qc_leb_le; congruence).
      exfalso. apply N2. apply Qcnot_lt_le. exact N1.
  - intros a b c. rewrite !Qc_leb_le. intro H. apply Qcplus_le_compat; [exact H | apply Qcle_refl].
  - intros a b. rewrite !Qc_leb_le. intros Ha Hb.
    replace (Q2Qc 0) with (Q2Qc 0 * b)%Qc by ring. apply Qcmult_le_compat_r; assumption.
Qed.
