(* C09_Kron.v — theorem (3), part 2: the composition over ALL dimensions.
   (a) the fold of slicemultiply over the axes 0..D-1 is the multilinear form
         result[c_1..c_D] = sum_e v_e * prod_d M_d[e_d][c_d]           (glam_fold_multilinear)
       (induction over the dimensions composing C09_Glam.slicemultiply_spec; the sum over the multi-index (r_1..r_D) is
       taken against the entry list, so that one sum over r per axis suffices and it collapses on the entry's digit);
   (b) the box product identity (B box B)[r][c1*n + c2] = B[r][c1] * B[r][c2];
   (c) the split (i / n, i % n) / reorder (even axes first) / flatten step of glamfit_complex as an index bijection:
       flat position (r, c) of the final matrix  <->  array index (j_d * n_d + k_d)_d with j = digits of r, k = digits of c;
   (d) hence flatten (reshape_F (Farr ..)) = sum_e w_e b_e b_e^T = nmat, and flatten (Rarr ..) = sum_e w_e z_e b_e = nrhs, with
       b_e = design_row = Kronecker product of the basis rows at the entry's abscissae: B^T W B and B^T W z for B = (x)_d B_d. *)
From Coq Require Import ZArith NArith List Bool Lia Field Ring FMapPositive.
From PS Require Import Arith EvalModel BSpline OFieldKit FitModel C09_LinAlg C09_Penalty C09_Index C09_Glam.
Import ListNotations.

Section Kron.
Context {A : Arith}.
Variable F : OField A.
Notation K := (T A).
Add Field Kfield_c09kron : (OFth F).

(* ---------------------------------------------------------------------------------------------- *)
(* sums *)
Lemma sumK_cons (x : K) (l : list K) : sumK (x :: l) = add x (sumK l).
Proof. reflexivity. Qed.
Lemma sumK_mul_l {X} (c : K) (f : X -> K) (l : list X) : mul c (sumK (map f l)) = sumK (map (fun x => mul c (f x)) l).
Proof. induction l as [|a l IH]; cbn [map]; [unfold sumK; cbn; ring|]. rewrite !sumK_cons, <- IH. ring. Qed.
Lemma sumK_add {X} (f g : X -> K) (l : list X) : sumK (map (fun x => add (f x) (g x)) l) = add (sumK (map f l)) (sumK (map g l)).
Proof. induction l as [|a l IH]; cbn [map]; [unfold sumK; cbn; ring|]. rewrite !sumK_cons, IH. ring. Qed.
Lemma sumK_swap {X Y} (f : X -> Y -> K) (lx : list X) (ly : list Y) :
  sumK (map (fun x => sumK (map (fun y => f x y) ly)) lx) = sumK (map (fun y => sumK (map (fun x => f x y) lx)) ly).
Proof.
  induction lx as [|a lx IH]; cbn [map].
  - symmetry. apply (sumK_zero F). reflexivity.
  - rewrite sumK_cons, IH. rewrite <- sumK_add. apply sumK_ext_in. intros y _. reflexivity.
Qed.

(* entry (r, c) of a list matrix, indices in N; out of range = 0 *)
Definition entry (M : list (list K)) (r c : N) : K := nth (N.to_nat c) (nth (N.to_nat r) M []) zero.

Lemma nth_col (c r : nat) (b : list (list K)) : nth r (col c b) zero = nth c (nth r b []) zero.
Proof.
  unfold col. revert r. induction b as [|row b IH]; intros [|r]; cbn [map nth]; try reflexivity; [destruct c; reflexivity | destruct c; reflexivity | apply IH].
Qed.
Lemma dot_as_sum (u v : list K) : dot u v = sumK (map (fun i => mul (nth i u zero) (nth i v zero)) (seq 0 (length v))).
Proof.
  revert u. induction v as [|b v IH]; intro u.
  - destruct u; reflexivity.
  - destruct u as [|a u].
    + cbn [dot]. symmetry. apply (sumK_zero F). intros i _. destruct i; cbn [nth]; ring.
    + cbn [dot length seq map nth]. rewrite sumK_cons, IH. f_equal. rewrite <- seq_shift, map_map. reflexivity.
Qed.
Lemma nth_map_Nseq {Y} (f : N -> Y) (n : N) (i : nat) d : (i < N.to_nat n)%nat -> nth i (map f (Nseq n)) d = f (N.of_nat i).
Proof.
  intro H. unfold Nseq. rewrite map_map. apply (nth_map_seq (fun k => f (N.of_nat k))). exact H.
Qed.
(* the mode product of slicemultiply_spec as a plain sum over the row index *)
Lemma dot_col_Nseq (c : nat) (b : list (list K)) (f : N -> K) (n : N) :
  dot (col c b) (map f (Nseq n)) = sumK (map (fun r => mul (entry b r (N.of_nat c)) (f r)) (Nseq n)).
Proof.
  transitivity (sumK (map (fun i => mul (entry b (N.of_nat i) (N.of_nat c)) (f (N.of_nat i))) (seq 0 (N.to_nat n)))).
  - rewrite dot_as_sum.
    replace (length (map f (Nseq n))) with (N.to_nat n) by (unfold Nseq; rewrite !map_length, seq_length; reflexivity).
    apply sumK_ext_in. intros i Hi. apply in_seq in Hi. rewrite nth_col. unfold entry. rewrite !Nat2N.id.
    rewrite nth_map_Nseq by lia. reflexivity.
  - unfold Nseq. rewrite map_map. reflexivity.
Qed.

(* ---------------------------------------------------------------------------------------------- *)
(* the multilinear term: the first |Ms| axes are contracted with the matrices Ms, the remaining axes still carry the
   entry's own index *)
Fixpoint gterm (Ms : list (list (list K))) (e idx : list N) : K :=
  match Ms with
  | [] => if idx_eqb e idx then one else zero
  | M :: Ms' => match e, idx with
                | r :: e', c :: idx' => mul (entry M r c) (gterm Ms' e' idx')
                | _, _ => zero
                end
  end.
(* all axes contracted *)
Fixpoint rowprod (Ms : list (list (list K))) (e idx : list N) : K :=
  match Ms, e, idx with
  | M :: Ms', r :: e', c :: idx' => mul (entry M r c) (rowprod Ms' e' idx')
  | _, _, _ => one
  end.
Lemma gterm_full : forall Ms e idx, length e = length Ms -> length idx = length Ms -> gterm Ms e idx = rowprod Ms e idx.
Proof.
  induction Ms as [|M Ms IH]; intros [|r e] [|c idx] He Hi; cbn [length] in *; try lia; cbn [gterm rowprod].
  - reflexivity.
  - rewrite IH by lia. reflexivity.
Qed.

Lemma idx_eqb_cons (a b : N) (l m : list N) : idx_eqb (a :: l) (b :: m) = (N.eqb a b && idx_eqb l m)%bool.
Proof.
  apply eq_true_iff_eq. rewrite andb_true_iff, !idx_eqb_true, N.eqb_eq. split; [intro H; injection H; auto | intros [-> ->]; reflexivity].
Qed.

(* contracting one more axis: the sum over the row index collapses on the entry's digit *)
Lemma gterm_snoc (M : list (list K)) (n r0 c : N) (eQ iQ : list N) : (r0 < n)%N ->
  forall (pre : list (list (list K))) (eP iP : list N), length eP = length pre -> length iP = length pre ->
  sumK (map (fun r => mul (entry M r c) (gterm pre (eP ++ r0 :: eQ) (iP ++ r :: iQ))) (Nseq n))
  = gterm (pre ++ [M]) (eP ++ r0 :: eQ) (iP ++ c :: iQ).
Proof.
  intro Hr. induction pre as [|P pre IH]; intros [|a eP] [|b iP] He Hi; cbn [length] in *; try lia; cbn [app gterm].
  - rewrite (sumK_ext_in _ (fun r => if N.eqb r r0 then mul (entry M r c) (if idx_eqb eQ iQ then one else zero) else zero)).
    + rewrite (sum_indicator_Nseq F (fun r => mul (entry M r c) (if idx_eqb eQ iQ then one else zero)) r0 n Hr). reflexivity.
    + intros r _. rewrite idx_eqb_cons, N.eqb_sym. destruct (N.eqb r r0); cbn [andb]; [reflexivity | ring].
  - rewrite <- (IH eP iP) by lia. rewrite sumK_mul_l. apply sumK_ext_in. intros r _. ring.
Qed.

(* ---------------------------------------------------------------------------------------------- *)
(* the fold of slicemultiply over the axes *)
Lemma valid_set_nth_back (rs idx : list N) dim (x r : N) :
  valid_idx (set_nth dim x rs) idx -> (r < nth dim rs 0)%N -> valid_idx rs (set_nth dim r idx).
Proof.
  revert idx dim. induction rs as [|r0 rs IH]; intros idx dim H Hr.
  - destruct dim; cbn [nth] in Hr; lia.
  - destruct dim as [|dim]; cbn [set_nth nth] in *; inversion H as [|i r' idx' rs' Hi H']; subst; cbn [set_nth].
    + constructor; assumption.
    + constructor; [exact Hi | apply IH; assumption].
Qed.

Section Fold.
Variable X : Type.
Variable bm : X -> list (list K).       (* the matrix applied along the axis *)
Variable nc : X -> nat.                 (* its number of columns *)
Variable ents : list (list N * K).      (* the entries of the initial array *)

Definition gstep (a : ndarr) (id : nat * X) : ndarr := slicemultiply a (bm (snd id)) (nc (snd id)) (fst id).
Definition ncN (x : X) : N := N.of_nat (nc x).

Definition ginv (pre : list X) (rtail : list N) (a : ndarr) : Prop :=
  nd_ranges a = map ncN pre ++ rtail /\
  valid_arr a /\
  forall idx, valid_idx (nd_ranges a) idx ->
    aget a idx = sumK (map (fun e => mul (snd e) (gterm (map bm pre) (fst e) idx)) ents).

Lemma ginv_step (pre : list X) (x : X) (rpre : list N) (n : N) (rtail : list N) (a : ndarr) :
  length rpre = length pre ->
  Forall (fun e => valid_idx (rpre ++ n :: rtail) (fst e)) ents ->
  ginv pre (n :: rtail) a ->
  ginv (pre ++ [x]) rtail (slicemultiply a (bm x) (nc x) (length pre)).
Proof.
  intros Lr Hents [Hrs [Hva Hag]].
  assert (Lp : length (map ncN pre) = length pre) by apply map_length.
  assert (Hdim : (length pre < length (nd_ranges a))%nat) by (rewrite Hrs, app_length, Lp; cbn [length]; lia).
  assert (Hrs' : set_nth (length pre) (N.of_nat (nc x)) (nd_ranges a) = map ncN (pre ++ [x]) ++ rtail).
  { rewrite Hrs, (set_nth_mid (length pre) _ _ n _ Lp), map_app, <- app_assoc. reflexivity. }
  assert (Hn : nth (length pre) (nd_ranges a) 0%N = n) by (rewrite Hrs; apply nth_mid; exact Lp).
  split; [|split].
  - rewrite slicemultiply_ranges. exact Hrs'.
  - apply slicemultiply_valid. exact Hdim.
  - intros idx Hvi. rewrite slicemultiply_ranges in Hvi.
    rewrite (slicemultiply_spec F a (bm x) (nc x) (length pre) idx Hdim Hva Hvi).
    rewrite dot_col_Nseq, Hn.
    (* decompose idx at the axis *)
    pose proof Hvi as Hvi2. rewrite Hrs' in Hvi2. rewrite map_app, <- app_assoc in Hvi2. cbn [map app] in Hvi2.
    unfold valid_idx in Hvi2. apply Forall2_app_inv_r in Hvi2. destruct Hvi2 as [iP [i2 [HiP [Hi2 Eidx]]]].
    inversion Hi2 as [|c r' iQ rs' Hc HiQ]; subst i2 r' rs'. clear Hi2.
    assert (LiP : length iP = length pre) by (rewrite (valid_idx_length _ _ HiP); exact Lp).
    rewrite Eidx. rewrite (nth_mid (length pre) iP iQ c 0%N LiP). rewrite N2Nat.id.
    rewrite (sumK_ext_in _ (fun r => mul (entry (bm x) r c)
               (sumK (map (fun e => mul (snd e) (gterm (map bm pre) (fst e) (iP ++ r :: iQ))) ents)))).
    2:{ intros r Hr. apply in_Nseq in Hr. f_equal. rewrite (set_nth_mid (length pre) iP iQ c r LiP).
        apply Hag. rewrite <- (set_nth_mid (length pre) iP iQ c r LiP), <- Eidx.
        apply (valid_set_nth_back _ _ _ (N.of_nat (nc x))); [exact Hvi | rewrite Hn; exact Hr]. }
    rewrite (sumK_ext_in _ (fun r => sumK (map (fun e => mul (entry (bm x) r c) (mul (snd e) (gterm (map bm pre) (fst e) (iP ++ r :: iQ)))) ents))).
    2:{ intros r _. apply sumK_mul_l. }
    rewrite (sumK_swap (fun r e => mul (entry (bm x) r c) (mul (snd e) (gterm (map bm pre) (fst e) (iP ++ r :: iQ))))).
    apply sumK_ext_in. intros e He.
    rewrite Forall_forall in Hents. specialize (Hents e He).
    unfold valid_idx in Hents. apply Forall2_app_inv_r in Hents. destruct Hents as [eP [e2 [HeP [He2 Ee]]]].
    inversion He2 as [|r0 r' eQ rs' Hr0 HeQ]; subst e2 r' rs'. clear He2.
    assert (LeP : length eP = length pre) by (rewrite (valid_idx_length _ _ HeP); exact Lr).
    rewrite Ee. rewrite map_app. cbn [map].
    rewrite <- (gterm_snoc (bm x) n r0 c eQ iQ Hr0 (map bm pre) eP iP) by (rewrite map_length; assumption).
    rewrite sumK_mul_l. apply sumK_ext_in. intros r _. ring.
Qed.

Lemma ginv_fold : forall (rest pre : list X) (rpre rtail : list N) (a : ndarr),
  length rpre = length pre -> length rtail = length rest ->
  Forall (fun e => valid_idx (rpre ++ rtail) (fst e)) ents ->
  ginv pre rtail a ->
  ginv (pre ++ rest) [] (fold_left gstep (combine (seq (length pre) (length rest)) rest) a).
Proof.
  induction rest as [|x rest IH]; intros pre rpre rtail a Lr Lt Hents Hinv.
  - destruct rtail; [|discriminate Lt]. rewrite app_nil_r. exact Hinv.
  - destruct rtail as [|n rtail]; [discriminate Lt|]. cbn [length seq combine fold_left]. unfold gstep at 2. cbn [fst snd].
    replace (pre ++ x :: rest) with ((pre ++ [x]) ++ rest) by (rewrite <- app_assoc; reflexivity).
    replace (S (length pre)) with (length (pre ++ [x])) by (rewrite app_length; cbn [length]; lia).
    apply (IH (pre ++ [x]) (rpre ++ [n]) rtail).
    + rewrite !app_length. cbn [length]. lia.
    + cbn [length] in Lt. lia.
    + rewrite <- app_assoc. exact Hents.
    + apply (ginv_step pre x rpre n rtail a Lr Hents Hinv).
Qed.

(* (a) the multilinear form of the whole fold *)
Theorem glam_fold_multilinear (xs : list X) (rs0 : list N) :
  length rs0 = length xs ->
  Forall (fun e => valid_idx rs0 (fst e)) ents ->
  let aF := fold_left gstep (combine (seq 0 (length xs)) xs) (mkNd rs0 ents) in
  nd_ranges aF = map ncN xs /\
  valid_arr aF /\
  forall idx, valid_idx (map ncN xs) idx ->
    aget aF idx = sumK (map (fun e => mul (snd e) (rowprod (map bm xs) (fst e) idx)) ents).
Proof.
  intros L Hents aF.
  assert (H0 : ginv [] rs0 (mkNd rs0 ents)).
  { split; [reflexivity|]. split; [exact Hents|]. intros idx _. unfold aget. cbn [nd_entries map gterm].
    apply sumK_ext_in. intros e _. destruct (idx_eqb (fst e) idx); ring. }
  pose proof (ginv_fold xs [] [] rs0 (mkNd rs0 ents) eq_refl L Hents H0) as [H1 [H2 H3]].
  cbn [app length] in H1, H2, H3. fold aF in H1, H2, H3. rewrite app_nil_r in H1.
  split; [exact H1|]. split; [exact H2|]. intros idx Hv. rewrite H3 by (rewrite H1; exact Hv).
  apply sumK_ext_in. intros e He. f_equal. apply gterm_full.
  - rewrite Forall_forall in Hents. rewrite (valid_idx_length _ _ (Hents e He)), map_length. exact L.
  - rewrite (valid_idx_length _ _ Hv), !map_length. reflexivity.
Qed.

End Fold.

(* ---------------------------------------------------------------------------------------------- *)
(* (b) the box product (row-wise Kronecker product) of a matrix with itself *)
Lemma nth_box_self (B : list (list K)) r : nth r (box B B) [] = boxrow (nth r B []) (nth r B []).
Proof.
  unfold box. revert r. induction B as [|a B IH]; intros [|r]; cbn [combine map nth fst snd]; try reflexivity. apply IH.
Qed.
Theorem entry_box (n : nat) (B : list (list K)) (r j k : N) : rows_len n B -> (k < N.of_nat n)%N ->
  entry (box B B) r (j * N.of_nat n + k) = mul (entry B r j) (entry B r k).
Proof.
  intros HB Hk. unfold entry. rewrite nth_box_self.
  destruct (nth_in_or_default (N.to_nat r) B []) as [Hin | Hd].
  - replace (N.to_nat (j * N.of_nat n + k)) with (N.to_nat j * n + N.to_nat k)%nat by lia.
    apply (nth_boxrow F); [|lia]. unfold rows_len in HB. rewrite Forall_forall in HB. apply HB. exact Hin.
  - rewrite Hd. cbn [boxrow flat_map]. destruct (N.to_nat (j * N.of_nat n + k)), (N.to_nat j), (N.to_nat k); cbn [nth]; ring.
Qed.

(* ---------------------------------------------------------------------------------------------- *)
(* (c) split / reorder / flatten as an index bijection *)
Definition sqr (n : N) : N := (n * n)%N.
(* the array index whose split is (j, k):  j_d * n_d + k_d  on every axis *)
Fixpoint merge (ns j k : list N) : list N :=
  match ns, j, k with
  | n :: ns', a :: j', b :: k' => (a * n + b)%N :: merge ns' j' k'
  | _, _, _ => []
  end.

Lemma divmod_iff (x n a b : N) : (b < n)%N -> ((x / n = a /\ x mod n = b) <-> x = a * n + b)%N.
Proof.
  intro Hb. assert (Hn : n <> 0%N) by lia. split.
  - intros [<- <-]. rewrite N.mul_comm. apply N.div_mod. exact Hn.
  - intros ->. split.
    + rewrite N.div_add_l by exact Hn. rewrite (N.div_small _ _ Hb). lia.
    + rewrite N.add_comm, N.mod_add by exact Hn. apply N.mod_small. exact Hb.
Qed.
Lemma map_sqrt_sqr (ns : list N) : map N.sqrt (map sqr ns) = ns.
Proof. rewrite map_map. rewrite <- (map_id ns) at 2. apply map_ext. intro n. apply N.sqrt_square. Qed.
Lemma split_idx_cons (n x : N) (rs e : list N) :
  split_idx (sqr n :: rs) (x :: e) = ((x / n)%N :: fst (split_idx rs e), (x mod n)%N :: snd (split_idx rs e)).
Proof. unfold split_idx. cbn [combine map fst snd]. unfold sqr. rewrite N.sqrt_square. reflexivity. Qed.

Lemma split_valid : forall (ns e : list N), valid_idx (map sqr ns) e ->
  valid_idx ns (fst (split_idx (map sqr ns) e)) /\ valid_idx ns (snd (split_idx (map sqr ns) e)).
Proof.
  induction ns as [|n ns IH]; intros e H; inversion H as [|x r' e' rs' Hx H']; subst.
  - split; constructor.
  - cbn [map]. rewrite split_idx_cons. cbn [fst snd]. destruct (IH e' H') as [H1 H2]. unfold sqr in Hx.
    assert (Hn : n <> 0%N) by (intro E; subst n; lia).
    split; (constructor; [|assumption]).
    + apply N.div_lt_upper_bound; assumption.
    + apply N.mod_lt. exact Hn.
Qed.
Lemma merge_valid : forall (ns j k : list N), valid_idx ns j -> valid_idx ns k -> valid_idx (map sqr ns) (merge ns j k).
Proof.
  induction ns as [|n ns IH]; intros j k Hj Hk; inversion Hj as [|a r' j' rs' Ha Hj']; inversion Hk as [|b r'' k' rs'' Hb Hk']; subst; cbn [merge map].
  - constructor.
  - constructor; [unfold sqr; nia | apply IH; assumption].
Qed.
Lemma split_merge_iff : forall (ns e j k : list N), valid_idx (map sqr ns) e -> valid_idx ns j -> valid_idx ns k ->
  ((fst (split_idx (map sqr ns) e) = j /\ snd (split_idx (map sqr ns) e) = k) <-> e = merge ns j k).
Proof.
  induction ns as [|n ns IH]; intros e j k He Hj Hk;
    inversion He as [|x r0 e' rs0 Hx He']; inversion Hj as [|a r' j' rs' Ha Hj']; inversion Hk as [|b r'' k' rs'' Hb Hk']; subst.
  - cbn. split; [reflexivity | split; reflexivity].
  - cbn [map merge]. rewrite split_idx_cons. cbn [fst snd]. specialize (IH e' j' k' He' Hj' Hk').
    pose proof (divmod_iff x n a b Hb) as Hd. split.
    + intros [E1 E2]. injection E1 as E1a E1b. injection E2 as E2a E2b. f_equal; [apply Hd; split; assumption | apply IH; split; assumption].
    + intro E. injection E as Ea Eb. apply Hd in Ea. apply IH in Eb. destruct Ea as [-> ->]. destruct Eb as [-> ->]. split; reflexivity.
Qed.

Lemma prodN_app (l1 l2 : list N) : prodN (l1 ++ l2) = (prodN l1 * prodN l2)%N.
Proof.
  induction l1 as [|a l1 IH]; cbn [app].
  - change (prodN []) with 1%N. lia.
  - change (prodN (a :: l1 ++ l2)) with (a * prodN (l1 ++ l2))%N. change (prodN (a :: l1)) with (a * prodN l1)%N. rewrite IH. lia.
Qed.
Lemma flat_app : forall (rs1 i1 rs2 i2 : list N), length i1 = length rs1 ->
  flat (rs1 ++ rs2) (i1 ++ i2) = (flat rs1 i1 * prodN rs2 + flat rs2 i2)%N.
Proof.
  induction rs1 as [|r rs1 IH]; intros [|i i1] rs2 i2 L; cbn [length] in L; try lia; cbn [app flat].
  - lia.
  - rewrite IH by lia. rewrite prodN_app. nia.
Qed.
Lemma prodN_of_nat (ns : list nat) : prodN (map N.of_nat ns) = N.of_nat (fold_right Nat.mul 1%nat ns).
Proof. induction ns as [|n ns IH]; cbn [map prodN fold_right]; [reflexivity|]. fold (prodN (map N.of_nat ns)). rewrite IH. lia. Qed.

(* flatten_ndarray_to_sparse: position p of the matrix holds the sum of the entries whose flat index is p *)
Lemma flatten_getm (a : @ndarr A) (ncol p : N) : ncol <> 0%N ->
  getm (accum (map (fun e => let k := flat (nd_ranges a) (fst e) in ((k / ncol) * ncol + (k mod ncol), snd e)%N) (nd_entries a))) p
  = sumK (map (fun e => if N.eqb (flat (nd_ranges a) (fst e)) p then snd e else zero) (nd_entries a)).
Proof.
  intro Hn. rewrite (accum_spec F), map_map. apply sumK_ext_in. intros e _. cbn [fst snd].
  replace (flat (nd_ranges a) (fst e) / ncol * ncol + flat (nd_ranges a) (fst e) mod ncol)%N with (flat (nd_ranges a) (fst e)); [reflexivity|].
  rewrite N.mul_comm. apply N.div_mod. exact Hn.
Qed.

(* the matrix position (r, c) of flatten (reshape_F a) is the array entry at merge (digits of r) (digits of c) *)
Theorem reshape_flatten_entry (a : @ndarr A) (ns : list N) (r c : N) :
  nd_ranges a = map sqr ns -> valid_arr a -> (r < prodN ns)%N -> (c < prodN ns)%N ->
  getm (accum (map (fun e => let k := flat (nd_ranges (reshape_F a)) (fst e) in
                             ((k / prodN ns) * prodN ns + (k mod prodN ns), snd e)%N) (nd_entries (reshape_F a))))
       (r * prodN ns + c)%N
  = aget a (merge ns (unflat ns r) (unflat ns c)).
Proof.
  intros Hrs Hva Hr Hc. rewrite flatten_getm by lia. unfold aget, reshape_F. cbn [nd_entries nd_ranges]. rewrite map_map. cbn [fst snd].
  rewrite Hrs, map_sqrt_sqr. apply sumK_ext_in. intros e He. apply ind_ext. rewrite N.eqb_eq, idx_eqb_true.
  unfold valid_arr in Hva. rewrite Forall_forall in Hva. specialize (Hva e He). rewrite Hrs in Hva.
  destruct (split_valid ns (fst e) Hva) as [Hhi Hlo].
  rewrite flat_app by (apply valid_idx_length; exact Hhi).
  rewrite (mixed_key_inj (prodN ns) _ _ r c) by (try exact Hc; apply flat_lt'; exact Hlo).
  rewrite <- (split_merge_iff ns (fst e) (unflat ns r) (unflat ns c) Hva) by (apply unflat_valid; assumption).
  split.
  - intros [E1 E2]. split; [rewrite <- E1 | rewrite <- E2]; symmetry; apply unflat_flat; assumption.
  - intros [E1 E2]. split; [rewrite E1 | rewrite E2]; apply flat_unflat; assumption.
Qed.
(* the same read off the list-of-rows matrix, with the facts that make (r, c) <-> (j, k) <-> merge a bijection *)
Theorem reshape_flatten_matrix_entry (a : @ndarr A) (ns : list N) (r c : nat) :
  nd_ranges a = map sqr ns -> valid_arr a -> (N.of_nat r < prodN ns)%N -> (N.of_nat c < prodN ns)%N ->
  nth c (nth r (flatten_to_matrix (reshape_F a) (prodN ns) (prodN ns)) []) zero
  = aget a (merge ns (unflat ns (N.of_nat r)) (unflat ns (N.of_nat c)))
  /\ valid_idx (nd_ranges a) (merge ns (unflat ns (N.of_nat r)) (unflat ns (N.of_nat c)))
  /\ flat ns (unflat ns (N.of_nat r)) = N.of_nat r /\ flat ns (unflat ns (N.of_nat c)) = N.of_nat c.
Proof.
  intros Hrs Hva Hr Hc. split; [|split; [|split]].
  - unfold flatten_to_matrix. cbv zeta.
    rewrite (nth_map_Nseq _ (prodN ns) r []) by lia. rewrite (nth_map_Nseq _ (prodN ns) c zero) by lia.
    exact (reshape_flatten_entry a ns (N.of_nat r) (N.of_nat c) Hrs Hva Hr Hc).
  - rewrite Hrs. apply merge_valid; apply unflat_valid; assumption.
  - apply flat_unflat. exact Hr.
  - apply flat_unflat. exact Hc.
Qed.
(* the vector position r of flatten a (one column) is the array entry at the digits of r *)
Theorem flatten_vector_entry (a : @ndarr A) (ns : list N) (r : N) :
  nd_ranges a = ns -> valid_arr a -> (r < prodN ns)%N ->
  getm (accum (map (fun e => let k := flat (nd_ranges a) (fst e) in ((k / 1) * 1 + (k mod 1), snd e)%N) (nd_entries a))) (r * 1 + 0)%N
  = aget a (unflat ns r).
Proof.
  intros Hrs Hva Hr. rewrite flatten_getm by lia. unfold aget. apply sumK_ext_in. intros e He. apply ind_ext.
  rewrite N.eqb_eq, idx_eqb_true. unfold valid_arr in Hva. rewrite Forall_forall in Hva. specialize (Hva e He). rewrite Hrs in *.
  replace (r * 1 + 0)%N with r by lia. split.
  - intros <-. symmetry. apply unflat_flat. exact Hva.
  - intros ->. apply flat_unflat. exact Hr.
Qed.

(* ---------------------------------------------------------------------------------------------- *)
(* the normal matrix and the right-hand side entry by entry *)
Notation wt e := (fst (fst e)).
Notation brow e := (snd (fst e)).
Notation zval e := (snd e).
Lemma nmat_entries n (E : list (K * list K * K)) : wf_rows n E ->
  nmat n E = map (fun i => map (fun j => sumK (map (fun e => mul (wt e) (mul (nth i (brow e) zero) (nth j (brow e) zero))) E)) (seq 0 n)) (seq 0 n).
Proof.
  induction 1 as [|e E He _ IH]; cbn [nmat fold_right].
  - cbn [map sumK fold_right]. unfold mzero, vzero.
    rewrite (map_const_repeat (@zero A) (seq 0 n)), seq_length.
    rewrite (map_const_repeat (repeat (@zero A) n) (seq 0 n)), seq_length. reflexivity.
  - fold (nmat n E). rewrite IH.
    assert (Ho : mscale (wt e) (outer (brow e) (brow e))
                 = map (fun i => map (fun j => mul (wt e) (mul (nth i (brow e) zero) (nth j (brow e) zero))) (seq 0 n)) (seq 0 n)).
    { unfold mscale, outer. rewrite map_map. rewrite (map_as_map_nth (fun a => vscale (wt e) (vscale a (brow e))) (brow e)), He.
      apply map_ext. intro i. unfold vscale. rewrite map_map. rewrite (map_as_map_nth (fun x => mul (wt e) (mul (nth i (brow e) zero) x)) (brow e)), He.
      reflexivity. }
    rewrite Ho, madd_map_map. apply map_ext. intro i. rewrite vadd_map_map. reflexivity.
Qed.
Lemma nrhs_entries n (E : list (K * list K * K)) : wf_rows n E ->
  nrhs n E = map (fun i => sumK (map (fun e => mul (mul (wt e) (zval e)) (nth i (brow e) zero)) E)) (seq 0 n).
Proof.
  induction 1 as [|e E He _ IH]; cbn [nrhs fold_right].
  - cbn [map sumK fold_right]. unfold vzero. rewrite (map_const_repeat (@zero A) (seq 0 n)), seq_length. reflexivity.
  - fold (nrhs n E). rewrite IH. unfold vscale. rewrite (map_as_map_nth (mul (mul (wt e) (zval e))) (brow e)), He.
    rewrite vadd_map_map. reflexivity.
Qed.

(* ---------------------------------------------------------------------------------------------- *)
(* (d) the system assembled by the GLAM arithmetic *)
Section System.
Variable X : Type.
Variable bas : X -> list (list K).      (* the basis matrix of a dimension *)
Variable nsp : X -> nat.                (* its number of columns (splines) *)
Variable nrw : X -> nat.                (* its number of rows (abscissae) *)
Definition wf_basis (x : X) : Prop := rows_len (nsp x) (bas x) /\ length (bas x) = nrw x.
Definition nspN (x : X) : N := N.of_nat (nsp x).
Definition nrwN (x : X) : N := N.of_nat (nrw x).

(* the product of the boxed bases at merged column indices factors *)
Lemma rowprod_box : forall (xs : list X) (e j k : list N),
  Forall wf_basis xs -> valid_idx (map nspN xs) j -> valid_idx (map nspN xs) k ->
  rowprod (map (fun x => box (bas x) (bas x)) xs) e (merge (map nspN xs) j k)
  = mul (rowprod (map bas xs) e j) (rowprod (map bas xs) e k).
Proof.
  induction xs as [|x xs IH]; intros e j k Hwf Hj Hk; cbn [map] in *;
    inversion Hj as [|a r' j' rs' Ha Hj']; inversion Hk as [|b r'' k' rs'' Hb Hk']; subst; cbn [merge].
  - destruct e; cbn [rowprod]; ring.
  - destruct e as [|r e]; cbn [rowprod]; [ring|].
    rewrite (IH e j' k' (Forall_inv_tail Hwf) Hj' Hk').
    unfold nspN at 1. rewrite (entry_box (nsp x) (bas x) r a b (proj1 (Forall_inv Hwf)) Hb). ring.
Qed.

(* the entries of the Kronecker product of the basis rows *)
Lemma design_row_cons (x : X) (xs : list X) (r : N) (e : list N) :
  design_row (map bas (x :: xs)) (r :: e) = boxrow (nth (N.to_nat r) (bas x) []) (design_row (map bas xs) e).
Proof. reflexivity. Qed.
Lemma design_row_length : forall (xs : list X) (e : list N),
  Forall wf_basis xs -> valid_idx (map nrwN xs) e ->
  length (design_row (map bas xs) e) = fold_right Nat.mul 1%nat (map nsp xs).
Proof.
  induction xs as [|x xs IH]; intros e Hwf He; cbn [map] in He; inversion He as [|r r' e' rs' Hr He']; subst.
  - reflexivity.
  - rewrite design_row_cons, boxrow_length, (IH e' (Forall_inv_tail Hwf) He'). cbn [map fold_right]. f_equal.
    destruct (Forall_inv Hwf) as [H1 H2]. unfold rows_len in H1. rewrite Forall_forall in H1. apply H1. apply nth_In.
    unfold nrwN in Hr. lia.
Qed.
Lemma design_row_nth : forall (xs : list X) (e j : list N),
  Forall wf_basis xs -> valid_idx (map nrwN xs) e -> valid_idx (map nspN xs) j ->
  nth (N.to_nat (flat (map nspN xs) j)) (design_row (map bas xs) e) zero = rowprod (map bas xs) e j.
Proof.
  induction xs as [|x xs IH]; intros e j Hwf He Hj; cbn [map] in He, Hj;
    inversion He as [|r r' e' rs' Hr He']; inversion Hj as [|a r'' j' rs'' Ha Hj']; subst.
  - reflexivity.
  - rewrite design_row_cons. cbn [map flat rowprod].
    pose proof (design_row_length xs e' (Forall_inv_tail Hwf) He') as Hlen.
    assert (Hp : prodN (map nspN xs) = N.of_nat (fold_right Nat.mul 1%nat (map nsp xs))).
    { unfold nspN. rewrite <- (map_map nsp N.of_nat). apply prodN_of_nat. }
    pose proof (flat_lt' _ _ Hj') as Hlt. rewrite Hp in Hlt.
    rewrite Hp.
    replace (N.to_nat (a * N.of_nat (fold_right Nat.mul 1%nat (map nsp xs)) + flat (map nspN xs) j'))
      with (N.to_nat a * fold_right Nat.mul 1%nat (map nsp xs) + N.to_nat (flat (map nspN xs) j'))%nat by lia.
    rewrite (nth_boxrow F (fold_right Nat.mul 1%nat (map nsp xs))) by (try exact Hlen; unfold nspN in *; lia).
    rewrite (IH e' j' (Forall_inv_tail Hwf) He' Hj'). reflexivity.
Qed.

Variable xs : list X.
Variable data : list (list N * K * K).           (* (index tuple, value, weight) *)
Hypothesis Hwf : Forall wf_basis xs.
Hypothesis Hdata : Forall (fun e => valid_idx (map nrwN xs) (fst (fst e))) data.

Definition nsN : list N := map nspN xs.
Definition ncoef : nat := fold_right Nat.mul 1%nat (map nsp xs).
(* the objective's triples: (weight, Kronecker product of the basis rows at the entry's abscissae, value) *)
Definition Etriples : list (K * list K * K) :=
  map (fun e => (snd e, design_row (map bas xs) (fst (fst e)), snd (fst e))) data.
Definition Farr_g : ndarr :=
  fold_left (gstep X (fun x => box (bas x) (bas x)) (fun x => nsp x * nsp x)%nat) (combine (seq 0 (length xs)) xs)
            (mkNd (map nrwN xs) (map (fun e => (fst (fst e), snd e)) data)).
Definition Rarr_g : ndarr :=
  fold_left (gstep X bas nsp) (combine (seq 0 (length xs)) xs)
            (mkNd (map nrwN xs) (map (fun e => (fst (fst e), mul (snd e) (snd (fst e)))) data)).

Lemma Etriples_wf : wf_rows ncoef Etriples.
Proof.
  unfold wf_rows, Etriples. apply Forall_map. rewrite Forall_forall in *. intros e He. cbn [fst snd].
  apply design_row_length; [rewrite Forall_forall; exact Hwf | apply Hdata; exact He].
Qed.
Lemma prodN_nsN : prodN nsN = N.of_nat ncoef.
Proof. unfold nsN, nspN, ncoef. rewrite <- (map_map nsp N.of_nat). apply prodN_of_nat. Qed.
Lemma Nseq_of_nat (n : nat) : Nseq (N.of_nat n) = map N.of_nat (seq 0 n).
Proof. unfold Nseq. rewrite Nat2N.id. reflexivity. Qed.

Theorem glam_F_is_BtWB :
  flatten_to_matrix (reshape_F Farr_g) (N.of_nat ncoef) (N.of_nat ncoef) = nmat ncoef Etriples.
Proof.
  rewrite (nmat_entries ncoef Etriples Etriples_wf).
  assert (Hents : Forall (fun e : list N * K => valid_idx (map nrwN xs) (fst e)) (map (fun e : list N * K * K => (fst (fst e), snd e)) data)).
  { apply Forall_map. exact Hdata. }
  destruct (glam_fold_multilinear X (fun x => box (bas x) (bas x)) (fun x => nsp x * nsp x)%nat _ xs (map nrwN xs) (map_length _ _) Hents)
    as [Hrs [Hva Hag]]. fold Farr_g in Hrs, Hva, Hag.
  assert (Hsq : map (ncN X (fun x => (nsp x * nsp x)%nat)) xs = map sqr nsN).
  { unfold nsN. rewrite map_map. apply map_ext. intro x. unfold ncN, sqr, nspN. lia. }
  rewrite Hsq in Hrs, Hag.
  unfold flatten_to_matrix. cbv zeta. rewrite Nseq_of_nat, <- prodN_nsN, !map_map.
  apply map_ext_in. intros i Hi. rewrite map_map. apply map_ext_in. intros j Hj. apply in_seq in Hi. apply in_seq in Hj.
  assert (Hi' : (N.of_nat i < prodN nsN)%N) by (rewrite prodN_nsN; lia).
  assert (Hj' : (N.of_nat j < prodN nsN)%N) by (rewrite prodN_nsN; lia).
  transitivity (aget Farr_g (merge nsN (unflat nsN (N.of_nat i)) (unflat nsN (N.of_nat j))));
    [exact (reshape_flatten_entry Farr_g nsN (N.of_nat i) (N.of_nat j) Hrs Hva Hi' Hj')|].
  pose proof (unflat_valid nsN _ Hi') as Vi. pose proof (unflat_valid nsN _ Hj') as Vj.
  rewrite (Hag _ (merge_valid nsN _ _ Vi Vj)). unfold Etriples. rewrite !map_map. cbn [fst snd].
  apply sumK_ext_in. intros e He. f_equal. rewrite Forall_forall in Hdata. specialize (Hdata e He).
  unfold nsN in *. rewrite (rowprod_box xs _ _ _ Hwf Vi Vj).
  rewrite <- (design_row_nth xs (fst (fst e)) _ Hwf Hdata Vi), <- (design_row_nth xs (fst (fst e)) _ Hwf Hdata Vj).
  rewrite !flat_unflat by assumption. rewrite !Nat2N.id. reflexivity.
Qed.

Theorem glam_R_is_BtWz :
  map (fun row => nth 0 row zero) (flatten_to_matrix Rarr_g (N.of_nat ncoef) 1%N) = nrhs ncoef Etriples.
Proof.
  rewrite (nrhs_entries ncoef Etriples Etriples_wf).
  assert (Hents : Forall (fun e : list N * K => valid_idx (map nrwN xs) (fst e)) (map (fun e : list N * K * K => (fst (fst e), mul (snd e) (snd (fst e)))) data)).
  { apply Forall_map. exact Hdata. }
  destruct (glam_fold_multilinear X bas nsp _ xs (map nrwN xs) (map_length _ _) Hents) as [Hrs [Hva Hag]]. fold Rarr_g in Hrs, Hva, Hag.
  change (map (ncN X nsp) xs) with nsN in Hrs, Hag.
  unfold flatten_to_matrix. cbv zeta. change (Nseq 1) with [0%N]. cbn [map]. rewrite Nseq_of_nat, !map_map. cbn [nth].
  apply map_ext_in. intros i Hi. apply in_seq in Hi.
  assert (Hi' : (N.of_nat i < prodN nsN)%N) by (rewrite prodN_nsN; lia).
  transitivity (aget Rarr_g (unflat nsN (N.of_nat i))); [exact (flatten_vector_entry Rarr_g nsN (N.of_nat i) Hrs Hva Hi')|].
  pose proof (unflat_valid nsN _ Hi') as Vi.
  rewrite (Hag _ Vi). unfold Etriples. rewrite !map_map. cbn [fst snd].
  apply sumK_ext_in. intros e He. f_equal. rewrite Forall_forall in Hdata. specialize (Hdata e He).
  unfold nsN in *. rewrite <- (design_row_nth xs (fst (fst e)) _ Hwf Hdata Vi).
  rewrite flat_unflat by assumption. rewrite Nat2N.id. reflexivity.
Qed.

End System.

(* ---------------------------------------------------------------------------------------------- *)
(* the instance of the model: FitModel.Farr / Rarr / fit_system *)
Definition basis_of (d : dimspec) : list (list K) := bsplinebasis (ds_knots d) (ds_coords d) (ds_order d).
Definition ncoords (d : @dimspec A) : nat := length (ds_coords d).

Lemma basis_of_wf (d : dimspec) : wf_basis dimspec basis_of ds_nsplines ncoords d.
Proof.
  unfold wf_basis, basis_of, bsplinebasis, ds_nsplines, ncoords. split.
  - unfold rows_len. apply Forall_map. apply Forall_forall. intros x _. cbn beta. rewrite map_length, seq_length. reflexivity.
  - apply map_length.
Qed.

Theorem glam_is_kron (dims : list dimspec) (smoothing : list K) (porders : list nat) (data : list (list N * K * K)) :
  Forall (fun e => valid_idx (map (fun d => N.of_nat (length (ds_coords d))) dims) (fst (fst e))) data ->
  let n := fold_right Nat.mul 1%nat (map ds_nsplines dims) in
  let bases := map (fun d => bsplinebasis (ds_knots d) (ds_coords d) (ds_order d)) dims in
  let E := map (fun e => (snd e, design_row bases (fst (fst e)), snd (fst e))) data in
  flatten_to_matrix (reshape_F (Farr dims data)) (N.of_nat n) (N.of_nat n) = nmat n E
  /\ map (fun row => nth 0 row zero) (flatten_to_matrix (Rarr dims data) (N.of_nat n) 1%N) = nrhs n E
  /\ fit_system dims smoothing porders data = (madd (nmat n E) (penalty_matrix dims smoothing porders), nrhs n E)
  /\ wf_rows n E.
Proof.
  intros Hdata n bases E.
  assert (Hwf : Forall (wf_basis dimspec basis_of ds_nsplines ncoords) dims) by (apply Forall_forall; intros d _; apply basis_of_wf).
  pose proof (glam_F_is_BtWB dimspec basis_of ds_nsplines ncoords dims data Hwf Hdata) as HF.
  pose proof (glam_R_is_BtWz dimspec basis_of ds_nsplines ncoords dims data Hwf Hdata) as HR.
  change (flatten_to_matrix (reshape_F (Farr dims data)) (N.of_nat n) (N.of_nat n) = nmat n E) in HF.
  change (map (fun row => nth 0 row zero) (flatten_to_matrix (Rarr dims data) (N.of_nat n) 1%N) = nrhs n E) in HR.
  split; [exact HF|]. split; [exact HR|]. split.
  - unfold fit_system. cbv zeta. fold n. rewrite HF, HR. reflexivity.
  - exact (Etriples_wf dimspec basis_of ds_nsplines ncoords dims data Hwf Hdata).
Qed.

End Kron.
