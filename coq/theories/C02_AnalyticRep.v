(* C02_AnalyticRep.v — de Boor's derivative formula IS the derivative of the polynomial piece, for REPEATED knots too.

   C02_Analytic.v proves this for strictly increasing knots. Here the knots are only non-decreasing, with the
   Cox–de Boor convention that a term with vanishing denominator is dropped (BSpline.wdiv — the convention of
   BSpline.Bfun / dBfun, i.e. of the specification the evaluation theorems refer to). On a knot interval l of positive
   width the Cox–de Boor function is the polynomial function [Bq n i] (the recurrence with the order-0 indicator
   replaced by "i = l"); differentiating that expression by the rules of differentiation gives [Dq n i].
   Theorem (any ordered field, no axioms): Dq (n+1) i x = (n+1) (Bq n i x / (t_{i+n+1}-t_i) - Bq n (i+1) x / (t_{i+n+2}-t_{i+1}))
   with dropped terms, for EVERY x. The proof is the strict one plus the observation that whenever a denominator
   vanishes the basis function it divides vanishes identically on the interval (its support has zero width and
   cannot contain an interval of positive width). *)
From Coq Require Import ZArith List Bool Lia Field Ring.
From PS Require Import Arith EvalModel BSpline OFieldKit C01_Basis C02_Basis.
Import ListNotations.
Local Open Scope Z_scope.

Section AlgebraicRep.
Context {A : Arith}.
Variable F : OField A.
Notation K := (T A).
Add Field Kfield6 : (OFth F).
Notation le := (@OFieldKit.le A).
Notation lt := (@OFieldKit.lt A).
Hypothesis ofZ_0 : @ofZ A 0 = zero.
Hypothesis ofZ_succ : forall z, 0 <= z -> @ofZ A (z + 1) = add (ofZ z) one.

Variable kn : Z -> K.
Variable nknots : Z.
Hypothesis Hmono : forall i j, 0 <= i -> i <= j -> j < nknots -> le (kn i) (kn j).
Variable l : Z.
Hypothesis Hl0 : 0 <= l.
Hypothesis Hl1 : l + 1 < nknots.
Hypothesis Hlpos : lt (kn l) (kn (l + 1)).          (* the interval has positive width *)

(* the polynomial piece on interval l with dropped terms, and its derivative by the rules of differentiation
   (the weights (x - t_i)/d are affine in x with slope 1/d, or identically zero when d = 0) *)
Fixpoint Bq (n : nat) (i : Z) (x : K) : K :=
  match n with
  | O => if i =? l then one else zero
  | S n1 =>
      let nz := Z.of_nat n in
      add (mul (wdiv (sub x (kn i)) (sub (kn (i + nz)) (kn i))) (Bq n1 i x))
          (mul (wdiv (sub (kn (i + nz + 1)) x) (sub (kn (i + nz + 1)) (kn (i + 1)))) (Bq n1 (i + 1) x))
  end.
Fixpoint Dq (n : nat) (i : Z) (x : K) : K :=
  match n with
  | O => zero
  | S n1 =>
      let nz := Z.of_nat n in
      let d1 := sub (kn (i + nz)) (kn i) in
      let d2 := sub (kn (i + nz + 1)) (kn (i + 1)) in
      add (add (wdiv (Bq n1 i x) d1) (mul (wdiv (sub x (kn i)) d1) (Dq n1 i x)))
          (add (opp (wdiv (Bq n1 (i + 1) x) d2)) (mul (wdiv (sub (kn (i + nz + 1)) x) d2) (Dq n1 (i + 1) x)))
  end.

(* local support of the piece: outside i <= l <= i+n both vanish identically *)
Lemma Bq_out : forall n i x, l < i \/ i + Z.of_nat n < l -> Bq n i x = zero /\ Dq n i x = zero.
Proof.
  induction n as [|n IH]; intros i x Hout.
  - cbn [Bq Dq]. split; [|reflexivity]. destruct (Z.eqb_spec i l); [lia|reflexivity].
  - destruct (IH i x ltac:(lia)) as [B1 D1]. destruct (IH (i + 1) x ltac:(lia)) as [B2 D2].
    cbn [Bq Dq]. cbv zeta. rewrite B1, B2, D1, D2, !(wdiv_zero_num F). split; ring.
Qed.

(* a basis function whose support [t_i, t_{i+n+1}] has zero width cannot contain the interval l *)
Lemma flat_out n i : 0 <= i -> i + Z.of_nat n + 1 < nknots -> sub (kn (i + Z.of_nat n + 1)) (kn i) = zero ->
  l < i \/ i + Z.of_nat n < l.
Proof.
  intros Hi0 Hi1 E. apply (sub_zero_eq F) in E.
  destruct (Z_lt_le_dec l i) as [H|H]; [left; exact H|]. destruct (Z_lt_le_dec (i + Z.of_nat n) l) as [H'|H']; [right; exact H'|].
  exfalso. assert (L1 : le (kn i) (kn l)) by (apply Hmono; lia).
  assert (L2 : le (kn (l + 1)) (kn (i + Z.of_nat n + 1))) by (apply Hmono; lia).
  assert (L : lt (kn i) (kn (i + Z.of_nat n + 1))).
  { eapply (le_lt_trans F); [exact L1|]. eapply (lt_le_trans F); [exact Hlpos|exact L2]. }
  rewrite <- E in L. exact (lt_irrefl F _ L).
Qed.
Lemma flat_zero n i x : 0 <= i -> i + Z.of_nat n + 1 < nknots -> sub (kn (i + Z.of_nat n + 1)) (kn i) = zero ->
  Bq n i x = zero /\ Dq n i x = zero.
Proof. intros H0 H1 E. apply Bq_out. apply flat_out; assumption. Qed.

(* a difference of two knots vanishes or not *)
Lemma dz (a b : K) : {sub b a = zero} + {sub b a <> zero}.
Proof. destruct (eqbK (sub b a) zero) eqn:E; [left; apply (eqbK_true F); exact E|right; intro H; apply (eqbK_true F) in H; congruence]. Qed.
(* t_a <= t_b <= t_c and t_c - t_a = 0 force both partial differences to vanish *)
Lemma squeeze a b c : 0 <= a -> a <= b -> b <= c -> c < nknots -> sub (kn c) (kn a) = zero ->
  sub (kn b) (kn a) = zero /\ sub (kn c) (kn b) = zero.
Proof.
  intros Ha Hab Hbc Hc E. apply (sub_zero_eq F) in E.
  assert (L1 : le (kn a) (kn b)) by (apply Hmono; lia). assert (L2 : le (kn b) (kn c)) by (apply Hmono; lia).
  rewrite <- E in L2. assert (Eb : kn a = kn b) by (apply (le_antisym F); assumption).
  split; [rewrite <- Eb; ring|rewrite <- E, <- Eb; ring].
Qed.

(* the algebra of one induction step, with every knot difference either zero (then the function it divides is zero) or not *)
Lemma step_identity (nn t0 t1 t2 ta tb td x b0 b1 b2 : K) :
  (sub ta t0 = zero -> b0 = zero) -> (sub tb t1 = zero -> b1 = zero) -> (sub td t2 = zero -> b2 = zero) ->
  (sub tb t0 = zero -> sub ta t0 = zero /\ sub tb t1 = zero) ->
  (sub td t1 = zero -> sub tb t1 = zero /\ sub td t2 = zero) ->
  let B1 := add (mul (wdiv (sub x t0) (sub ta t0)) b0) (mul (wdiv (sub tb x) (sub tb t1)) b1) in
  let B2 := add (mul (wdiv (sub x t1) (sub tb t1)) b1) (mul (wdiv (sub td x) (sub td t2)) b2) in
  let D1 := mul nn (sub (wdiv b0 (sub ta t0)) (wdiv b1 (sub tb t1))) in
  let D2 := mul nn (sub (wdiv b1 (sub tb t1)) (wdiv b2 (sub td t2))) in
  add (add (wdiv B1 (sub tb t0)) (mul (wdiv (sub x t0) (sub tb t0)) D1))
      (add (opp (wdiv B2 (sub td t1))) (mul (wdiv (sub td x) (sub td t1)) D2))
  = mul (add nn one) (sub (wdiv B1 (sub tb t0)) (wdiv B2 (sub td t1))).
Proof.
  intros H0 H1 H2 HM1 HM2. cbv zeta.
  destruct (dz t0 tb) as [M1|M1]; destruct (dz t1 td) as [M2|M2];
  destruct (dz t0 ta) as [N0|N0]; destruct (dz t1 tb) as [N1|N1]; destruct (dz t2 td) as [N2|N2];
  try (destruct (HM1 M1) as [? ?]; contradiction); try (destruct (HM2 M2) as [? ?]; contradiction);
  try (rewrite (H0 N0)); try (rewrite (H1 N1)); try (rewrite (H2 N2));
  repeat match goal with
  | Hz : sub ?b ?a = zero |- context [wdiv ?u (sub ?b ?a)] => rewrite (wdiv_z F u (sub b a) Hz)
  | Hn : sub ?b ?a <> zero |- context [wdiv ?u (sub ?b ?a)] => rewrite (wdiv_nz F u (sub b a) Hn)
  end;
  try ring; field; auto.
Qed.

(* de Boor's formula with dropped terms, for every x *)
Theorem Dq_formula : forall n i x, 0 <= i -> i + Z.of_nat (S n) + 1 < nknots ->
  Dq (S n) i x =
  mul (ofZ (Z.of_nat (S n)))
      (sub (wdiv (Bq n i x) (sub (kn (i + Z.of_nat (S n))) (kn i)))
           (wdiv (Bq n (i + 1) x) (sub (kn (i + Z.of_nat (S n) + 1)) (kn (i + 1))))).
Proof.
  induction n as [|n IH]; intros i x Hi0 Hi1.
  - cbn [Dq Bq]. change (Z.of_nat 1) with (0 + 1). rewrite ofZ_succ, ofZ_0 by lia. ring.
  - change (Dq (S (S n)) i x) with
      (add (add (wdiv (Bq (S n) i x) (sub (kn (i + Z.of_nat (S (S n)))) (kn i)))
                (mul (wdiv (sub x (kn i)) (sub (kn (i + Z.of_nat (S (S n)))) (kn i))) (Dq (S n) i x)))
           (add (opp (wdiv (Bq (S n) (i + 1) x) (sub (kn (i + Z.of_nat (S (S n)) + 1)) (kn (i + 1)))))
                (mul (wdiv (sub (kn (i + Z.of_nat (S (S n)) + 1)) x) (sub (kn (i + Z.of_nat (S (S n)) + 1)) (kn (i + 1)))) (Dq (S n) (i + 1) x)))).
    rewrite (IH i x), (IH (i + 1) x) by lia.
    replace (Z.of_nat (S (S n))) with (Z.of_nat (S n) + 1) by lia. rewrite (ofZ_succ (Z.of_nat (S n))) by lia.
    cbn [Bq].
    set (m := Z.of_nat n).
    replace (Z.of_nat (S n)) with (m + 1) by (subst m; lia).
    rewrite (kn_idx kn (i + (m + 1)) (i + m + 1)) by lia.
    rewrite (kn_idx kn (i + (m + 1) + 1) (i + m + 2)) by lia.
    rewrite (kn_idx kn (i + 1 + (m + 1)) (i + m + 2)) by lia.
    rewrite (kn_idx kn (i + 1 + (m + 1) + 1) (i + m + 3)) by lia.
    rewrite (kn_idx kn (i + (m + 1 + 1)) (i + m + 2)) by lia.
    rewrite (kn_idx kn (i + (m + 1 + 1) + 1) (i + m + 3)) by lia.
    rewrite (kn_idx kn (i + 1 + 1) (i + 2)) by lia.
    apply (step_identity (ofZ (m + 1)) (kn i) (kn (i + 1)) (kn (i + 2)) (kn (i + m + 1)) (kn (i + m + 2)) (kn (i + m + 3)) x
             (Bq n i x) (Bq n (i + 1) x) (Bq n (i + 1 + 1) x)).
    + intro E. apply (flat_zero n i x); try (subst m; lia). subst m. exact E.
    + intro E. apply (flat_zero n (i + 1) x); try (subst m; lia). subst m.
      rewrite (kn_idx kn (i + 1 + Z.of_nat n + 1) (i + Z.of_nat n + 2)) by lia. exact E.
    + intro E. apply (flat_zero n (i + 1 + 1) x); try (subst m; lia). subst m.
      rewrite (kn_idx kn (i + 1 + 1 + Z.of_nat n + 1) (i + Z.of_nat n + 3)) by lia.
      rewrite (kn_idx kn (i + 1 + 1) (i + 2)) by lia. exact E.
    + intro E. split.
      * exact (proj1 (squeeze i (i + m + 1) (i + m + 2) ltac:(lia) ltac:(subst m; lia) ltac:(lia) ltac:(subst m; lia) E)).
      * exact (proj2 (squeeze i (i + 1) (i + m + 2) ltac:(lia) ltac:(lia) ltac:(subst m; lia) ltac:(subst m; lia) E)).
    + intro E. split.
      * exact (proj1 (squeeze (i + 1) (i + m + 2) (i + m + 3) ltac:(lia) ltac:(subst m; lia) ltac:(lia) ltac:(subst m; lia) E)).
      * exact (proj2 (squeeze (i + 1) (i + 2) (i + m + 3) ltac:(lia) ltac:(lia) ltac:(subst m; lia) ltac:(subst m; lia) E)).
Qed.

(* on its interval the Cox–de Boor function is the piece, and the derivative formula (BSpline.dBfun, order 1) is the
   derivative of the piece — for non-decreasing knots *)
Lemma Bfun_is_Bq side x : in_piece kn side l x -> forall n i, 0 <= i -> i + Z.of_nat n + 1 < nknots ->
  Bfun kn side n i x = Bq n i x.
Proof.
  intros Hp. induction n as [|n IH]; intros i Hi0 Hi1.
  - cbn [Bfun Bq]. apply (B0_piece F kn nknots Hmono side l x Hl0 Hl1 Hp); lia.
  - cbn [Bfun Bq]. rewrite (IH i), (IH (i + 1)) by lia. reflexivity.
Qed.

Theorem dB1_is_Dq side x : in_piece kn side l x -> forall n i, 0 <= i -> i + Z.of_nat n + 1 < nknots ->
  dBfun kn side 1 n i x = Dq n i x.
Proof.
  intros Hp n i Hi0 Hi1. destruct n as [|n]; [reflexivity|].
  rewrite Dq_formula by lia. cbn [dBfun].
  rewrite (Bfun_is_Bq side x Hp n i), (Bfun_is_Bq side x Hp n (i + 1)) by lia. reflexivity.
Qed.

End AlgebraicRep.
