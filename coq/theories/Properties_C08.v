(* Properties_C08.v — C08: interrupted or failing writes never pass as success or load as another table.
   Statements only; proofs in C08_Proofs.v; models in WriteModel.v (writers, schedule, cfitsio's bytes) and FitsModel.v (reader). *)
From Coq Require Import List NArith ZArith Bool Arith.
From PS Require Import Generated_fits FitsModel FitsWf WriteModel C08_Proofs.
Import ListNotations.
Local Open Scope nat_scope.

(* (A) error propagation, code after the fixes.  For both writers (write_fits / write_fits_mem; the C wrappers turn the
   exception into a non-zero return value), every table and EVERY failure oracle over the cfitsio calls the writer makes:
   success is reported only if no call failed ... *)
Theorem C08_success_implies_all_ok : forall w t fails,
  run_writer w t fails = Success -> forall k, k < nsteps w t -> fails k = false.
Proof. exact success_implies_all_ok. Qed.

(* ... a failure is reported at exactly the first failing call (nothing after it is attempted, nothing before it failed) ... *)
Theorem C08_failure_is_first_fault : forall w t fails j,
  run_writer w t fails = Failed j <-> (j < nsteps w t /\ fails j = true /\ forall i, i < j -> fails i = false).
Proof. exact failure_is_first_fault. Qed.

(* ... and a run without failing calls does report success (the theorem above is not true for the wrong reason) *)
Theorem C08_all_ok_implies_success : forall w t fails,
  (forall k, k < nsteps w t -> fails k = false) -> run_writer w t fails = Success.
Proof. exact all_ok_implies_success. Qed.

(* the code BEFORE fix C08_1 (regression statement about the old model): for every table and both writers the last call is
   the unchecked fits_close_file of the scope guard, and the oracle that fails exactly that call yields Success — D5 *)
Theorem C08_refuted_close_error_old : forall w t,
  close_index_old w t < length (steps_old w t) /\
  nth_error (steps_old w t) (close_index_old w t) = Some (unchk CClose) /\
  run_writer_old w t (fun k => k =? close_index_old w t) = Success.
Proof. exact old_close_error_swallowed. Qed.

(* (B) crash states.  The reader (FitsModel.read_bytes = read_fits_core over cfitsio's lazy HDU scan), on ANY prefix of ANY
   file it accepts, either fails or returns the same orders, knots, coefficients (and shape) as on the complete file:
   a prefix of a byte string never decodes to a different HDU, and the reader needs every HDU it uses. *)
Theorem C08_prefix_safe : forall final tf k, read_bytes final = Ok tf ->
  match read_bytes (firstn k final) with Error _ => True | Ok t' => same_okc t' tf end.
Proof. exact prefix_safe. Qed.

(* the write schedule of the fixed writer is one front-to-back pass (cfitsio policy oracle, tied by trace equality):
   its crash states are the prefixes of the final bytes *)
Theorem C08_crash_is_prefix : forall final k, k <= length final -> crash_of final k = firstn k final.
Proof. exact crash_of_firstn. Qed.

(* crash safety on the bytes cfitsio writes.  complete_reads_back t (decidable; the check evaluates it, extracted, on every
   generated table) says the model reader recovers orders/knots/coefficients from the COMPLETE file. *)
Theorem C08_crash_safe : forall t, complete_reads_back t = true -> forall k, k < total (sched t) ->
  match read_bytes (crash t k) with Error _ => True | Ok t' => same_okc t t' end.
Proof. exact crash_safe. Qed.

(* the same with no hypothesis about the complete file, for the model's own encoding (C06's round trip supplies it) *)
Theorem C08_crash_safe_model : forall t, wf_table t = true -> wf_doc (to_doc t) = true -> forall k,
  match read_bytes (crash_of (to_bytes t) k) with Error _ => True | Ok t' => same_okc t t' end.
Proof. exact crash_safe_model. Qed.

(* ---- the hypotheses are satisfiable, the definitions compute what they should ---- *)
Definition ex_t : table :=
  {| t_order := [1%N; 2%N];
     t_knots := [[0; 4607182418800017408; 4611686018427387904; 4613937818241073152; 9221120237041090560]%N;
                 [0; 1; 2; 3; 4; 18442240474082181120]%N];
     t_naxes := [3%N; 3%N]; t_strides := [3%N; 1%N];
     t_coeffs := [1065353216; 2143289344; 4286578688; 0; 2147483648; 1; 8388607; 2139095039; 1073741824]%N;
     t_extents := Some [4607182418800017408; 4613937818241073152; 2; 3]%N;
     t_periods := None;
     t_aux := [([75; 48]%N, [118]%N)] |}.

Example ex_wf : wf_table ex_t = true /\ complete_reads_back ex_t = true.
Proof. split; vm_compute; reflexivity. Qed.

Example ex_steps : map s_call (steps WFile ex_t) =
  [CCreateFile; CCreateImg; CWriteKey; CWriteKey; CWriteKey; CWriteKey; CWritePix;
   CCreateImg; CUpdateKey; CWritePix; CCreateImg; CUpdateKey; CWritePix; CCreateImg; CUpdateKey; CWritePix; CClose]
  /\ run_writer WFile ex_t (fun k => k =? 16) = Failed 16
  /\ run_writer_old WFile ex_t (fun k => k =? 16) = Success
  /\ run_writer WMem ex_t (fun k => (k =? 6) || (k =? 9)) = Failed 6.
Proof. repeat split; vm_compute; reflexivity. Qed.

(* 8 blocks; the file loads from the moment the last KNOTS data unit is complete (14400 + 6 words), not before;
   an EXTENTS extension that is not complete yet is not seen by the model reader (default extents; the real reader is
   stricter there and rejects the file); a crash state is never another table *)
Example ex_crash : total (sched ex_t) = 23040
  /\ (match read_bytes (crash ex_t 14447) with Error EKnotsMissing => true | _ => false end) = true
  /\ (match read_bytes (crash ex_t 14448) with Ok t' => same_okc_b ex_t t' | _ => false end) = true
  /\ (match read_bytes (crash ex_t 17280) with Ok t' => same_okc_b ex_t t' | _ => false end) = true
  /\ (match read_bytes (crash ex_t 20160) with Ok t' => same_okc_b ex_t t' | _ => false end) = true
  /\ (match read_bytes (crash ex_t 2880) with Error _ => true | _ => false end) = true.
Proof. repeat split; vm_compute; reflexivity. Qed.

Print Assumptions C08_success_implies_all_ok.
Print Assumptions C08_failure_is_first_fault.
Print Assumptions C08_all_ok_implies_success.
Print Assumptions C08_refuted_close_error_old.
Print Assumptions C08_prefix_safe.
Print Assumptions C08_crash_is_prefix.
Print Assumptions C08_crash_safe.
Print Assumptions C08_crash_safe_model.
