(* C07_Safe.v — property C07: a table satisfying safe_table has, dimension by dimension, the shape that the evaluation-safety theorems
   of C04 / C05 take as hypotheses (wf_dim: >= 2*order+2 knots, naxes = nknots-order-1, non-NaN non-decreasing knots; row_major
   strides), with knot VALUES being binary64 bit patterns ordered by d64_leb. *)
From Coq Require Import List NArith ZArith Bool Lia.
From PS Require Import Generated_fits FitsModel FitsWf C07_Checks Generated_readchecks C07_Model C07_Proofs.
From PS Require Arith EvalModel C04_Proofs C05_Proofs.
Import ListNotations.

(* bit patterns as an instance of the arithmetic interface: only the two comparisons matter to the lookup (C04/C05 lookup theorems
   assume the order laws and nothing about the arithmetic operations, which are dummies here) *)
Definition BitsA : Arith.Arith :=
  Arith.mkArith N (fun a _ => a) (fun a _ => a) (fun a _ => a) (fun a _ => a) (fun a => a) 0%N 0%N (fun _ => 0%N) d64_ltb d64_leb (fun a => a).
Definition d64_ord (x : N) : Prop := d64_nan x = false.

Lemma BitsA_laws : Arith.OrdLaws BitsA d64_ord.
Proof.
  constructor; cbn; unfold d64_ord; intros.
  - apply d64_leb_refl; assumption.
  - eapply d64_leb_trans; eassumption.
  - apply d64_leb_total; assumption.
  - apply d64_ltb_leb; assumption.
Qed.

Lemma BitsA_nan_unordered x : d64_nan x = true -> @Arith.unordered BitsA x.
Proof. intros H y. cbn. apply d64_nan_unordered. exact H. Qed.

Definition eval_dim (x : N * N * list N) (stride : N) : @EvalModel.dimn BitsA :=
  let '(o, a, k) := x in
  @EvalModel.mkDim BitsA (N.to_nat o) (Z.of_nat (length k)) (Z.of_N a) (Z.of_N stride) (fun i => nth (Z.to_nat i) k 0%N).

Lemma nondecreasing_nth k : forallb d64_finite k = true -> nondecreasing k = true ->
  forall i j, (i <= j)%nat -> (j < length k)%nat -> d64_leb (nth i k 0%N) (nth j k 0%N) = true.
Proof.
  induction k as [|a r IH]; intros Hf Hs i j Hij Hj; [cbn in Hj; lia|].
  cbn [forallb] in Hf. apply andb_true_iff in Hf. destruct Hf as [Fa Fr].
  assert (Sr : nondecreasing r = true).
  { destruct r as [|b r']; [reflexivity|]. cbn [nondecreasing] in Hs. apply andb_true_iff in Hs. tauto. }
  destruct j as [|j'].
  - assert (i = 0)%nat by lia. subst. cbn [nth]. apply d64_leb_refl, d64_finite_not_nan, Fa.
  - cbn [length] in Hj. destruct i as [|i'].
    + cbn [nth]. destruct r as [|b r']; [cbn in Hj; lia|].
      cbn [nondecreasing] in Hs. apply andb_true_iff in Hs. destruct Hs as [Hab _].
      eapply d64_leb_trans; [exact Hab|]. change b with (nth 0 (b :: r') 0%N) at 1. apply IH; try assumption; lia.
    + cbn [nth]. apply IH; try assumption; lia.
Qed.

Lemma safe_dim_wf x s : safe_dim x = true -> @C04_Proofs.wf_dim BitsA d64_ord (eval_dim x s).
Proof.
  destruct x as [[o a] k]. cbn [safe_dim]. intro H.
  apply andb_true_iff in H. destruct H as [H Hs]. apply andb_true_iff in H. destruct H as [H Hf].
  apply andb_true_iff in H. destruct H as [H1 H2]. apply N.eqb_eq in H1. apply N.leb_le in H2.
  unfold C04_Proofs.wf_dim, eval_dim. cbn [EvalModel.d_order EvalModel.d_nknots EvalModel.d_naxes EvalModel.d_kn].
  rewrite N_nat_Z. split; [lia|]. split; [lia|]. split.
  - intros i Hi. unfold d64_ord. apply d64_finite_not_nan. rewrite forallb_forall in Hf. apply Hf, nth_In. lia.
  - intros i j Hi Hij Hj. cbn. apply nondecreasing_nth; try assumption; lia.
Qed.

Lemma strides_row_major naxes : Forall (fun a => (0 < a)%N) naxes -> C05_Proofs.row_major (map Z.of_N naxes) (map Z.of_N (strides_of naxes)).
Proof.
  induction naxes as [|a r IH]; intro H; [exact I|].
  inversion H as [|? ? Ha Hr]; subst. cbn [strides_of map C05_Proofs.row_major].
  split; [lia|]. split; [apply IH; exact Hr|].
  destruct r as [|b r']; [reflexivity|]. cbn [strides_of map]. unfold prodN. cbn [fold_right]. fold (prodN r'). lia.
Qed.

Lemma in_combine_inv {A B} (l1 : list A) (l2 : list B) : length l1 = length l2 -> forall b, In b l2 -> exists a, In (a, b) (combine l1 l2).
Proof.
  revert l2. induction l1 as [|a l1 IH]; intros [|b0 l2] L b Hb; try discriminate; [destruct Hb|].
  destruct Hb as [<-|Hb]; [exists a; left; reflexivity|]. destruct (IH l2 ltac:(cbn in L; lia) b Hb) as [a' Ha']. exists a'. right. exact Ha'.
Qed.

(* the re-export: hypotheses of the lookup / evaluation safety theorems *)
Theorem wf_safe t : safe_table t = true ->
  Forall (fun x => forall s, @C04_Proofs.wf_dim BitsA d64_ord (eval_dim x s)) (dims3 t) /\
  C05_Proofs.row_major (map Z.of_N (t_naxes t)) (map Z.of_N (t_strides t)) /\
  Z.of_nat (length (t_coeffs t)) = fold_right Z.mul 1%Z (map Z.of_N (t_naxes t)) /\
  length (dims3 t) = length (t_order t).
Proof.
  unfold safe_table. intro H.
  repeat (apply andb_true_iff in H; destruct H as [H ?]).
  rename H0 into Hex, H1 into Hsd, H2 into Hco, H3 into Hst, H4 into Lna, H5 into Lkn.
  apply Nat.eqb_eq in Lna, Lkn, Hco. apply C06_Proofs.str_eqb_eq in Hst.
  rewrite forallb_forall in Hsd.
  assert (Ld : length (dims3 t) = length (t_order t)).
  { unfold dims3. rewrite !combine_length. lia. }
  split; [apply Forall_forall; intros x Hx s; apply safe_dim_wf, Hsd, Hx|].
  split; [|split; [|exact Ld]].
  - rewrite Hst. apply strides_row_major. apply Forall_forall. intros a Ha.
    (* a is the axis of some dimension, whose safe_dim gives order + 1 <= a *)
    assert (E : exists o k, In (o, a, k) (dims3 t)).
    { unfold dims3. destruct (in_combine_inv (t_order t) (t_naxes t) ltac:(lia) a Ha) as [o Ho].
      assert (L2 : length (combine (t_order t) (t_naxes t)) = length (t_knots t)) by (rewrite combine_length; lia).
      clear - Ho L2. revert L2 Ho. generalize (combine (t_order t) (t_naxes t)) (t_knots t). intros l1. induction l1 as [|p l1 IH]; intros [|k l2] L Hin; try discriminate; [destruct Hin|].
      destruct Hin as [->|Hin]; [exists o, k; left; reflexivity|]. destruct (IH l2 ltac:(cbn in L; lia) Hin) as [o' [k' H']]. exists o', k'. right. exact H'. }
    destruct E as [o [k Hin]]. specialize (Hsd _ Hin). cbn [safe_dim] in Hsd.
    apply andb_true_iff in Hsd; destruct Hsd as [Hsd _]. apply andb_true_iff in Hsd; destruct Hsd as [Hsd _].
    apply andb_true_iff in Hsd; destruct Hsd as [_ Hle]. apply N.leb_le in Hle. lia.
  - rewrite Hco, N_nat_Z. generalize (t_naxes t). intro l. induction l as [|a l IH]; [reflexivity|]. unfold prodN in *. cbn [fold_right map]. rewrite N2Z.inj_mul, IH. reflexivity.
Qed.

(* consequence, through C04: on an accepted table the center lookup terminates for every non-NaN coordinate vector *)
Theorem safe_lookup_terminates t (cf : Z -> N) (xs : list N) :
  safe_table t = true -> Forall d64_ord xs -> length xs = length (t_order t) ->
  @EvalModel.searchcenters BitsA (@EvalModel.mkTable BitsA (map (fun x => eval_dim x 0%N) (dims3 t)) cf) xs <> EvalModel.CNoFuel.
Proof.
  intros Hs Hx Hl. destruct (wf_safe t Hs) as [Hw [_ [_ Ld]]].
  apply (@C04_Proofs.sc_terminates BitsA d64_ord BitsA_laws).
  - cbn [EvalModel.dims]. apply Forall_map. revert Hw. apply Forall_impl. intros x Hxx. apply Hxx.
  - exact Hx.
  - cbn. rewrite map_length, Hl, Ld. reflexivity.
Qed.
