(* C18_Proofs.v — proofs about CApiModel (the extern "C" layer as glue around ObjModel.cpp_step). *)
From Coq Require Import List Arith Bool String Lia Permutation.
From PS Require Import ObjResource ObjModel CGlue CApiModel Generated_cinter Generated_objfixes.
Import ListNotations.
Open Scope string_scope.

(* ---------------------------------------------------------------------------------------------- *)
(** * 1. No exception leaves an extern "C" function *)

Lemma step_destroy_not_failed : forall c F w j w' r, cpp_step c F w (ODestroy j) = (w', Failed r) -> False.
Proof.
  intros c F w j w' r. unfold cpp_step, step. destruct (crashed w); [discriminate|].
  cbn [target]. destruct (get_obj w j); [|discriminate].
  destruct (negb (safe c o None (ODestroy j))); discriminate.
Qed.

Lemma step_eval_not_failed : forall c F w j w' r, cpp_step c F w (OEval j) = (w', Failed r) -> False.
Proof.
  intros c F w j w' r. unfold cpp_step, step. destruct (crashed w); [discriminate|].
  cbn [target]. destruct (get_obj w j); [|discriminate].
  destruct (negb (safe c o None (OEval j))); [discriminate|].
  destruct (Nat.eqb (ndim o) 0); discriminate.
Qed.

Lemma lift_destroy_no_throw : forall c F cs j cs' r, lift_step c F cs (ODestroy j) = (cs', BThrow r) -> False.
Proof.
  intros c F cs j cs' r. unfold lift_step. destruct (cpp_step c F (cw cs) (ODestroy j)) as [w' o] eqn:E.
  destruct o; try discriminate. intros _. eapply step_destroy_not_failed; eauto.
Qed.
Lemma lift_eval_no_throw : forall c F cs j cs' r, lift_step c F cs (OEval j) = (cs', BThrow r) -> False.
Proof.
  intros c F cs j cs' r. unfold lift_step. destruct (cpp_step c F (cw cs) (OEval j)) as [w' o] eqn:E.
  destruct o; try discriminate. intros _. eapply step_eval_not_failed; eauto.
Qed.

Lemma body_throw_may_throw : forall g c F GF cs call cs' r,
  body g c F GF cs call = (cs', BThrow r) -> may_throw (c_args call) = true.
Proof.
  intros g c F GF cs call cs' r. unfold body. destruct (c_args call) eqn:A; cbn [may_throw]; try reflexivity; intros H; exfalso.
  - (* AFree *) unfold do_free in H. destruct (live cs (c_h call)); [|discriminate].
    destruct (lift_step c F cs (ODestroy (c_h call))) as [cs1 b] eqn:E. destruct b; try discriminate.
    inversion H; subst. eapply lift_destroy_no_throw; eauto.
  - (* AGetKey *) destruct (aux_ok _); [|discriminate]. destruct (find_key _ _ _); discriminate.
  - (* AReadKey *) destruct (aux_ok _); [|discriminate]. destruct (find_key _ _ _); [destruct parses|]; discriminate.
  - (* AAcc *) destruct a; try (destruct (live cs (c_h call)); discriminate);
      destruct (built _ && has_extents _); discriminate.
  - (* ASearch *) destruct (lift_step c F cs (OEval (c_h call))) as [cs1 b] eqn:E. destruct b; try discriminate.
    + destruct inside; discriminate.
    + inversion H; subst. eapply lift_eval_no_throw; eauto.
  - (* AEval *) eapply lift_eval_no_throw; eauto.
  - (* ADeriv *) eapply lift_eval_no_throw; eauto.
  - (* ABufFree *) discriminate.
  - (* ANdDestroy *) destruct (is_null _); [discriminate|]. destruct (String.eqb _ _); discriminate.
Qed.

Definition shape_of (a : cargs) : cargs :=
  match a with
  | ARead _ => ARead sample_file | AWrite _ => AWrite false | AGetKey _ => AGetKey 0 | AReadKey _ _ => AReadKey 0 false
  | AWriteKey _ _ => AWriteKey false sample_aux | ASearch _ => ASearch false | AConvolve _ _ => AConvolve 0 0
  | AReadMem _ => AReadMem sample_file | AWriteMem _ _ _ => AWriteMem 0 0 false | AFit _ => AFit sample_fit
  | AGrideval _ _ => AGrideval 0 0 | ANdDestroy _ => ANdDestroy 0 | APermute _ => APermute [] | x => x
  end.

Lemma shape_exists : forall a, may_throw a = true ->
  exists s, In s all_shapes /\ fname s = fname a /\ may_throw s = may_throw a.
Proof.
  intros a H. exists (shape_of a).
  destruct a; try discriminate H; (split; [ unfold all_shapes, all_accs; cbn [map app shape_of]; cbn [In]; tauto | split; reflexivity ]).
Qed.

Lemma protected_all : forall gt, forallb (glue_protected gt) all_shapes = true ->
  forall a, glue_protected gt a = true.
Proof.
  intros gt H a. destruct (may_throw a) eqn:M.
  - destruct (shape_exists a M) as [s [Hin [Hn Hm]]].
    rewrite forallb_forall in H. specialize (H s Hin). unfold glue_protected in *. rewrite <- Hn, <- Hm. exact H.
  - unfold glue_protected. rewrite M. apply orb_true_r.
Qed.

Theorem no_escape : forall gt c F GF cs call r,
  forallb (glue_protected gt) all_shapes = true ->
  snd (c_call gt c F GF cs call) <> Escaped r.
Proof.
  intros gt c F GF cs call r Hp. unfold c_call.
  destruct (dead cs); [cbn; discriminate|].
  destruct (existsb _ (g_pre_deref _)); [cbn; discriminate|].
  destruct (existsb _ (g_checked _)).
  { cbn [snd]. destruct (g_check_ret _); cbn; discriminate. }
  destruct (existsb _ (derefs _)); [cbn; discriminate|].
  destruct (body _ c F GF cs call) as [cs' b] eqn:B. destruct b.
  - cbn [snd]. unfold ret_ok. destruct (g_ok_ret _); cbn; try discriminate.
    destruct (String.eqb _ "const char*"); [discriminate|]. destruct (String.eqb _ "int"); discriminate.
  - cbn [snd]. unfold ret_false. destruct (g_false_ret _); cbn; try discriminate.
    destruct (String.eqb _ "const char*"); discriminate.
  - pose proof (body_throw_may_throw _ _ _ _ _ _ _ _ B) as M.
    pose proof (protected_all gt Hp (c_args call)) as P. unfold glue_protected in P. rewrite M in P. cbn in P.
    rewrite orb_false_r in P. rewrite P. cbn [snd]. destruct (g_catch_ret _); cbn; discriminate.
  - cbn; discriminate.
Qed.

Lemma tree_glue_ok : glue_ok wrappers = true.
Proof. vm_compute. reflexivity. Qed.

(* ---------------------------------------------------------------------------------------------- *)
(** * 2. Faithfulness: a wrapper = its C++ twin, outcome mapped to the return convention *)

Lemma existsb_inb_nil : forall l, existsb (fun a => inb a []) l = false.
Proof. induction l; cbn; auto. Qed.
Lemma existsb_in_nil : forall (f : string -> list string) l, (forall a, f a = []) -> existsb (fun a => inb a (f a)) l = false.
Proof. intros f l H. induction l; cbn; auto. rewrite H. cbn. exact IHl. Qed.

Theorem faithful_step : forall gt c F GF cs call x,
  dead cs = false -> c_nulls call = [] -> live cs (c_h call) = true ->
  single_twin (c_args call) (c_h call) = Some x ->
  c_call gt c F GF cs call =
    (after (glue_of gt (fname (c_args call))) cs (fst (cpp_step c F (cw cs) x)) (snd (cpp_step c F (cw cs) x)),
     lift (glue_of gt (fname (c_args call))) (snd (cpp_step c F (cw cs) x))).
Proof.
  intros gt c F GF cs call x Hd Hn Hl Ht. unfold c_call. rewrite Hd.
  assert (E : eff_nulls cs call = []).
  { unfold eff_nulls. rewrite Hn, Hl. cbn. destruct (c_args call); try discriminate Ht; reflexivity. }
  rewrite E, Hn. rewrite !existsb_inb_nil.
  unfold body. destruct (c_args call); try discriminate Ht; cbn in Ht; inversion Ht; subst x;
    unfold lift_step; destruct (cpp_step c F (cw cs) _) as [w' o]; destruct o; cbn [fst snd after lift]; try reflexivity.
  all: try (destruct (g_try _); reflexivity).
Qed.

Theorem failure_signalled : forall g r, g_try g = true -> catch_signals g = true -> signals_failure (lift g (Failed r)) = true.
Proof.
  intros g r Ht Hc. unfold lift. rewrite Ht. unfold catch_signals in Hc. rewrite Ht in Hc. cbn in Hc.
  destruct (g_catch_ret g); try discriminate Hc; reflexivity.
Qed.
Theorem success_not_failure : forall g, g_ok_ret g = CR0 \/ g_ok_ret g = CRVoid \/ (g_ok_ret g = CRValue /\ g_rtype g = "double") ->
  signals_failure (lift g Ok) = false.
Proof.
  intros g [H|[H|[H H']]]; unfold lift, ret_ok; rewrite H; try reflexivity. rewrite H'. reflexivity.
Qed.

(* ---------------------------------------------------------------------------------------------- *)
(** * 3. The glue's own allocations are balanced over every valid call sequence *)
Local Close Scope string_scope.
Local Open Scope list_scope.
Arguments p_h : simpl never.
Arguments p_b : simpl never.
Arguments p_rs : simpl never.
Arguments p_rp : simpl never.

Lemma replay_app : forall a b h, replay (a ++ b) h = match replay a h with Some h' => replay b h' | None => None end.
Proof. induction a as [|e a IH]; intros b h; cbn; auto. destruct (replay_ev h e); auto. Qed.

Lemma lookup_none : forall id h, (forall b, ~ In (id, b) h) -> lookup id h = None.
Proof.
  induction h as [|[i b] t IH]; intros H; cbn; auto. destruct (Nat.eqb_spec i id) as [E|E].
  - subst. exfalso. apply (H b). left; auto.
  - apply IH. intros b' Hin. apply (H b'). right; auto.
Qed.

Lemma lookup_in : forall id b h, NoDup (map fst h) -> In (id, b) h -> lookup id h = Some b.
Proof.
  induction h as [|[i b'] t IH]; intros Hnd Hin; cbn in *; [contradiction|].
  inversion Hnd as [|x l Hni Hnd']; subst. destruct Hin as [E|Hin].
  - inversion E; subst. rewrite Nat.eqb_refl. auto.
  - destruct (Nat.eqb_spec i id) as [E|E]; auto. subst. exfalso. apply Hni. change id with (fst (id, b)). apply in_map. auto.
Qed.

Lemma remove_id_perm : forall id b h, NoDup (map fst h) -> In (id, b) h -> Permutation h ((id, b) :: remove_id id h).
Proof.
  induction h as [|[i c] t IH]; intros Hnd Hin; cbn in *; [contradiction|].
  inversion Hnd as [|x l Hni Hnd']; subst. destruct Hin as [E|Hin].
  - inversion E; subst. rewrite Nat.eqb_refl. apply Permutation_refl.
  - destruct (Nat.eqb_spec i id) as [E|E].
    + subst. exfalso. apply Hni. change id with (fst (id, b)). apply in_map. auto.
    + eapply perm_trans; [apply perm_skip; apply IH; auto|]. apply perm_swap.
Qed.

Lemma set_nth_split : forall (l : list slot) p v, p < List.length l ->
  exists l1 l2, l = l1 ++ nth p l Null :: l2 /\ set_nth l p v = l1 ++ v :: l2.
Proof.
  induction l as [|a l IH]; intros p v H; cbn in *; [lia|]. destruct p as [|p].
  - exists [], l. auto.
  - destruct (IH p v) as [l1 [l2 [E1 E2]]]; [lia|]. exists (a :: l1), l2. cbn. rewrite <- E1, E2. auto.
Qed.
Lemma set_nth_length : forall (l : list slot) p v, List.length (set_nth l p v) = List.length l.
Proof. induction l as [|a l IH]; intros p v; cbn; auto. destruct p; cbn; auto. Qed.
Lemma nth_set_nth_same : forall (l : list slot) p v, p < List.length l -> nth p (set_nth l p v) Null = v.
Proof. induction l as [|a l IH]; intros p v H; cbn in *; [lia|]. destruct p; cbn; auto. apply IH. lia. Qed.
Lemma nth_set_nth_other : forall (l : list slot) p q v, q <> p -> nth q (set_nth l p v) Null = nth q l Null.
Proof.
  induction l as [|a l IH]; intros p q v H; cbn; auto. destruct p, q; cbn; auto; try lia.
Qed.

Definition blocks (l : list slot) : list (nat * nat) := flat_map (fun s => match s with Owned id b => [(id, b)] | _ => [] end) l.
Definition good_slot (s : slot) : Prop := s = Null \/ exists id b, s = Owned id b.
Lemma blocks_app : forall a b, blocks (a ++ b) = blocks a ++ blocks b.
Proof. intros. unfold blocks. apply flat_map_app. Qed.

Definition sized (cs : cstate) (p bytes : nat) : Prop := gget cs p = Null \/ exists id, gget cs p = Owned id bytes.

Record ginv (cs : cstate) : Prop := {
  gi_replay : replay (rev (trace (gm cs))) [] = Some (hp (gm cs));
  gi_next : forall id b, In (id, b) (hp (gm cs)) -> id < next (gm cs);
  gi_nodup : NoDup (map fst (hp (gm cs)));
  gi_perm : Permutation (blocks (gs cs)) (hp (gm cs));
  gi_good : Forall good_slot (gs cs);
  gi_len : List.length (gs cs) = 10;
  gi_tab : forall k, k < 4 -> sized cs (p_h k) sz_table;
  gi_res : forall r, r < 2 -> sized cs (p_rs r) sz_nd
}.

Lemma ginv0 : ginv cstate0.
Proof.
  constructor; cbn; auto.
  - intros; contradiction.
  - constructor.
  - repeat constructor; left; reflexivity.
  - intros k H. left. unfold gget, p_h. cbn. do 4 (destruct k; [reflexivity|]). lia.
  - intros r H. left. unfold gget, p_rs. cbn. do 2 (destruct r; [reflexivity|]). lia.
Qed.

(* state components other than the glue's do not matter *)
Lemma ginv_ext : forall cs cs', gm cs' = gm cs -> gs cs' = gs cs -> ginv cs -> ginv cs'.
Proof.
  intros cs cs' Em Es [a b c d e f g h].
  constructor; unfold sized, gget in *; rewrite ?Em, ?Es; auto.
Qed.

Lemma g_new_fail_inv : forall GF cs p bytes m', ginv cs -> g_new GF cs p bytes = (None, m') -> ginv (with_g cs m' (gs cs)).
Proof.
  intros GF cs p bytes m' [a b c d e f g h]. unfold g_new, m_alloc. destruct (GF _); [|discriminate].
  intros E. inversion E; subst. constructor; unfold sized, gget in *; cbn; auto.
Qed.

Lemma g_new_inv : forall GF cs p bytes cs' m', ginv cs -> p < 10 -> gget cs p = Null ->
  g_new GF cs p bytes = (Some cs', m') ->
  (forall k, k < 4 -> p = p_h k -> bytes = sz_table) -> (forall r, r < 2 -> p = p_rs r -> bytes = sz_nd) ->
  ginv cs' /\ cw cs' = cw cs /\ dead cs' = dead cs /\ (forall q, q <> p -> gget cs' q = gget cs q) /\ gget cs' p <> Null.
Proof.
  intros GF cs p bytes cs' m' [Hr Hn Hd Hp Hg Hl Ht Hs] Hlt Hnull. unfold g_new, m_alloc. destruct (GF _); [discriminate|].
  intros E Hszt Hszr. inversion E; subst; clear E. rewrite Hnull. cbn [m_lose].
  destruct (set_nth_split (gs cs) p (Owned (next (gm cs)) bytes)) as [l1 [l2 [E1 E2]]]; [lia|].
  unfold gget in Hnull. rewrite Hnull in E1.
  assert (Hfresh : forall b, ~ In (next (gm cs), b) (hp (gm cs))). { intros b Hin. apply Hn in Hin. lia. }
  split; [|split; [reflexivity|split; [reflexivity|split]]].
  - constructor; cbn.
    + rewrite replay_app, Hr. cbn. rewrite lookup_none; auto.
    + intros id b [E|Hin]. inversion E; subst. lia. apply Hn in Hin. lia.
    + constructor; auto. intros Hin. apply in_map_iff in Hin. destruct Hin as [[i b] [E Hin]]. cbn in E. subst. eapply Hfresh; eauto.
    + rewrite E2. rewrite E1 in Hp. rewrite blocks_app in *. cbn in *. apply Permutation_sym, Permutation_cons_app, Permutation_sym. exact Hp.
    + rewrite E2. rewrite E1 in Hg. apply Forall_app in Hg. destruct Hg as [G1 G2]. inversion G2; subst.
      apply Forall_app. split; auto. constructor; auto. right. eauto.
    + rewrite set_nth_length. auto.
    + intros k Hk. unfold sized, gget. cbn. destruct (Nat.eq_dec (p_h k) p) as [Ep|Ep].
      * rewrite Ep. rewrite nth_set_nth_same by lia. right. rewrite (Hszt k Hk (eq_sym Ep)). eauto.
      * rewrite nth_set_nth_other by auto. apply Ht; auto.
    + intros r Hk. unfold sized, gget. cbn [gs with_g]. destruct (Nat.eq_dec (p_rs r) p) as [Ep|Ep].
      * rewrite Ep. rewrite nth_set_nth_same by lia. right. rewrite (Hszr r Hk (eq_sym Ep)). eauto.
      * rewrite nth_set_nth_other by auto. apply Hs; auto.
  - intros q Hq. unfold gget. cbn. apply nth_set_nth_other. auto.
  - unfold gget. cbn. rewrite nth_set_nth_same by lia. discriminate.
Qed.

Lemma g_del_inv : forall cs p claimed, ginv cs -> p < 10 -> (forall id b, gget cs p = Owned id b -> claimed = b) ->
  ginv (g_del cs p claimed) /\ cw (g_del cs p claimed) = cw cs /\ dead (g_del cs p claimed) = dead cs
  /\ (forall q, q <> p -> gget (g_del cs p claimed) q = gget cs q) /\ gget (g_del cs p claimed) p = Null.
Proof.
  intros cs p claimed I Hlt Hc. pose proof I as [Hr Hn Hd Hp Hg Hl Ht Hs]. unfold g_del.
  assert (Hgood : good_slot (gget cs p)).
  { rewrite Forall_forall in Hg. apply Hg. unfold gget. apply nth_In. lia. }
  destruct Hgood as [E|[id [b E]]]; rewrite E.
  { repeat split; auto. }
  specialize (Hc id b E). subst claimed.
  destruct (set_nth_split (gs cs) p Null) as [l1 [l2 [E1 E2]]]; [lia|]. unfold gget in E. rewrite E in E1.
  assert (Hin : In (id, b) (hp (gm cs))).
  { eapply Permutation_in; [exact Hp|]. rewrite E1, blocks_app. apply in_or_app. right. cbn. left. auto. }
  split; [|split; [reflexivity|split; [reflexivity|split]]].
  - constructor; cbn.
    + rewrite replay_app, Hr. cbn. rewrite (lookup_in id b) by auto. rewrite Nat.eqb_refl. reflexivity.
    + intros i c Hi. apply Hn with c.
      eapply Permutation_in; [apply Permutation_sym; apply (remove_id_perm id b); auto|]. right. exact Hi.
    + pose proof (remove_id_perm id b _ Hd Hin) as P. apply (Permutation_map fst) in P. cbn in P.
      eapply Permutation_NoDup in P; [|exact Hd]. inversion P; auto.
    + rewrite E2. rewrite E1 in Hp. rewrite blocks_app in *. cbn in *.
      pose proof (remove_id_perm id b _ Hd Hin) as P.
      apply Permutation_cons_inv with (a := (id, b)). eapply perm_trans; [|exact P].
      eapply perm_trans; [|exact Hp]. apply Permutation_middle.
    + rewrite E2. rewrite E1 in Hg. apply Forall_app in Hg. destruct Hg as [G1 G2]. inversion G2; subst.
      apply Forall_app. split; auto. constructor; auto. left. auto.
    + rewrite set_nth_length. auto.
    + intros k Hk. unfold sized, gget. cbn. destruct (Nat.eq_dec (p_h k) p) as [Ep|Ep].
      * rewrite Ep. rewrite nth_set_nth_same by lia. left. auto.
      * rewrite nth_set_nth_other by auto. apply Ht; auto.
    + intros r Hk. unfold sized, gget. cbn [gs with_g]. destruct (Nat.eq_dec (p_rs r) p) as [Ep|Ep].
      * rewrite Ep. rewrite nth_set_nth_same by lia. left. auto.
      * rewrite nth_set_nth_other by auto. apply Hs; auto.
  - intros q Hq. unfold gget. cbn. apply nth_set_nth_other. auto.
  - unfold gget. cbn. rewrite nth_set_nth_same by lia. auto.
Qed.

Lemma lift_step_glue : forall c F cs x cs' b, lift_step c F cs x = (cs', b) -> gm cs' = gm cs /\ gs cs' = gs cs.
Proof.
  intros c F cs x cs' b. unfold lift_step. destruct (cpp_step c F (cw cs) x) as [w' o]. destruct o; intros E; inversion E; subst; auto.
Qed.
Lemma lift_step_inv : forall c F cs x cs' b, ginv cs -> lift_step c F cs x = (cs', b) -> ginv cs'.
Proof. intros c F cs x cs' b I E. apply lift_step_glue in E. destruct E. eapply ginv_ext; eauto. Qed.
Lemma lift_step_gget : forall c F cs x cs' b p, lift_step c F cs x = (cs', b) -> gget cs' p = gget cs p.
Proof. intros c F cs x cs' b p E. apply lift_step_glue in E. destruct E as [_ E]. unfold gget. rewrite E. auto. Qed.

Lemma sized_claim : forall cs p bytes, sized cs p bytes -> forall id b, gget cs p = Owned id b -> bytes = b.
Proof. intros cs p bytes [E|[i E]] id b H; rewrite E in H; inversion H; auto. Qed.

Lemma do_free_inv : forall c F cs k cs' b, ginv cs -> k < 4 -> do_free c F cs k = (cs', b) ->
  ginv cs' /\ (b = BOk -> gget cs' (p_h k) = Null).
Proof.
  intros c F cs k cs' b I Hk. unfold do_free, live. destruct (is_null (gget cs (p_h k))) eqn:N; cbn [negb].
  - intros E. inversion E; subst. split; auto. intros _. destruct (gget cs' (p_h k)); try discriminate; auto.
  - destruct (lift_step c F cs (ODestroy k)) as [cs1 b1] eqn:L. pose proof (lift_step_inv _ _ _ _ _ _ I L) as I1.
    destruct b1; intros E; inversion E; subst; try (split; [auto|discriminate]).
    destruct (g_del_inv cs1 (p_h k) sz_table I1) as [I2 [_ [_ [_ Hn]]]].
    { unfold p_h; lia. } { intros id b Hs. eapply sized_claim; eauto. apply (gi_tab _ I1); auto. }
    split; auto.
Qed.

Lemma ph_lt : forall k, k < 4 -> p_h k < 10. Proof. unfold p_h; lia. Qed.
Lemma pb_lt : forall b, b < 2 -> p_b b < 10. Proof. unfold p_b; lia. Qed.
Lemma prs_lt : forall r, r < 2 -> p_rs r < 10. Proof. unfold p_rs; lia. Qed.
Lemma prp_lt : forall r, r < 2 -> p_rp r < 10. Proof. unfold p_rp; lia. Qed.

Lemma body_inv : forall g c F GF cs call cs' b,
  ginv cs -> valid_call cs call = true ->
  (forall f, c_args call = ARead f -> g_free_first g = true) ->
  (forall r, c_args call = ANdDestroy r -> String.eqb (g_member g) "delete photospline::ndsparse" = true) ->
  body g c F GF cs call = (cs', b) -> ginv cs'.
Proof.
  intros g c F GF cs call cs' b I V Hff Hty. unfold valid_call in V.
  apply andb_true_iff in V. destruct V as [V V3]. apply andb_true_iff in V. destruct V as [Vk _].
  apply Nat.ltb_lt in Vk. assert (Hk4 : c_h call < 4) by lia.
  unfold body. destruct (c_args call) eqn:A.
  - (* AInit *)
    apply negb_true_iff in V3. unfold live in V3. apply negb_false_iff in V3.
    assert (N : gget (abandon cs (c_h call)) (p_h (c_h call)) = Null).
    { unfold abandon. destruct (get_obj _ _); destruct (gget cs (p_h (c_h call))) eqn:G; try discriminate; unfold gget in *; cbn; auto. }
    assert (I0 : ginv (abandon cs (c_h call))).
    { eapply ginv_ext; [| |exact I]; unfold abandon; destruct (get_obj _ _); reflexivity. }
    destruct (g_new GF (abandon cs (c_h call)) (p_h (c_h call)) sz_table) as [[cs1|] m'] eqn:G.
    + destruct (g_new_inv _ _ _ _ _ _ I0 (ph_lt _ Hk4) N G) as [I1 _]; auto.
      { intros r Hr E. unfold p_h, p_rs in E. lia. }
      intros L. eapply lift_step_inv; eauto.
    + intros E. inversion E; subst. pose proof (g_new_fail_inv _ _ _ _ _ I0 G) as I1.
      eapply ginv_ext; [| |exact I1]; unfold abandon; destruct (get_obj _ _); reflexivity.
  - (* AFree *) intros E. eapply do_free_inv; eauto.
  - (* ARead *)
    rewrite (Hff f eq_refl).
    destruct (do_free c F cs (c_h call)) as [cs1 b1] eqn:D. destruct (do_free_inv _ _ _ _ _ _ I Hk4 D) as [I1 N1].
    destruct b1; try (intros E; inversion E; subst; exact I1).
    specialize (N1 eq_refl).
    destruct (g_new GF cs1 (p_h (c_h call)) sz_table) as [[cs2|] m'] eqn:G.
    + destruct (g_new_inv _ _ _ _ _ _ I1 (ph_lt _ Hk4) N1 G) as [I2 _]; auto.
      { intros r Hr E. unfold p_h, p_rs in E. lia. }
      destruct (lift_step c F cs2 (ONewRead (c_h call) f)) as [cs3 b3] eqn:L.
      pose proof (lift_step_inv _ _ _ _ _ _ I2 L) as I3.
      destruct b3; intros E; inversion E; subst; auto.
      apply g_del_inv; auto. { unfold p_h; lia. }
      intros id bb Hs. eapply sized_claim; eauto. apply (gi_tab _ I3); auto.
    + intros E. inversion E; subst. eapply g_new_fail_inv; eauto.
  - (* AWrite *) intros L. eapply lift_step_inv; eauto.
  - (* AGetKey *) destruct (aux_ok _); [destruct (find_key _ _ _)|]; intros E; inversion E; subst; auto.
  - (* AReadKey *) destruct (aux_ok _); [destruct (find_key _ _ _); [destruct parses|]|]; intros E; inversion E; subst; auto.
  - (* AWriteKey *) intros L. eapply lift_step_inv; eauto.
  - (* AAcc *) destruct a; try destruct (live cs (c_h call)); try destruct (built _ && has_extents _); intros E; inversion E; subst; auto.
  - (* ASearch *) destruct (lift_step c F cs (OEval (c_h call))) as [cs1 b1] eqn:L. pose proof (lift_step_inv _ _ _ _ _ _ I L).
    destruct b1; intros E; inversion E; subst; auto.
  - intros L. eapply lift_step_inv; eauto.
  - intros L. eapply lift_step_inv; eauto.
  - (* AGrad *) destruct (lift_step c F cs (OEval (c_h call))) as [cs1 b1] eqn:L. pose proof (lift_step_inv _ _ _ _ _ _ I L).
    destruct b1; try destruct (Nat.ltb _ _); intros E; inversion E; subst; auto.
  - intros L. eapply lift_step_inv; eauto.
  - (* AReadMem *)
    unfold live. destruct (is_null (gget cs (p_h (c_h call)))) eqn:N; cbn [negb].
    + assert (N' : gget cs (p_h (c_h call)) = Null) by (destruct (gget cs (p_h (c_h call))); try discriminate; auto).
      destruct (g_new GF cs (p_h (c_h call)) sz_table) as [[cs1|] m'] eqn:G.
      * destruct (g_new_inv _ _ _ _ _ _ I (ph_lt _ Hk4) N' G) as [I1 _]; auto.
        { intros r Hr E. unfold p_h, p_rs in E. lia. }
        destruct (lift_step c F cs1 (ONew (c_h call))) as [cs2 b2] eqn:L. pose proof (lift_step_inv _ _ _ _ _ _ I1 L) as I2.
        destruct b2; try (intros E; inversion E; subst; exact I2). intros L2. eapply lift_step_inv; eauto.
      * intros E. inversion E; subst. eapply g_new_fail_inv; eauto.
    + intros L. eapply lift_step_inv; eauto.
  - (* AWriteMem *)
    apply andb_true_iff in V3. destruct V3 as [Vb Vn]. apply Nat.ltb_lt in Vb.
    destruct (lift_step c F cs (OWrite (c_h call) fails)) as [cs1 b1] eqn:L. pose proof (lift_step_inv _ _ _ _ _ _ I L) as I1.
    destruct b1; try (intros E; inversion E; subst; exact I1).
    assert (N : gget cs1 (p_b b0) = Null).
    { rewrite (lift_step_gget _ _ _ _ _ _ _ L). destruct (gget cs (p_b b0)); try discriminate; auto. }
    destruct (g_new GF cs1 (p_b b0) bytes) as [[cs2|] m'] eqn:G.
    + destruct (g_new_inv _ _ _ _ _ _ I1 (pb_lt _ Vb) N G) as [I2 _].
      { intros k Hk E. unfold p_h, p_b in E. lia. } { intros r Hr E. unfold p_b, p_rs in E. lia. }
      intros E. inversion E; subst; auto.
    + intros E. inversion E; subst. eapply g_new_fail_inv; eauto.
  - (* ABufFree *)
    apply Nat.ltb_lt in V3. intros E. inversion E; subst. apply g_del_inv; auto. { unfold p_b; lia. }
    intros id bb Hs. rewrite Hs. reflexivity.
  - intros L. eapply lift_step_inv; eauto.
  - (* AGrideval *)
    apply andb_true_iff in V3. destruct V3 as [V3 Vp]. apply andb_true_iff in V3. destruct V3 as [Vr Vs]. apply Nat.ltb_lt in Vr.
    destruct (negb _); [intros E; inversion E; subst; auto|].
    destruct (Nat.eqb rows 0); [intros E; inversion E; subst; auto|].
    assert (Ns : gget cs (p_rs r) = Null) by (destruct (gget cs (p_rs r)); try discriminate; auto).
    assert (Np : gget cs (p_rp r) = Null) by (destruct (gget cs (p_rp r)); try discriminate; auto).
    destruct (g_new GF cs (p_rs r) sz_nd) as [[cs1|] m'] eqn:G.
    + destruct (g_new_inv _ _ _ _ _ _ I (prs_lt _ Vr) Ns G) as [I1 [_ [_ [Ho _]]]]; auto.
      { intros k Hk E. unfold p_h, p_rs in E. lia. }
      assert (Np1 : gget cs1 (p_rp r) = Null). { rewrite Ho; auto. unfold p_rp, p_rs. lia. }
      destruct (g_new GF cs1 (p_rp r) _) as [[cs2|] m''] eqn:G2.
      * destruct (g_new_inv _ _ _ _ _ _ I1 (prp_lt _ Vr) Np1 G2) as [I2 _].
        { intros k Hk E. unfold p_h, p_rp in E. lia. } { intros r' Hr E. unfold p_rp, p_rs in E. lia. }
        intros E. inversion E; subst; auto.
      * intros E. inversion E; subst. pose proof (g_new_fail_inv _ _ _ _ _ I1 G2) as I2.
        apply g_del_inv; auto. { unfold p_rs; lia. }
        intros id bb Hs. eapply sized_claim; eauto. apply (gi_res _ I2); auto.
    + intros E. inversion E; subst. eapply g_new_fail_inv; eauto.
  - (* ANdDestroy *)
    apply Nat.ltb_lt in V3. rewrite (Hty r eq_refl).
    destruct (is_null _); intros E; inversion E; subst; auto.
    destruct (g_del_inv cs (p_rp r) (slot_bytes (gget cs (p_rp r))) I) as [I1 _].
    { unfold p_rp; lia. } { intros id bb Hs. rewrite Hs. reflexivity. }
    apply g_del_inv; auto. { unfold p_rs; lia. }
    intros id bb Hs. eapply sized_claim; eauto. apply (gi_res _ I1); auto.
  - intros L. eapply lift_step_inv; eauto.
Qed.

Lemma glue_ok_struct : forall gt, glue_ok gt = true ->
  g_free_first (glue_of gt "readsplinefitstable"%string) = true /\
  String.eqb (g_member (glue_of gt "ndsparse_destroy"%string)) "delete photospline::ndsparse"%string = true /\
  forallb (glue_protected gt) all_shapes = true.
Proof.
  intros gt H. unfold glue_ok in H. apply andb_true_iff in H; destruct H as [H H5]. apply andb_true_iff in H; destruct H as [H H4].
  apply andb_true_iff in H; destruct H as [H H3]. apply andb_true_iff in H; destruct H as [H1 H2]. auto.
Qed.

Lemma c_call_inv : forall gt c F GF cs call, glue_ok gt = true -> ginv cs -> valid_call cs call = true ->
  ginv (fst (c_call gt c F GF cs call)).
Proof.
  intros gt c F GF cs call G I V. destruct (glue_ok_struct gt G) as [H1 [H2 _]].
  assert (K : forall x, ginv x -> ginv (kill x)). { intros x Ix. eapply ginv_ext; [| |exact Ix]; reflexivity. }
  unfold c_call. destruct (dead cs); [exact I|].
  destruct (existsb _ (g_pre_deref _)); [apply K; exact I|].
  destruct (existsb _ (g_checked _)); [exact I|].
  destruct (existsb _ (derefs _)); [apply K; exact I|].
  destruct (body _ c F GF cs call) as [cs' b] eqn:B.
  assert (I' : ginv cs').
  { eapply body_inv; [exact I|exact V| | |exact B].
    - intros f A. rewrite A. exact H1.
    - intros r A. rewrite A. exact H2. }
  destruct b; cbn [fst]; auto. destruct (g_try _); cbn [fst]; auto.
Qed.

Lemma c_run_inv : forall gt c F GF calls cs, glue_ok gt = true -> ginv cs -> valid_sequence gt c F GF cs calls = true ->
  ginv (fst (c_run gt c F GF cs calls)).
Proof.
  intros gt c F GF calls. induction calls as [|x t IH]; intros cs G I V; cbn in *; auto.
  apply andb_true_iff in V. destruct V as [V1 V2].
  pose proof (c_call_inv gt c F GF cs x G I V1) as I1.
  destruct (c_call gt c F GF cs x) as [cs' r]. cbn [fst] in *.
  specialize (IH cs' G I1 V2). destruct (c_run gt c F GF cs' t) as [cs'' rs]. exact IH.
Qed.

Lemma blocks_all_null : forall l, forallb is_null l = true -> blocks l = [].
Proof.
  induction l as [|a l IH]; cbn; auto. intros H. apply andb_true_iff in H. destruct H as [Ha Hl].
  destruct a; try discriminate. cbn. auto.
Qed.

Theorem balanced_glue : forall gt c F GF calls,
  glue_ok gt = true ->
  valid_sequence gt c F GF cstate0 calls = true ->
  all_released (fst (c_run gt c F GF cstate0 calls)) = true ->
  balanced (rev (trace (gm (fst (c_run gt c F GF cstate0 calls))))).
Proof.
  intros gt c F GF calls G V R.
  pose proof (c_run_inv gt c F GF calls cstate0 G ginv0 V) as I.
  unfold balanced. rewrite (gi_replay _ I). f_equal.
  pose proof (gi_perm _ I) as P. unfold all_released in R. rewrite (blocks_all_null _ R) in P.
  apply Permutation_nil in P. exact P.
Qed.

(* the C++ side: every change of the object world made by a wrapper is a cpp_step (or the abandoning of an object by a
   second splinetable_init, which valid_call excludes) *)
Inductive cpp_reachable (c : cfg) (F : nat -> bool) : world -> Prop :=
| cr0 : cpp_reachable c F world0
| crs : forall w x, cpp_reachable c F w -> cpp_reachable c F (fst (cpp_step c F w x)).

Lemma lift_step_reach : forall c F cs x cs' b, cpp_reachable c F (cw cs) -> lift_step c F cs x = (cs', b) -> cpp_reachable c F (cw cs').
Proof.
  intros c F cs x cs' b R. unfold lift_step. pose proof (crs c F (cw cs) x R) as R'.
  destruct (cpp_step c F (cw cs) x) as [w' o]. cbn in R'. destruct o; intros E; inversion E; subst; cbn; auto.
Qed.
