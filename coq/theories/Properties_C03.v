(* Properties_C03.v — C03: the evaluation result is independent of the evaluation path selected.
   Every statement quantifies over EVERY [Arith] with no laws about +,-,*,/ or rounding: the paths perform
   the same operations in the same order, which is what bit-identity means. ([OrdLaws] on comparisons is
   used only where the lookup's postcondition is needed: order-0 dimensions of the value lane.)
   The dispatch table is the one TRANSLATED from get_evaluator in /repo's current bspline_eval.h
   (Generated.v, rewritten on every run); its obligations are re-checked here by vm_compute. *)
From Coq Require Import ZArith List Bool Lia.
From PS Require Import Arith EvalModel Generated Dispatch C04_Proofs C03_Proofs.
Import ListNotations.
Local Open Scope Z_scope.

(* translated proof obligations over the current dispatch table (finite: decided by computation) *)
Theorem C03_dispatch_table_sound : forallb case_ok dispatch_cases = true /\ forallb known_ok dispatch_known = true.
Proof. split; vm_compute; reflexivity. Qed.
Theorem C03_dispatch_table_total : dispatch_total_ok = true.
Proof. vm_compute; reflexivity. Qed.

Section C03.
Context {A : Arith}.
Variable t : @table A.
Hypothesis Hne : dims t <> [].

(* generic, per-dimension (coreD), constant-order (FixedOrder) and known-mixed-order routines agree whenever
   the specialised routine is applicable to the table — scalar and multi-basis families *)
Theorem C03_cores_agree : forall v cs lbs, variant_valid v (orders_of t) ->
  run_variant v t cs lbs = core_generic t cs lbs /\ run_variant_multi v t cs lbs = core_generic t cs lbs.
Proof. intros v cs lbs Hv. split; [exact (run_variant_generic v t cs lbs Hne Hv) | exact (run_variant_multi_generic v t cs lbs Hne Hv)]. Qed.

(* whichever routine get_evaluator selects (with or without PHOTOSPLINE_NO_EVAL_TEMPLATES), it is applicable;
   a routine is always selected *)
Theorem C03_dispatch_sound : forall templates ev vev,
  select templates (orders_of t) = Some (ev, vev) -> variant_valid ev (orders_of t) /\ variant_valid vev (orders_of t).
Proof.
  intros templates ev vev.
  exact (select_valid templates (orders_of t) ev vev (proj1 C03_dispatch_table_sound) (proj2 C03_dispatch_table_sound)).
Qed.
Theorem C03_dispatch_total : forall templates, select templates (orders_of t) <> None.
Proof. intros templates. exact (select_total templates (orders_of t) C03_dispatch_table_total). Qed.

(* hence the evaluator object returns exactly what the member functions return *)
Theorem C03_evaluator_eq_member : forall templates ev vev xs cs,
  select templates (orders_of t) = Some (ev, vev) ->
  (forall mask, ev_ndsplineeval ev t xs cs mask = ndsplineeval t xs cs mask) /\
  (forall ks, ev_ndsplineeval_deriv ev t xs cs ks = ndsplineeval_deriv t xs cs ks) /\
  ev_gradient vev t xs cs = ndsplineeval_gradient t xs cs.
Proof.
  intros templates ev vev xs cs Hsel.
  destruct (C03_dispatch_sound templates ev vev Hsel) as [Hev Hvev].
  split; [|split].
  - intros mask. exact (run_variant_generic ev t cs _ Hne Hev).
  - intros ks. exact (run_variant_generic ev t cs _ Hne Hev).
  - unfold ev_gradient, ndsplineeval_gradient. apply map_ext. intros lane.
    exact (run_variant_multi_generic vev t cs _ Hne Hvev).
Qed.

(* the gradient evaluation: lane 0 is bit-identical to the plain value, lane j+1 to the bitmask derivative 2^j,
   for centers returned by the lookup *)
Variable ord : T A -> Prop.
Hypothesis laws : OrdLaws A ord.
Variable xs : list (T A).
Hypothesis Hwf : Forall (wf_dim ord) (dims t).
Hypothesis Hxs : Forall ord xs.
Hypothesis Hlen : length xs = length (dims t).

Theorem C03_value_lane : forall cs, searchcenters t xs = CFound cs ->
  ndsplineeval_gradient t xs cs =
  ndsplineeval t xs cs 0 :: map (fun j => ndsplineeval t xs cs (2 ^ Z.of_nat j)) (seq 0 (ndim_of t)).
Proof. intros cs. exact (gradient_lanes ord laws t xs cs Hwf Hxs Hlen). Qed.

End C03.

(* bspline_nonzero = (bsplvb_simple, bspline_deriv_nonzero): unconditionally for order >= 1 *)
Theorem C03_nonzero_vs_simple : forall (A : Arith) (kn : Z -> T A) nknots n1 x c,
  bspline_nonzero kn nknots (S n1) x c = (bsplvb_simple kn nknots (S n1) x c, bspline_deriv_nonzero kn nknots (S n1) x c).
Proof. intros A. exact (@nonzero_pos_order A). Qed.

(* non-vacuity: the translated table does select specialised routines *)
Example C03_selects_fixed : select true [2; 2; 2]%nat = Some (VFixed 3 2, VFixed 3 2) /\ select false [2; 2; 2]%nat = Some (VGeneric, VGeneric)
  /\ select true [2; 2; 2; 3; 2; 2]%nat = Some (VKnown [2; 2; 2; 3; 2; 2]%nat, VKnown [2; 2; 2; 3; 2; 2]%nat)
  /\ select true [1; 4]%nat = Some (VD 2, VD 2).
Proof. vm_compute. repeat split. Qed.

Print Assumptions C03_dispatch_table_sound.
Print Assumptions C03_dispatch_table_total.
Print Assumptions C03_cores_agree.
Print Assumptions C03_dispatch_sound.
Print Assumptions C03_dispatch_total.
Print Assumptions C03_evaluator_eq_member.
Print Assumptions C03_value_lane.
Print Assumptions C03_nonzero_vs_simple.
