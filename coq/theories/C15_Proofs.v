(* C15_Proofs.v — proofs about PermModel (splinetable::permuteDimensions). Statements are collected in Properties_C15.v. *)
From Coq Require Import ZArith NArith Nnat List Bool Lia Permutation Arith.
From PS Require Import MixedRadix PermModel.
Import ListNotations.
Local Open Scope Z_scope.

(* ------------------------------------------------------------------------------------------------ *)
(** * array writes *)
Lemma length_upd : forall (A : Type) (l : list A) i v, length (upd l i v) = length l.
Proof. induction l as [|x l IH]; intros [|i] v; cbn; auto. Qed.

Lemma nth_upd_same : forall (A : Type) (l : list A) i v d, (i < length l)%nat -> nth i (upd l i v) d = v.
Proof. induction l as [|x l IH]; intros [|i] v d H; cbn in *; try lia; auto. apply IH. lia. Qed.

Lemma nth_upd_other : forall (A : Type) (l : list A) i j v d, i <> j -> nth j (upd l i v) d = nth j l d.
Proof. induction l as [|x l IH]; intros [|i] [|j] v d H; cbn; auto; try lia. Qed.

Lemma scatter_length : forall (A : Type) (ws : list (nat * A)) init, length (scatter ws init) = length init.
Proof.
  unfold scatter. induction ws as [|w ws IH]; intros init; cbn [fold_left]; [reflexivity|]. rewrite IH. apply length_upd.
Qed.

Lemma scatter_untouched : forall (A : Type) (ws : list (nat * A)) init j d,
  ~ In j (map fst ws) -> nth j (scatter ws init) d = nth j init d.
Proof.
  unfold scatter. induction ws as [|w ws IH]; intros init j d H; cbn [fold_left]; [reflexivity|].
  cbn [map In] in H. rewrite IH by tauto. apply nth_upd_other. tauto.
Qed.

Lemma scatter_hit : forall (A : Type) (ws : list (nat * A)) init j v d,
  NoDup (map fst ws) -> In (j, v) ws -> (j < length init)%nat -> nth j (scatter ws init) d = v.
Proof.
  induction ws as [|w ws IH]; intros init j v d ND Hin Hj; [contradiction|].
  cbn [map] in ND. inversion ND as [|? ? Hnot ND']; subst.
  change (scatter (w :: ws) init) with (scatter ws (upd init (fst w) (snd w))).
  destruct Hin as [->|Hin].
  - cbn [fst snd] in *. rewrite scatter_untouched by exact Hnot. apply nth_upd_same. exact Hj.
  - apply IH; [exact ND'|exact Hin|rewrite length_upd; exact Hj].
Qed.

Lemma map_fst_combine : forall (A B : Type) (a : list A) (b : list B), length a = length b -> map fst (combine a b) = a.
Proof. induction a as [|x a IH]; intros [|y b] H; cbn in *; try lia; auto. f_equal. apply IH. lia. Qed.

Lemma NoDup_map_inj_in : forall (A B : Type) (f : A -> B) l,
  (forall a b, In a l -> In b l -> f a = f b -> a = b) -> NoDup l -> NoDup (map f l).
Proof.
  induction l as [|x l IH]; intros Hinj ND; cbn [map]; [constructor|].
  inversion ND as [|? ? Hnot ND']; subst. constructor.
  - intros Hin. apply in_map_iff in Hin. destruct Hin as [y [E Hy]].
    assert (y = x) by (apply Hinj; [right; exact Hy|left; reflexivity|exact E]). subst y. contradiction.
  - apply IH; [|exact ND']. intros a b Ha Hb. apply Hinj; right; assumption.
Qed.

(* ------------------------------------------------------------------------------------------------ *)
(** * gather is pick when the indices are in range *)
Lemma gather_pick : forall (A : Type) (l : list A) p d, (forall j, In j p -> (j < length l)%nat) -> gather l p = pick p l d.
Proof.
  unfold gather, pick. induction p as [|j p IH]; intros d H; [reflexivity|].
  cbn [flat_map map]. rewrite (nth_error_nth' l d) by (apply H; left; reflexivity).
  cbn [app]. f_equal. apply IH. intros j' Hj'. apply H. right. exact Hj'.
Qed.

Lemma gather_pick_perm : forall (A : Type) (l : list A) p n d, is_perm p n -> length l = n -> gather l p = pick p l d.
Proof. intros A l p n d H Hl. apply gather_pick. intros j Hj. rewrite Hl. eapply is_perm_range; eauto. Qed.

(* ------------------------------------------------------------------------------------------------ *)
(** * the inverse permutation built by the per-axis loop *)
Lemma inverse_perm_length : forall n p, length (inverse_perm n p) = n.
Proof. intros. unfold inverse_perm. rewrite scatter_length. apply repeat_length. Qed.

Lemma inverse_perm_spec : forall n p, is_perm p n ->
  forall k, (k < n)%nat -> nth (nth k p 0%nat) (inverse_perm n p) 0%nat = k.
Proof.
  intros n p H k Hk. pose proof (is_perm_length _ _ H) as Hl.
  unfold inverse_perm. apply scatter_hit.
  - rewrite map_fst_combine by (rewrite seq_length; reflexivity). eapply is_perm_NoDup; eauto.
  - replace (nth k p 0%nat, k) with (nth k (combine p (seq 0 (length p))) (0%nat, 0%nat)).
    + apply nth_In. rewrite combine_length, seq_length. lia.
    + rewrite combine_nth by (rewrite seq_length; reflexivity). rewrite seq_nth by lia. reflexivity.
  - rewrite repeat_length. eapply is_perm_nth_range; eauto.
Qed.

Lemma inverse_perm_right : forall n p, is_perm p n ->
  forall i, (i < n)%nat -> nth (nth i (inverse_perm n p) 0%nat) p 0%nat = i.
Proof. intros n p H. apply inverse_right with (n := n); [exact H|apply inverse_perm_spec; exact H]. Qed.

Lemma inverse_perm_is_perm : forall n p, is_perm p n -> is_perm (inverse_perm n p) n.
Proof.
  intros n p H. apply inverse_is_perm with (p := p); [exact H|apply inverse_perm_length|apply inverse_perm_spec; exact H].
Qed.

(* the inverse of the inverse is the permutation itself *)
Lemma inverse_perm_involutive : forall n p, is_perm p n -> inverse_perm n (inverse_perm n p) = p.
Proof.
  intros n p H. pose proof (inverse_perm_is_perm n p H) as Hq.
  apply (nth_ext _ _ 0%nat 0%nat); [rewrite inverse_perm_length, (is_perm_length _ _ H); reflexivity|].
  intros i Hi. rewrite inverse_perm_length in Hi.
  rewrite <- (inverse_perm_spec n p H i Hi) at 1.
  apply inverse_perm_spec; [exact Hq|]. eapply is_perm_nth_range; eauto.
Qed.

(* ------------------------------------------------------------------------------------------------ *)
(** * the stride computation (1, partial products of the reversed tail, reversed) is [strides] *)
Lemma partial_prods_app : forall l a x, partial_prods a (l ++ [x]) = partial_prods a l ++ [a * prod l * x].
Proof.
  induction l as [|y l IH]; intros a x; cbn [app partial_prods prod].
  - f_equal. ring.
  - f_equal. rewrite IH. f_equal. f_equal. ring.
Qed.

Lemma rev_partial_prods_rev : forall r, rev (partial_prods 1 (rev r)) ++ [1] = prod r :: strides r.
Proof.
  induction r as [|x r IH]; [reflexivity|].
  cbn [rev]. rewrite partial_prods_app, rev_app_distr. cbn [rev app].
  rewrite IH. cbn [strides prod]. rewrite prod_rev. f_equal. ring.
Qed.

Lemma new_strides_eq : forall sh, sh <> [] -> new_strides sh = strides sh.
Proof.
  intros [|n r] H; [contradiction|]. unfold new_strides. cbn [tl partial_prods].
  rewrite Z.mul_1_l. cbn [rev]. rewrite rev_partial_prods_rev. reflexivity.
Qed.

Lemma nth0_strides_times : forall sh, sh <> [] -> nth 0 (strides sh) 0 * nth 0 sh 0 = prod sh.
Proof. intros [|n r] H; [contradiction|]. cbn [strides nth prod]. ring. Qed.

(* ------------------------------------------------------------------------------------------------ *)
(** * the relocation index: npos (flat sh m) = flat sh' m'  with sh' = pick p sh, m' = pick p m *)
Lemma npos_flat : forall p q sh m n, is_perm p n -> length sh = n -> in_shape sh m ->
  (forall k, (k < n)%nat -> nth (nth k p 0%nat) q 0%nat = k) ->
  npos n (strides sh) sh (strides (pick p sh 1)) q (flat sh m) = flat (pick p sh 1) (pick p m 0).
Proof.
  intros p q sh m n H Hsh Hm Hq. unfold npos.
  rewrite (fold_left_add_zsum _ (fun i => (flat sh m / nth i (strides sh) 0) mod nth i sh 0 * nth (nth i q 0%nat) (strides (pick p sh 1)) 0)).
  rewrite Z.add_0_l.
  rewrite <- (flat_pick_sum p q sh m n H Hsh (eq_trans (in_shape_length _ _ Hm) Hsh) Hq).
  f_equal. apply map_ext_in. intros i Hi. apply in_seq in Hi.
  rewrite flat_digit by (try assumption; lia). reflexivity.
Qed.

Section Reloc.
Variable C : Type.
Variables (p : list nat) (sh : list Z) (n : nat).
Hypothesis Hp : is_perm p n.
Hypothesis Hsh : length sh = n.
Hypothesis Hpos : pos_shape sh.
Let q := inverse_perm n p.
Let sh' := pick p sh 1.
Let N := Z.to_nat (prod sh).
Let f (k : nat) : nat := Z.to_nat (npos n (strides sh) sh (strides sh') q (Z.of_nat k)).

Lemma Hp' : is_perm p (length sh).
Proof. rewrite Hsh. exact Hp. Qed.

Lemma prod_sh' : prod sh' = prod sh.
Proof. apply prod_pick. apply Hp'. Qed.

Lemma k_bounds : forall k, (k < N)%nat -> 0 <= Z.of_nat k < prod sh.
Proof. intros k Hk. unfold N in Hk. pose proof (prod_pos _ Hpos). lia. Qed.

Lemma f_eq : forall k, (k < N)%nat -> f k = Z.to_nat (flat sh' (pick p (unflat sh (Z.of_nat k)) 0)).
Proof.
  intros k Hk. unfold f. f_equal.
  rewrite <- (flat_unflat sh (Z.of_nat k) Hpos (k_bounds k Hk)) at 1.
  apply npos_flat; [exact Hp|exact Hsh|apply unflat_in_shape; exact Hpos|apply inverse_perm_spec; exact Hp].
Qed.

Lemma f_of_flat : forall m, in_shape sh m -> f (Z.to_nat (flat sh m)) = Z.to_nat (flat sh' (pick p m 0)).
Proof.
  intros m Hm. pose proof (flat_bounds _ _ Hm) as Hb. unfold f. rewrite Z2Nat.id by lia. f_equal.
  apply npos_flat; [exact Hp|exact Hsh|exact Hm|apply inverse_perm_spec; exact Hp].
Qed.

Lemma f_range : forall k, (k < N)%nat -> (f k < N)%nat.
Proof.
  intros k Hk. rewrite f_eq by exact Hk. unfold N.
  pose proof (flat_bounds sh' (pick p (unflat sh (Z.of_nat k)) 0)
                (in_shape_pick p sh _ Hp' (unflat_in_shape sh _ Hpos))) as Hb.
  fold sh' in Hb. rewrite prod_sh' in Hb. lia.
Qed.

Lemma pick_p_inj : forall m1 m2, length m1 = n -> length m2 = n -> pick p m1 0 = pick p m2 0 -> m1 = m2.
Proof.
  intros m1 m2 H1 H2 E.
  pose proof (inverse_perm_is_perm n p Hp) as Hq.
  rewrite <- (pick_pick_inv _ p q m1 0 n H1 (is_perm_length _ _ Hp) (inverse_perm_length n p)
               (fun i Hi => is_perm_nth_range _ _ _ Hq Hi) (inverse_perm_right n p Hp)).
  rewrite <- (pick_pick_inv _ p q m2 0 n H2 (is_perm_length _ _ Hp) (inverse_perm_length n p)
               (fun i Hi => is_perm_nth_range _ _ _ Hq Hi) (inverse_perm_right n p Hp)).
  rewrite E. reflexivity.
Qed.

Lemma f_inj : forall a b, (a < N)%nat -> (b < N)%nat -> f a = f b -> a = b.
Proof.
  intros a b Ha Hb E. rewrite !f_eq in E by assumption.
  pose proof (in_shape_pick p sh _ Hp' (unflat_in_shape sh (Z.of_nat a) Hpos)) as Ia.
  pose proof (in_shape_pick p sh _ Hp' (unflat_in_shape sh (Z.of_nat b) Hpos)) as Ib.
  pose proof (flat_bounds _ _ Ia) as Ba. pose proof (flat_bounds _ _ Ib) as Bb.
  fold sh' in Ia, Ib, Ba, Bb.
  assert (flat sh' (pick p (unflat sh (Z.of_nat a)) 0) = flat sh' (pick p (unflat sh (Z.of_nat b)) 0)) as E2 by lia.
  apply flat_inj in E2; [|assumption|assumption].
  apply pick_p_inj in E2; [|rewrite length_unflat; exact Hsh|rewrite length_unflat; exact Hsh].
  apply unflat_inj in E2; [lia|exact Hpos|apply k_bounds; exact Ha|apply k_bounds; exact Hb].
Qed.

Lemma f_perm : Permutation (map f (seq 0 N)) (seq 0 N).
Proof.
  apply NoDup_Permutation_bis.
  - apply NoDup_map_inj_in; [|apply seq_NoDup]. intros a b Ha Hb. apply in_seq in Ha, Hb. apply f_inj; lia.
  - rewrite map_length. lia.
  - intros j Hj. apply in_map_iff in Hj. destruct Hj as [k [E Hk]]. apply in_seq in Hk. subst j.
    apply in_seq. pose proof (f_range k). lia.
Qed.

Lemma f_surj : forall j, (j < N)%nat -> exists k, (k < N)%nat /\ f k = j.
Proof.
  intros j Hj. assert (In j (map f (seq 0 N))) as Hin.
  { apply (Permutation_in _ (Permutation_sym f_perm)). apply in_seq. lia. }
  apply in_map_iff in Hin. destruct Hin as [k [E Hk]]. apply in_seq in Hk. exists k. split; [lia|exact E].
Qed.

(* the coefficient loop *)
Variables (junk : C) (coeffs : list C).
Hypothesis Hco : length coeffs = N.
Let new := relocate junk n (strides sh) sh (strides sh') q N coeffs.

Lemma relocate_length : length new = N.
Proof. unfold new, relocate. rewrite scatter_length. apply repeat_length. Qed.

Lemma relocate_nth : forall k d, (k < N)%nat -> nth (f k) new d = nth k coeffs junk.
Proof.
  intros k d Hk. unfold new, relocate. apply scatter_hit.
  - rewrite map_map. cbn [fst]. apply NoDup_map_inj_in; [|apply seq_NoDup].
    intros a b Ha Hb. apply in_seq in Ha, Hb. apply f_inj; lia.
  - apply in_map_iff. exists k. split; [reflexivity|apply in_seq; lia].
  - rewrite repeat_length. apply f_range. exact Hk.
Qed.

Lemma relocate_nth_error : forall k, (k < N)%nat -> nth_error new (f k) = nth_error coeffs k.
Proof.
  intros k Hk. rewrite (nth_error_nth' new junk) by (rewrite relocate_length; apply f_range; exact Hk).
  rewrite (nth_error_nth' coeffs junk) by lia. f_equal. apply relocate_nth. exact Hk.
Qed.

Lemma relocate_Permutation : Permutation coeffs new.
Proof.
  rewrite (list_as_map_seq _ new junk), relocate_length.
  apply Permutation_trans with (map (fun j => nth j new junk) (map f (seq 0 N))).
  - rewrite map_map. rewrite (list_as_map_seq _ coeffs junk) at 1. rewrite Hco.
    apply Permutation_refl'. apply map_ext_in. intros k Hk. apply in_seq in Hk. symmetry. apply relocate_nth. lia.
  - apply Permutation_map. exact f_perm.
Qed.

(* every slot of the new array is written: no trace of the uninitialised contents *)
Lemma relocate_determined : forall l, length l = N -> (forall k, (k < N)%nat -> nth (f k) l junk = nth k coeffs junk) -> l = new.
Proof.
  intros l Hl Hn. apply (nth_ext _ _ junk junk); [rewrite relocate_length; exact Hl|].
  intros j Hj. rewrite Hl in Hj. destruct (f_surj j Hj) as [k [Hk E]]. subst j.
  rewrite Hn, relocate_nth by exact Hk. reflexivity.
Qed.

End Reloc.

(* ------------------------------------------------------------------------------------------------ *)
(** * gather without default values *)
Lemma gather_nth_error : forall (A : Type) (l : list A) p, (forall j, In j p -> (j < length l)%nat) ->
  forall i, (i < length p)%nat -> nth_error (gather l p) i = nth_error l (nth i p 0%nat).
Proof.
  unfold gather. induction p as [|j p IH]; intros H i Hi; [cbn in Hi; lia|].
  cbn [flat_map]. destruct (nth_error l j) as [x|] eqn:E.
  - destruct i as [|i]; cbn [app nth_error nth]; [symmetry; exact E|].
    apply IH; [intros j' Hj'; apply H; right; exact Hj'|cbn in Hi; lia].
  - apply nth_error_None in E. specialize (H j (or_introl eq_refl)). lia.
Qed.

Lemma gather_length : forall (A : Type) (l : list A) p, (forall j, In j p -> (j < length l)%nat) -> length (gather l p) = length p.
Proof.
  unfold gather. induction p as [|j p IH]; intros H; [reflexivity|].
  cbn [flat_map]. rewrite app_length, IH by (intros j' Hj'; apply H; right; exact Hj').
  destruct (nth_error l j) eqn:E; [reflexivity|]. apply nth_error_None in E. specialize (H j (or_introl eq_refl)). lia.
Qed.

Lemma list_eq_nth_error : forall (A : Type) (a b : list A), (forall i, nth_error a i = nth_error b i) -> a = b.
Proof.
  induction a as [|x a IH]; intros [|y b] H; [reflexivity|specialize (H 0%nat); discriminate|specialize (H 0%nat); discriminate|].
  pose proof (H 0%nat) as H0. cbn in H0. inversion H0; subst. f_equal. apply IH. intros i. exact (H (S i)).
Qed.

Lemma gather_perm_nth_error : forall (A : Type) (l : list A) p n, is_perm p n -> length l = n ->
  forall i, (i < n)%nat -> nth_error (gather l p) i = nth_error l (nth i p 0%nat).
Proof.
  intros A l p n H Hl i Hi. apply gather_nth_error.
  - intros j Hj. rewrite Hl. eapply is_perm_range; eauto.
  - rewrite (is_perm_length _ _ H). exact Hi.
Qed.

Lemma gather_perm_length : forall (A : Type) (l : list A) p n, is_perm p n -> length l = n -> length (gather l p) = n.
Proof.
  intros A l p n H Hl. rewrite gather_length; [apply (is_perm_length _ _ H)|].
  intros j Hj. rewrite Hl. eapply is_perm_range; eauto.
Qed.

Lemma gather_gather_inv : forall (A : Type) (l : list A) p n, is_perm p n -> length l = n ->
  gather (gather l p) (inverse_perm n p) = l.
Proof.
  intros A l p n H Hl. pose proof (inverse_perm_is_perm n p H) as Hq.
  apply list_eq_nth_error. intros i. destruct (Nat.lt_ge_cases i n) as [Hi|Hi].
  - rewrite (gather_perm_nth_error _ _ _ n Hq (gather_perm_length _ l p n H Hl) i Hi).
    rewrite (gather_perm_nth_error _ l p n H Hl) by (eapply is_perm_nth_range; eauto).
    rewrite inverse_perm_right by assumption. reflexivity.
  - assert (nth_error l i = None) as -> by (apply nth_error_None; lia).
    apply nth_error_None. rewrite (gather_perm_length _ _ _ n Hq); [lia|]. apply gather_perm_length; assumption.
Qed.

Lemma gather_Permutation : forall (A : Type) (l : list A) p n, is_perm p n -> length l = n -> Permutation (gather l p) l.
Proof.
  intros A l p n H Hl. destruct l as [|d l'] eqn:El.
  - cbn in Hl. subst n. apply Permutation_sym, Permutation_nil in H. subst p. apply Permutation_refl.
  - rewrite <- El in *. rewrite (gather_pick_perm _ l p n d H Hl). apply pick_Permutation. rewrite Hl. exact H.
Qed.

(* ------------------------------------------------------------------------------------------------ *)
(** * the table *)
Section TableThms.
Variables K E C : Type.
Notation table := (table K E C).

Record wf_table (t : table) : Prop := mk_wf {
  wf_ndim : (1 <= t_ndim t)%nat;
  wf_order : length (t_order t) = t_ndim t;
  wf_nknots : length (t_nknots t) = t_ndim t;
  wf_knots : length (t_knots t) = t_ndim t;
  wf_extents : length (t_extents t) = t_ndim t;
  wf_periods : forall l, t_periods t = Some l -> length l = t_ndim t;
  wf_naxes : length (t_naxes t) = t_ndim t;
  wf_pos : pos_shape (t_naxes t);
  wf_strides : t_strides t = strides (t_naxes t);
  wf_coeffs : length (t_coeffs t) = Z.to_nat (prod (t_naxes t)) }.

Variable t : table.
Hypothesis Hwf : wf_table t.
Variable p : list nat.
Hypothesis Hp : is_perm p (t_ndim t).
Let n := t_ndim t.
Let sh := t_naxes t.

Lemma sh'_nonempty : pick p sh 1 <> [].
Proof.
  intros He. apply (f_equal (@length Z)) in He. rewrite length_pick, (is_perm_length _ _ Hp) in He.
  pose proof (wf_ndim t Hwf). cbn in He. lia.
Qed.

Lemma body_naxes : forall fx junk, t_naxes (permute_body fx junk t p) = pick p sh 1.
Proof. intros. cbn [permute_body t_naxes]. apply gather_pick_perm with (n := n); [exact Hp|apply wf_naxes; exact Hwf]. Qed.

Lemma body_strides : forall fx junk, t_strides (permute_body fx junk t p) = strides (pick p sh 1).
Proof.
  intros. cbn [permute_body t_strides]. rewrite (gather_pick_perm _ (t_naxes t) p n 1 Hp (wf_naxes t Hwf)).
  apply new_strides_eq. apply sh'_nonempty.
Qed.

Lemma body_coeffs : forall fx junk, t_coeffs (permute_body fx junk t p) =
  relocate junk n (strides sh) sh (strides (pick p sh 1)) (inverse_perm n p) (Z.to_nat (prod sh)) (t_coeffs t).
Proof.
  intros. cbn [permute_body t_coeffs]. rewrite (gather_pick_perm _ (t_naxes t) p n 1 Hp (wf_naxes t Hwf)).
  fold sh. rewrite (new_strides_eq _ sh'_nonempty), (nth0_strides_times _ sh'_nonempty).
  rewrite prod_pick by (unfold sh; rewrite (wf_naxes t Hwf); exact Hp).
  rewrite (wf_strides t Hwf). fold sh. fold n. unfold copy_back.
  rewrite relocate_length, skipn_all2 by (rewrite (wf_coeffs t Hwf); fold sh; lia). apply app_nil_r.
Qed.

Lemma body_wf : forall fx junk, wf_table (permute_body fx junk t p).
Proof.
  intros fx junk. destruct Hwf as [H1 H2 H3 H4 H5 H6 H7 H8 H9 H10].
  constructor; try (cbn [permute_body t_ndim t_order t_nknots t_knots t_extents]; solve [assumption | apply gather_perm_length; assumption]).
  - cbn [permute_body t_periods t_ndim]. intros l. destruct fx; [|apply H6].
    destruct (t_periods t) as [l0|]; cbn [option_map]; [|discriminate]. intros He. inversion He; subst.
    apply gather_perm_length; [exact Hp|apply H6; reflexivity].
  - rewrite body_naxes. apply pos_shape_pick; [unfold sh; rewrite H7; exact Hp|exact H8].
  - rewrite body_strides, body_naxes. reflexivity.
  - rewrite body_coeffs, body_naxes, relocate_length. rewrite prod_pick by (unfold sh; rewrite H7; exact Hp). reflexivity.
Qed.

(* C15_coeff_relocated *)
Lemma coeff_relocated : forall junk m, in_shape sh m ->
  let t' := permute junk t p in
  (Z.to_nat (flat sh m) < length (t_coeffs t))%nat /\
  nth_error (t_coeffs t') (Z.to_nat (flat (t_naxes t') (pick p m 0))) = nth_error (t_coeffs t) (Z.to_nat (flat sh m)).
Proof.
  intros junk m Hm t'. unfold t', permute. rewrite body_naxes, body_coeffs.
  pose proof (flat_bounds _ _ Hm) as Hb.
  assert (Z.to_nat (flat sh m) < Z.to_nat (prod sh))%nat as Hk by lia.
  split; [rewrite (wf_coeffs t Hwf); exact Hk|].
  rewrite <- (f_of_flat p sh n Hp (wf_naxes t Hwf) m Hm).
  apply relocate_nth_error; try assumption; [apply (wf_naxes t Hwf)|apply (wf_pos t Hwf)|apply (wf_coeffs t Hwf)].
Qed.

(* the statement of coeff_relocated pins the new array down completely: a list of the right length that holds, for every
   multi-index m, the old value of m at the permuted position IS the model's new coefficient array. (So judging an
   implementation's output by that statement is the same as comparing it with the model's output — used for tables too large
   for the literal list model to be run.) *)
Lemma coeff_determined : forall junk (l : list C), length l = length (t_coeffs t) ->
  (forall m, in_shape sh m ->
     nth_error l (Z.to_nat (flat (pick p sh 1) (pick p m 0))) = nth_error (t_coeffs t) (Z.to_nat (flat sh m))) ->
  l = t_coeffs (permute junk t p).
Proof.
  intros junk l Hl Hst. unfold permute. rewrite body_coeffs.
  pose proof (wf_naxes t Hwf) as Hsh. pose proof (wf_pos t Hwf) as Hpos. pose proof (wf_coeffs t Hwf) as Hco.
  fold sh in Hsh, Hpos, Hco. fold n in Hsh.
  apply (relocate_determined C p sh n Hp Hsh Hpos junk (t_coeffs t) Hco l); [rewrite Hl; exact Hco|].
  intros k Hk.
  pose proof (k_bounds sh n Hsh Hpos k Hk) as Hkb.
  pose proof (unflat_in_shape sh (Z.of_nat k) Hpos) as Hm.
  specialize (Hst _ Hm).
  rewrite (flat_unflat sh (Z.of_nat k) Hpos Hkb), Nat2Z.id in Hst.
  rewrite (f_eq p sh n Hp Hsh Hpos k Hk).
  assert (Hfk : (Z.to_nat (flat (pick p sh 1%Z) (pick p (unflat sh (Z.of_nat k)) 0%Z)) < length l)%nat).
  { apply nth_error_Some. rewrite Hst. apply nth_error_Some. rewrite Hco. exact Hk. }
  rewrite (nth_error_nth' l junk Hfk) in Hst.
  rewrite (nth_error_nth' (t_coeffs t) junk) in Hst by (rewrite Hco; exact Hk).
  inversion Hst as [Heq]. reflexivity.
Qed.

Lemma coeff_Permutation : forall junk, Permutation (t_coeffs t) (t_coeffs (permute junk t p)).
Proof.
  intros junk. unfold permute. rewrite body_coeffs.
  apply relocate_Permutation; [exact Hp|apply (wf_naxes t Hwf)|apply (wf_pos t Hwf)|apply (wf_coeffs t Hwf)].
Qed.

Lemma junk_irrelevant : forall fx j1 j2, permute_body fx j1 t p = permute_body fx j2 t p.
Proof.
  intros fx j1 j2.
  assert (t_coeffs (permute_body fx j1 t p) = t_coeffs (permute_body fx j2 t p)) as He.
  { rewrite !body_coeffs.
    pose proof (wf_naxes t Hwf) as Hsh. pose proof (wf_pos t Hwf) as Hpos. pose proof (wf_coeffs t Hwf) as Hco.
    apply (nth_ext _ _ j1 j1); [rewrite !relocate_length; reflexivity|].
    intros j Hj. rewrite relocate_length in Hj.
    destruct (f_surj p sh n Hp Hsh Hpos j Hj) as [k [Hk Ek]]. subst j.
    rewrite (relocate_nth C p sh n Hp Hsh Hpos j1 (t_coeffs t) Hco k j1 Hk).
    rewrite (relocate_nth C p sh n Hp Hsh Hpos j2 (t_coeffs t) Hco k j1 Hk).
    apply nth_indep. fold sh in Hco. lia. }
  unfold permute_body in *. cbn [t_coeffs] in He. f_equal. exact He.
Qed.

(* C15_attributes *)
Lemma attributes : forall junk i, (i < n)%nat ->
  let t' := permute junk t p in
  nth_error (t_order t') i = nth_error (t_order t) (nth i p 0%nat) /\
  nth_error (t_nknots t') i = nth_error (t_nknots t) (nth i p 0%nat) /\
  nth_error (t_knots t') i = nth_error (t_knots t) (nth i p 0%nat) /\
  nth_error (t_extents t') i = nth_error (t_extents t) (nth i p 0%nat) /\
  nth_error (t_naxes t') i = nth_error (t_naxes t) (nth i p 0%nat) /\
  match t_periods t with
  | None => t_periods t' = None
  | Some l => exists l', t_periods t' = Some l' /\ length l' = n /\ nth_error l' i = nth_error l (nth i p 0%nat)
  end.
Proof.
  intros junk i Hi t'. unfold t', permute. cbn [permute_body t_order t_nknots t_knots t_extents t_naxes t_periods].
  destruct Hwf as [H1 H2 H3 H4 H5 H6 H7 H8 H9 H10].
  repeat split; try (apply gather_perm_nth_error with (n := n); assumption).
  destruct (t_periods t) as [l|]; cbn [option_map]; [|reflexivity].
  exists (gather l p). split; [reflexivity|]. split.
  - apply gather_perm_length; [exact Hp|apply H6; reflexivity].
  - apply gather_perm_nth_error with (n := n); [exact Hp|apply H6; reflexivity|exact Hi].
Qed.

End TableThms.

Arguments wf_table {K E C} t.

Lemma table_ext : forall (K E C : Type) (a b : table K E C),
  t_ndim a = t_ndim b -> t_order a = t_order b -> t_nknots a = t_nknots b -> t_knots a = t_knots b ->
  t_extents a = t_extents b -> t_periods a = t_periods b -> t_naxes a = t_naxes b -> t_strides a = t_strides b ->
  t_coeffs a = t_coeffs b -> a = b.
Proof. intros K E C [] []; cbn; intros; subst; reflexivity. Qed.

(* C15_inverse *)
Lemma inverse_restores : forall (K E C : Type) (t : table K E C), wf_table t -> forall p, is_perm p (t_ndim t) ->
  forall j1 j2, permute j2 (permute j1 t p) (inverse_perm (t_ndim t) p) = t.
Proof.
  intros K E C t Hwf p Hp j1 j2.
  set (n := t_ndim t). set (q := inverse_perm n p). set (t1 := permute j1 t p). set (t2 := permute j2 t1 q).
  pose proof (inverse_perm_is_perm n p Hp) as Hq.
  assert (wf_table t1) as Hwf1 by (apply body_wf; assumption).
  assert (is_perm q (t_ndim t1)) as Hq1 by exact Hq.
  assert (wf_table t2) as Hwf2 by (apply body_wf; assumption).
  pose proof Hwf as [H1 H2 H3 H4 H5 H6 H7 H8 H9 H10].
  assert (t_naxes t2 = t_naxes t) as En by (apply gather_gather_inv; assumption).
  apply table_ext; try (apply gather_gather_inv; assumption).
  - reflexivity.
  - unfold t2, t1, permute. cbn [permute_body t_periods]. destruct (t_periods t) as [l|]; cbn [option_map]; [|reflexivity].
    f_equal. apply gather_gather_inv; [exact Hp|apply H6; reflexivity].
  - rewrite (wf_strides _ _ _ _ Hwf2), En. symmetry. exact H9.
  - apply list_eq_nth_error. intros i.
    destruct (Nat.lt_ge_cases i (Z.to_nat (prod (t_naxes t)))) as [Hi|Hi].
    + pose proof (prod_pos _ H8) as HP.
      set (m := unflat (t_naxes t) (Z.of_nat i)).
      assert (in_shape (t_naxes t) m) as Hm by (apply unflat_in_shape; exact H8).
      assert (flat (t_naxes t) m = Z.of_nat i) as Hf by (apply flat_unflat; [exact H8|lia]).
      destruct (coeff_relocated K E C t Hwf p Hp j1 m Hm) as [_ R1]. cbn zeta in R1. fold t1 in R1.
      assert (in_shape (t_naxes t1) (pick p m 0)) as Hm1.
      { unfold t1, permute. rewrite body_naxes by assumption. apply in_shape_pick; [rewrite H7; exact Hp|exact Hm]. }
      destruct (coeff_relocated K E C t1 Hwf1 q Hq1 j2 (pick p m 0) Hm1) as [_ R2]. cbn zeta in R2. fold t2 in R2.
      rewrite En in R2.
      rewrite (pick_pick_inv _ p q m 0 n) in R2;
        [|rewrite (in_shape_length _ _ Hm); exact H7|apply (is_perm_length _ _ Hp)|apply inverse_perm_length
         |intros k Hk; apply (is_perm_nth_range _ _ _ Hq Hk)|apply inverse_perm_right; exact Hp].
      rewrite R1 in R2. rewrite Hf, Nat2Z.id in R2. exact R2.
    + assert (nth_error (t_coeffs t) i = None) as -> by (apply nth_error_None; lia).
      apply nth_error_None. rewrite (wf_coeffs _ _ _ _ Hwf2), En. exact Hi.
Qed.

(* ------------------------------------------------------------------------------------------------ *)
(** * validation: the three loops accept exactly the permutations of 0..ndim-1 *)
Lemma vloop1_inr_inv : forall n p test test', length test = n -> vloop1 n p test = inr test' ->
  Forall (fun j => (N.to_nat j < n)%nat) p /\ NoDup (map N.to_nat p) /\
  (forall j, In j p -> nth (N.to_nat j) test false = false).
Proof.
  induction p as [|j r IH]; intros test test' Hl H.
  - split; [constructor|]. split; [constructor|]. intros j [].
  - cbn [vloop1] in H. destruct (N.of_nat n <=? j)%N eqn:Ej; [discriminate|].
    destruct (nth (N.to_nat j) test false) eqn:Et; [discriminate|].
    apply N.leb_gt in Ej. assert (N.to_nat j < n)%nat as Hj by lia.
    apply IH in H; [|rewrite length_upd; exact Hl]. destruct H as [HF [HN HU]].
    split; [constructor; assumption|]. split.
    + cbn [map]. constructor; [|exact HN]. intros Hin. apply in_map_iff in Hin. destruct Hin as [j' [E Hj']].
      specialize (HU j' Hj'). rewrite E, nth_upd_same in HU by lia. discriminate.
    + intros j' [->|Hj']; [exact Et|].
      specialize (HU j' Hj'). destruct (Nat.eq_dec (N.to_nat j) (N.to_nat j')) as [E|NE].
      * rewrite <- E, nth_upd_same in HU by lia. discriminate.
      * rewrite nth_upd_other in HU by exact NE. exact HU.
Qed.

Lemma vloop1_accepts : forall n p test, length test = n ->
  Forall (fun j => (N.to_nat j < n)%nat) p -> NoDup (map N.to_nat p) ->
  (forall j, In j p -> nth (N.to_nat j) test false = false) ->
  exists test', vloop1 n p test = inr test' /\ length test' = n /\
    forall i, nth i test' false = true <-> (nth i test false = true \/ In i (map N.to_nat p)).
Proof.
  induction p as [|j r IH]; intros test Hl HF HN HU.
  - exists test. split; [reflexivity|]. split; [exact Hl|]. intros i. cbn. tauto.
  - inversion HF as [|? ? Hj HF']; subst. cbn [map] in HN. inversion HN as [|? ? Hnot HN']; subst.
    cbn [vloop1]. assert ((N.of_nat (length test) <=? j)%N = false) as -> by (apply N.leb_gt; lia).
    rewrite (HU j (or_introl eq_refl)).
    destruct (IH (upd test (N.to_nat j) true)) as [test' [E [Hl' Hn']]]; [rewrite length_upd; reflexivity|exact HF'|exact HN'| |].
    + intros j' Hj'. rewrite nth_upd_other; [apply HU; right; exact Hj'|].
      intros E. apply Hnot. rewrite E. apply in_map. exact Hj'.
    + exists test'. split; [exact E|]. split; [exact Hl'|]. intros i. rewrite Hn'. cbn [map In].
      destruct (Nat.eq_dec (N.to_nat j) i) as [<-|NE].
      * rewrite nth_upd_same by exact Hj. tauto.
      * rewrite nth_upd_other by exact NE. tauto.
Qed.

Definition is_permN (p : list N) (n : nat) : Prop := is_perm (map N.to_nat p) n.

Lemma validate_accepts_iff : forall n p, validate n p = None <-> is_permN p n.
Proof.
  intros n p. unfold validate, is_permN. split.
  - destruct (length p =? n)%nat eqn:El; cbn [negb]; [|discriminate]. apply Nat.eqb_eq in El.
    destruct (vloop1 n p (repeat false (length p))) as [e|test'] eqn:Ev; [discriminate|]. intros _.
    apply vloop1_inr_inv in Ev; [|rewrite repeat_length; exact El]. destruct Ev as [HF [HN _]].
    apply is_perm_intro; [rewrite map_length; exact El|exact HN|].
    intros j Hj. apply in_map_iff in Hj. destruct Hj as [j' [<- Hj']]. rewrite Forall_forall in HF. apply HF. exact Hj'.
  - intros H. pose proof (is_perm_length _ _ H) as Hl. rewrite map_length in Hl.
    rewrite Hl, Nat.eqb_refl. cbn [negb].
    destruct (vloop1_accepts n p (repeat false n)) as [test' [E [Hl' Hn']]].
    + apply repeat_length.
    + apply Forall_forall. intros j Hj. apply (is_perm_range _ _ _ H). apply in_map. exact Hj.
    + eapply is_perm_NoDup; eauto.
    + intros j Hj. apply nth_repeat.
    + rewrite E. unfold vloop2.
      assert (forallb (fun b : bool => b) test' = true) as ->; [|reflexivity].
      apply forallb_forall. intros b Hb. destruct (In_nth _ _ false Hb) as [i [Hi <-]].
      apply Hn'. right. apply (Permutation_in _ (Permutation_sym H)). apply in_seq. lia.
Qed.

Lemma validate_rejects_iff : forall n p, (exists e, validate n p = Some e) <-> ~ is_permN p n.
Proof.
  intros n p. rewrite <- validate_accepts_iff. destruct (validate n p) as [e|]; split.
  - intros _ H. discriminate.
  - intros _. exists e. reflexivity.
  - intros [e H]. discriminate.
  - intros H. exfalso. apply H. reflexivity.
Qed.

Lemma vloop1_error_kind : forall n p test e, vloop1 n p test = inl e -> e = ErrTooLarge \/ e = ErrDuplicate.
Proof.
  induction p as [|j r IH]; intros test e H; cbn [vloop1] in H; [discriminate|].
  destruct (N.of_nat n <=? j)%N; [inversion H; auto|].
  destruct (nth (N.to_nat j) test false); [inversion H; auto|]. eapply IH; eauto.
Qed.

(* the third loop can never fire: n distinct indices below n leave no index unseen (pigeonhole) *)
Lemma validate_never_missing : forall n p, validate n p <> Some ErrMissing.
Proof.
  intros n p H. assert (~ is_permN p n) as Hn by (apply validate_rejects_iff; eauto).
  apply Hn. unfold validate in H.
  destruct (length p =? n)%nat eqn:El; cbn [negb] in H; [|discriminate]. apply Nat.eqb_eq in El.
  destruct (vloop1 n p (repeat false (length p))) as [e|test'] eqn:Ev.
  - exfalso. inversion H; subst e. apply vloop1_error_kind in Ev. destruct Ev; discriminate.
  - apply vloop1_inr_inv in Ev; [|rewrite repeat_length; exact El]. destruct Ev as [HF [HN _]].
    apply is_perm_intro; [rewrite map_length; exact El|exact HN|].
    intros j Hj. apply in_map_iff in Hj. destruct Hj as [j' [<- Hj']]. rewrite Forall_forall in HF. apply HF. exact Hj'.
Qed.

Lemma validate_length : forall n p, validate n p = Some ErrLength <-> length p <> n.
Proof.
  intros n p. unfold validate. destruct (length p =? n)%nat eqn:El; cbn [negb].
  - apply Nat.eqb_eq in El. split; [|intros; contradiction]. intros H. exfalso.
    destruct (vloop1 n p (repeat false (length p))) as [e|test'] eqn:Ev.
    + inversion H; subst e. apply vloop1_error_kind in Ev. destruct Ev; discriminate.
    + unfold vloop2 in H. destruct (forallb (fun b : bool => b) test'); discriminate.
  - apply Nat.eqb_neq in El. tauto.
Qed.

(* ------------------------------------------------------------------------------------------------ *)
(** * the checked entry points *)
Section Checked.
Variables K E C : Type.
Variable t : table K E C.

Lemma checked_rejects : forall fx junk p, ~ is_permN p (t_ndim t) ->
  exists e, permute_checked_gen fx junk t p = (Some e, t) /\ e <> ErrMissing.
Proof.
  intros fx junk p H. apply validate_rejects_iff in H. destruct H as [e He].
  exists e. unfold permute_checked_gen. rewrite He. split; [reflexivity|].
  intros ->. exact (validate_never_missing _ _ He).
Qed.

Lemma checked_accepts : forall fx junk p, is_permN p (t_ndim t) ->
  permute_checked_gen fx junk t p = (None, permute_body fx junk t (map N.to_nat p)).
Proof. intros fx junk p H. apply validate_accepts_iff in H. unfold permute_checked_gen. rewrite H. reflexivity. Qed.

Lemma c_permute_spec : forall junk p,
  (is_permN (firstn (t_ndim t) p) (t_ndim t) -> c_permute junk t p = (0, permute junk t (map N.to_nat (firstn (t_ndim t) p)))) /\
  (~ is_permN (firstn (t_ndim t) p) (t_ndim t) -> c_permute junk t p = (1, t)).
Proof.
  intros junk p. unfold c_permute, c_permute_gen. split; intros H.
  - rewrite checked_accepts by exact H. reflexivity.
  - destruct (checked_rejects true junk _ H) as [e [-> _]]. reflexivity.
Qed.

End Checked.

Lemma map_to_nat_of_nat : forall l, map N.to_nat (map N.of_nat l) = l.
Proof. intros l. rewrite map_map. rewrite <- (map_id l) at 2. apply map_ext. intros. apply Nat2N.id. Qed.

(* permute, then permute with the inverse vector, through the checked entry point: the original table *)
Lemma checked_inverse : forall (K E C : Type) (t : table K E C) junk p, wf_table t -> is_permN p (t_ndim t) ->
  let q := map N.of_nat (inverse_perm (t_ndim t) (map N.to_nat p)) in
  permute_checked junk (snd (permute_checked junk t p)) q = (None, t).
Proof.
  intros K E C t junk p Hwf Hp q. unfold permute_checked.
  rewrite (checked_accepts _ _ _ t true junk p Hp). cbn [snd].
  assert (is_permN q (t_ndim (permute_body true junk t (map N.to_nat p)))) as Hq.
  { unfold is_permN, q. rewrite map_to_nat_of_nat. apply inverse_perm_is_perm. exact Hp. }
  rewrite checked_accepts by exact Hq. f_equal. unfold q. rewrite map_to_nat_of_nat.
  apply inverse_restores; assumption.
Qed.

(* ------------------------------------------------------------------------------------------------ *)
(** * same function: the tensor-product sum over a commutative semiring is invariant *)
From Coq Require Import Ring_theory.

Section SameFunction.
Variable R : Type.
Variables (rO rI : R) (radd rmul : R -> R -> R).
Hypothesis Rth : semi_ring_theory rO rI radd rmul (@eq R).

Definition rsum (l : list R) : R := fold_right radd rO l.
Definition rprod (l : list R) : R := fold_right rmul rI l.

Lemma rsum_Permutation : forall a b, Permutation a b -> rsum a = rsum b.
Proof.
  unfold rsum. induction 1; cbn [fold_right]; try congruence.
  rewrite !(SRadd_assoc Rth). f_equal. apply (SRadd_comm Rth).
Qed.

Lemma rprod_Permutation : forall a b, Permutation a b -> rprod a = rprod b.
Proof.
  unfold rprod. induction 1; cbn [fold_right]; try congruence.
  rewrite !(SRmul_assoc Rth). f_equal. apply (SRmul_comm Rth).
Qed.

(* sum over ALL stored coefficients of  c[pos] * prod_i b_i(digit_i pos) : the specification of evaluation (C01),
   with b i k the value of the k-th basis function of axis i at the i-th coordinate *)
Definition tensor_eval (n : nat) (sh : list Z) (co : list R) (b : nat -> Z -> R) : R :=
  rsum (map (fun k => rmul (nth k co rO)
                           (rprod (map (fun i => b i (nth i (unflat sh (Z.of_nat k)) 0)) (seq 0 n))))
            (seq 0 (Z.to_nat (prod sh)))).

Variables K E : Type.
Variable t : table K E R.
Hypothesis Hwf : wf_table t.
Variable p : list nat.
Hypothesis Hp : is_perm p (t_ndim t).
Variable junk : R.
Variable b : nat -> Z -> R.

Lemma same_function :
  let t' := permute junk t p in
  tensor_eval (t_ndim t) (t_naxes t') (t_coeffs t') (fun i => b (nth i p 0%nat)) =
  tensor_eval (t_ndim t) (t_naxes t) (t_coeffs t) b.
Proof.
  intros t'. unfold t', permute. rewrite body_naxes, body_coeffs by assumption.
  pose proof (wf_naxes _ _ _ _ Hwf) as Hsh. pose proof (wf_pos _ _ _ _ Hwf) as Hpos. pose proof (wf_coeffs _ _ _ _ Hwf) as Hco.
  set (n := t_ndim t) in *. set (sh := t_naxes t) in *. set (co := t_coeffs t) in *.
  assert (is_perm p (length sh)) as Hp' by (rewrite Hsh; exact Hp).
  unfold tensor_eval. rewrite (prod_pick p sh 1 Hp').
  set (N := Z.to_nat (prod sh)).
  set (new := relocate junk n (strides sh) sh (strides (pick p sh 1)) (inverse_perm n p) N co).
  set (f := fun k : nat => Z.to_nat (npos n (strides sh) sh (strides (pick p sh 1)) (inverse_perm n p) (Z.of_nat k))).
  rewrite <- (rsum_Permutation _ _ (Permutation_map _ (f_perm p sh n Hp Hsh Hpos))).
  fold N. fold f. rewrite map_map. f_equal. apply map_ext_in. intros k Hk. apply in_seq in Hk.
  assert (k < N)%nat as HkN by lia.
  f_equal.
  - unfold new, f, N in *. rewrite (relocate_nth R p sh n Hp Hsh Hpos junk co Hco k rO HkN). apply nth_indep. fold sh in Hco. lia.
  - set (m := unflat sh (Z.of_nat k)).
    assert (in_shape sh m) as Hm by (apply unflat_in_shape; exact Hpos).
    pose proof (in_shape_pick p sh m Hp' Hm) as Hm'. pose proof (flat_bounds _ _ Hm') as Hb.
    assert (Z.of_nat (f k) = flat (pick p sh 1) (pick p m 0)) as ->.
    { unfold f. rewrite (f_eq p sh n Hp Hsh Hpos k HkN). fold m. lia. }
    rewrite unflat_flat by exact Hm'.
    rewrite <- (rprod_Permutation _ _ (Permutation_map (fun j => b j (nth j m 0)) Hp)).
    rewrite (map_as_map_seq _ _ (fun j => b j (nth j m 0)) p 0%nat), (is_perm_length _ _ Hp).
    f_equal. apply map_ext_in. intros i Hi. apply in_seq in Hi.
    rewrite nth_pick by (rewrite (is_perm_length _ _ Hp); lia). reflexivity.
Qed.

End SameFunction.

(* ------------------------------------------------------------------------------------------------ *)
(** * the statements of Properties_C15.v *)
Section Final.
Variables K E C : Type.
Variable t : table K E C.
Hypothesis Hwf : wf_table t.
Variable junk : C.

(* --- rejection: exactly the non-permutations are rejected, the table is untouched, and the error is never the
       "Missing index" of the third loop (which is dead code); no well-formedness needed --- *)
Lemma thm_rejects : forall p, ~ is_permN p (t_ndim t) ->
  exists e, permute_checked junk t p = (Some e, t) /\ e <> ErrMissing.
Proof. exact (checked_rejects K E C t true junk). Qed.

Lemma thm_accepts : forall p, is_permN p (t_ndim t) ->
  permute_checked junk t p = (None, permute junk t (map N.to_nat p)).
Proof. exact (checked_accepts K E C t true junk). Qed.

Lemma thm_wrong_length_class : forall p, fst (permute_checked junk t p) = Some ErrLength <-> length p <> t_ndim t.
Proof.
  intros p. unfold permute_checked, permute_checked_gen. rewrite <- validate_length.
  destruct (validate (t_ndim t) p); cbn [fst]; tauto.
Qed.

(* the C wrapper reads exactly ndim entries; return code 0 and the permuted table, or 1 and the table untouched *)
Lemma thm_c_wrapper : forall p,
  (is_permN (firstn (t_ndim t) p) (t_ndim t) -> c_permute junk t p = (0, permute junk t (map N.to_nat (firstn (t_ndim t) p)))) /\
  (~ is_permN (firstn (t_ndim t) p) (t_ndim t) -> c_permute junk t p = (1, t)).
Proof. exact (c_permute_spec K E C t junk). Qed.

Variable p : list N.
Hypothesis Hp : is_permN p (t_ndim t).
Let pn := map N.to_nat p.
Let t' := snd (permute_checked junk t p).

(* --- the coefficient array holds exactly the original values, relocated: the value at multi-index m is found at
       the permuted multi-index of the new shape (both positions inside the arrays); the new array is a
       permutation of the old one; nothing of the uninitialised buffer survives --- *)
Lemma thm_coeff_relocated : forall m, in_shape (t_naxes t) m ->
  (Z.to_nat (flat (t_naxes t) m) < length (t_coeffs t))%nat /\
  nth_error (t_coeffs t') (Z.to_nat (flat (t_naxes t') (pick pn m 0))) = nth_error (t_coeffs t) (Z.to_nat (flat (t_naxes t) m)).
Proof.
  intros m Hm. unfold t', permute_checked. rewrite (checked_accepts K E C t true junk p Hp). cbn [snd].
  exact (coeff_relocated K E C t Hwf pn Hp junk m Hm).
Qed.

Lemma thm_coeff_determined : forall l : list C, length l = length (t_coeffs t) ->
  (forall m, in_shape (t_naxes t) m ->
     nth_error l (Z.to_nat (flat (t_naxes t') (pick pn m 0))) = nth_error (t_coeffs t) (Z.to_nat (flat (t_naxes t) m))) ->
  l = t_coeffs t'.
Proof.
  intros l Hl Hst. unfold t', permute_checked in *. rewrite (checked_accepts K E C t true junk p Hp) in *. cbn [snd] in *.
  apply (coeff_determined K E C t Hwf pn Hp junk l Hl).
  intros m Hm. specialize (Hst m Hm). unfold permute in Hst. rewrite (body_naxes K E C t Hwf pn Hp) in Hst. exact Hst.
Qed.

Lemma thm_coeff_permutation : Permutation (t_coeffs t) (t_coeffs t').
Proof.
  unfold t', permute_checked. rewrite (checked_accepts K E C t true junk p Hp). cbn [snd]. exact (coeff_Permutation K E C t Hwf pn Hp junk).
Qed.

Lemma thm_junk_irrelevant : forall junk2, permute_checked junk2 t p = permute_checked junk t p.
Proof.
  intros junk2. unfold permute_checked. rewrite !(checked_accepts K E C t true _ p Hp). f_equal.
  exact (junk_irrelevant K E C t Hwf pn Hp true junk2 junk).
Qed.

(* --- every per-dimension attribute appears in the new order; strides are row-major for the new shape; the
       result is again a well-formed table of the same dimension --- *)
Lemma thm_attributes : forall i, (i < t_ndim t)%nat ->
  nth_error (t_order t') i = nth_error (t_order t) (nth i pn 0%nat) /\
  nth_error (t_nknots t') i = nth_error (t_nknots t) (nth i pn 0%nat) /\
  nth_error (t_knots t') i = nth_error (t_knots t) (nth i pn 0%nat) /\
  nth_error (t_extents t') i = nth_error (t_extents t) (nth i pn 0%nat) /\
  nth_error (t_naxes t') i = nth_error (t_naxes t) (nth i pn 0%nat) /\
  match t_periods t with
  | None => t_periods t' = None
  | Some l => exists l', t_periods t' = Some l' /\ length l' = t_ndim t /\ nth_error l' i = nth_error l (nth i pn 0%nat)
  end.
Proof.
  intros i Hi. unfold t', permute_checked. rewrite (checked_accepts K E C t true junk p Hp). cbn [snd].
  exact (attributes K E C t Hwf pn Hp junk i Hi).
Qed.

Lemma thm_shape : t_ndim t' = t_ndim t /\ t_strides t' = strides (t_naxes t') /\ wf_table t'.
Proof.
  unfold t', permute_checked. rewrite (checked_accepts K E C t true junk p Hp). cbn [snd].
  pose proof (body_wf K E C t Hwf pn Hp true junk) as W.
  split; [reflexivity|]. split; [apply (wf_strides _ _ _ _ W)|exact W].
Qed.

(* --- applying the inverse permutation restores a table EQUAL to the original (every member) --- *)
Lemma thm_inverse :
  permute_checked junk t' (map N.of_nat (inverse_perm (t_ndim t) pn)) = (None, t).
Proof. exact (checked_inverse K E C t junk p Hwf Hp). Qed.

(* the inverse vector is the one with q[p[k]] = k, and it is a permutation itself *)
Lemma thm_inverse_vector : is_perm (inverse_perm (t_ndim t) pn) (t_ndim t) /\
  forall k, (k < t_ndim t)%nat -> nth (nth k pn 0%nat) (inverse_perm (t_ndim t) pn) 0%nat = k.
Proof. split; [apply inverse_perm_is_perm; exact Hp|apply inverse_perm_spec; exact Hp]. Qed.

End Final.

Lemma thm_same_function : forall (R : Type) (rO rI : R) (radd rmul : R -> R -> R),
  semi_ring_theory rO rI radd rmul (@eq R) ->
  forall (K E : Type) (t : table K E R), wf_table t -> forall p, is_permN p (t_ndim t) -> forall (junk : R) (B : nat -> Z -> R),
  let t' := snd (permute_checked junk t p) in
  tensor_eval R rO rI radd rmul (t_ndim t) (t_naxes t') (t_coeffs t') (fun i => B (nth i (map N.to_nat p) 0%nat)) =
  tensor_eval R rO rI radd rmul (t_ndim t) (t_naxes t) (t_coeffs t) B.
Proof.
  intros R rO rI radd rmul Rth K E t Hwf p Hp junk B t'. unfold t', permute_checked.
  rewrite (checked_accepts K E R t true junk p Hp). cbn [snd].
  exact (same_function R rO rI radd rmul Rth K E t Hwf (map N.to_nat p) Hp junk B).
Qed.
