(* MonoFitModel.v — executable model of the normal system that a MONOTONE fit hands to nnls_normal_block3 (C10, second sentence),
   as the code builds it after fix F28_1 (D28). It differs from FitModel.fit_system (the unconstrained fit, C09) in three places,
   all of them in the slot of the monotonic dimension [md]:

     * glam.c glamfit_complex, lines 57-72: the basis matrix of dimension md is multiplied by cholmod_tril (the lower-triangular
       matrix of ones, MonoModel.tril): T-spline basis                                                         ([basis_mono]);
     * glam.c calc_penalty, `if (monodim == dim)`: the finite-difference matrix of dimension md itself is multiplied by tril
       before DtD is formed                                                                                   ([calc_penalty_mono], D);
     * glam.c calc_penalty, the Kronecker loop (the fix): for the penalty term of a dimension dim <> md the factor in slot md is
       tril' tril (cholmod_l_transpose, cholmod_l_ssmult) instead of the identity                              ([calc_penalty_mono], factors).
       (Before the fix that factor was the identity: the defect D28.)

   add_penalty_term, fit.h's loop over the dimensions, the GLAM arithmetic (slicemultiply with the boxed bases, reshape, flatten)
   are those of FitModel with the monotonic dimension passed through. [md] is a plain number: a value >= ndim
   (PHOTOSPLINE_GLAM_NO_MONODIM = (uint32_t)-1 in the code) names no dimension, and then every definition below reduces to its
   FitModel counterpart (C10_Congruence.calc_penalty_mono_none). The symmetric-triangle storage (stype) that calc_penalty
   switches off while two factors are non-diagonal is not modelled (dense reading of CHOLMOD matrices, as in C09); the
   matrices themselves are compared with the real calc_penalty / the captured system by tools/props/C10.py, checks (vi-a), (vi-b).
   No proofs in this file. *)
From Coq Require Import List ZArith NArith Bool PeanoNat.
From PS Require Import Arith FitModel MonoModel.
Import ListNotations.

Section MonoFit.
Context {A : Arith}.
Notation K := (T A).

(* glam.c:57-72   bases[i] = bsplinebasis(...); if (monodim == i) bases[i] = bases[i] * cholmod_tril(nsplines[i]) *)
Definition basis_mono (md i : nat) (d : dimspec) : list (list K) :=
  let b := bsplinebasis (ds_knots d) (ds_coords d) (ds_order d) in
  if Nat.eqb md i then mmul b (tril (ds_nsplines d)) (ds_nsplines d) else b.

(* glam.c calc_penalty(nsplines, knots, ndim, dim, order, porder, monodim, c) *)
Definition calc_penalty_mono (nsplines : list nat) (kn : nat -> K) (dim order porder md : nat) : list (list K) :=
  let nspl := nth dim nsplines 0 in
  let D0 := finitediff kn order porder nspl in
  let D := if Nat.eqb md dim then mmul D0 (tril nspl) nspl else D0 in                 (* if (monodim == dim) finitediff *= tril *)
  let DtD := mmul (transpose nspl D) D nspl in
  let factors := map (fun i => if Nat.eqb i dim then DtD
                               else if Nat.eqb i md
                                    then let ni := nth i nsplines 0 in mmul (transpose ni (tril ni)) (tril ni) ni   (* tril' tril *)
                                    else eye (nth i nsplines 0))
                     (seq 0 (length nsplines)) in
  match factors with
  | [] => []
  | f :: fs => fold_left kronecker_product fs f
  end.

(* glam.c add_penalty_term(..., scale, monodim, penalty, c) *)
Definition add_penalty_term_mono (nsplines : list nat) (kn : nat -> K) (dim order porder : nat) (scale : K) (md : nat)
           (penalty : list (list K)) : list (list K) :=
  if eqK scale zero then penalty
  else madd penalty (mscale scale (calc_penalty_mono nsplines kn dim order porder md)).

(* fit.h: the loop `penalty = add_penalty_term(nsplines, knots[i], ndim, i, order[i], porder_i, smoothing_i, monodim, penalty, ..)` *)
Definition penalty_matrix_mono (dims : list dimspec) (md : nat) (smoothing : list K) (porders : list nat) : list (list K) :=
  let nsplines := map ds_nsplines dims in
  let sidelen := fold_right Nat.mul 1 nsplines in
  fold_left (fun pen id =>
               let i := fst id in let d := snd id in
               add_penalty_term_mono nsplines (fun k => nth k (ds_knots d) zero) i (ds_order d)
                                     (pick 0 porders i) (pick zero smoothing i) md pen)
            (combine (seq 0 (length dims)) dims) (mzero sidelen sidelen).

(* glamfit_complex: F and R arrays with the (T-spline) bases *)
Definition Farr_mono (dims : list dimspec) (md : nat) (data : list (list N * K * K)) : ndarr :=
  let ranges := map (fun d => N.of_nat (length (ds_coords d))) dims in
  fold_left (fun a id =>
               let i := fst id in let d := snd id in
               let b := basis_mono md i d in
               slicemultiply a (box b b) (ds_nsplines d * ds_nsplines d) i)
            (combine (seq 0 (length dims)) dims)
            (mkNd ranges (map (fun e => (fst (fst e), snd e)) data)).
Definition Rarr_mono (dims : list dimspec) (md : nat) (data : list (list N * K * K)) : ndarr :=
  let ranges := map (fun d => N.of_nat (length (ds_coords d))) dims in
  fold_left (fun a id =>
               let i := fst id in let d := snd id in
               slicemultiply a (basis_mono md i d) (ds_nsplines d) i)
            (combine (seq 0 (length dims)) dims)
            (mkNd ranges (map (fun e => (fst (fst e), mul (snd e) (snd (fst e)))) data)).

(* the system handed to nnls_normal_block3 *)
Definition fit_system_mono (dims : list dimspec) (md : nat) (smoothing : list K) (porders : list nat)
           (data : list (list N * K * K)) : list (list K) * list K :=
  let sidelen := N.of_nat (fold_right Nat.mul 1 (map ds_nsplines dims)) in
  let Fmat := flatten_to_matrix (reshape_F (Farr_mono dims md data)) sidelen sidelen in
  let Rmat := flatten_to_matrix (Rarr_mono dims md data) sidelen 1%N in
  (madd Fmat (penalty_matrix_mono dims md smoothing porders), map (fun row => nth 0 row zero) Rmat).

(* ---- vocabulary of the statements ------------------------------------------------------------------------------------- *)
(* row vector times matrix: one row of cholmod_l_ssmult  (FitModel.mmul M N ncol = map (fun row => vecmat row N ncol) M) *)
Definition vecmat (p : list K) (M : list (list K)) (ncol : nat) : list K := map (fun j => dot (col j M) p) (seq 0 ncol).

(* the change of variables: I x .. x tril x .. x I with tril in the slot of the monotonic dimension (Kronecker product folded
   left to right as in calc_penalty). matvec (Lbig ns md) a = the cumulative sums of a along dimension md (row-major array of
   shape ns); for md >= length ns it is the identity matrix. *)
Definition Lbig (nsplines : list nat) (md : nat) : list (list K) :=
  match map (fun i => if Nat.eqb i md then tril (nth i nsplines 0) else eye (nth i nsplines 0)) (seq 0 (length nsplines)) with
  | [] => []
  | f :: fs => fold_left kronecker_product fs f
  end.

(* a least-squares triple (weight, row, value) in the new variables: row p becomes p Lbig *)
Definition tripleT (L : list (list K)) (n : nat) (e : K * list K * K) : K * list K * K :=
  (fst (fst e), vecmat (snd (fst e)) L n, snd e).
End MonoFit.
