(* ObjResource.v — allocator events of the splinetable object model (C20; reused by C18).
   (Named ObjResource to stay clear of a Resource.v that the C19 development may add.)
   No proofs in this file.

   An event is what the checking allocator of harness/C20_harness.cpp observes:
     Alloc id bytes   allocate<T>(n) returned block `id` of n*sizeof(T) bytes
     Free  id bytes   deallocate(p,n) of block `id`, claiming n*sizeof(T) bytes
     FreeNull         deallocate(nullptr,n)     (harmless with std::allocator; counted)
     BadFree          deallocate of a pointer that is not a live block (garbage or already freed)  *)
From Coq Require Import List Arith Bool.
Import ListNotations.

Inductive ev := Alloc (id bytes : nat) | Free (id bytes : nat) | FreeNull | BadFree (claimed : nat).

Definition heap := list (nat * nat).          (* live blocks: (id, bytes) *)

Fixpoint lookup (id : nat) (h : heap) : option nat :=
  match h with
  | [] => None
  | (i, b) :: t => if Nat.eqb i id then Some b else lookup id t
  end.

Fixpoint remove_id (id : nat) (h : heap) : heap :=
  match h with
  | [] => []
  | (i, b) :: t => if Nat.eqb i id then t else (i, b) :: remove_id id t
  end.

(* strict replay: None as soon as anything is wrong (id reuse, free of a non-live block = double free or
   garbage, size mismatch) *)
Definition replay_ev (h : heap) (e : ev) : option heap :=
  match e with
  | Alloc id b => match lookup id h with Some _ => None | None => Some ((id, b) :: h) end
  | Free id b => match lookup id h with
                 | Some b' => if Nat.eqb b b' then Some (remove_id id h) else None
                 | None => None
                 end
  | FreeNull => Some h
  | BadFree _ => None
  end.

Fixpoint replay (tr : list ev) (h : heap) : option heap :=
  match tr with
  | [] => Some h
  | e :: t => match replay_ev h e with Some h' => replay t h' | None => None end
  end.

(* every block obtained is returned exactly once, with its size, and nothing else is ever released *)
Definition balanced (tr : list ev) : Prop := replay tr [] = Some [].
Definition balancedb (tr : list ev) : bool := match replay tr [] with Some [] => true | _ => false end.
