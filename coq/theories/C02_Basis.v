(* C02_Basis.v — one dimension, first derivative: bspline_deriv_nonzero (EvalModel) computes de Boor's derivative
   formula  B'_{i,n} = n (B_{i,n-1}/(t_{i+n}-t_i) - B_{i+1,n-1}/(t_{i+n+1}-t_{i+1}))  (BSpline.dBfun with k = 1) for the
   n+1 functions of the center interval, over any ordered field, margins included. *)
From Coq Require Import ZArith List Bool Lia Field Ring.
From PS Require Import Arith EvalModel BSpline OFieldKit C01_Basis.
Import ListNotations.
Local Open Scope Z_scope.

Section OneDim.
Context {A : Arith}.
Variable F : OField A.
Notation K := (T A).
Add Field Kfield4 : (OFth F).
Notation le := (@OFieldKit.le A).
Notation lt := (@OFieldKit.lt A).

Variable kn : Z -> K.
Variable nknots : Z.
Hypothesis Hmono : forall i j, 0 <= i -> i <= j -> j < nknots -> le (kn i) (kn j).

Lemma wdiv_zero_num (b : K) : wdiv zero b = zero.
Proof.
  unfold wdiv. destruct (eqbK b zero) eqn:E; [reflexivity|].
  assert (b <> zero) by (intro H; apply (eqbK_true F) in H; congruence).
  field. exact H.
Qed.

(* a derivative order above the spline order vanishes identically *)
Lemma dB_high_order_zero side : forall n k i x, (n < k)%nat -> dBfun kn side k n i x = zero.
Proof.
  induction n as [|n IH]; intros k i x H.
  - destruct k; [lia|reflexivity].
  - destruct k as [|k]; [lia|].
    change (dBfun kn side (S k) (S n) i x) with
      (mul (ofZ (Z.of_nat (S n)))
           (sub (wdiv (dBfun kn side k n i x) (sub (kn (i + Z.of_nat (S n))) (kn i)))
                (wdiv (dBfun kn side k n (i + 1) x) (sub (kn (i + Z.of_nat (S n) + 1)) (kn (i + 1)))))).
    rewrite (IH k i x), (IH k (i + 1) x) by lia. rewrite !wdiv_zero_num. ring.
Qed.

Section Piece.
Variable side : bool.
Variable l : Z.
Variable x : K.
Hypothesis Hl0 : 0 <= l.
Hypothesis Hl1 : l + 1 < nknots.
Hypothesis Hpiece : in_piece kn side l x.

(* local support of the derivative formula *)
Lemma dB1_support n i : 0 <= i -> i + Z.of_nat n + 1 < nknots -> (i + Z.of_nat n < l \/ l < i) ->
  dBfun kn side 1 n i x = zero.
Proof.
  intros Hi0 Hi1 Hout. destruct n as [|n1]; [reflexivity|]. cbn [dBfun].
  rewrite (Bfun_support F kn nknots Hmono side l x Hl0 Hl1 Hpiece n1 i) by lia.
  rewrite (Bfun_support F kn nknots Hmono side l x Hl0 Hl1 Hpiece n1 (i + 1)) by lia.
  rewrite !wdiv_zero_num. ring.
Qed.

(* the derivative combination: from the values of order n1 = n-1 (list v, entry p = B_{l-n1+p, n1}) *)
Section Combine.
Variable n1 : nat.
Notation n := (S n1).
Variable f : nat -> K.
Hypothesis Hf : forall p, (p <= n1)%nat -> valid nknots l n1 p -> f p = Bv kn side l x n1 p.

Definition dv (p : nat) : K := dBfun kn side 1 n (l - Z.of_nat n + Z.of_nat p) x.
Definition dvalid (p : nat) : Prop := 0 <= l - Z.of_nat n + Z.of_nat p /\ l + Z.of_nat p + 1 < nknots.

(* the tail of the combination, entries i, i+1, ..., n *)
Lemma deriv_mid_spec : forall m i, (1 <= i)%nat -> (i + m = n)%nat ->
  exists g, deriv_mid kn l n i (f (i - 1)%nat) (map f (seq i m)) = map g (seq i (S m)) /\
            forall p, (i <= p <= n)%nat -> dvalid p -> g p = dv p.
Proof.
  induction m as [|m IH]; intros i Hi Him.
  - (* last entry p = n *)
    cbn [seq map deriv_mid]. rewrite (rnd_id F).
    exists (fun _ => div (mul (ofZ (Z.of_nat n)) (f (i - 1)%nat)) (kdiff kn l (Z.of_nat n) (Z.of_nat n))).
    split; [reflexivity|]. intros p Hp [V0 V1]. assert (p = n) by lia. subst p.
    assert (i = n) by lia. subst i.
    unfold dv. cbn [dBfun].
    rewrite (Bfun_support F kn nknots Hmono side l x Hl0 Hl1 Hpiece n1 (l - Z.of_nat n + Z.of_nat n + 1)) by (lia).
    rewrite wdiv_zero_num.
    assert (E : Bfun kn side n1 (l - Z.of_nat n + Z.of_nat n) x = f (n - 1)%nat).
    { symmetry. rewrite Hf; [unfold Bv; f_equal; lia | lia | split; lia]. }
    rewrite E.
    assert (N : sub (kn (l - Z.of_nat n + Z.of_nat n + Z.of_nat n)) (kn (l - Z.of_nat n + Z.of_nat n)) <> zero).
    { apply (kdiff_nz F kn nknots Hmono side l x Hl0 Hl1 Hpiece); lia. }
    rewrite (wdiv_nz F _ _ N). unfold kdiff.
    rewrite (kn_idx kn (l + Z.of_nat n) (l - Z.of_nat n + Z.of_nat n + Z.of_nat n)) by lia.
    rewrite (kn_idx kn (l + Z.of_nat n - Z.of_nat n) (l - Z.of_nat n + Z.of_nat n)) by lia.
    field. exact N.
  - change (seq i (S m)) with (i :: seq (S i) m). rewrite map_cons. cbn [deriv_mid]. rewrite (rnd_id F).
    destruct (IH (S i) ltac:(lia) ltac:(lia)) as [g [E Hg]].
    replace (S i - 1)%nat with i in E by lia. rewrite E.
    set (hd := sub (div (mul (ofZ (Z.of_nat n)) (f (i - 1)%nat)) (kdiff kn l (Z.of_nat n) (Z.of_nat i)))
                   (div (mul (ofZ (Z.of_nat n)) (f i)) (kdiff kn l (Z.of_nat n) (Z.of_nat i + 1)))).
    exists (fun p => if (p =? i)%nat then hd else g p). split.
    + change (seq i (S (S m))) with (i :: seq (S i) (S m)). rewrite map_cons. rewrite Nat.eqb_refl. f_equal.
      apply map_ext_in. intros p Hp. apply in_seq in Hp.
      replace (p =? i)%nat with false by (symmetry; apply Nat.eqb_neq; lia). reflexivity.
    + intros p Hp Hv. destruct (Nat.eqb_spec p i) as [->|Hne]; [|apply Hg; [lia|exact Hv]].
      destruct Hv as [V0 V1]. unfold dv, hd. cbn [dBfun].
      assert (E1 : Bfun kn side n1 (l - Z.of_nat n + Z.of_nat i) x = f (i - 1)%nat).
      { symmetry. rewrite Hf; [unfold Bv; f_equal; lia | lia | split; lia]. }
      assert (E2 : Bfun kn side n1 (l - Z.of_nat n + Z.of_nat i + 1) x = f i).
      { symmetry. rewrite Hf; [unfold Bv; f_equal; lia | lia | split; lia]. }
      rewrite E1, E2.
      assert (N1 : sub (kn (l - Z.of_nat n + Z.of_nat i + Z.of_nat n)) (kn (l - Z.of_nat n + Z.of_nat i)) <> zero).
      { apply (kdiff_nz F kn nknots Hmono side l x Hl0 Hl1 Hpiece); lia. }
      assert (N2 : sub (kn (l - Z.of_nat n + Z.of_nat i + Z.of_nat n + 1)) (kn (l - Z.of_nat n + Z.of_nat i + 1)) <> zero).
      { apply (kdiff_nz F kn nknots Hmono side l x Hl0 Hl1 Hpiece); lia. }
      rewrite (wdiv_nz F _ _ N1), (wdiv_nz F _ _ N2). unfold kdiff.
      rewrite (kn_idx kn (l + Z.of_nat i) (l - Z.of_nat n + Z.of_nat i + Z.of_nat n)) by lia.
      rewrite (kn_idx kn (l + Z.of_nat i - Z.of_nat n) (l - Z.of_nat n + Z.of_nat i)) by lia.
      rewrite (kn_idx kn (l + (Z.of_nat i + 1)) (l - Z.of_nat n + Z.of_nat i + Z.of_nat n + 1)) by lia.
      rewrite (kn_idx kn (l + (Z.of_nat i + 1) - Z.of_nat n) (l - Z.of_nat n + Z.of_nat i + 1)) by lia.
      field. split; assumption.
Qed.

Lemma deriv_combine_spec :
  exists g, deriv_combine kn l n (map f (seq 0 n)) = map g (seq 0 (S n)) /\
            forall p, (p <= n)%nat -> dvalid p -> g p = dv p.
Proof.
  change (seq 0 n) with (0%nat :: seq 1 n1). rewrite map_cons. cbn [deriv_combine]. rewrite (rnd_id F).
  destruct (deriv_mid_spec n1 1%nat ltac:(lia) ltac:(lia)) as [g [E Hg]].
  cbn [Nat.sub] in E. rewrite E.
  set (hd := div (opp (mul (ofZ (Z.of_nat n)) (f 0%nat))) (kdiff kn l (Z.of_nat n) 1)).
  exists (fun p => if (p =? 0)%nat then hd else g p). split.
  - change (seq 0 (S (S n1))) with (0%nat :: seq 1 (S n1)). rewrite map_cons. change (0 =? 0)%nat with true. cbv iota. f_equal. apply map_ext_in. intros p Hp. apply in_seq in Hp.
    replace (p =? 0)%nat with false by (symmetry; apply Nat.eqb_neq; lia). reflexivity.
  - intros p Hp Hv. destruct (Nat.eqb_spec p 0) as [->|Hne]; [|apply Hg; [lia|exact Hv]].
    destruct Hv as [V0 V1]. unfold dv, hd. cbn [dBfun].
    rewrite (Bfun_support F kn nknots Hmono side l x Hl0 Hl1 Hpiece n1 (l - Z.of_nat n + Z.of_nat 0)) by (lia).
    rewrite wdiv_zero_num.
    assert (E2 : Bfun kn side n1 (l - Z.of_nat n + Z.of_nat 0 + 1) x = f 0%nat).
    { symmetry. rewrite Hf; [unfold Bv; f_equal; lia | lia | split; lia]. }
    rewrite E2.
    assert (N2 : sub (kn (l - Z.of_nat n + Z.of_nat 0 + Z.of_nat n + 1)) (kn (l - Z.of_nat n + Z.of_nat 0 + 1)) <> zero).
    { apply (kdiff_nz F kn nknots Hmono side l x Hl0 Hl1 Hpiece); lia. }
    rewrite (wdiv_nz F _ _ N2). unfold kdiff.
    rewrite (kn_idx kn (l + 1) (l - Z.of_nat n + Z.of_nat 0 + Z.of_nat n + 1)) by lia.
    rewrite (kn_idx kn (l + 1 - Z.of_nat n) (l - Z.of_nat n + Z.of_nat 0 + 1)) by lia.
    field. exact N2.
Qed.
End Combine.
End Piece.

(* bspline_deriv_nonzero delivers de Boor's derivative formula for the CENTER interval's functions *)
Lemma deriv_nonzero_dB n x side c :
  2 * Z.of_nat n + 2 <= nknots ->
  walk_post kn nknots n x side c (adjust_left kn nknots (Z.of_nat n) x c) ->
  bspline_deriv_nonzero kn nknots n x c = map (fun i => dBfun kn side 1 n (c - Z.of_nat n + Z.of_nat i) x) (seq 0 (S n)).
Proof.
  intros Hn. destruct n as [|n1].
  - intros _. reflexivity.
  - unfold bspline_deriv_nonzero. set (n := S n1) in *. set (l := adjust_left kn nknots (Z.of_nat n) x c).
    intros [Hl0 [Hl1 [Hp [Hc Hrel]]]].
    destruct (deboor_B F kn nknots Hmono side l x Hl0 Hl1 Hp n1) as [f [E Hf]]. rewrite E. clear E.
    destruct (deriv_combine_spec side l x Hl0 Hl1 Hp n1 f Hf) as [g [E Hg]]. fold n in E, Hg |- *. rewrite E. clear E.
    unfold rearrange.
    destruct (Z.ltb_spec 0 (Z.of_nat n - l)) as [HL|HL].
    + assert (Hcn : c = Z.of_nat n) by lia. subst c.
      set (k := Z.to_nat (Z.of_nat n - l)).
      assert (Hk : (1 <= k <= n)%nat) by (subst k; lia).
      rewrite skipn_map, skipn_seq. replace (Nat.min k (S n)) with k by lia.
      assert (Hs : seq 0 (S n) = seq 0 (S n - k) ++ seq (0 + (S n - k)) k) by (rewrite <- seq_app; f_equal; lia).
      rewrite Hs, map_app. f_equal.
      * apply map_seq_eq. intros i Hi. cbn [Nat.add]. rewrite Hg; [unfold dv; f_equal; lia | lia | split; lia].
      * apply repeat_map_seq. intros i Hi. cbn [Nat.add]. symmetry.
        symmetry. apply (dB1_support side l x Hl0 Hl1 Hp); lia.
    + destruct (Z.ltb_spec 0 (l + Z.of_nat n + 2 - nknots)) as [HR|HR].
      * assert (Hcn : c = nknots - Z.of_nat n - 2) by lia.
        set (k := Z.to_nat (l + Z.of_nat n + 2 - nknots)).
        assert (Hk : (1 <= k <= n)%nat) by (subst k; lia).
        replace (Nat.min k (S n)) with k by lia.
        rewrite firstn_map, firstn_seq. replace (Nat.min (S n - k) (S n)) with (S n - k)%nat by lia.
        assert (Hs : seq 0 (S n) = seq 0 k ++ seq (0 + k) (S n - k)) by (rewrite <- seq_app; f_equal; lia).
        rewrite Hs. rewrite map_app. f_equal.
        -- apply repeat_map_seq. intros i Hi. cbn [Nat.add]. apply (dB1_support side l x Hl0 Hl1 Hp); lia.
        -- apply map_seq_eq. intros i Hi. rewrite Hg; [unfold dv; f_equal; lia | lia | split; lia].
      * assert (Hlc : l = c) by lia.
        apply map_seq_eq. intros i Hi. cbn [Nat.add]. rewrite Hg; [unfold dv; f_equal; lia | lia | split; lia].
Qed.

(* and the support statement the all-dimension assembly needs *)
Lemma dB1_window n x side c :
  walk_post kn nknots n x side c (adjust_left kn nknots (Z.of_nat n) x c) ->
  forall i, 0 <= i < nknots - Z.of_nat n - 1 -> (i < c - Z.of_nat n \/ c < i) -> dBfun kn side 1 n i x = zero.
Proof.
  intros [Hl0 [Hl1 [Hp [Hc Hrel]]]] i Hi Hout.
  apply (dB1_support side _ x Hl0 Hl1 Hp); lia.
Qed.


(* ---------------------------------------------------------------------------------------------- *)
(* derivative orders >= 2: the recursive bspline_deriv / bspline_deriv_left of src/core/bspline.cpp (plain division) *)
Section Recursive.
Hypothesis Hstrict : forall i j, 0 <= i -> i < j -> j < nknots -> lt (kn i) (kn j).
Variable x : K.

Lemma strict_nz a b : 0 <= a -> a < b -> b < nknots -> sub (kn b) (kn a) <> zero.
Proof. intros. apply (lt_sub_neq F). apply Hstrict; lia. Qed.

Lemma bspline_Bfun : forall n i, 0 <= i -> i + Z.of_nat n + 1 < nknots -> bspline kn n x i = Bfun kn true n i x.
Proof.
  induction n as [|n IH]; intros i Hi0 Hi1.
  - reflexivity.
  - cbn [bspline Bfun]. rewrite (IH i), (IH (i + 1)) by lia.
    assert (N1 : sub (kn (i + Z.of_nat (S n))) (kn i) <> zero) by (apply strict_nz; lia).
    assert (N2 : sub (kn (i + Z.of_nat (S n) + 1)) (kn (i + 1)) <> zero) by (apply strict_nz; lia).
    rewrite (wdiv_nz F _ _ N1), (wdiv_nz F _ _ N2). field. split; assumption.
Qed.

Lemma bspline_deriv_dB : forall n i k, 0 <= i -> i + Z.of_nat n + 1 < nknots ->
  bspline_deriv kn n x i (S k) = dBfun kn true (S k) n i x.
Proof.
  induction n as [|n IH]; intros i k Hi0 Hi1; [reflexivity|].
  assert (N1 : sub (kn (i + Z.of_nat (S n))) (kn i) <> zero) by (apply strict_nz; lia).
  assert (N2 : sub (kn (i + Z.of_nat (S n) + 1)) (kn (i + 1)) <> zero) by (apply strict_nz; lia).
  destruct k as [|k].
  - cbn [bspline_deriv dBfun]. rewrite (bspline_Bfun n i), (bspline_Bfun n (i + 1)) by lia.
    rewrite (wdiv_nz F _ _ N1), (wdiv_nz F _ _ N2). field. split; assumption.
  - change (bspline_deriv kn (S n) x i (S (S k))) with
      (sub (div (mul (ofZ (Z.of_nat (S n))) (bspline_deriv kn n x i (S k))) (sub (kn (i + Z.of_nat (S n))) (kn i)))
           (div (mul (ofZ (Z.of_nat (S n))) (bspline_deriv kn n x (i + 1) (S k))) (sub (kn (i + Z.of_nat (S n) + 1)) (kn (i + 1))))).
    rewrite (IH i), (IH (i + 1)) by lia.
    change (dBfun kn true (S (S k)) (S n) i x) with
      (mul (ofZ (Z.of_nat (S n)))
           (sub (wdiv (dBfun kn true (S k) n i x) (sub (kn (i + Z.of_nat (S n))) (kn i)))
                (wdiv (dBfun kn true (S k) n (i + 1) x) (sub (kn (i + Z.of_nat (S n) + 1)) (kn (i + 1)))))).
    rewrite (wdiv_nz F _ _ N1), (wdiv_nz F _ _ N2). field. split; assumption.
Qed.

(* the left-continuous twins (used from the upper end of full support upwards) *)
Lemma bspline_left_Bfun : forall n i, 0 <= i -> i + Z.of_nat n + 1 < nknots -> bspline_left kn n x i = Bfun kn false n i x.
Proof.
  induction n as [|n IH]; intros i Hi0 Hi1.
  - reflexivity.
  - cbn [bspline_left Bfun]. rewrite (IH i), (IH (i + 1)) by lia.
    assert (N1 : sub (kn (i + Z.of_nat (S n))) (kn i) <> zero) by (apply strict_nz; lia).
    assert (N2 : sub (kn (i + Z.of_nat (S n) + 1)) (kn (i + 1)) <> zero) by (apply strict_nz; lia).
    rewrite (wdiv_nz F _ _ N1), (wdiv_nz F _ _ N2). field. split; assumption.
Qed.

Lemma bspline_deriv_left_dB : forall n i k, 0 <= i -> i + Z.of_nat n + 1 < nknots ->
  bspline_deriv_left kn n x i (S k) = dBfun kn false (S k) n i x.
Proof.
  induction n as [|n IH]; intros i k Hi0 Hi1; [reflexivity|].
  assert (N1 : sub (kn (i + Z.of_nat (S n))) (kn i) <> zero) by (apply strict_nz; lia).
  assert (N2 : sub (kn (i + Z.of_nat (S n) + 1)) (kn (i + 1)) <> zero) by (apply strict_nz; lia).
  destruct k as [|k].
  - cbn [bspline_deriv_left dBfun]. rewrite (bspline_left_Bfun n i), (bspline_left_Bfun n (i + 1)) by lia.
    rewrite (wdiv_nz F _ _ N1), (wdiv_nz F _ _ N2). field. split; assumption.
  - change (bspline_deriv_left kn (S n) x i (S (S k))) with
      (sub (div (mul (ofZ (Z.of_nat (S n))) (bspline_deriv_left kn n x i (S k))) (sub (kn (i + Z.of_nat (S n))) (kn i)))
           (div (mul (ofZ (Z.of_nat (S n))) (bspline_deriv_left kn n x (i + 1) (S k))) (sub (kn (i + Z.of_nat (S n) + 1)) (kn (i + 1))))).
    rewrite (IH i), (IH (i + 1)) by lia.
    change (dBfun kn false (S (S k)) (S n) i x) with
      (mul (ofZ (Z.of_nat (S n)))
           (sub (wdiv (dBfun kn false (S k) n i x) (sub (kn (i + Z.of_nat (S n))) (kn i)))
                (wdiv (dBfun kn false (S k) n (i + 1) x) (sub (kn (i + Z.of_nat (S n) + 1)) (kn (i + 1)))))).
    rewrite (wdiv_nz F _ _ N1), (wdiv_nz F _ _ N2). field. split; assumption.
Qed.
End Recursive.

(* local support of the iterated derivative formula *)
Lemma dBk_support side l x : 0 <= l -> l + 1 < nknots -> in_piece kn side l x ->
  forall k n i, 0 <= i -> i + Z.of_nat n + 1 < nknots -> (i + Z.of_nat n < l \/ l < i) -> dBfun kn side k n i x = zero.
Proof.
  intros Hl0 Hl1 Hp. induction k as [|k IH]; intros n i Hi0 Hi1 Hout.
  - cbn [dBfun]. apply (Bfun_support F kn nknots Hmono side l x Hl0 Hl1 Hp); assumption.
  - destruct n as [|n1]; [reflexivity|].
    change (dBfun kn side (S k) (S n1) i x) with
      (mul (ofZ (Z.of_nat (S n1)))
           (sub (wdiv (dBfun kn side k n1 i x) (sub (kn (i + Z.of_nat (S n1))) (kn i)))
                (wdiv (dBfun kn side k n1 (i + 1) x) (sub (kn (i + Z.of_nat (S n1) + 1)) (kn (i + 1)))))).
    rewrite (IH n1 i), (IH n1 (i + 1)) by lia. rewrite !wdiv_zero_num. ring.
Qed.

End OneDim.
