(* C11_Proofs.v — invariants of the block3 model (NnlsModel.v): non-negativity of the returned vector on
   every exit, iteration bounds, and the witnesses that refute "normal exit => KKT" for the exit test
   `nH2 == 0` of the unrepaired solver. (KKT => unique minimiser: C11_KKT_Proofs.v; normal exit => KKT for
   the repaired exit test: C11_Exit_Proofs.v.) *)
From Coq Require Import List ZArith Bool PeanoNat Lia QArith Qcanon.
From PS Require Import Arith Generated_nnls NnlsModel C11_Spec C11_KKT_Proofs.
Import ListNotations.

Section Nonneg.
Context {A : Arith}.
Variable OF : OField A.
Notation K := (T A).

Lemma ltb_false_le (v : K) : ltb v zero = false -> le zero v.
Proof.
  intro H. unfold le. rewrite (OF_ltb_leb A OF) in H.
  destruct (leb zero v); [reflexivity | discriminate].
Qed.

Lemma nonneg_zeros (n : nat) : nonneg (@zeros A n).
Proof.
  unfold nonneg, zeros. induction n as [|n IH]; cbn [repeat]; constructor; auto.
  apply (OF_leb_refl A OF).
Qed.

Lemma nonneg_upd (v : list K) (i : nat) (a : K) : nonneg v -> le zero a -> nonneg (upd v i a).
Proof.
  unfold nonneg. revert i. induction v as [|c v IH]; intros i Hv Ha; cbn [upd]; [constructor|].
  inversion Hv as [|c' v' Hc Hv']; subst. destruct i as [|i]; constructor; auto.
Qed.

Definition paired_nonneg (S : list nat) (z : list K) : Prop := Forall (fun p => le zero (snd p)) (combine S z).

Lemma nonneg_scatter_paired (S : list nat) : forall (z v : list K),
  nonneg v -> paired_nonneg S z -> nonneg (scatter v S z).
Proof.
  induction S as [|i S IH]; intros z v Hv Hp; cbn [scatter]; [exact Hv|].
  destruct z as [|a z]; [exact Hv|].
  unfold paired_nonneg in Hp. cbn [combine] in Hp. inversion Hp as [|p l Ha Hl]; subst. cbn [snd] in Ha.
  apply IH; [apply nonneg_upd; assumption | exact Hl].
Qed.

Lemma paired_of_nonneg (S : list nat) : forall z : list K, nonneg z -> paired_nonneg S z.
Proof.
  unfold paired_nonneg, nonneg. induction S as [|i S IH]; intros z Hz; cbn [combine]; [constructor|].
  destruct z as [|a z]; [constructor|]. inversion Hz; subst. constructor; cbn [snd]; auto.
Qed.

Lemma nonneg_scatter (S : list nat) (z v : list K) : nonneg v -> nonneg z -> nonneg (scatter v S z).
Proof. intros Hv Hz. apply nonneg_scatter_paired; [exact Hv | apply paired_of_nonneg; exact Hz]. Qed.

(* nnls.c:1016 — nF_inf == 0 means every coefficient of the reduced solution is >= 0 *)
Lemma count_inf_zero (tol : K) (x : list K) (F : list nat) : forall xF : list K,
  fst (count_inf tol x F xF) = 0%nat -> paired_nonneg F xF.
Proof.
  unfold paired_nonneg. induction F as [|i F IH]; intros xF H; cbn [combine]; [constructor|].
  destruct xF as [|z xF]; [constructor|].
  cbn [count_inf] in H. destruct (count_inf tol x F xF) as [ni nb] eqn:E.
  destruct (ltb z zero) eqn:Ez; cbn [fst] in H; [discriminate|].
  constructor; cbn [snd]; [apply ltb_false_le; exact Ez | apply IH; rewrite E; exact H].
Qed.

(* evaluate_descent projects every trial point into the feasible region *)
Lemma trial_nonneg (al : K) (x : list K) (F : list nat) : forall xF : list K,
  nonneg (fst (trial al x F xF)).
Proof.
  unfold nonneg. induction F as [|i F IH]; intros xF; cbn [trial]; [constructor|].
  destruct xF as [|z xF]; [constructor|].
  specialize (IH xF). destruct (trial al x F xF) as [xc h1]. cbn [fst] in IH.
  destruct (ltb (add (mul (sub one al) (nthK x i)) (mul al z)) zero) eqn:E; cbn [fst]; constructor; auto.
  - apply (OF_leb_refl A OF).
  - apply ltb_false_le. exact E.
Qed.

Lemma walk_nonneg (res0 : K) (MF : list (list K)) (bF x : list K) (F : list nat) (xF : list K) :
  forall (als : list K) (k : nat) k' xc h1 red,
  walk res0 MF bF x F xF k als = Some (k', xc, h1, red) -> nonneg xc.
Proof.
  induction als as [|al rest IH]; intros k k' xc h1 red H; cbn [walk] in H; [discriminate|].
  pose proof (trial_nonneg al x F xF) as Ht.
  destruct (trial al x F xF) as [xc0 h0]. cbn [fst] in Ht.
  destruct (ltb (resid MF bF xc0) res0).
  - inversion H; subst. exact Ht.
  - destruct rest as [|al' rest'].
    + inversion H; subst. exact Ht.
    + eapply IH. exact H.
Qed.

Section Run.
Variable repaired : bool.
Variable solve : list nat -> option (list K).
Variable M : list (list K).
Variable b : list K.
Variable tol : K.

(* the `while (!feasible)` loop keeps x >= 0 *)
Lemma inner_nonneg : forall fuel x F G H1 H2 tr r,
  nonneg x -> inner solve M b tol fuel x F G H1 H2 tr = inr r -> nonneg (ir_x r).
Proof.
  induction fuel as [|fuel IH]; intros x F G H1 H2 tr r Hx H; cbn [inner] in H; [discriminate|].
  set (F1 := sort_nat (remove_all F H1 ++ H2)) in *.
  set (G1 := sort_nat (remove_all (G ++ H1) H2)) in *.
  destruct (solve F1) as [xF|] eqn:Es; [|discriminate].
  pose proof (count_inf_zero tol x F1 xF) as Hc.
  destruct (count_inf tol x F1 xF) as [ninf nbnd]. cbn [fst] in Hc.
  destruct (Nat.eqb ninf 0) eqn:E0.
  - apply Nat.eqb_eq in E0. inversion H; subst. cbn [ir_x].
    apply nonneg_scatter_paired; [exact Hx | apply Hc; reflexivity].
  - destruct (Nat.eqb ninf nbnd).
    + eapply IH; [|exact H]. apply nonneg_scatter; [exact Hx | apply nonneg_zeros].
    + destruct (walk_descents M b x F1 xF) as [[[[k xc] h1] red]|] eqn:Ew; [|discriminate].
      assert (Hxc : nonneg xc) by (unfold walk_descents in Ew; eapply walk_nonneg; exact Ew).
      destruct red.
      * inversion H; subst. cbn [ir_x]. apply nonneg_scatter; assumption.
      * eapply IH; [|exact H]. apply nonneg_scatter; assumption.
Qed.

Lemma outer_step_nonneg (n : nat) (s : state) : nonneg (st_x s) ->
  match outer_step repaired solve M b tol n s with
  | inl (_, s') => nonneg (st_x s')
  | inr s' => nonneg (st_x s')
  end.
Proof.
  intro Hx. unfold outer_step.
  match goal with |- context [if ?c then _ else _] => destruct c end; [cbn [st_x]; exact Hx|].
  match goal with |- context [inner ?a ?b ?c ?d ?e ?f ?g ?h ?i ?j ?k] => destruct (inner a b c d e f g h i j k) as [e0|r] eqn:Ei end.
  - exact Hx.
  - cbn [st_x]. apply nonneg_scatter; [|apply nonneg_zeros].
    eapply inner_nonneg; [exact Hx | exact Ei].
Qed.

Lemma outer_nonneg (n : nat) : forall fuel iter s, nonneg (st_x s) ->
  nonneg (r_x (outer repaired solve M b tol n fuel iter s)).
Proof.
  induction fuel as [|fuel IH]; intros iter s Hx; cbn [outer]; [cbn [r_x]; exact Hx|].
  pose proof (outer_step_nonneg n s Hx) as Hs.
  destruct (outer_step repaired solve M b tol n s) as [[e s']|s']; [cbn [r_x]; exact Hs | apply IH; exact Hs].
Qed.

(* every exit (normal, max_iter, and the model's own failure exits): x >= 0 *)
Theorem block3_run_nonneg (max_iter : nat) : nonneg (r_x (block3_run repaired solve M b tol max_iter)).
Proof. unfold block3_run. apply outer_nonneg. cbn [init_state st_x]. apply nonneg_zeros. Qed.

(* ---- iteration bounds ------------------------------------------------------------------------------ *)
Lemma outer_iters (n : nat) : forall fuel iter s,
  (r_iters (outer repaired solve M b tol n fuel iter s) <= iter + fuel)%nat /\
  (r_exit (outer repaired solve M b tol n fuel iter s) = MaxIter -> r_iters (outer repaired solve M b tol n fuel iter s) = (iter + fuel)%nat).
Proof.
  induction fuel as [|fuel IH]; intros iter s; cbn [outer].
  - cbn [r_iters r_exit]. split; [lia | intros _; lia].
  - destruct (outer_step repaired solve M b tol n s) as [[e s']|s'] eqn:Eo.
    + cbn [r_iters r_exit]. split; [lia|]. intro He. subst e.
      (* outer_step never reports MaxIter itself *)
      unfold outer_step in Eo.
      match type of Eo with context [if ?c then _ else _] => destruct c end; [inversion Eo|].
      match type of Eo with context [inner ?a ?b ?c ?d ?e ?f ?g ?h ?i ?j ?k] => destruct (inner a b c d e f g h i j k) as [e0|r] eqn:Ei end;
        [|discriminate].
      inversion Eo; subst. exfalso. clear - Ei.
      revert Ei. generalize (2 * n + 2)%nat as fu.
      match goal with |- forall fu, inner _ _ _ _ fu ?x ?F ?G ?H1 ?H2 ?tr = _ -> _ => generalize x F G H1 H2 tr end.
      intros x F G H1 H2 tr fu. revert x F G H1 H2 tr.
      induction fu as [|fu IHf]; intros x F G H1 H2 tr Ei; cbn [inner] in Ei; [discriminate|].
      destruct (solve _) as [xF|]; [|discriminate].
      destruct (count_inf _ _ _ _) as [ninf nbnd].
      destruct (Nat.eqb ninf 0); [discriminate|].
      destruct (Nat.eqb ninf nbnd); [eapply IHf; exact Ei|].
      destruct (walk_descents _ _ _ _ _) as [[[[k xc] h1] red]|]; [|discriminate].
      destruct red; [discriminate | eapply IHf; exact Ei].
    + specialize (IH (S iter) s'). destruct IH as [IH1 IH2]. split; [lia | intro He; rewrite (IH2 He); lia].
Qed.

Theorem block3_run_iters (max_iter : nat) :
  (r_iters (block3_run repaired solve M b tol max_iter) <= max_iter)%nat /\
  (r_exit (block3_run repaired solve M b tol max_iter) = MaxIter -> r_iters (block3_run repaired solve M b tol max_iter) = max_iter).
Proof. unfold block3_run. pose proof (outer_iters (length b) max_iter 0 (init_state b (length b))) as H. cbn [Nat.add] in H. exact H. Qed.

(* number of reduced solves recorded in a trace *)
Fixpoint solves (tr : list event) : nat :=
  match tr with [] => 0 | EvSolve _ :: tr' => S (solves tr') | _ :: tr' => solves tr' end.

(* per pass of the outer loop the inner loop performs at most [fuel] reduced solves *)
Lemma inner_solves : forall fuel x F G H1 H2 tr r,
  inner solve M b tol fuel x F G H1 H2 tr = inr r -> (solves (ir_trace r) <= solves tr + fuel)%nat.
Proof.
  induction fuel as [|fuel IH]; intros x F G H1 H2 tr r H; cbn [inner] in H; [discriminate|].
  destruct (solve _) as [xF|]; [|discriminate].
  destruct (count_inf _ _ _ _) as [ninf nbnd].
  destruct (Nat.eqb ninf 0).
  - inversion H; subst. cbn [ir_trace solves]. lia.
  - destruct (Nat.eqb ninf nbnd).
    + apply IH in H. cbn [solves] in H. lia.
    + destruct (walk_descents _ _ _ _ _) as [[[[k xc] h1] red]|]; [|discriminate].
      destruct red.
      * inversion H; subst. cbn [ir_trace solves]. lia.
      * apply IH in H. cbn [solves] in H. lia.
Qed.

(* a "descent at boundary" pass binds at least one coefficient: the inner loop cannot repeat it for ever *)
Lemma neg_set_nonempty (x : list K) (F : list nat) : forall xF : list K,
  fst (count_inf tol x F xF) <> 0%nat -> neg_set F xF <> [].
Proof.
  induction F as [|i F IH]; intros xF H; cbn [count_inf neg_set] in *.
  - exfalso. apply H. reflexivity.
  - destruct xF as [|z xF]; [exfalso; apply H; reflexivity|].
    destruct (count_inf tol x F xF) as [ni nb] eqn:E.
    destruct (ltb z zero); [discriminate|]. cbn [fst] in H. apply IH. rewrite E. exact H.
Qed.
Lemma neg_set_incl (F : list nat) : forall (xF : list K) i, In i (neg_set F xF) -> In i F.
Proof.
  induction F as [|j F IH]; intros xF i H; cbn [neg_set] in H; [contradiction|].
  destruct xF as [|z xF]; [contradiction|].
  destruct (ltb z zero); [destruct H as [H|H]; [left; exact H | right; eapply IH; exact H] | right; eapply IH; exact H].
Qed.
End Run.
End Nonneg.

(* ---------------------------------------------------------------------------------------------------- *)
(* Witnesses at exact rationals. [block3_gen false] is nnls_normal_block3 as it was before the repair
   (exit test `nH2 == 0`): it leaves the loop normally with vectors that violate KKT, on three different
   paths. All three replay on the real solver (corpus/C11). *)
Definition Qz (z : Z) : Qc := Q2Qc (inject_Z z).
Definition QM (l : list (list Z)) : list (list Qc) := map (map Qz) l.
Definition Qv (l : list Z) : list Qc := map Qz l.

(* path 1: exit after a projected line-search step with coefficients still waiting in H1 (nH1 > 0) *)
Definition W1_M := QM [[1; -1; 0]; [-1; 2; 1]; [0; 1; 2]]%Z.
Definition W1_b := Qv [2; 0; 1]%Z.
(* path 2: exit after a step to a break point; the blocking coefficient is exactly 0, not in H1 (nH1 == 0) *)
Definition W2_M := QM [[1; -1; 1]; [-1; 2; 0]; [1; 0; 3]]%Z.
Definition W2_b := Qv [0; 2; 1]%Z.
(* path 3: the coefficient bound by the step is at once marked for release; H1 and H2 cancel, nH2 becomes 0 *)
Definition W3_M := QM [[62; -60; 51; -20; -32]; [-60; 232; -6; 121; 193]; [51; -6; 140; 61; 33]; [-20; 121; 61; 137; 110]; [-32; 193; 33; 110; 175]]%Z.
Definition W3_b := Qv [9; 115; 74; 2; 129]%Z.

Definition bad_exit (M : list (list Qc)) (b : list Qc) : bool :=
  let r := @block3_gen QcA false M b in
  match r_exit r with NormalExit => true | _ => false end &&
  negb (@kkt_check QcA (@block3_tol QcA (length b)) M b (r_x r)) &&
  @symb QcA M.

Lemma W1_bad : bad_exit W1_M W1_b = true. Proof. vm_compute. reflexivity. Qed.
Lemma W2_bad : bad_exit W2_M W2_b = true. Proof. vm_compute. reflexivity. Qed.
Lemma W3_bad : bad_exit W3_M W3_b = true. Proof. vm_compute. reflexivity. Qed.
(* what was returned / what the optimum is *)
Lemma W1_values : r_x (@block3_gen QcA false W1_M W1_b) = Qv [5; 3; 0]%Z /\ @nnls_spec QcA W1_M W1_b = Some (Qv [4; 2; 0]%Z).
Proof. split; vm_compute; reflexivity. Qed.
Lemma W1_paths :
  r_H1 (@block3_gen QcA false W1_M W1_b) <> [] /\                       (* path 1: H1 pending at the exit *)
  r_H1 (@block3_gen QcA false W2_M W2_b) = [] /\ r_full (@block3_gen QcA false W2_M W2_b) = false /\  (* path 2 *)
  r_H1 (@block3_gen QcA false W3_M W3_b) = [] /\ r_full (@block3_gen QcA false W3_M W3_b) = false /\
  last (r_trace (@block3_gen QcA false W3_M W3_b)) EvFeas = EvAlpha 3 1 true.                       (* path 3 *)
Proof. vm_compute. repeat split; try reflexivity. discriminate. Qed.

(* the repaired exit test on the same systems: the optimum *)
Lemma W_repaired :
  r_x (@block3_gen QcA true W1_M W1_b) = Qv [4; 2; 0]%Z /\
  @nnls_spec QcA W2_M W2_b = Some (r_x (@block3_gen QcA true W2_M W2_b)) /\
  @kkt_check QcA (Q2Qc 0) W3_M W3_b (r_x (@block3_gen QcA true W3_M W3_b)) = true.
Proof. vm_compute. repeat split; reflexivity. Qed.

(* exit by exhaustion of the iteration budget is silent and not protected by anything: with a budget of one
   pass (instead of block3_max_iter) the same code returns a non-optimal vector and reports MaxIter *)
Lemma maxiter_exit_not_kkt :
  let r := @block3_run QcA true (@solve_checked QcA W1_M W1_b) W1_M W1_b (@block3_tol QcA 3) 1 in
  r_exit r = MaxIter /\ @kkt_check QcA (@block3_tol QcA 3) W1_M W1_b (r_x r) = false.
Proof. vm_compute. split; reflexivity. Qed.

(* ---- the statements of Properties_C11.v about [block3] (the solver as in the source tree) ---------------- *)
Lemma block3_nonneg (A : Arith) (OF : OField A) (M : list (list (T A))) (b : list (T A)) : nonneg (r_x (block3 M b)).
Proof. unfold block3, block3_gen. apply (block3_run_nonneg OF). Qed.

Lemma block3_terminates (A : Arith) (M : list (list (T A))) (b : list (T A)) :
  (r_iters (block3 M b) <= block3_max_iter)%nat /\
  (r_exit (block3 M b) = MaxIter -> r_iters (block3 M b) = block3_max_iter).
Proof. unfold block3, block3_gen. apply block3_run_iters. Qed.

Lemma W1_exit : r_exit (@block3_gen QcA false W1_M W1_b) = NormalExit.
Proof. vm_compute. reflexivity. Qed.
Lemma W1_symb : @symb QcA W1_M = true.
Proof. vm_compute. reflexivity. Qed.
Lemma W1_not_kkt : @kkt_check QcA (@block3_tol QcA (length W1_b)) W1_M W1_b (r_x (@block3_gen QcA false W1_M W1_b)) = false.
Proof. vm_compute. reflexivity. Qed.

Lemma block3_old_exit_kkt_refuted :
  exists (M : list (list Qc)) (b : list Qc),
    @symmetric QcA M /\ @wf_mat QcA (length b) M /\
    r_exit (@block3_gen QcA false M b) = NormalExit /\
    ~ @kkt_tol QcA (@block3_tol QcA (length b)) M b (r_x (@block3_gen QcA false M b)).
Proof.
  exists W1_M, W1_b.
  destruct (symb_sound QcA_OField W1_M W1_symb) as [Hsym Hwf].
  split; [exact Hsym|]. split; [exact Hwf|]. split; [exact W1_exit|].
  intro Hkkt. apply (kkt_check_iff QcA_OField) in Hkkt. rewrite W1_not_kkt in Hkkt. discriminate.
Qed.

Lemma W1_new_exit : r_exit (@block3_gen QcA true W1_M W1_b) = NormalExit.
Proof. vm_compute. reflexivity. Qed.
Lemma W1_new_x : r_x (@block3_gen QcA true W1_M W1_b) = Qv [4; 2; 0]%Z.
Proof. vm_compute. reflexivity. Qed.
Lemma example_normal_exit :
  r_exit (@block3_gen QcA true W1_M W1_b) = NormalExit /\ r_x (@block3_gen QcA true W1_M W1_b) = Qv [4; 2; 0]%Z /\
  @wf_mat QcA (length W1_b) W1_M.
Proof. split; [exact W1_new_exit|]. split; [exact W1_new_x|]. exact (proj2 (symb_sound QcA_OField W1_M W1_symb)). Qed.
Lemma W1_kkt_check : @kkt_check QcA (@zero QcA) W1_M W1_b (Qv [4; 2; 0]%Z) = true.
Proof. vm_compute. reflexivity. Qed.
Lemma example_kkt : @kkt QcA W1_M W1_b (Qv [4; 2; 0]%Z).
Proof. apply (kkt_check_iff QcA_OField). exact W1_kkt_check. Qed.
