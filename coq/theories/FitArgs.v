(* FitArgs.v — C13: the *shape* of the arguments of splinetable::fit, the vocabulary of its argument checks,
   the interpreter that runs a sequence of checks in source order, and the memory contract of everything
   below the checks.  Executable definitions only — no proofs in this file.

   Sources (working tree of the library):
     include/photospline/detail/fit.h      splinetable<Alloc>::fit        (sanity block, then member set-up)
     src/fitter/glam.c                     glamfit_complex, add_penalty_term, calc_penalty, divided_diffs
     src/fitter/splineutil.c               bsplinebasis, bspline, slicemultiply
     src/cinter/splinetable.cpp            splinetable_glamfit

   The sequence of checks itself is NOT written here: tools/translators/fitargs.py transcribes it from
   fit.h into Generated_fitargs.fit_checks_src (a [list item]); FitArgsModel.v runs it.  The sequence of the
   unchanged library (before the C13 fixes) is kept below as [fit_checks_v0] for the refutation theorems. *)
From Coq Require Import List NArith Bool Arith.
Import ListNotations.
Local Open Scope N_scope.

(* ---------------------------------------------------------------------------------------------------- *)
(* The argument shape. Sizes are N (orders may be "huge"), dimension indices and container counts are nat
   (= length of the lists). data.ndim = length ranges. *)
Record fitargs := {
  rows      : N;            (* data.rows                                                            *)
  ranges    : list N;       (* data.ranges[0 .. data.ndim)                                           *)
  maxidx    : list N;       (* max_element(data.i[d], data.i[d]+rows) per dimension (rows >= 1)      *)
  nweights  : N;            (* weights.size()                                                        *)
  coordlens : list N;       (* coords[k].size();        coords.size()       = length coordlens       *)
  orders    : list N;       (* splineOrder[k];          splineOrder.size()  = length orders          *)
  knotvecs  : list (N * bool); (* (knots[k].size(), std::is_sorted(knots[k]));  knots.size() = length knotvecs *)
  smooth_nz : list bool;    (* smoothing[k] != 0.0;     smoothing.size()    = length smooth_nz       *)
  porders   : list N;       (* penaltyOrder[k];         penaltyOrder.size() = length porders         *)
  monodim   : option N      (* None = no_monodim                                                     *)
}.

(* positional constructor (case files, witnesses) *)
Definition mk (rows : N) (rg mx : list N) (nw : N) (cl od : list N) (kv : list (N * bool)) (sm : list bool) (po : list N)
  (mono : option N) : fitargs :=
  {| rows := rows; ranges := rg; maxidx := mx; nweights := nw; coordlens := cl; orders := od; knotvecs := kv;
     smooth_nz := sm; porders := po; monodim := mono |}.

Definition ndim (a : fitargs) : nat := length (ranges a).

Definition nthN (l : list N) (d : nat) : N := nth d l 0.
Definition knotlen (a : fitargs) (d : nat) : N := fst (nth d (knotvecs a) (0, true)).
Definition ksorted (a : fitargs) (d : nat) : bool := snd (nth d (knotvecs a) (0, true)).
(* `v.size()>1 ? v[i] : v[0]`   (fit.h: smoothing / penaltyOrder selection, lines 132-133 of the unchanged file) *)
Definition sel {A} (l : list A) (d : nat) (dflt : A) : A := if (1 <? length l)%nat then nth d l dflt else nth 0%nat l dflt.
(* the index used by that expression is inside the container *)
Definition sel_ok {A} (l : list A) (d : nat) : bool := if (1 <? length l)%nat then (d <? length l)%nat else (1 <=? length l)%nat.
(* uint64_t subtraction (wraps) — `knots[i].size()-splineOrder[i]-1` *)
Definition usub64 (x y : N) : N := if y <=? x then x - y else x + 2^64 - y.

(* ---------------------------------------------------------------------------------------------------- *)
(* Vocabulary of checks. One constructor per condition text the translator recognises. *)
Inductive gcond :=            (* evaluated once *)
| GNdimZero                   (* data.ndim==0                                                  [C13 fix] *)
| GRowsZero                   (* data.rows==0                                                  [C13 fix] *)
| GWeights                    (* data.rows!=weights.size()                                              *)
| GNCoords                    (* coords.size()!=data.ndim                                               *)
| GNOrders                    (* splineOrder.size()!=data.ndim                                          *)
| GNKnotVecs                  (* knots.size()!=data.ndim                                                *)
| GNSmooth                    (* smoothing.size()!=data.ndim && smoothing.size()!=1                     *)
| GNPenalty                   (* penaltyOrder.size()!=data.ndim && penaltyOrder.size()!=1               *)
| GMonodim.                   (* monodim!=no_monodim && monodim>=data.ndim                              *)

Inductive dcond :=            (* evaluated for i = 0 .. data.ndim-1 inside a loop *)
| DMaxIdx                     (* maxIdx=*max_element(data.i[i],data.i[i]+data.rows); maxIdx>=data.ranges[i] *)
| DCoordLen                   (* coords[i].size()<data.ranges[i]                               [C13 fix] *)
| DKnotCount                  (* knots[i].size()<(uint64_t)splineOrder[i]+2                    [C13 fix] *)
| DUnsorted                   (* !std::is_sorted(knots[i].begin(),knots[i].end())                       *)
| DPenaltyOrder.              (* smoothing(i)!=0.0 && (pOrder>splineOrder[i] || pOrder>knots[i].size()-splineOrder[i]-1)  [C13 fix] *)

Inductive item := Once (g : gcond) | PerDim (cs : list dcond).

Scheme Equality for gcond.
Scheme Equality for dcond.

(* the condition of the `if` — true = the check throws *)
Definition g_fires (g : gcond) (a : fitargs) : bool :=
  match g with
  | GNdimZero  => (ndim a =? 0)%nat
  | GRowsZero  => rows a =? 0
  | GWeights   => negb (rows a =? nweights a)
  | GNCoords   => negb (length (coordlens a) =? ndim a)%nat
  | GNOrders   => negb (length (orders a) =? ndim a)%nat
  | GNKnotVecs => negb (length (knotvecs a) =? ndim a)%nat
  | GNSmooth   => negb (length (smooth_nz a) =? ndim a)%nat && negb (length (smooth_nz a) =? 1)%nat
  | GNPenalty  => negb (length (porders a) =? ndim a)%nat && negb (length (porders a) =? 1)%nat
  | GMonodim   => match monodim a with None => false | Some m => N.of_nat (ndim a) <=? m end
  end.

Definition d_fires (c : dcond) (a : fitargs) (d : nat) : bool :=
  match c with
  | DMaxIdx       => nthN (ranges a) d <=? nthN (maxidx a) d
  | DCoordLen     => nthN (coordlens a) d <? nthN (ranges a) d
  | DKnotCount    => knotlen a d <? nthN (orders a) d + 2
  | DUnsorted     => negb (ksorted a d)
  | DPenaltyOrder => sel (smooth_nz a) d false &&
                     ((nthN (orders a) d <? sel (porders a) d 0) ||
                      (usub64 (usub64 (knotlen a d) (nthN (orders a) d)) 1 <? sel (porders a) d 0))
  end.

(* what evaluating the condition itself needs (memory contract of the check; d < data.ndim is given by the loop) *)
Definition d_pre (c : dcond) (a : fitargs) (d : nat) : bool :=
  match c with
  | DMaxIdx       => 1 <=? rows a                                  (* *max_element of an empty range dereferences data.i[i]+0 *)
  | DCoordLen     => (d <? length (coordlens a))%nat               (* coords[i] *)
  | DKnotCount    => (d <? length (knotvecs a))%nat && (d <? length (orders a))%nat       (* knots[i], splineOrder[i] *)
  | DUnsorted     => (d <? length (knotvecs a))%nat                (* knots[i] *)
  | DPenaltyOrder => sel_ok (smooth_nz a) d && sel_ok (porders a) d &&
                     (d <? length (orders a))%nat && (d <? length (knotvecs a))%nat
  end.
(* the once-only conditions read only sizes and scalars: no precondition *)

(* which once-only checks must have passed before a per-dimension check may be evaluated safely *)
Definition d_requires (c : dcond) : list gcond :=
  match c with
  | DMaxIdx       => [GRowsZero]
  | DCoordLen     => [GNCoords]
  | DKnotCount    => [GNOrders; GNKnotVecs]
  | DUnsorted     => [GNKnotVecs]
  | DPenaltyOrder => [GNSmooth; GNPenalty; GNOrders; GNKnotVecs]
  end.

(* ---------------------------------------------------------------------------------------------------- *)
(* Running a sequence of checks in source order: the FIRST condition that holds decides. *)
Inductive cref := G (g : gcond) | D (c : dcond) (d : nat).
Inductive verdict :=
| Accept
| Reject (c : cref)          (* this check threw std::logic_error *)
| CheckFault (c : cref).     (* this check was evaluated outside its own memory contract (undefined behaviour inside the sanity block) *)

Fixpoint run_dconds (cs : list dcond) (a : fitargs) (d : nat) : option verdict :=
  match cs with
  | [] => None
  | c :: cs' => if negb (d_pre c a d) then Some (CheckFault (D c d))
                else if d_fires c a d then Some (Reject (D c d))
                else run_dconds cs' a d
  end.

Fixpoint run_dims (cs : list dcond) (a : fitargs) (ds : list nat) : option verdict :=
  match ds with
  | [] => None
  | d :: ds' => match run_dconds cs a d with Some v => Some v | None => run_dims cs a ds' end
  end.

Definition run_item (it : item) (a : fitargs) : option verdict :=
  match it with
  | Once g => if g_fires g a then Some (Reject (G g)) else None
  | PerDim cs => run_dims cs a (seq 0 (ndim a))
  end.

Fixpoint run_checks (l : list item) (a : fitargs) : verdict :=
  match l with
  | [] => Accept
  | it :: l' => match run_item it a with Some v => v | None => run_checks l' a end
  end.

(* The sanity block of the unchanged library (snapshot a37ac82 .. 74e3278), for the refutation theorems. *)
Definition fit_checks_v0 : list item :=
  [ Once GWeights; PerDim [DMaxIdx]; Once GNCoords; Once GNOrders; Once GNKnotVecs; PerDim [DUnsorted];
    Once GNSmooth; Once GNPenalty; Once GMonodim ].

(* ---------------------------------------------------------------------------------------------------- *)
(* The contract of everything fit() does after the sanity block, read access by access.
   [vla] = divided_diffs declares a[order], b[order] after its `porder==0` return (translated from glam.c).
   Line numbers: fit.h / glam.c / splineutil.c of the unchanged snapshot. *)
Definition dim_contract (vla : bool) (a : fitargs) (d : nat) : bool :=
  (* every index of data.i[d] is a row of the basis matrix: slicemultiply puts a->i[dim][i] into a triplet with
     nrow = ranges[dim] (splineutil.c:159-172); the property: "a data index outside its declared range" *)
  (nthN (maxidx a) d <? nthN (ranges a) d)
  (* bsplinebasis(knots[i], nknots[i], coords[i], data->ranges[i], ...) reads x[row] for row < npts = ranges[i]
     (glam.c:58, splineutil.c:117-120) *)
  && (nthN (ranges a) d <=? nthN (coordlens a) d)
  (* naxes[i] = nknots[i]-order[i]-1 in uint64_t must not wrap and must be >= 1: fit.h:89 (naxes), :94-95 (ncoeffs,
     allocate), :114 (extents[i][1] = knots[i][nknots-order-1]), :125; glam.c:43, splineutil.c:111-120 (bspline reads
     knots[col+order+1], col < nsplines), glam.c:429 (triplet of nsplines columns) *)
  && (nthN (orders a) d + 2 <=? knotlen a d)
  (* no access depends on it; the property demands that unsorted knots are reported *)
  && ksorted a d
  (* only when a penalty term is built (add_penalty_term returns early for scale == 0.0, glam.c:312):
     divided_diffs(order, porder, ..) writes a[porder-1] (recursion, glam.c:391-392) and out[porder] (glam.c:406)
     into a[order]/b[order] (glam.c:366): porder <= order;
     calc_penalty allocates (nsplines-porder) rows and loops `row < nsplines[dim]-porder` in unsigned arithmetic
     (glam.c:429-432): porder <= nsplines = nknots-order-1 *)
  && implb (sel (smooth_nz a) d false)
           ((sel (porders a) d 0 <=? nthN (orders a) d) &&
            (sel (porders a) d 0 <=? knotlen a d - nthN (orders a) d - 1))
  (* `double a[order], b[order]` with order == 0 is a zero-length VLA (glam.c:366) unless declared after the
     porder==0 return *)
  && (vla || implb (sel (smooth_nz a) d false) (1 <=? nthN (orders a) d)).

Definition fit_contract_with (vla : bool) (a : fitargs) : bool :=
  (* extents[0] (fit.h:86), strides[ndim-1] (fit.h:91), assert(data->ndim>0) (glam.c:32), moduli[ndim-1] (glam.c:342) *)
  (1 <=? ndim a)%nat
  (* fit.h:32 dereferences max_element(data.i[i], data.i[i]+rows) *)
  && (1 <=? rows a)
  (* memcpy(R.x, weights, data->rows*sizeof(double)) (glam.c:101-102) *)
  && (nweights a =? rows a)
  (* dummy_coords[i]=coords[i].data() for i<ndim (fit.h:108) *)
  && (length (coordlens a) =? ndim a)%nat
  (* std::copy(splineOrder.begin(),splineOrder.end(),order) into ndim elements (fit.h:80); order[i] for i<ndim *)
  && (length (orders a) =? ndim a)%nat
  (* knots[i].size(), knots[i].begin() for i<ndim (fit.h:84, :102) *)
  && (length (knotvecs a) =? ndim a)%nat
  (* smoothing.size()>1 ? smoothing[i] : smoothing[0] (fit.h:133) *)
  && ((length (smooth_nz a) =? ndim a)%nat || (length (smooth_nz a) =? 1)%nat)
  (* penaltyOrder.size()>1 ? penaltyOrder[i] : penaltyOrder[0] (fit.h:132) *)
  && ((length (porders a) =? ndim a)%nat || (length (porders a) =? 1)%nat)
  (* naxes[monodim] (glam.c:284-296), tril for dimension monodim (glam.c:60) *)
  && match monodim a with None => true | Some m => m <? N.of_nat (ndim a) end
  && forallb (dim_contract vla a) (seq 0 (ndim a)).

(* ---------------------------------------------------------------------------------------------------- *)
(* Static well-formedness of a check sequence (decided by computation on the translated list). *)
Definition has_g (l : list item) (g : gcond) : bool :=
  existsb (fun it => match it with Once g' => gcond_beq g g' | PerDim _ => false end) l.
Definition has_d (l : list item) (c : dcond) : bool :=
  existsb (fun it => match it with Once _ => false | PerDim cs => existsb (dcond_beq c) cs end) l.
Definition all_gconds := [GNdimZero; GRowsZero; GWeights; GNCoords; GNOrders; GNKnotVecs; GNSmooth; GNPenalty; GMonodim].
Definition all_dconds := [DMaxIdx; DCoordLen; DKnotCount; DUnsorted; DPenaltyOrder].
(* every check the contract needs is present *)
Definition covers (l : list item) : bool := forallb (has_g l) all_gconds && forallb (has_d l) all_dconds.
(* every per-dimension check comes after the once-only checks that make its own evaluation safe *)
Fixpoint well_ordered_from (seen : list gcond) (l : list item) : bool :=
  match l with
  | [] => true
  | Once g :: l' => well_ordered_from (g :: seen) l'
  | PerDim cs :: l' =>
      forallb (fun c => forallb (fun g => existsb (gcond_beq g) seen) (d_requires c)) cs && well_ordered_from seen l'
  end.
Definition well_ordered (l : list item) : bool := well_ordered_from [] l.
