(* Properties_C15.v — C15: permuting dimensions relabels axes without changing the function.
   Statements only; proofs are in C15_Proofs.v (and MixedRadix.v). The model is PermModel.permute_checked
   (splinetable::permuteDimensions, permute.h) and PermModel.c_permute (splinetable_permute), compared on every
   run with the real code by complete table dumps.

   Conventions.  [p : list N] is the argument vector (size_t values), [is_permN p n] says that it is a
   permutation of 0..n-1, [map N.to_nat p] are the same indices as list positions.  New axis i is old axis p_i:
   a multi-index m of the old table corresponds to [pick p m] = [m_{p_0}; m_{p_1}; ...] of the new one and
   [flat sh m] is the row-major position of m in shape sh (MixedRadix.v).  [junk] is the content of the freshly
   allocated coefficient buffer (arbitrary).  Element types K (knot vector incl. padding), E (extent/period
   values) and C (coefficients) are abstract: nothing is assumed about floats.

   [wf_table] (C15_Proofs.v): ndim >= 1, every per-axis array has ndim entries, axis lengths positive, stored
   strides row-major, |coefficients| = product of the axis lengths.  ndim = 0 is excluded because the code
   writes t_strides[0] of a zero-length array (undefined behaviour, outside the property's 1..6 dimensions). *)
From Coq Require Import ZArith NArith List Bool Lia Permutation.
From PS Require Import MixedRadix PermModel C15_Proofs.
Import ListNotations.
Local Open Scope Z_scope.

Section C15.
Variables K E C : Type.
Variable t : table K E C.
Hypothesis Hwf : wf_table t.
Variable junk : C.

(* --- rejection: exactly the non-permutations are rejected, the table is untouched, and the error is never the
       "Missing index" of the third loop (which is dead code); no well-formedness needed --- *)
Theorem C15_rejects : forall p, ~ is_permN p (t_ndim t) ->
  exists e, permute_checked junk t p = (Some e, t) /\ e <> ErrMissing.
Proof. exact (thm_rejects K E C t junk). Qed.

Theorem C15_accepts : forall p, is_permN p (t_ndim t) ->
  permute_checked junk t p = (None, permute junk t (map N.to_nat p)).
Proof. exact (thm_accepts K E C t junk). Qed.

Theorem C15_wrong_length_class : forall p, fst (permute_checked junk t p) = Some ErrLength <-> length p <> t_ndim t.
Proof. exact (thm_wrong_length_class K E C t junk). Qed.

(* the C wrapper reads exactly ndim entries; return code 0 and the permuted table, or 1 and the table untouched *)
Theorem C15_c_wrapper : forall p,
  (is_permN (firstn (t_ndim t) p) (t_ndim t) -> c_permute junk t p = (0, permute junk t (map N.to_nat (firstn (t_ndim t) p)))) /\
  (~ is_permN (firstn (t_ndim t) p) (t_ndim t) -> c_permute junk t p = (1, t)).
Proof. exact (thm_c_wrapper K E C t junk). Qed.

Variable p : list N.
Hypothesis Hp : is_permN p (t_ndim t).
Let pn := map N.to_nat p.
Let t' := snd (permute_checked junk t p).

(* --- the coefficient array holds exactly the original values, relocated: the value at multi-index m is found at
       the permuted multi-index of the new shape (both positions inside the arrays); the new array is a
       permutation of the old one; nothing of the uninitialised buffer survives --- *)
Theorem C15_coeff_relocated : forall m, in_shape (t_naxes t) m ->
  (Z.to_nat (flat (t_naxes t) m) < length (t_coeffs t))%nat /\
  nth_error (t_coeffs t') (Z.to_nat (flat (t_naxes t') (pick pn m 0))) = nth_error (t_coeffs t) (Z.to_nat (flat (t_naxes t) m)).
Proof. exact (thm_coeff_relocated K E C t Hwf junk p Hp). Qed.

(* ... and that statement determines the new array completely: any list of the right length satisfying it is the model's
   result. Tables too large for the literal list model to be run are judged by the statement, which by this theorem is the same
   as comparing with the model's output. *)
Theorem C15_coeff_relocation_determines_the_array : forall l : list C, length l = length (t_coeffs t) ->
  (forall m, in_shape (t_naxes t) m ->
     nth_error l (Z.to_nat (flat (t_naxes t') (pick pn m 0))) = nth_error (t_coeffs t) (Z.to_nat (flat (t_naxes t) m))) ->
  l = t_coeffs t'.
Proof. exact (thm_coeff_determined K E C t Hwf junk p Hp). Qed.

Theorem C15_coeff_permutation : Permutation (t_coeffs t) (t_coeffs t').
Proof. exact (thm_coeff_permutation K E C t Hwf junk p Hp). Qed.

Theorem C15_junk_irrelevant : forall junk2, permute_checked junk2 t p = permute_checked junk t p.
Proof. exact (thm_junk_irrelevant K E C t Hwf junk p Hp). Qed.

(* --- every per-dimension attribute appears in the new order; strides are row-major for the new shape; the
       result is again a well-formed table of the same dimension --- *)
Theorem C15_attributes : forall i, (i < t_ndim t)%nat ->
  nth_error (t_order t') i = nth_error (t_order t) (nth i pn 0%nat) /\
  nth_error (t_nknots t') i = nth_error (t_nknots t) (nth i pn 0%nat) /\
  nth_error (t_knots t') i = nth_error (t_knots t) (nth i pn 0%nat) /\
  nth_error (t_extents t') i = nth_error (t_extents t) (nth i pn 0%nat) /\
  nth_error (t_naxes t') i = nth_error (t_naxes t) (nth i pn 0%nat) /\
  match t_periods t with
  | None => t_periods t' = None
  | Some l => exists l', t_periods t' = Some l' /\ length l' = t_ndim t /\ nth_error l' i = nth_error l (nth i pn 0%nat)
  end.
Proof. exact (thm_attributes K E C t Hwf junk p Hp). Qed.

Theorem C15_shape : t_ndim t' = t_ndim t /\ t_strides t' = strides (t_naxes t') /\ wf_table t'.
Proof. exact (thm_shape K E C t Hwf junk p Hp). Qed.

(* --- applying the inverse permutation restores a table EQUAL to the original (every member) --- *)
Theorem C15_inverse :
  permute_checked junk t' (map N.of_nat (inverse_perm (t_ndim t) pn)) = (None, t).
Proof. exact (thm_inverse K E C t Hwf junk p Hp). Qed.

(* the inverse vector is the one with q[p[k]] = k, and it is a permutation itself *)
Theorem C15_inverse_vector : is_perm (inverse_perm (t_ndim t) pn) (t_ndim t) /\
  forall k, (k < t_ndim t)%nat -> nth (nth k pn 0%nat) (inverse_perm (t_ndim t) pn) 0%nat = k.
Proof. exact (thm_inverse_vector K E C t p Hp). Qed.

End C15.

(* ------------------------------------------------------------------------------------------------ *)
(* non-vacuity: a concrete well-formed 2 x 3 table with periods, and the swap of its axes *)
Definition ex_t : table Z Z Z :=
  mkTable 2 [2; 3] [5; 7] [100; 200] [(1, 2); (3, 4)] (Some [10; 20]) [2; 3] [3; 1] [11; 12; 13; 21; 22; 23].
Definition ex_p : list N := [1%N; 0%N].

Example C15_hypotheses_satisfiable :
  wf_table ex_t /\ is_permN ex_p (t_ndim ex_t) /\ in_shape (t_naxes ex_t) [1; 2] /\
  permute_checked (-1) ex_t ex_p =
    (None, mkTable 2 [3; 2] [7; 5] [200; 100] [(3, 4); (1, 2)] (Some [20; 10]) [3; 2] [2; 1] [11; 21; 12; 22; 13; 23]) /\
  ~ is_permN [1%N; 1%N] (t_ndim ex_t) /\ permute_checked (-1) ex_t [1%N; 1%N] = (Some ErrDuplicate, ex_t) /\
  permute_checked (-1) ex_t [2%N; 0%N] = (Some ErrTooLarge, ex_t) /\ permute_checked (-1) ex_t [0%N] = (Some ErrLength, ex_t).
Proof.
  split; [|split; [|split; [|split; [|split; [|split; [|split]]]]]].
  - constructor; cbn; try reflexivity; try lia.
    + intros l H. inversion H. reflexivity.
    + repeat constructor; lia.
  - unfold is_permN, is_perm. cbn. apply perm_swap.
  - repeat constructor; lia.
  - vm_compute. reflexivity.
  - unfold is_permN, is_perm. cbn. intros H. apply Permutation_sym in H.
    assert (In 0%nat [1%nat; 1%nat]) as Hin by (apply (Permutation_in _ H); left; reflexivity).
    cbn in Hin. lia.
  - vm_compute. reflexivity.
  - vm_compute. reflexivity.
  - vm_compute. reflexivity.
Qed.


(* --- same function.  Evaluation is specified (C01) as the sum over ALL stored coefficients of
       c[pos] * prod_i B_i(digit_i pos), where B_i k is the value of the k-th basis function of axis i at the i-th
       coordinate ([tensor_eval], C15_Proofs.v).  Over any commutative semiring (in particular any field: exact
       rationals, reals) the permuted table evaluated with the permuted per-axis basis values (new axis i uses the
       knots and the coordinate of old axis p_i) gives the same value: a reordering of a finite sum of finite
       products.  On IEEE floats the products are reordered, so equality holds only up to rounding: that part is
       checked against the exact value on every run, not proved. --- *)
Section C15_function.
Variable R : Type.
Variables (rO rI : R) (radd rmul : R -> R -> R).
Hypothesis Rth : Ring_theory.semi_ring_theory rO rI radd rmul (@eq R).
Variables K E : Type.
Variable t : table K E R.
Hypothesis Hwf : wf_table t.
Variable p : list N.
Hypothesis Hp : is_permN p (t_ndim t).
Variable junk : R.
Variable B : nat -> Z -> R.

Theorem C15_same_function :
  let t' := snd (permute_checked junk t p) in
  tensor_eval R rO rI radd rmul (t_ndim t) (t_naxes t') (t_coeffs t') (fun i => B (nth i (map N.to_nat p) 0%nat)) =
  tensor_eval R rO rI radd rmul (t_ndim t) (t_naxes t) (t_coeffs t) B.
Proof. exact (thm_same_function R rO rI radd rmul Rth K E t Hwf p Hp junk B). Qed.
End C15_function.

(* the hypotheses of C15_same_function are satisfiable: the integers form a commutative semiring, and on the example
   table the two sums are the same number (basis values B i k := 10 i + k + 1) *)
Definition Z_srt : Ring_theory.semi_ring_theory 0 1 Z.add Z.mul (@eq Z) :=
  Ring_theory.mk_srt 0 1 Z.add Z.mul (@eq Z) Z.add_0_l Z.add_comm Z.add_assoc Z.mul_1_l Z.mul_0_l Z.mul_comm Z.mul_assoc Z.mul_add_distr_r.
Example C15_same_function_example :
  let B := fun (i : nat) (k : Z) => 10 * Z.of_nat i + k + 1 in
  tensor_eval Z 0 1 Z.add Z.mul 2 (t_naxes ex_t) (t_coeffs ex_t) B = 2022 /\
  tensor_eval Z 0 1 Z.add Z.mul 2 (t_naxes (snd (permute_checked (-1) ex_t ex_p))) (t_coeffs (snd (permute_checked (-1) ex_t ex_p)))
              (fun i => B (nth i (map N.to_nat ex_p) 0%nat)) = 2022.
Proof. split; vm_compute; reflexivity. Qed.

(* regression example about the code AS FOUND (permute_checked_v0 = permute.h before fix C15_1): periods were not
   permuted, so the attribute clause of the property was false; replayed on the real code as
   corpus/C15/D11_periods_2d_swap.json *)
Theorem C15_refuted_periods_v0 : exists (t : table Z Z Z) p, wf_table t /\ is_permN p (t_ndim t) /\
  exists l l', t_periods t = Some l /\ t_periods (snd (permute_checked_v0 (-1) t p)) = Some l' /\
               nth_error l' 0 <> nth_error l (nth 0 (map N.to_nat p) 0%nat).
Proof.
  exists ex_t, ex_p. destruct C15_hypotheses_satisfiable as [W [P _]]. split; [exact W|]. split; [exact P|].
  exists [10; 20], [10; 20]. split; [reflexivity|]. split; [vm_compute; reflexivity|]. vm_compute. discriminate.
Qed.

Print Assumptions C15_rejects.
Print Assumptions C15_accepts.
Print Assumptions C15_wrong_length_class.
Print Assumptions C15_c_wrapper.
Print Assumptions C15_coeff_relocated.
Print Assumptions C15_coeff_permutation.
Print Assumptions C15_junk_irrelevant.
Print Assumptions C15_attributes.
Print Assumptions C15_shape.
Print Assumptions C15_inverse.
Print Assumptions C15_inverse_vector.
Print Assumptions C15_same_function.
Print Assumptions C15_same_function_example.
Print Assumptions C15_refuted_periods_v0.
Print Assumptions C15_hypotheses_satisfiable.
