// C13_harness.cpp — runs the REAL splinetable::fit / splinetable_glamfit on argument *shapes*.
//
//   C13_harness <casefile> [skip]
//
// One case per line (see tools/props/C13.py, shape_line):
//   <id> <entry> pop=<0|1> rows=<n> rg=<r0,..> mx=<m0,..> nw=<n> cl=<l0,..> od=<o0,..> kl=<k0,..> ks=<0|1,..>
//        sm=<0|1,..> po=<p0,..> mono=<-1|n>
// entry: cpp | c | c_nulltable | c_nodata | c_nulldata.   "-" is the empty list.   data.ndim = len(rg).
// Every container is allocated with EXACTLY the stated length on the heap, so that a read or write
// beyond it is an AddressSanitizer report. "@<id>" is announced on stderr before each case (a crash is
// attributed to the last announced id by the driver, which restarts after it).
// Result line:  R <id> out=<done|logic|runtime|badalloc|exc|unknown> ret=<int|-> same=<0|1> msg=<text>
#include "verif_common.h"
#include <algorithm>
#include <photospline/cinter/splinetable.h>

static std::vector<long> plist(const std::string& s){
  std::vector<long> r; if(s=="-"||s.empty()) return r;
  std::stringstream ss(s); std::string t;
  while(std::getline(ss,t,',')) r.push_back(std::stol(t));
  return r;
}

template<typename T> static T* exact(size_t n){ return (T*)malloc(n*sizeof(T)); }   // malloc(0) is a valid 0-size block for ASan

// Value + identity dump of every member fit() assigns. Reading all of it also lets ASan see any
// under-allocated member after a completed fit.
static std::string dump(const ST& t){
  std::ostringstream o;
  o<<"ndim="<<t.ndim<<" p="<<(const void*)t.order<<","<<(const void*)t.knots<<","<<(const void*)t.nknots<<","
   <<(const void*)t.extents<<","<<(const void*)t.naxes<<","<<(const void*)t.strides<<","<<(const void*)t.coefficients;
  // the auxiliary keys belong to the state a rejected call must leave unchanged (an EMPTY table may carry keys too)
  o<<" aux="<<t.naux<<"[";
  for(size_t k=0;k<t.naux;k++) o<<t.aux[k][0]<<"="<<t.aux[k][1]<<";";
  o<<"]";
  if(!t.ndim) return o.str();
  uint64_t nc=1;
  for(uint32_t i=0;i<t.ndim;i++){
    o<<" d"<<i<<":"<<t.order[i]<<"/"<<t.nknots[i]<<"/"<<t.naxes[i]<<"/"<<t.strides[i]<<"/"<<(const void*)t.knots[i]<<"[";
    for(uint64_t k=0;k<t.nknots[i];k++) o<<hexd(t.knots[i][k])<<(k+1<t.nknots[i]?",":"");
    o<<"]"<<hexd(t.extents[i][0])<<","<<hexd(t.extents[i][1]);
    nc*=t.naxes[i];
  }
  o<<" c[";
  if(nc<100000) for(uint64_t k=0;k<nc;k++) o<<hexf(t.coefficients[k])<<",";
  o<<"]";
  return o.str();
}

static void populate(ST& t){
  std::vector<uint32_t> ord={2};
  std::vector<std::vector<double>> kn={{0,1,2,3,4,5,6,7}};
  std::vector<float> co={1,2,3,4,5};
  build_table(t,ord,kn,co,0.0);
}

static std::string clean(const char* w){ std::string s(w); for(char& c: s) if(c=='\n'||c=='\r') c=' '; return s; }

int main(int argc,char**argv){
  if(argc<2){ fprintf(stderr,"usage: C13_harness casefile [skip]\n"); return 2; }
  std::ifstream in(argv[1]);
  long skip= argc>2 ? atol(argv[2]) : 0;
  std::string line; long n=0;
  while(std::getline(in,line)){
    if(line.empty()||line[0]=='#') continue;
    if(n++<skip) continue;
    std::stringstream ss(line);
    std::string id,entry,tok; ss>>id>>entry;
    std::map<std::string,std::string> kv;
    while(ss>>tok){ size_t e=tok.find('='); kv[tok.substr(0,e)]=tok.substr(e+1); }
    fprintf(stderr,"@%s\n",id.c_str()); fflush(stderr);
    bool pop=kv["pop"]=="1";
    size_t rows=std::stoul(kv["rows"]);
    std::vector<long> rg=plist(kv["rg"]), mx=plist(kv["mx"]), cl=plist(kv["cl"]), od=plist(kv["od"]), kl=plist(kv["kl"]),
                      ks=plist(kv["ks"]), sm=plist(kv["sm"]), po=plist(kv["po"]);
    size_t nw=std::stoul(kv["nw"]);
    long mono=std::stol(kv["mono"]);
    size_t dd=rg.size();
    if(mx.size()!=dd||ks.size()!=kl.size()){ printf("R %s out=badcase ret=- same=1 msg=-\n",id.c_str()); continue; }
    // ---- data (the C struct, exact allocations) ----
    ::ndsparse data; data.rows=rows; data.ndim=dd;
    data.x=exact<double>(rows); data.i=exact<unsigned int*>(dd); data.ranges=exact<unsigned int>(dd);
    for(size_t d=0;d<dd;d++){
      data.ranges[d]=(unsigned)rg[d];
      data.i[d]=exact<unsigned int>(rows);
      size_t stride=1; for(size_t e=d+1;e<dd;e++) stride*=(size_t)(mx[e]+1);
      for(size_t r=0;r<rows;r++) data.i[d][r]=(unsigned)((r/stride)%(size_t)(mx[d]+1));
      if(rows) data.i[d][rows-1]=(unsigned)mx[d];
    }
    for(size_t r=0;r<rows;r++){ double v=1; for(size_t d=0;d<dd;d++) v+=0.25*data.i[d][r]*(d+1); data.x[r]=v; }
    // ---- the other arguments, exact lengths ----
    double* w=exact<double>(nw); for(size_t k=0;k<nw;k++) w[k]=1.0;
    std::vector<double*> cbuf(cl.size()), kbuf(kl.size());
    for(size_t d=0;d<cl.size();d++){
      cbuf[d]=exact<double>(cl[d]);
      double span= d<kl.size()&&kl[d]>1 ? double(kl[d]-1) : 1.0;
      for(long j=0;j<cl[d];j++) cbuf[d][j]=span*(j+0.5)/double(cl[d]);
    }
    for(size_t d=0;d<kl.size();d++){
      kbuf[d]=exact<double>(kl[d]);
      for(long k=0;k<kl[d];k++) kbuf[d][k]=double(k);
      if(!ks[d] && kl[d]>=2) std::swap(kbuf[d][kl[d]-1],kbuf[d][kl[d]-2]);
    }
    // optional VALUE placement (the lengths above are what the argument checks look at; these are values a valid call may carry):
    //   kz=<per dim> 0 integers 0..kl-1 | 1 all knots equal (zero width, still non-decreasing) | 2 clamped: the first and the last order+1 knots coincide
    //   cp=<per dim> 0 spread inside the knot range | 1 all above it | 2 all below it | 3 all exactly on the last knot | 4 all exactly on the
    //                first knot | 5 the first one inside, the others above | 6 all equal, inside
    std::vector<long> cp=plist(kv.count("cp")?kv["cp"]:std::string("-")), kz=plist(kv.count("kz")?kv["kz"]:std::string("-"));
    for(size_t d=0;d<kl.size()&&d<kz.size();d++){
      if(!ks[d]) continue;        // a vector the shape declares unsorted stays unsorted
      if(kz[d]==1) for(long k=0;k<kl[d];k++) kbuf[d][k]=2.0;
      if(kz[d]==2 && ks[d]){
        long o= d<od.size() ? std::min<long>(od[d],kl[d]) : 0;
        for(long k=0;k<kl[d];k++){ long c=std::min(std::max(k,o),std::max<long>(kl[d]-1-o,o)); kbuf[d][k]=double(c); }
      }
    }
    for(size_t d=0;d<cl.size()&&d<cp.size();d++){
      double lo= d<kl.size()&&kl[d]>0 ? *std::min_element(kbuf[d],kbuf[d]+kl[d]) : 0.0;
      double hi= d<kl.size()&&kl[d]>0 ? *std::max_element(kbuf[d],kbuf[d]+kl[d]) : 1.0;
      for(long j=0;j<cl[d];j++){
        switch(cp[d]){
          case 1: cbuf[d][j]=hi+5.0+j; break;
          case 2: cbuf[d][j]=lo-5.0-(cl[d]-j); break;
          case 3: cbuf[d][j]=hi; break;
          case 4: cbuf[d][j]=lo; break;
          case 5: if(j>0) cbuf[d][j]=hi+5.0+j; break;
          case 6: cbuf[d][j]=0.5*(lo+hi); break;
          default: break;
        }
      }
    }
    uint32_t* ord=exact<uint32_t>(od.size()); for(size_t d=0;d<od.size();d++) ord[d]=(uint32_t)od[d];
    uint32_t* pord=exact<uint32_t>(po.size()); for(size_t d=0;d<po.size();d++) pord[d]=(uint32_t)po[d];
    double* smo=exact<double>(sm.size()); for(size_t d=0;d<sm.size();d++) smo[d]= sm[d] ? 0.015625 : 0.0;
    uint64_t* nkn=exact<uint64_t>(kl.size()); for(size_t d=0;d<kl.size();d++) nkn[d]=(uint64_t)kl[d];
    uint32_t monodim= mono<0 ? ST::no_monodim : (uint32_t)mono;

    std::string out="done", msg="-", ret="-"; bool same=true;
    if(entry=="cpp"){
      ST table; if(pop) populate(table);
      table.write_key("DESTKEY1","kept across a rejected fit"); table.write_key("DESTKEY2",42);
      std::string before=dump(table);
      using DC=photospline::detail::array_view<double>;
      using UC=photospline::detail::array_view<uint32_t>;
      std::vector<DC> coordsv, knotsv;
      for(size_t d=0;d<cl.size();d++) coordsv.push_back(DC(cbuf[d],cl[d]));
      for(size_t d=0;d<kl.size();d++) knotsv.push_back(DC(kbuf[d],kl[d]));
      try{
        table.fit(data,DC(w,nw),coordsv,UC(ord,od.size()),knotsv,DC(smo,sm.size()),UC(pord,po.size()),monodim,false);
      }catch(std::logic_error& e){ out="logic"; msg=clean(e.what()); }
      catch(std::bad_alloc& e){ out="badalloc"; }
      catch(std::runtime_error& e){ out="runtime"; msg=clean(e.what()); }
      catch(std::exception& e){ out="exc"; msg=clean(e.what()); }
      catch(...){ out="unknown"; }
      // after an exception from the middle of fit() the members may be half assigned: do not walk them
      if(out=="badalloc"||out=="exc"||out=="unknown") same=false;
      else same=(dump(table)==before);
    }else{
      struct splinetable tab; tab.data=NULL;
      struct splinetable* tp=&tab;
      const ::ndsparse* dp=&data;
      if(entry!="c_nodata"){ if(splinetable_init(&tab)!=0){ printf("R %s out=initfail ret=- same=1 msg=-\n",id.c_str()); continue; } }
      ST* real=(ST*)tab.data;
      if(pop && real) populate(*real);
      if(real){ real->write_key("DESTKEY1","kept across a rejected fit"); real->write_key("DESTKEY2",42); }
      std::string before= real ? dump(*real) : "null";
      if(entry=="c_nulltable") tp=NULL;
      if(entry=="c_nulldata") dp=NULL;
      int r=splinetable_glamfit(tp,dp,w,cbuf.data(),ord,kbuf.data(),nkn,smo,pord,monodim,false);
      ret=std::to_string(r);
      out= r==0 ? "done" : "nonzero";
      same= (real ? dump(*real) : std::string("null"))==before;
      if(real) splinetable_free(&tab);
    }
    printf("R %s out=%s ret=%s same=%d msg=%s\n",id.c_str(),out.c_str(),ret.c_str(),same?1:0,msg.c_str());
    fflush(stdout);
    free(w); for(double* p: cbuf) free(p); for(double* p: kbuf) free(p); free(ord); free(pord); free(smo); free(nkn);
    for(size_t d=0;d<dd;d++) free(data.i[d]);
    free(data.x); free(data.i); free(data.ranges);
  }
  return 0;
}
