// C19_harness.cpp — runs the REAL reader / convolve / estimateMemory with a byte-counting allocator as the
// `Alloc' template argument and prints the exact allocator event sequence.
//
// line-oriented commands on stdin:
//   gen <path> <periods 0|1> <nd> <order_0..order_{nd-1}> <nknots_0..nknots_{nd-1}> <naux> {<hexkey> <hexval>}*naux
//        builds a table in memory (std::allocator) and writes it with the library's write_fits
//   shape <path>
//        reads the file with plain cfitsio calls (NOT with the library's reader) and prints what the model needs:
//        shape nd=<nd> dims=<naxis>:<nknots>:<order>,... aux=<keylen>:<vallen>:<strip>,... extaux=<k>
//        (vallen = strlen of the raw value string as fits_read_keyn returns it; strip = number of quote
//        characters the reader removes; extaux = non-reserved keys in the header of the last KNOTS HDU)
//   run <path> <n> <dim>     n = 0: no convolution, estimateMemory(path) with its default arguments
//        est <bytes>
//        load <events>       events: A<bytes> / F<bytes>, in program order
//        conv <events>
//        destroy <events>
//        peak <peak of live bytes over load+conv> endlive <live bytes after the destructor> badfree <0|1>
//        arena <ok|fail>     the same load+conv under an allocator that refuses to exceed <est> live bytes
//   sizes
//        sizeof_table <n> sizeof_ptr <n> FLEN_KEYWORD <n> FLEN_VALUE <n> FLEN_CARD <n>
#include "verif_common.h"

struct Recorder{
  std::vector<std::pair<char,size_t>> ev;   // ('A'|'F', claimed bytes)
  std::map<void*,size_t> blocks;            // true size by pointer
  size_t live=0, peak=0; bool bad=false;
  size_t capacity=(size_t)-1; bool refused=false;
};
static Recorder* G=nullptr;

template<typename T> struct CountingAlloc{
  typedef T value_type;
  CountingAlloc(){}
  template<typename U> CountingAlloc(const CountingAlloc<U>&){}
  T* allocate(size_t n){
    size_t b=n*sizeof(T);
    if(G->live+b>G->capacity){ G->refused=true; throw std::bad_alloc(); }
    void* p=::operator new(b?b:1);
    G->ev.push_back(std::make_pair('A',b)); G->blocks[p]=b; G->live+=b; if(G->live>G->peak) G->peak=G->live;
    return (T*)p;
  }
  void deallocate(T* p,size_t n){
    size_t b=n*sizeof(T);
    G->ev.push_back(std::make_pair('F',b));
    if(!p) { if(b) G->bad=true; return; }
    auto it=G->blocks.find((void*)p);
    if(it==G->blocks.end()){ G->bad=true; return; }
    if(it->second!=b) G->bad=true;
    G->live-=it->second; G->blocks.erase(it); ::operator delete((void*)p);
  }
  template<typename U> bool operator==(const CountingAlloc<U>&)const{return true;}
  template<typename U> bool operator!=(const CountingAlloc<U>&)const{return false;}
};
template<> struct CountingAlloc<void>{
  typedef void value_type;
  CountingAlloc(){}
  template<typename U> CountingAlloc(const CountingAlloc<U>&){}
  template<typename U> struct rebind{ typedef CountingAlloc<U> other; };
};
typedef photospline::splinetable<CountingAlloc<void>> CT;

static std::string unhex(const std::string& h){
  if(h=="-") return "";
  std::string s; for(size_t i=0;i+1<h.size();i+=2) s.push_back((char)strtoul(h.substr(i,2).c_str(),NULL,16)); return s; }

static std::string events(const Recorder& r,size_t from,size_t to){
  std::ostringstream o; for(size_t i=from;i<to;i++){ if(i>from) o<<' '; o<<r.ev[i].first<<r.ev[i].second; } return o.str(); }

// independent of the library: the prefix list of reservedFitsKeyword is re-stated here (and checked against the
// source by tools/translators/mem.py)
static bool reserved_indep(const char* key){
  static const char* pre[]={"BITPIX","SIMPLE","TYPE","ORDER","NAXIS","PERIOD","EXTEND","COMMENT"};
  static const char* exact[]={"","END","HISTORY","CONTINUE","PCOUNT","GCOUNT","EXTNAME","HDUNAME"};   // exact matches (added by the C16 fix; EXTNAME/HDUNAME by the fix of C06:aux-key:EXTNAME-shadows-KNOTSn)
  for(const char* p: pre) if(strncmp(p,key,strlen(p))==0) return true;
  for(const char* e: exact) if(strcmp(e,key)==0) return true;
  return false;
}
static int count_nonreserved(fitsfile* f,std::vector<std::array<size_t,3>>* out){
  int nkeys=0,err=0,cnt=0; fits_get_hdrspace(f,&nkeys,NULL,&err);
  char key[FLEN_KEYWORD],value[FLEN_VALUE];
  for(int j=1;j-1<nkeys;j++){
    err=0; fits_read_keyn(f,j,key,value,NULL,&err);
    if(err) continue;
    if(reserved_indep(key)) continue;
    cnt++;
    if(out){
      size_t kl=strlen(key), vl=strlen(value), strip=0;
      if(vl+1>1 && value[0]=='\''){ strip = (vl+1>2 && value[vl-1]=='\'') ? 2 : 1;
        // the reader also un-doubles quotes inside the stripped text (fix b263a9d): each '' pair shortens the stored string by one
        std::string inner(value+1, value+vl-(strip==2?1:0));
        for(size_t q=0;q<inner.size();q++){ if(inner[q]=='\'' && q+1<inner.size() && inner[q+1]=='\''){ strip++; q++; } } }
      out->push_back({kl,vl,strip});
    }
  }
  return cnt;
}

static void do_shape(const std::string& path){
  fitsfile* f; int err=0; fits_open_diskfile(&f,path.c_str(),READONLY,&err);
  if(err){ printf("shape error open\n"); return; }
  int type; fits_movabs_hdu(f,1,&type,&err);
  int nd=0; fits_get_img_dim(f,&nd,&err);
  std::vector<long> nax(nd>0?nd:1); fits_get_img_size(f,nd,nax.data(),&err);
  std::reverse(nax.begin(),nax.begin()+nd);
  std::vector<std::array<size_t,3>> aux; count_nonreserved(f,&aux);
  std::vector<unsigned> ord(nd);
  { int e2=0; int o0; fits_read_key(f,TINT,"ORDER",&o0,NULL,&e2);
    if(e2){ for(int i=0;i<nd;i++){ e2=0; char nm[32]; snprintf(nm,32,"ORDER%d",i); fits_read_key(f,TUINT,nm,&ord[i],NULL,&e2); if(e2) err=e2; } }
    else for(int i=0;i<nd;i++) ord[i]=o0; }
  std::vector<long> nk(nd); int extaux=0;
  for(int i=0;i<nd;i++){ char nm[32]; snprintf(nm,32,"KNOTS%d",i); fits_movnam_hdu(f,IMAGE_HDU,nm,0,&err); fits_get_img_size(f,1,&nk[i],&err);
    if(i==nd-1) extaux=count_nonreserved(f,NULL); }
  int e3=0; fits_close_file(f,&e3);
  if(err){ printf("shape error %d\n",err); return; }
  std::ostringstream o; o<<"shape nd="<<nd<<" dims=";
  for(int i=0;i<nd;i++){ if(i) o<<','; o<<nax[i]<<':'<<nk[i]<<':'<<ord[i]; }
  o<<" aux="; if(aux.empty()) o<<'-';
  for(size_t i=0;i<aux.size();i++){ if(i) o<<','; o<<aux[i][0]<<':'<<aux[i][1]<<':'<<aux[i][2]; }
  o<<" extaux="<<extaux;
  printf("%s\n",o.str().c_str());
}

static void load_and_convolve(const std::string& path,unsigned n,unsigned dim,Recorder& r,size_t& e_load,size_t& e_conv,std::string& what){
  e_load=e_conv=0;
  try{
    CT t(path);
    e_load=r.ev.size();
    if(n>0){
      std::vector<double> ck(n); for(unsigned i=0;i<n;i++) ck[i]=0.01*(double(i)-0.5*(n-1));
      t.convolve(dim,ck.data(),n);
    }
    e_conv=r.ev.size();
    r.peak=r.peak; // peak over load+conv is final here; destructor only frees
  }catch(std::exception& ex){ what=ex.what(); if(!e_load) e_load=r.ev.size(); if(!e_conv) e_conv=r.ev.size(); }
}

static void do_run(const std::string& path,unsigned n,unsigned dim){
  size_t est=0;
  try{ est = n? CT::estimateMemory(path,n,dim) : CT::estimateMemory(path); }
  catch(std::exception& ex){ printf("est error %s\n",ex.what()); return; }
  printf("est %zu\n",est);
  { Recorder r; G=&r; size_t a,b; std::string what;
    load_and_convolve(path,n,dim,r,a,b,what);
    if(!what.empty()) printf("exception %s\n",what.c_str());
    printf("load %s\n",events(r,0,a).c_str());
    printf("conv %s\n",events(r,a,b).c_str());
    printf("destroy %s\n",events(r,b,r.ev.size()).c_str());
    printf("peak %zu endlive %zu badfree %d\n",r.peak,r.live,(int)r.bad);
    for(auto& kv: r.blocks) ::operator delete(kv.first);
  }
  { Recorder r; r.capacity=est; G=&r; size_t a,b; std::string what;
    load_and_convolve(path,n,dim,r,a,b,what);
    printf("arena %s\n",(what.empty()&&!r.refused)?"ok":"fail");
    for(auto& kv: r.blocks) ::operator delete(kv.first);
  }
  G=nullptr;
}

static void do_gen(const std::vector<std::string>& w){
  // gen path periods nd ord.. nk.. naux {hexkey hexval}
  size_t p=1; std::string path=w[p++]; int per=atoi(w[p++].c_str()); unsigned nd=atoi(w[p++].c_str());
  std::vector<uint32_t> ord(nd); std::vector<std::vector<double>> kn(nd);
  for(unsigned i=0;i<nd;i++) ord[i]=atoi(w[p++].c_str());
  for(unsigned i=0;i<nd;i++){ unsigned k=atoi(w[p++].c_str()); kn[i].resize(k); for(unsigned j=0;j<k;j++) kn[i][j]=double(j)+0.25*i; }
  unsigned naux=atoi(w[p++].c_str());
  ST t; std::vector<float> co; build_table(t,ord,kn,co,0.0);
  { uint64_t nc=t.strides[0]*t.naxes[0]; for(uint64_t i=0;i<nc;i++) t.coefficients[i]=float((i*2654435761u)%1000)/1000.f; }
  if(per){ t.periods=t.allocate<double>(nd); for(unsigned i=0;i<nd;i++) t.periods[i]=(i%2)?0.0:double(kn[i].size()); }
  if(naux){
    t.naux=naux; t.aux=t.allocate<ST::char_ptr_ptr>(naux);
    for(unsigned i=0;i<naux;i++){
      std::string k=unhex(w[p++]), v=unhex(w[p++]);
      t.aux[i]=t.allocate<ST::char_ptr>(2);
      t.aux[i][0]=t.allocate<char>(k.size()+1); memcpy(t.aux[i][0],k.c_str(),k.size()+1);
      t.aux[i][1]=t.allocate<char>(v.size()+1); memcpy(t.aux[i][1],v.c_str(),v.size()+1);
    }
  }
  try{ t.write_fits(path); printf("gen ok\n"); }
  catch(std::exception& ex){ printf("gen error %s\n",ex.what()); }
}

int main(){
  std::string line;
  while(std::getline(std::cin,line)){
    std::vector<std::string> w=split_ws(line);
    if(w.empty()) continue;
    if(w[0]=="gen") do_gen(w);
    else if(w[0]=="shape") do_shape(w[1]);
    else if(w[0]=="run") do_run(w[1],atoi(w[2].c_str()),atoi(w[3].c_str()));
    else if(w[0]=="sizes") printf("sizeof_table %zu sizeof_ptr %zu FLEN_KEYWORD %d FLEN_VALUE %d FLEN_CARD %d\n",
        sizeof(CT),sizeof(void*),FLEN_KEYWORD,FLEN_VALUE,FLEN_CARD);
    else printf("unknown\n");
    printf("end\n"); fflush(stdout);
  }
  return 0;
}
