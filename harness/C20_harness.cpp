// C20_harness.cpp — drives the REAL splinetable<Alloc> through operation histories with a checking
// allocator as the Alloc template argument and one injected allocation failure per case.
//
//   C20_harness gen  <specfile>            write the FITS inputs described in <specfile> (std allocator)
//   C20_harness run  <casefile> [skip]     run the cases (after skipping the first [skip]); every case is
//                                          announced on stderr as "@<id>" before it starts, so that a crash
//                                          (SEGV / ASan / UBSan abort) is attributed to that case by the caller
//
// The allocator (CheckAlloc<T>; one registry of live blocks, but every default-constructed instance is its own ARENA: copies and
// rebound copies keep the arena, two instances compare equal only within one arena, and the type declares none of the
// propagate_on_container_* traits — the plainest stateful allocator a user can write):
//   * a block returned through an instance of another arena than the one it came from -> error "wrongarena" (block is released);
//   * records every allocate(n) as a live block (address -> bytes), numbers allocations per case,
//     throws std::bad_alloc at allocation number `fault_at` (1-based; 0 = never);
//   * on deallocate(p,n): p == nullptr -> counted as "nullfree" (harmless, reported separately);
//     p not a live block -> error "badfree" (double free or garbage pointer) and NOTHING is freed;
//     n*sizeof(T) != recorded bytes -> error "sizemismatch" (block is released);
//   * while a remove_key call is running (chk::track_arr) the global operator new[] / delete[] are part of the same
//     bookkeeping: remove_key of the unchanged tree parks the surviving entries in `new char_ptr_ptr[naux-1]`, which
//     does not go through Alloc. Such an array counts as an allocation (so the single-fault sweep also fails IT),
//     is listed among the live blocks until delete[] (a forgotten delete[] shows up as a leak), and delete[] of a
//     pointer that is not a live array is "badfree". Outside remove_key new[]/delete[] are plain malloc/free.
// After every operation the harness prints, for every object slot, the ownership picture field by field:
//   N = null pointer, L<bytes> = pointer to a live block of that size, X = non-null and not live (garbage/dangling)
// plus ndim/naux and (when every array is live) orders/nknots/naxes and a content hash, then the sorted
// multiset of live block sizes and the allocator errors so far.
#include "verif_common.h"
#include <sanitizer/lsan_interface.h>

namespace chk {
  static std::map<void*, size_t> live;
  static std::map<void*, int> live_arena;
  static int next_arena = 0;
  static long alloc_count = 0, fault_at = 0, nullfree = 0, faults_thrown = 0;
  // what the ALLOCATOR throws on the injected failure: std::bad_alloc, an exception class of its own derived from std::exception
  // (as the shared-memory allocators of Boost.Interprocess do), or a type unrelated to std::exception. operator new[] keeps
  // std::bad_alloc (the language requires it).
  static int fault_kind = 0;
  struct ArenaExhausted : std::exception { const char* what() const noexcept override { return "bad_alloc"; } };
  struct RawFault {};
  [[noreturn]] static void throw_fault(){
    faults_thrown++;
    if(fault_kind == 1) throw ArenaExhausted();
    if(fault_kind == 2) throw RawFault();
    throw std::bad_alloc();
  }
  static std::vector<std::string> errors;
  static std::map<void*, size_t> live_arr;     // arrays obtained with operator new[] inside remove_key
  static bool track_arr = false, in_hook = false;
  static void reset(long fa){
    for(auto& kv : live) ::operator delete(kv.first);   // blocks the previous case leaked were reported there; keep LeakSanitizer for the rest
    for(auto& kv : live_arr) free(kv.first);
    live.clear(); live_arena.clear(); live_arr.clear(); alloc_count = 0; fault_at = fa; nullfree = 0; faults_thrown = 0; errors.clear(); track_arr = false; }
  static long live_size(const void* p){ auto it = live.find(const_cast<void*>(p)); return it == live.end() ? -1 : (long)it->second; }
  struct Guard { bool& f; Guard(bool& x) : f(x) { f = true; } ~Guard(){ f = false; } };
  static void* arr_new(size_t bytes){
    if(!track_arr || in_hook){ void* p = malloc(bytes ? bytes : 1); if(!p) throw std::bad_alloc(); return p; }
    alloc_count++;
    if(fault_at && alloc_count == fault_at){ faults_thrown++; throw std::bad_alloc(); }
    void* p = malloc(bytes ? bytes : 1); if(!p) throw std::bad_alloc();
    { Guard g(in_hook); live_arr[p] = bytes; }
    return p;
  }
  static void arr_delete(void* p){
    if(!p) return;
    if(in_hook){ free(p); return; }
    Guard g(in_hook);
    auto it = live_arr.find(p);
    if(it != live_arr.end()){ live_arr.erase(it); free(p); return; }
    if(track_arr){ errors.push_back("badfree:array"); return; }       // delete[] of something that is not a live array: nothing is freed
    free(p);
  }
}
// replaced for the whole program (malloc/free underneath, so ASan still sees every block)
void* operator new[](size_t n){ return chk::arr_new(n); }
void* operator new[](size_t n, const std::nothrow_t&) noexcept { try{ return chk::arr_new(n); }catch(...){ return nullptr; } }
void operator delete[](void* p) noexcept { chk::arr_delete(p); }
void operator delete[](void* p, size_t) noexcept { chk::arr_delete(p); }
void operator delete[](void* p, const std::nothrow_t&) noexcept { chk::arr_delete(p); }

template<typename T>
struct CheckAlloc {
  typedef T value_type;
  template<typename U> struct rebind { typedef CheckAlloc<U> other; };
  int arena;
  CheckAlloc() : arena(++chk::next_arena) {}
  template<typename U> CheckAlloc(const CheckAlloc<U>& o) : arena(o.arena) {}
  T* allocate(size_t n){
    chk::alloc_count++;
    if(chk::fault_at && chk::alloc_count == chk::fault_at) chk::throw_fault();
    size_t bytes = n * sizeof(T);
    void* p = ::operator new(bytes ? bytes : 1);
    chk::live[p] = bytes;
    chk::live_arena[p] = arena;
    return static_cast<T*>(p);
  }
  void deallocate(T* p, size_t n){
    if(p == nullptr){ chk::nullfree++; return; }
    auto it = chk::live.find((void*)p);
    if(it == chk::live.end()){
      chk::errors.push_back("badfree:" + std::to_string(n * sizeof(T)));
      return;
    }
    if(it->second != n * sizeof(T))
      chk::errors.push_back("sizemismatch:alloc" + std::to_string(it->second) + ":free" + std::to_string(n * sizeof(T)));
    if(chk::live_arena[(void*)p] != arena)
      chk::errors.push_back("wrongarena:" + std::to_string(it->second));
    chk::live_arena.erase((void*)p);
    chk::live.erase(it);
    ::operator delete((void*)p);
  }
  template<typename U> bool operator==(const CheckAlloc<U>& o) const { return arena == o.arena; }
  template<typename U> bool operator!=(const CheckAlloc<U>& o) const { return arena != o.arena; }
};

typedef photospline::splinetable<CheckAlloc<void> > CT;

static std::string slot(const void* p){
  if(!p) return "N";
  long s = chk::live_size(p);
  if(s < 0) return "X";
  return "L" + std::to_string(s);
}

static uint64_t fnv(uint64_t h, const void* data, size_t n){
  const unsigned char* c = (const unsigned char*)data;
  for(size_t i = 0; i < n; i++){ h ^= c[i]; h *= 1099511628211ULL; }
  return h;
}

// Ownership picture + abstract content of one object; dereferences only pointers that are live blocks.
static void dump(int s, const CT* t){
  std::ostringstream o;
  o << "d " << s << " ndim=" << t->ndim << " naux=" << t->naux;
  o << " order=" << slot(t->order) << " knots=" << slot(t->knots) << " nknots=" << slot(t->nknots)
    << " extents=" << slot(t->extents) << " periods=" << slot(t->periods) << " coeff=" << slot(t->coefficients)
    << " naxes=" << slot(t->naxes) << " strides=" << slot(t->strides) << " aux=" << slot(t->aux);
  bool order_ok = chk::live_size(t->order) == (long)(4L * t->ndim) && t->ndim;
  bool nknots_ok = chk::live_size(t->nknots) == (long)(8L * t->ndim) && t->ndim;
  bool naxes_ok = chk::live_size(t->naxes) == (long)(8L * t->ndim) && t->ndim;
  bool knots_ok = chk::live_size(t->knots) == (long)(8L * t->ndim) && t->ndim;
  bool all = order_ok && nknots_ok && naxes_ok && knots_ok;
  if(chk::live_size(t->extents) == (long)(8L * t->ndim) && t->ndim) o << " extents0=" << slot(t->extents[0]);
  else o << " extents0=-";
  o << " knoti=";
  if(knots_ok){
    for(uint32_t i = 0; i < t->ndim; i++){
      const double* k = t->knots[i];
      // the block starts order[i] elements before knots[i]; without a live order array only the raw pointer can be classified
      const void* base = order_ok ? (const void*)(k - t->order[i]) : (const void*)k;
      std::string sl = k ? slot(base) : std::string("N");
      if(sl[0] != 'L') all = false;
      o << (i ? "," : "") << sl;
    }
  } else o << "-";
  if(order_ok){ o << " orders="; for(uint32_t i = 0; i < t->ndim; i++) o << (i ? "," : "") << t->order[i]; }
  if(nknots_ok){ o << " nk="; for(uint32_t i = 0; i < t->ndim; i++) o << (i ? "," : "") << t->nknots[i]; }
  if(naxes_ok){ o << " nax="; for(uint32_t i = 0; i < t->ndim; i++) o << (i ? "," : "") << t->naxes[i]; }
  o << " auxe=";
  if(t->naux && chk::live_size(t->aux) == (long)(8L * t->naux)){
    for(uint32_t i = 0; i < t->naux; i++){
      o << (i ? "," : "") << slot(t->aux[i]);
      if(chk::live_size(t->aux[i]) == 16){
        const char* k = t->aux[i][0]; const char* v = t->aux[i][1];
        o << "/" << slot(k) << "/" << slot(v);
        if(chk::live_size(k) >= 0 && chk::live_size(v) >= 0) o << "/" << k << "=" << strlen(v);
      }
    }
  } else o << "-";
  // content hash (knots + coefficients) only when the whole table is live
  if(all && chk::live_size(t->coefficients) >= 0 && chk::live_size(t->strides) == (long)(8L * t->ndim)){
    uint64_t h = 1469598103934665603ULL, nc = 1;
    for(uint32_t i = 0; i < t->ndim; i++) nc *= t->naxes[i];
    if((long)(nc * 4) == chk::live_size(t->coefficients)){
      h = fnv(h, t->coefficients, nc * 4);
      for(uint32_t i = 0; i < t->ndim; i++) h = fnv(h, t->knots[i], 8 * t->nknots[i]);
      char b[32]; snprintf(b, sizeof b, "%016" PRIx64, h); o << " hash=" << b;
    }
  }
  printf("%s\n", o.str().c_str());
}

static void heapline(){
  std::vector<size_t> v;
  for(auto& kv : chk::live) v.push_back(kv.second);
  for(auto& kv : chk::live_arr) v.push_back(kv.second);
  std::sort(v.begin(), v.end());
  std::ostringstream o; o << "h";
  for(size_t x : v) o << " " << x;
  o << " | allocs=" << chk::alloc_count << " nullfree=" << chk::nullfree << " faults=" << chk::faults_thrown << " errs=";
  for(size_t i = 0; i < chk::errors.size(); i++) o << (i ? "," : "") << chk::errors[i];
  printf("%s\n", o.str().c_str());
}

static std::vector<std::string> split(const std::string& s){
  std::istringstream is(s); std::vector<std::string> v; std::string w;
  while(is >> w) v.push_back(w);
  return v;
}

static std::vector<char> slurp(const std::string& path){
  std::ifstream f(path, std::ios::binary);
  return std::vector<char>((std::istreambuf_iterator<char>(f)), std::istreambuf_iterator<char>());
}

#ifdef PHOTOSPLINE_INCLUDES_SPGLAM
// a tiny 1-d least-squares problem: n points on a grid, order `ord`, nk knots
static void do_fit(CT* t, int npts, int ord, int nk, int bad){
  photospline::ndsparse data(npts, 1);
  std::vector<double> coords(npts), weights(npts, 1.0);
  for(int i = 0; i < npts; i++){
    coords[i] = i / double(npts - 1);
    unsigned int idx = i; data.insertEntry(std::sin(3 * coords[i]) + 2, &idx);
  }
  std::vector<double> kn(nk);
  for(int i = 0; i < nk; i++) kn[i] = -0.5 + 2.0 * i / (nk - 1);
  if(bad == 1) weights.pop_back();                 // weights/data mismatch -> logic_error before anything is touched
  if(bad == 2) std::swap(kn[0], kn[nk - 1]);       // unsorted knots -> logic_error before anything is touched
  std::vector<std::vector<double> > cc(1, coords), kk(1, kn);
  std::vector<uint32_t> so(1, ord), po(1, 2);
  std::vector<double> sm(1, 1e-6);
  t->fit(data, weights, cc, so, kk, sm, po, CT::no_monodim, false);
}
#endif

static int run_cases(const char* path, long skip){
  std::ifstream in(path);
  std::string line;
  CT* objs[4] = {0, 0, 0, 0};
  long caseno = -1; bool active = false; int opidx = 0;
  while(std::getline(in, line)){
    std::vector<std::string> w = split(line);
    if(w.empty()) continue;
    if(w[0] == "case"){
      caseno++;
      active = caseno >= skip;
      if(!active) continue;
      fprintf(stderr, "@%s\n", w[1].c_str()); fflush(stderr);
      printf("case %s\n", w[1].c_str());
      for(int i = 0; i < 4; i++) objs[i] = 0;      // objects of a previous (failed) case are abandoned deliberately
      chk::reset(atol(w[2].c_str()));
      { unsigned long h = 1469598103934665603UL; for(char ch : w[1]){ h ^= (unsigned char)ch; h *= 1099511628211UL; } chk::fault_kind = (int)(((h >> 11) + (unsigned long)chk::fault_at) % 3); }
      opidx = 0;
      continue;
    }
    if(!active) continue;
    if(w[0] == "end"){
      // objects still alive here were left behind on purpose by the case (probe cases); leaks of memory that did
      // not come from the allocator (new[]/malloc inside the library) show up only in LeakSanitizer
      int ls = 0;
      if(w.size() > 1 && w[1] == "lsan") ls = __lsan_do_recoverable_leak_check();
      printf("end lsan=%d\n", ls); fflush(stdout);
      continue;
    }
    if(w[0] != "op") continue;
    std::string kind = w[1];
    std::string outcome = "ok", msg = "";
    fprintf(stderr, "#%d %s\n", opidx, line.c_str()); fflush(stderr);
    try{
      int s = atoi(w[2].c_str());
      // histories are generated assuming no fault; under an injected fault an object may not exist (failed reading
      // constructor). Operations on a missing object / creations over a live one are skipped, as in the model.
      bool creates = kind == "new" || kind == "newread" || kind == "movector";
      bool two = kind == "movector" || kind == "moveasg" || kind == "eq";
      int s2 = two ? atoi(w[3].c_str()) : s;
      if((creates && objs[s]) || (!creates && !objs[s]) || (two && !objs[s2]) || (kind == "movector" && s2 == s)){ outcome = "skipped"; }
      else if(kind == "new"){ objs[s] = new CT(); }
      else if(kind == "read"){ objs[s]->read_fits(w[3]); }
      else if(kind == "readmem"){ std::vector<char> b = slurp(w[3]); objs[s]->read_fits_mem(b.data(), b.size()); }
      else if(kind == "newread"){               // the reading constructor: a throw leaves no object behind
        objs[s] = 0; objs[s] = new CT(w[3]); }
      else if(kind == "wkey"){ bool r = objs[s]->write_key(w[3].c_str(), w[4] == "-" ? std::string("") : w[4]); msg = r ? "true" : "false"; }
      else if(kind == "wkeyi"){ bool r = objs[s]->write_key(w[3].c_str(), atoi(w[4].c_str())); msg = r ? "true" : "false"; }
      else if(kind == "dkey"){ chk::Guard g(chk::track_arr); bool r = objs[s]->remove_key(w[3].c_str()); msg = r ? "true" : "false"; }
      else if(kind == "conv"){
        uint32_t dim = atoi(w[3].c_str()); size_t nk = atoi(w[4].c_str());
        std::vector<double> k(nk ? nk : 1);
        for(size_t i = 0; i < nk; i++) k[i] = atof(w[5 + i].c_str());
        objs[s]->convolve(dim, k.data(), nk);
      }
      else if(kind == "perm"){
        std::vector<size_t> p; for(size_t i = 3; i < w.size(); i++) p.push_back(atoi(w[i].c_str()));
        objs[s]->permuteDimensions(p);
      }
      else if(kind == "movector"){ int src = atoi(w[3].c_str()); objs[s] = new CT(std::move(*objs[src])); }
      else if(kind == "moveasg"){ int src = atoi(w[3].c_str()); *objs[s] = std::move(*objs[src]); }
      else if(kind == "eq"){ int b = atoi(w[3].c_str()); bool r = (*objs[s] == *objs[b]); bool r2 = (*objs[s] != *objs[b]); msg = r ? "true" : "false"; if(r == r2) msg += "!ne-inconsistent"; }
      else if(kind == "write"){ objs[s]->write_fits(w[3]); }
      else if(kind == "writemem"){ std::pair<void*, size_t> r = objs[s]->write_fits_mem(); msg = std::to_string(r.second); free(r.first); }
      else if(kind == "eval" && objs[s]->get_ndim() == 0){ outcome = "skipped"; }   // documented precondition: not evaluable
      else if(kind == "eval"){
        const CT* t = objs[s]; uint32_t nd = t->get_ndim();
        std::vector<double> x(nd ? nd : 1); std::vector<int> c(nd ? nd : 1);
        for(uint32_t i = 0; i < nd; i++) x[i] = 0.5 * (t->lower_extent(i) + t->upper_extent(i));
        bool ok = t->searchcenters(x.data(), c.data());
        double v = ok ? t->ndsplineeval(x.data(), c.data(), 0) : 0.0;
        double v2 = (*t)(x.data());
        msg = std::string(ok ? "in" : "out") + (v == v2 || (v != v && v2 != v2) ? "" : "!callop-differs");
      }
#ifdef PHOTOSPLINE_INCLUDES_SPGLAM
      else if(kind == "fit"){ do_fit(objs[s], atoi(w[3].c_str()), atoi(w[4].c_str()), atoi(w[5].c_str()), atoi(w[6].c_str())); }
#endif
      else if(kind == "del"){ CT* t = objs[s]; objs[s] = 0; delete t; }
      else { outcome = "unknown-op"; }
    }catch(std::bad_alloc& e){ outcome = "fail"; msg = "bad_alloc";
    }catch(chk::ArenaExhausted& e){ outcome = "fail"; msg = "bad_alloc";
    }catch(chk::RawFault& e){ outcome = "fail"; msg = "bad_alloc";
    }catch(std::exception& e){ outcome = "fail"; msg = e.what(); for(char& c : msg) if(c == '\n' || c == ' ') c = '_'; if(msg.size() > 90) msg.resize(90);
    }catch(...){ outcome = "fail"; msg = "unknown-exception"; }
    printf("r %d %s %s %s\n", opidx, kind.c_str(), outcome.c_str(), msg.empty() ? "-" : msg.c_str());
    for(int i = 0; i < 4; i++) if(objs[i]) dump(i, objs[i]);
    heapline();
    fflush(stdout);
    opidx++;
  }
  return 0;
}

// gen: lines "file <path> <ndim> o0 nk0 o1 nk1 ... naux k0 v0 k1 v1 ... [noextents] [periods]"
static int gen_files(const char* path){
  std::ifstream in(path); std::string line;
  while(std::getline(in, line)){
    std::vector<std::string> w = split(line);
    if(w.empty() || w[0] != "file") continue;
    size_t p = 2; uint32_t nd = atoi(w[p++].c_str());
    std::vector<uint32_t> ord(nd); std::vector<std::vector<double> > kn(nd);
    size_t nco = 1;
    for(uint32_t i = 0; i < nd; i++){
      ord[i] = atoi(w[p++].c_str()); int nk = atoi(w[p++].c_str());
      for(int k = 0; k < nk; k++) kn[i].push_back(k * (1.0 + 0.25 * i) - 1.0);
      nco *= nk - ord[i] - 1;
    }
    std::vector<float> co(nco);
    for(size_t i = 0; i < nco; i++) co[i] = (float)(1.0 + 0.37 * ((i * 7919u) % 101) / 101.0 + 0.001 * atoi(w[1].c_str() + (w[1].size() > 6 ? w[1].size() - 6 : 0)));
    ST t; build_table(t, ord, kn, co, 0.0);
    int na = atoi(w[p++].c_str());
    for(int i = 0; i < na; i++){ t.write_key(w[p].c_str(), w[p + 1]); p += 2; }
    t.write_fits(w[1]);
  }
  return 0;
}

extern "C" const char* __asan_default_options(){ return "detect_leaks=1:abort_on_error=0:exitcode=77:allocator_may_return_null=1"; }

int main(int argc, char** argv){
  if(argc < 3){ fprintf(stderr, "usage: C20_harness gen|run file [skip]\n"); return 2; }
  if(std::string(argv[1]) == "gen") return gen_files(argv[2]);
  return run_cases(argv[2], argc > 3 ? atol(argv[3]) : 0);
}
