/* C11_harness.c — runs the REAL NNLS solvers of src/fitter/nnls.c on systems read from stdin.
 *
 * input, one case per block (all numbers that are doubles are 16-hex-digit bit patterns):
 *   case <id> <solver> <n> <nnz> <m> <mnnz>
 *   <nnz lines>   i j hex        entries of the n x n matrix A (full storage, both triangles)
 *   <1 line>      n hex          b
 *   <mnnz lines>  i j hex        entries of the m x n least-squares matrix M (only when m > 0)
 *   <1 line>      m hex          y                                              (only when m > 0)
 * solver: block3 | block | updown | lh_ne (Lawson-Hanson on the normal equations A,b) |
 *         lh_ls (Lawson-Hanson on the least-squares system M,y)
 * output:
 *   BEGIN <id>
 *   ... whatever the solver prints with verbose=1 (every solver: its own trace, no hook needed) ...
 *   X <id> <n hex doubles>
 *   END <id>
 * Every case is flushed so that the driver can tell which case hung (the unchanged walk_descents
 * can lose a wake-up: D7/C12) and restart behind it. */
#include <stdio.h>
#include <stdlib.h>
#include <string.h>
#include <stdint.h>
#include <math.h>
#include <cholmod.h>
#include "photospline/detail/splineutil.h"

static double hexd(const char *s) { uint64_t u = strtoull(s, NULL, 16); double d; memcpy(&d, &u, 8); return d; }
static void puthex(double d) { uint64_t u; memcpy(&u, &d, 8); printf(" %016llx", (unsigned long long)u); }

static cholmod_sparse *read_sparse(long nrow, long ncol, long nnz, cholmod_common *c)
{
	cholmod_triplet *T = cholmod_l_allocate_triplet(nrow, ncol, nnz > 0 ? nnz : 1, 0, CHOLMOD_REAL, c);
	long k; char buf[64];
	for (k = 0; k < nnz; k++) {
		long i, j;
		if (scanf("%ld %ld %63s", &i, &j, buf) != 3) { fprintf(stderr, "bad triplet\n"); exit(2); }
		((long *)T->i)[k] = i; ((long *)T->j)[k] = j; ((double *)T->x)[k] = hexd(buf);
	}
	T->nnz = nnz;
	cholmod_sparse *S = cholmod_l_triplet_to_sparse(T, nnz, c);
	cholmod_l_free_triplet(&T, c);
	return S;
}
static cholmod_dense *read_dense(long n, cholmod_common *c)
{
	cholmod_dense *d = cholmod_l_allocate_dense(n, 1, n, CHOLMOD_REAL, c);
	long k; char buf[64];
	for (k = 0; k < n; k++) {
		if (scanf("%63s", buf) != 1) { fprintf(stderr, "bad vector\n"); exit(2); }
		((double *)d->x)[k] = hexd(buf);
	}
	return d;
}

int main(void)
{
	cholmod_common c;
	char kw[16], id[64], solver[16];
	long n, nnz, m, mnnz, k;
	cholmod_l_start(&c);
	while (scanf("%15s", kw) == 1) {
		if (strcmp(kw, "case") != 0) { fprintf(stderr, "expected 'case'\n"); return 2; }
		if (scanf("%63s %15s %ld %ld %ld %ld", id, solver, &n, &nnz, &m, &mnnz) != 6) return 2;
		cholmod_sparse *A = read_sparse(n, n, nnz, &c);
		cholmod_dense *b = read_dense(n, &c);
		cholmod_sparse *M = NULL; cholmod_dense *y = NULL;
		if (m > 0) { M = read_sparse(m, n, mnnz, &c); y = read_dense(m, &c); }
		cholmod_dense *x = NULL;
		printf("BEGIN %s\n", id); fflush(stdout);
		/* each solver changes cholmod_common (orderings): start every case from defaults */
		cholmod_l_finish(&c); cholmod_l_start(&c);
		if (!strcmp(solver, "block3")) x = nnls_normal_block3(A, b, 1, &c);
		else if (!strcmp(solver, "block")) x = nnls_normal_block(A, b, 1, &c);
		else if (!strcmp(solver, "updown")) x = nnls_normal_block_updown(A, b, 1, &c);
		else if (!strcmp(solver, "lh_ne")) {
			double tol = 0; for (k = 0; k < n; k++) if (fabs(((double *)b->x)[k]) > tol) tol = fabs(((double *)b->x)[k]);
			x = nnls_lawson_hanson(A, b, 1e-12 * (tol > 0 ? tol : 1), 0, 20 * (int)n + 20, 0, 1, 1, &c);
		} else if (!strcmp(solver, "lh_ls") && M) {
			double tol = 0; for (k = 0; k < n; k++) if (fabs(((double *)b->x)[k]) > tol) tol = fabs(((double *)b->x)[k]);
			x = nnls_lawson_hanson(M, y, 1e-12 * (tol > 0 ? tol : 1), 0, 20 * (int)n + 20, 0, 0, 1, &c);
		} else { fprintf(stderr, "unknown solver %s\n", solver); return 2; }
		fflush(stdout);
		printf("X %s", id);
		if (x) for (k = 0; k < n; k++) puthex(((double *)x->x)[k]); else printf(" NULL");
		printf("\nEND %s\n", id); fflush(stdout);
		if (x) cholmod_l_free_dense(&x, &c);
		cholmod_l_free_sparse(&A, &c); cholmod_l_free_dense(&b, &c);
		if (M) cholmod_l_free_sparse(&M, &c);
		if (y) cholmod_l_free_dense(&y, &c);
	}
	cholmod_l_finish(&c);
	return 0;
}
