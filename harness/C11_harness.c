/* C11_harness.c — runs the REAL NNLS solvers of src/fitter/nnls.c on systems read from stdin.
 *
 * input, one case per block (all numbers that are doubles are 16-hex-digit bit patterns):
 *   case <id> <solver> <n> <nnz> <m> <mnnz>
 *   <nnz lines>   i j hex        entries of the n x n matrix A (full storage, both triangles)
 *   <1 line>      n hex          b
 *   <mnnz lines>  i j hex        entries of the m x n least-squares matrix M (only when m > 0)
 *   <1 line>      m hex          y                                              (only when m > 0)
 * solver: block3 | block | updown | lh_ne (Lawson-Hanson on the normal equations A,b) |
 *         lh_ls (Lawson-Hanson on the least-squares system M,y)
 * output:
 *   BEGIN <id>
 *   ... whatever the solver prints with verbose=1 (every solver: its own trace, no hook needed) ...
 *   X <id> <n hex doubles>
 *   END <id>
 * Every case is flushed so that the driver can tell which case hung (the unchanged walk_descents
 * can lose a wake-up: D7/C12) and restart behind it. */
#include <stdio.h>
#include <stdlib.h>
#include <string.h>
#include <stdint.h>
#include <math.h>
#include <cholmod.h>
#include "photospline/detail/splineutil.h"

static double hexd(const char *s) { uint64_t u = strtoull(s, NULL, 16); double d; memcpy(&d, &u, 8); return d; }
static void puthex(double d) { uint64_t u; memcpy(&u, &d, 8); printf(" %016llx", (unsigned long long)u); }

static cholmod_sparse *read_sparse(long nrow, long ncol, long nnz, cholmod_common *c)
{
	cholmod_triplet *T = cholmod_l_allocate_triplet(nrow, ncol, nnz > 0 ? nnz : 1, 0, CHOLMOD_REAL, c);
	long k; char buf[64];
	for (k = 0; k < nnz; k++) {
		long i, j;
		if (scanf("%ld %ld %63s", &i, &j, buf) != 3) { fprintf(stderr, "bad triplet\n"); exit(2); }
		((long *)T->i)[k] = i; ((long *)T->j)[k] = j; ((double *)T->x)[k] = hexd(buf);
	}
	T->nnz = nnz;
	cholmod_sparse *S = cholmod_l_triplet_to_sparse(T, nnz, c);
	cholmod_l_free_triplet(&T, c);
	return S;
}
/* CHOLMOD matrices need not keep the row indices of a column in ascending order (A->sorted == 0): glam.c itself builds the normal
 * matrix with cholmod_l_add(..., sorted = 0). The solvers must not depend on the storage order: every second case (by a hash of the
 * matrix) hands them the same matrix with the entries of every column stored in a scrambled order. */
static int scramble_columns(cholmod_sparse *S, const char *id)
{
	unsigned long h = 1469598103934665603UL; const char *q;
	(void)id; (void)q;
	/* keyed on the matrix itself (so that a replay of the same system sees the same storage) */
	{ long e, ne = ((long *)S->p)[S->ncol]; for (e = 0; e < ne; e++) { uint64_t u; memcpy(&u, &((double *)S->x)[e], 8); h ^= u + (unsigned long)((long *)S->i)[e]; h *= 1099511628211UL; } }
	if ((h >> 13) % 2 == 0 || !S->packed) return 0;
	long *p = (long *)S->p, *ri = (long *)S->i; double *xv = (double *)S->x; long j, a, b2;
	for (j = 0; j < (long)S->ncol; j++) {
		long lo = p[j], hi = p[j + 1] - 1;
		if ((h >> 17) % 3 == 0) {            /* rotate by one */
			if (hi > lo) { long ti = ri[lo]; double tx = xv[lo]; for (a = lo; a < hi; a++) { ri[a] = ri[a + 1]; xv[a] = xv[a + 1]; } ri[hi] = ti; xv[hi] = tx; }
		} else {                             /* reverse */
			for (a = lo, b2 = hi; a < b2; a++, b2--) { long ti = ri[a]; double tx = xv[a]; ri[a] = ri[b2]; xv[a] = xv[b2]; ri[b2] = ti; xv[b2] = tx; }
		}
	}
	S->sorted = 0;
	return 1;
}
static cholmod_dense *read_dense(long n, cholmod_common *c)
{
	cholmod_dense *d = cholmod_l_allocate_dense(n, 1, n, CHOLMOD_REAL, c);
	long k; char buf[64];
	for (k = 0; k < n; k++) {
		if (scanf("%63s", buf) != 1) { fprintf(stderr, "bad vector\n"); exit(2); }
		((double *)d->x)[k] = hexd(buf);
	}
	return d;
}

int main(void)
{
	cholmod_common c;
	char kw[16], id[64], solver[16];
	long n, nnz, m, mnnz, k;
	cholmod_l_start(&c);
	while (scanf("%15s", kw) == 1) {
		if (strcmp(kw, "case") != 0) { fprintf(stderr, "expected 'case'\n"); return 2; }
		if (scanf("%63s %15s %ld %ld %ld %ld", id, solver, &n, &nnz, &m, &mnnz) != 6) return 2;
		cholmod_sparse *A = read_sparse(n, n, nnz, &c);
		cholmod_dense *b = read_dense(n, &c);
		cholmod_sparse *M = NULL; cholmod_dense *y = NULL;
		if (m > 0) { M = read_sparse(m, n, mnnz, &c); y = read_dense(m, &c); }
		cholmod_dense *x = NULL;
		int unsorted = scramble_columns(A, id);
		printf("BEGIN %s\n", id); fflush(stdout);
		printf("STORAGE %s %s\n", id, unsorted ? "unsorted" : "sorted");
		/* each solver changes cholmod_common (orderings): start every case from defaults */
		cholmod_l_finish(&c); cholmod_l_start(&c);
		if (!strcmp(solver, "block3")) x = nnls_normal_block3(A, b, 1, &c);
		else if (!strcmp(solver, "block")) x = nnls_normal_block(A, b, 1, &c);
		else if (!strcmp(solver, "updown")) x = nnls_normal_block_updown(A, b, 1, &c);
		else if (!strcmp(solver, "lh_ne")) {
			double tol = 0; for (k = 0; k < n; k++) if (fabs(((double *)b->x)[k]) > tol) tol = fabs(((double *)b->x)[k]);
			x = nnls_lawson_hanson(A, b, 1e-12 * (tol > 0 ? tol : 1), 0, 20 * (int)n + 20, 0, 1, 1, &c);
		} else if (!strcmp(solver, "lh_ls") && M) {
			double tol = 0; for (k = 0; k < n; k++) if (fabs(((double *)b->x)[k]) > tol) tol = fabs(((double *)b->x)[k]);
			x = nnls_lawson_hanson(M, y, 1e-12 * (tol > 0 ? tol : 1), 0, 20 * (int)n + 20, 0, 0, 1, &c);
		} else { fprintf(stderr, "unknown solver %s\n", solver); return 2; }
		fflush(stdout);
		printf("X %s", id);
		if (x) for (k = 0; k < n; k++) puthex(((double *)x->x)[k]); else printf(" NULL");
		printf("\nEND %s\n", id); fflush(stdout);
		if (x) cholmod_l_free_dense(&x, &c);
		cholmod_l_free_sparse(&A, &c); cholmod_l_free_dense(&b, &c);
		if (M) cholmod_l_free_sparse(&M, &c);
		if (y) cholmod_l_free_dense(&y, &c);
	}
	cholmod_l_finish(&c);
	return 0;
}
