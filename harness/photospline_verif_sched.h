/* photospline_verif_sched.h — hook H1 (DESIGN §6): included by src/fitter/cholesky_solve.c right after
 * <pthread.h> when PHOTOSPLINE_VERIF is defined.  Routes the pthread entry points used by walk_descents /
 * evaluate_descent through a deterministic cooperative scheduler (harness/C12_sched.cpp) WHEN that
 * scheduler is linked in AND a schedule is loaded; otherwise every wrapper is a plain call of the real
 * pthread function (harnesses of other properties never link the scheduler: the weak symbol below is
 * then null and the wrappers pass through).  C and C++ compatible. */
#ifndef PHOTOSPLINE_VERIF_SCHED_H
#define PHOTOSPLINE_VERIF_SCHED_H
#include <pthread.h>
#ifdef __cplusplus
extern "C" {
#endif

struct verif_sched_ops {
	int  (*mutex_lock)(pthread_mutex_t *);
	int  (*mutex_unlock)(pthread_mutex_t *);
	int  (*cond_wait)(pthread_cond_t *, pthread_mutex_t *);
	int  (*cond_broadcast)(pthread_cond_t *);
	int  (*cond_signal)(pthread_cond_t *);
	int  (*create)(pthread_t *, const pthread_attr_t *, void *(*)(void *), void *);
	int  (*join)(pthread_t, void **);
	void (*exit_)(void *);
};

/* defined by harness/C12_sched.cpp; returns the ops table while a schedule is loaded, else NULL */
extern const struct verif_sched_ops *verif_sched_active(void) __attribute__((weak));

static inline const struct verif_sched_ops *verif_sched_ops_now(void)
{
	return verif_sched_active ? verif_sched_active() : (const struct verif_sched_ops *)0;
}
static inline int verif_pthread_mutex_lock(pthread_mutex_t *m)
{ const struct verif_sched_ops *o = verif_sched_ops_now(); return o ? o->mutex_lock(m) : pthread_mutex_lock(m); }
static inline int verif_pthread_mutex_unlock(pthread_mutex_t *m)
{ const struct verif_sched_ops *o = verif_sched_ops_now(); return o ? o->mutex_unlock(m) : pthread_mutex_unlock(m); }
static inline int verif_pthread_cond_wait(pthread_cond_t *c, pthread_mutex_t *m)
{ const struct verif_sched_ops *o = verif_sched_ops_now(); return o ? o->cond_wait(c, m) : pthread_cond_wait(c, m); }
static inline int verif_pthread_cond_broadcast(pthread_cond_t *c)
{ const struct verif_sched_ops *o = verif_sched_ops_now(); return o ? o->cond_broadcast(c) : pthread_cond_broadcast(c); }
static inline int verif_pthread_cond_signal(pthread_cond_t *c)
{ const struct verif_sched_ops *o = verif_sched_ops_now(); return o ? o->cond_signal(c) : pthread_cond_signal(c); }
static inline int verif_pthread_create(pthread_t *t, const pthread_attr_t *a, void *(*f)(void *), void *arg)
{ const struct verif_sched_ops *o = verif_sched_ops_now(); return o ? o->create(t, a, f, arg) : pthread_create(t, a, f, arg); }
static inline int verif_pthread_join(pthread_t t, void **r)
{ const struct verif_sched_ops *o = verif_sched_ops_now(); return o ? o->join(t, r) : pthread_join(t, r); }
static inline void verif_pthread_exit(void *r)
{ const struct verif_sched_ops *o = verif_sched_ops_now(); if (o) o->exit_(r); pthread_exit(r); }

#ifdef __cplusplus
}
#endif

#ifndef PHOTOSPLINE_VERIF_SCHED_IMPL
#define pthread_mutex_lock     verif_pthread_mutex_lock
#define pthread_mutex_unlock   verif_pthread_mutex_unlock
#define pthread_cond_wait      verif_pthread_cond_wait
#define pthread_cond_broadcast verif_pthread_cond_broadcast
#define pthread_cond_signal    verif_pthread_cond_signal
#define pthread_create         verif_pthread_create
#define pthread_join           verif_pthread_join
#define pthread_exit           verif_pthread_exit
#endif
#endif
