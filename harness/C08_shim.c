/* C08_shim.c — LD_PRELOAD stdio shim for property C08 (no change to the library or to cfitsio).
 *
 * cfitsio's disk driver (drvrfile.c) is stdio: fopen("w+b") / fwrite / fread / fseeko / fflush / fclose (+ ftruncate,
 * remove).  The shim interposes these for ONE armed path and
 *   (i)   records the time-ordered sequence of operations, with the file position of every write and the bytes
 *         written (log: text lines; data: concatenated in <log>.bin);
 *   (iii) makes exactly one chosen operation (index in the recorded sequence of W/S/F/C/T ops), or every operation from
 *         that index on ("sticky", a disk that stays full), fail with a chosen errno: fwrite -> 0 bytes written,
 *         fseeko -> -1, fflush -> EOF, fclose -> EOF (the stream is really closed, its buffered data really written),
 *         ftruncate -> -1.
 *   (A)   also interposes the cfitsio entry points photospline's writers call (ffinit = fits_create_file, ffimem =
 *         fits_create_memfile, ffcrim = fits_create_img, ffppx = fits_write_pix, ffpky = fits_write_key, ffuky =
 *         fits_update_key, ffclos = fits_close_file): logs "A <name> <status>" per call (the writer's step sequence) and
 *         can make the n-th call report an error (status 106 WRITE_ERROR; for ffclos the file is really closed and 110
 *         FILE_NOT_CLOSED reported) without executing it: c08_arm_api.
 * Control is by function calls from the harness (weak references there): c08_arm / c08_arm_api / c08_disarm.
 * Built by tools/props/C08.py with gcc -shared -fPIC into the check's build directory. */
#define _GNU_SOURCE
#include <stdio.h>
#include <stdlib.h>
#include <string.h>
#include <errno.h>
#include <dlfcn.h>
#include <unistd.h>
#include <sys/types.h>

static FILE *(*r_fopen)(const char *, const char *);
static FILE *(*r_fopen64)(const char *, const char *);
static size_t (*r_fwrite)(const void *, size_t, size_t, FILE *);
static size_t (*r_fread)(void *, size_t, size_t, FILE *);
static int (*r_fseeko)(FILE *, off_t, int);
static int (*r_fseeko64)(FILE *, off_t, int);
static int (*r_fseek)(FILE *, long, int);
static int (*r_fflush)(FILE *);
static int (*r_fclose)(FILE *);
static int (*r_ftruncate)(int, off_t);
static int (*r_ftruncate64)(int, off_t);
static off_t (*r_ftello)(FILE *);

static void init(void) {
  if (r_fopen) return;
  r_fopen = dlsym(RTLD_NEXT, "fopen");
  r_fopen64 = dlsym(RTLD_NEXT, "fopen64");
  r_fwrite = dlsym(RTLD_NEXT, "fwrite");
  r_fread = dlsym(RTLD_NEXT, "fread");
  r_fseeko = dlsym(RTLD_NEXT, "fseeko");
  r_fseeko64 = dlsym(RTLD_NEXT, "fseeko64");
  r_fseek = dlsym(RTLD_NEXT, "fseek");
  r_fflush = dlsym(RTLD_NEXT, "fflush");
  r_fclose = dlsym(RTLD_NEXT, "fclose");
  r_ftruncate = dlsym(RTLD_NEXT, "ftruncate");
  r_ftruncate64 = dlsym(RTLD_NEXT, "ftruncate64");
  r_ftello = dlsym(RTLD_NEXT, "ftello");
}

static char armed_path[4096];
static int armed = 0;
static FILE *tracked = NULL;
static int tracked_fd = -1;
static FILE *logf = NULL, *binf = NULL;
static long opindex = 0;       /* counts W,S,F,C,T ops on the tracked stream */
static long fail_at = -1;
static int fail_errno = 0;
static int fail_sticky = 0;
static long nfailed = 0;

/* arm: track the next fopen of exactly `path` in a write mode */
void c08_arm(const char *path, const char *logpath, long fail_op, int err, int sticky) {
  init();
  strncpy(armed_path, path, sizeof armed_path - 1);
  armed = 1; tracked = NULL; tracked_fd = -1; opindex = 0; nfailed = 0;
  fail_at = fail_op; fail_errno = err; fail_sticky = sticky;
  logf = binf = NULL;
  if (logpath) {
    char b[4200];
    logf = r_fopen(logpath, "w");
    snprintf(b, sizeof b, "%s.bin", logpath);
    binf = r_fopen(b, "wb");
  }
}
/* returns the number of ops seen; *failed = number of injected failures */
long c08_disarm(long *failed) {
  long n = opindex;
  if (failed) *failed = nfailed;
  if (logf) { r_fclose(logf); logf = NULL; }
  if (binf) { r_fclose(binf); binf = NULL; }
  armed = 0; tracked = NULL; tracked_fd = -1; fail_at = -1;
  return n;
}
int c08_present(void) { return 1; }

static int should_fail(void) {
  long i = opindex++;
  if (fail_at >= 0 && (i == fail_at || (fail_sticky && i > fail_at))) { nfailed++; return 1; }
  return 0;
}

static FILE *open_common(FILE *(*real)(const char *, const char *), const char *path, const char *mode) {
  FILE *f = real(path, mode);
  if (f && armed && !tracked && strcmp(path, armed_path) == 0 && (strchr(mode, 'w') || strchr(mode, '+') || strchr(mode, 'a'))) {
    tracked = f; tracked_fd = fileno(f);
    if (logf) fprintf(logf, "O %s\n", mode);
  }
  return f;
}
FILE *fopen(const char *path, const char *mode) { init(); return open_common(r_fopen, path, mode); }
FILE *fopen64(const char *path, const char *mode) { init(); return open_common(r_fopen64 ? r_fopen64 : r_fopen, path, mode); }

size_t fwrite(const void *p, size_t sz, size_t n, FILE *f) {
  init();
  if (f != tracked || !tracked) return r_fwrite(p, sz, n, f);
  off_t pos = r_ftello(f);
  if (should_fail()) {
    if (logf) fprintf(logf, "W %lld %zu FAIL\n", (long long)pos, sz * n);
    errno = fail_errno; return 0;
  }
  size_t r = r_fwrite(p, sz, n, f);
  if (logf) fprintf(logf, "W %lld %zu %zu\n", (long long)pos, sz * n, r * sz);
  if (binf) r_fwrite(p, 1, r * sz, binf);
  return r;
}
size_t fread(void *p, size_t sz, size_t n, FILE *f) {
  init();
  if (f != tracked || !tracked) return r_fread(p, sz, n, f);
  off_t pos = r_ftello(f);
  size_t r = r_fread(p, sz, n, f);
  if (logf) fprintf(logf, "R %lld %zu %zu\n", (long long)pos, sz * n, r * sz);
  return r;
}
static int seek_common(FILE *f, off_t off, int whence, int which) {
  init();
  if (f != tracked || !tracked)
    return which == 0 ? r_fseeko(f, off, whence) : which == 1 ? (r_fseeko64 ? r_fseeko64 : r_fseeko)(f, off, whence) : r_fseek(f, (long)off, whence);
  if (should_fail()) {
    if (logf) fprintf(logf, "S %lld %d FAIL\n", (long long)off, whence);
    errno = fail_errno; return -1;
  }
  int r = r_fseeko(f, off, whence);
  if (logf) fprintf(logf, "S %lld %d %d\n", (long long)off, whence, r);
  return r;
}
int fseeko(FILE *f, off_t off, int whence) { return seek_common(f, off, whence, 0); }
int fseeko64(FILE *f, off_t off, int whence) { return seek_common(f, off, whence, 1); }
int fseek(FILE *f, long off, int whence) { return seek_common(f, off, whence, 2); }

int fflush(FILE *f) {
  init();
  if (!f || f != tracked) return r_fflush(f);
  if (should_fail()) {
    if (logf) fprintf(logf, "F FAIL\n");
    errno = fail_errno; return EOF;
  }
  int r = r_fflush(f);
  if (logf) fprintf(logf, "F %d\n", r);
  return r;
}
int fclose(FILE *f) {
  init();
  if (f != tracked || !tracked) return r_fclose(f);
  int fail = should_fail();
  tracked = NULL; tracked_fd = -1;
  int r = r_fclose(f);
  if (logf) { if (fail) fprintf(logf, "C FAIL\n"); else fprintf(logf, "C %d\n", r); }
  if (fail) { errno = fail_errno; return EOF; }
  return r;
}
static int trunc_common(int (*real)(int, off_t), int fd, off_t len) {
  if (fd != tracked_fd || tracked_fd < 0) return real(fd, len);
  if (should_fail()) {
    if (logf) fprintf(logf, "T %lld FAIL\n", (long long)len);
    errno = fail_errno; return -1;
  }
  int r = real(fd, len);
  if (logf) fprintf(logf, "T %lld %d\n", (long long)len, r);
  return r;
}
/* out-of-band changes of the armed file's LENGTH through another descriptor or by path (preallocation, truncation): they are not
   part of the stdio schedule the model describes, but they decide what an interrupted write leaves behind. Logged as
   "X <what> <new length> <result>"; never failed by injection. */
static int fd_is_armed_other(int fd) {
  char l[64], b[4200];
  if (!armed || fd < 0 || fd == tracked_fd) return 0;
  snprintf(l, sizeof l, "/proc/self/fd/%d", fd);
  ssize_t n = readlink(l, b, sizeof b - 1);
  if (n <= 0) return 0;
  b[n] = 0;
  return strcmp(b, armed_path) == 0;
}
static void log_x(const char *what, long long newlen, int r) { if (logf) fprintf(logf, "X %s %lld %d\n", what, newlen, r); }
int ftruncate(int fd, off_t len) {
  init();
  if (fd_is_armed_other(fd)) { int r = r_ftruncate(fd, len); log_x("ftruncate", (long long)len, r); return r; }
  return trunc_common(r_ftruncate, fd, len);
}
int ftruncate64(int fd, off_t len) {
  init();
  if (fd_is_armed_other(fd)) { int r = (r_ftruncate64 ? r_ftruncate64 : r_ftruncate)(fd, len); log_x("ftruncate", (long long)len, r); return r; }
  return trunc_common(r_ftruncate64 ? r_ftruncate64 : r_ftruncate, fd, len);
}
int posix_fallocate(int fd, off_t off, off_t len) {
  static int (*real)(int, off_t, off_t);
  init(); if (!real) real = dlsym(RTLD_NEXT, "posix_fallocate");
  int r = real(fd, off, len);
  if (armed && (fd == tracked_fd || fd_is_armed_other(fd))) log_x("posix_fallocate", (long long)(off + len), r);
  return r;
}
int posix_fallocate64(int fd, off_t off, off_t len) {
  static int (*real)(int, off_t, off_t);
  init(); if (!real) real = dlsym(RTLD_NEXT, "posix_fallocate64");
  if (!real) real = dlsym(RTLD_NEXT, "posix_fallocate");
  int r = real(fd, off, len);
  if (armed && (fd == tracked_fd || fd_is_armed_other(fd))) log_x("posix_fallocate", (long long)(off + len), r);
  return r;
}
int fallocate(int fd, int mode, off_t off, off_t len) {
  static int (*real)(int, int, off_t, off_t);
  init(); if (!real) real = dlsym(RTLD_NEXT, "fallocate");
  int r = real(fd, mode, off, len);
  if (armed && (fd == tracked_fd || fd_is_armed_other(fd))) log_x("fallocate", (long long)(off + len), r);
  return r;
}
int truncate(const char *path, off_t len) {
  static int (*real)(const char *, off_t);
  init(); if (!real) real = dlsym(RTLD_NEXT, "truncate");
  int r = real(path, len);
  if (armed && strcmp(path, armed_path) == 0) log_x("truncate", (long long)len, r);
  return r;
}

/* ---------------------------------------------------------------------------------------------------------------- */
/* cfitsio API level (opaque pointers: no cfitsio header needed) */
static long api_index = 0, api_fail_at = -1, api_failed = 0;
void c08_arm_api(long fail_step) { api_index = 0; api_fail_at = fail_step; api_failed = 0; }
long c08_api_steps(long *failed) { if (failed) *failed = api_failed; return api_index; }
static int api_should_fail(void) {
  long i = api_index++;
  if (!armed) return 0;
  if (api_fail_at >= 0 && i == api_fail_at) { api_failed++; return 1; }
  return 0;
}
static void api_log(const char *name, int status) { if (armed && logf) fprintf(logf, "A %s %d\n", name, status); }
#define REAL(name, type) static type r = NULL; if (!r) r = (type)dlsym(RTLD_NEXT, name); init()

int ffinit(void **fptr, const char *filename, int *status) {
  typedef int (*T)(void **, const char *, int *); REAL("ffinit", T);
  if (!armed) return r(fptr, filename, status);
  if (api_should_fail()) { if (*status <= 0) *status = 105; api_log("ffinit", *status); return *status; }
  int s = r(fptr, filename, status); api_log("ffinit", s); return s;
}
int ffimem(void **fptr, void **buffptr, size_t *buffsize, size_t deltasize, void *(*mem_realloc)(void *, size_t), int *status) {
  typedef int (*T)(void **, void **, size_t *, size_t, void *(*)(void *, size_t), int *); REAL("ffimem", T);
  if (!armed) return r(fptr, buffptr, buffsize, deltasize, mem_realloc, status);
  if (api_should_fail()) { if (*status <= 0) *status = 105; api_log("ffimem", *status); return *status; }
  int s = r(fptr, buffptr, buffsize, deltasize, mem_realloc, status); api_log("ffimem", s); return s;
}
int ffcrim(void *fptr, int bitpix, int naxis, long *naxes, int *status) {
  typedef int (*T)(void *, int, int, long *, int *); REAL("ffcrim", T);
  if (!armed) return r(fptr, bitpix, naxis, naxes, status);
  if (api_should_fail()) { if (*status <= 0) *status = 106; api_log("ffcrim", *status); return *status; }
  int s = r(fptr, bitpix, naxis, naxes, status); api_log("ffcrim", s); return s;
}
int ffppx(void *fptr, int datatype, long *firstpix, long long nelem, void *array, int *status) {
  typedef int (*T)(void *, int, long *, long long, void *, int *); REAL("ffppx", T);
  if (!armed) return r(fptr, datatype, firstpix, nelem, array, status);
  if (api_should_fail()) { if (*status <= 0) *status = 106; api_log("ffppx", *status); return *status; }
  int s = r(fptr, datatype, firstpix, nelem, array, status); api_log("ffppx", s); return s;
}
int ffpky(void *fptr, int datatype, const char *keyname, void *value, const char *comm, int *status) {
  typedef int (*T)(void *, int, const char *, void *, const char *, int *); REAL("ffpky", T);
  if (!armed) return r(fptr, datatype, keyname, value, comm, status);
  if (api_should_fail()) { if (*status <= 0) *status = 106; api_log("ffpky", *status); return *status; }
  int s = r(fptr, datatype, keyname, value, comm, status); api_log("ffpky", s); return s;
}
int ffuky(void *fptr, int datatype, const char *keyname, void *value, const char *comm, int *status) {
  typedef int (*T)(void *, int, const char *, void *, const char *, int *); REAL("ffuky", T);
  if (!armed) return r(fptr, datatype, keyname, value, comm, status);
  if (api_should_fail()) { if (*status <= 0) *status = 106; api_log("ffuky", *status); return *status; }
  int s = r(fptr, datatype, keyname, value, comm, status); api_log("ffuky", s); return s;
}
int ffclos(void *fptr, int *status) {
  typedef int (*T)(void *, int *); REAL("ffclos", T);
  if (!armed) return r(fptr, status);
  int fail = api_should_fail();
  int s = r(fptr, status);
  if (fail && *status <= 0) { *status = 110; s = 110; }
  api_log("ffclos", s); return s;
}
