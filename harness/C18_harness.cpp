// C18_harness.cpp — drives call sequences through the REAL extern "C" interface (src/cinter/splinetable.cpp)
// and, call by call, the same operation on a C++ twin object (photospline::splinetable<>), under ASan/UBSan/LSan.
//
//   C18_harness gen   <specfile>          write the FITS inputs described in <specfile>
//   C18_harness probe <path>              print the exception text of read_fits / read_fits_mem on <path> (I/O oracle)
//   C18_harness run   <casefile> [skip]   run the cases (after skipping [skip]); every case is announced on stderr as
//                                         "@<id>" and every op as "#<k> <line>" BEFORE it starts, so a crash, a
//                                         std::terminate (exception leaving extern "C") or an ASan report is attributed
//                                         to that case and call by the caller.
// Per op the harness prints
//   c <k> <kind> <what the C call returned / wrote into the caller's buffers>
//   t <k> <kind> <what the C++ twin returned / produced>                       (must be identical after the tag)
//   s <h> <dump of the object behind C handle h>   /  u <h> <dump of twin object h>   for every handle
//   g live=<number of live C handles> res=<number of caller-held ndsparse results> buf=<caller-held buffers>
// and at `end` runs LeakSanitizer's recoverable check (nothing may be reachable-lost once every handle, result and
// buffer has been released by the sequence itself); a leaking case ends the process (exit 78) so that the
// caller can restart after it and leaks are attributed to one case only.
#include "verif_common.h"
#include <sanitizer/lsan_interface.h>
#include <signal.h>
#include <unistd.h>
extern "C" {
#include <photospline/cinter/splinetable.h>
}

static uint64_t fnv(uint64_t h, const void* data, size_t n){
  const unsigned char* c = (const unsigned char*)data;
  for(size_t i = 0; i < n; i++){ h ^= c[i]; h *= 1099511628211ULL; }
  return h;
}
static std::string hx(uint64_t h){ char b[32]; snprintf(b, sizeof b, "%016" PRIx64, h); return b; }

static std::string dump(const ST* t){
  if(!t) return "null";
  std::ostringstream o;
  o << "ndim=" << t->ndim << " naux=" << t->naux;
  if(t->ndim){
    o << " orders="; for(uint32_t i = 0; i < t->ndim; i++) o << (i ? "," : "") << t->order[i];
    o << " nk="; for(uint32_t i = 0; i < t->ndim; i++) o << (i ? "," : "") << t->nknots[i];
    o << " nax="; for(uint32_t i = 0; i < t->ndim; i++) o << (i ? "," : "") << t->naxes[i];
    uint64_t h = 1469598103934665603ULL, nc = 1;
    for(uint32_t i = 0; i < t->ndim; i++) nc *= t->naxes[i];
    h = fnv(h, t->coefficients, nc * 4);
    for(uint32_t i = 0; i < t->ndim; i++) h = fnv(h, t->knots[i], 8 * t->nknots[i]);
    if(t->extents) h = fnv(h, t->extents[0], 16 * t->ndim);
    if(t->periods) h = fnv(h, t->periods, 8 * t->ndim);
    o << " hash=" << hx(h);
  }
  o << " aux=";
  for(uint32_t i = 0; i < t->naux; i++){
    std::string v = t->aux[i][1]; for(char& c : v) if(c == ' ') c = '_';
    o << (i ? "," : "") << t->aux[i][0] << "=" << v;
  }
  if(!t->naux) o << "-";
  return o.str();
}

static std::vector<char> slurp(const std::string& path){
  std::ifstream f(path, std::ios::binary);
  return std::vector<char>((std::istreambuf_iterator<char>(f)), std::istreambuf_iterator<char>());
}
static std::string filehash(const std::string& path){
  std::ifstream f(path, std::ios::binary);
  if(!f) return "nofile";
  std::vector<char> b((std::istreambuf_iterator<char>(f)), std::istreambuf_iterator<char>());
  return std::to_string(b.size()) + ":" + hx(fnv(1469598103934665603ULL, b.data(), b.size()));
}
static std::string exmsg(const std::exception& e){
  std::string m = e.what(); for(char& c : m) if(c == '\n' || c == ' ') c = '_'; if(m.size() > 100) m.resize(100); return m; }

static std::string nd_text(const ::ndsparse* nd){
  if(!nd) return "NULL";
  std::ostringstream o; o << "rows=" << nd->rows << " ndim=" << nd->ndim << " ranges=";
  for(size_t j = 0; j < nd->ndim; j++) o << (j ? "," : "") << nd->ranges[j];
  uint64_t h = 1469598103934665603ULL;
  h = fnv(h, nd->x, 8 * nd->rows);
  for(size_t j = 0; j < nd->ndim; j++) h = fnv(h, nd->i[j], 4 * nd->rows);
  o << " hash=" << hx(h);
  return o.str();
}

// the evaluation point of an `eval`/`grad` op: fraction q/16 of the way through the extents (q may lie outside: -2, 18)
static void point(const ST* t, int q, std::vector<double>& x){
  uint32_t nd = t->get_ndim(); x.assign(nd ? nd : 1, 0.0);
  for(uint32_t i = 0; i < nd; i++){
    double lo = t->lower_extent(i), hi = t->upper_extent(i);
    x[i] = lo + (hi - lo) * ((q + (int)i) / 16.0);
  }
}

#ifdef PHOTOSPLINE_INCLUDES_SPGLAM
struct FitProblem {
  photospline::ndsparse data; std::vector<double> coords, weights, kn, sm; std::vector<uint32_t> so, po;
  FitProblem(int npts, int ord, int nk, int bad) : data(npts, 1), coords(npts), weights(npts, 1.0), kn(nk), sm(1, 1e-6), so(1, ord), po(1, ord < 2 ? ord : 2) {
    for(int i = 0; i < npts; i++){
      coords[i] = i / double(npts - 1);
      unsigned int idx = i; data.insertEntry(std::sin(3 * coords[i]) + 2 + 0.01 * ord + 0.001 * nk, &idx);
    }
    for(int i = 0; i < nk; i++) kn[i] = -0.5 + 2.0 * i / (nk - 1);
    if(bad == 2) std::swap(kn[0], kn[nk - 1]);       // unsorted knots -> logic_error before anything is touched
    if(bad == 3) po[0] = ord + 5;                    // penalty order too large -> logic_error
    if(bad == 4) so[0] = nk + 3;                     // more order than knots -> logic_error
  }
};
#endif

static struct splinetable H[3];
static ST* T[3];
static struct ndsparse* R[2];
#ifdef PHOTOSPLINE_INCLUDES_SPGLAM
static std::unique_ptr<photospline::ndsparse> RT[2];
#endif
static struct splinetable_buffer B[2];
static std::pair<void*, size_t> BT[2];

static const ST* HT(int h){ return static_cast<const ST*>(H[h].data); }

static void on_abort(int){
  // std::terminate / assert: say so on stderr in a recognisable way and die without running LSan
  const char m[] = "\n!SIGABRT\n"; ssize_t r = write(2, m, sizeof m - 1); (void)r; _exit(134);
}

static int run_cases(const char* path, long skip){
  std::ifstream in(path);
  std::string line;
  long caseno = -1; bool active = false; int k = 0;
  std::string scratch = std::string(path) + ".out";
  signal(SIGABRT, on_abort);
  while(std::getline(in, line)){
    std::vector<std::string> w = split_ws(line);
    if(w.empty()) continue;
    if(w[0] == "case"){
      caseno++; active = caseno >= skip; if(!active) continue;
      fprintf(stderr, "@%s\n", w[1].c_str()); fflush(stderr);
      printf("case %s\n", w[1].c_str());
      // whatever a previous case left behind is abandoned deliberately (it was reported there)
      for(int i = 0; i < 3; i++){ H[i].data = NULL; T[i] = NULL; }
      for(int i = 0; i < 2; i++){ R[i] = NULL; B[i].data = NULL; B[i].size = 0; BT[i].first = NULL; BT[i].second = 0;
#ifdef PHOTOSPLINE_INCLUDES_SPGLAM
        RT[i].release();
#endif
      }
      k = 0; continue;
    }
    if(!active) continue;
    if(w[0] == "end"){
      int ls = __lsan_do_recoverable_leak_check();
      printf("end lsan=%d\n", ls); fflush(stdout);
      if(ls) _exit(78);
      continue;
    }
    if(w[0] != "op") continue;
    std::string kind = w[1];
    fprintf(stderr, "#%d %s\n", k, line.c_str()); fflush(stderr);
    std::ostringstream c, t;
    int h = w.size() > 2 ? atoi(w[2].c_str()) : 0;
    if(kind == "init"){
      c << "rc=" << splinetable_init(&H[h]);
      int trc = 0; try{ T[h] = new ST(); }catch(...){ trc = 1; } t << "rc=" << trc;
    }
    else if(kind == "free"){
      splinetable_free(&H[h]); c << "void";
      delete T[h]; T[h] = NULL; t << "void";
    }
    else if(kind == "free_null"){ splinetable_free(NULL); c << "void"; t << "void"; }
    else if(kind == "read"){
      c << "rc=" << readsplinefitstable(w[3].c_str(), &H[h]);
      // twin of the wrapper: the old object is destroyed, the reading constructor builds the new one
      int trc = 0; delete T[h]; T[h] = NULL;
      try{ T[h] = new ST(w[3]); }catch(std::exception& e){ trc = 1; } t << "rc=" << trc;
    }
    else if(kind == "write"){
      std::string pc = w[3] == "-" ? scratch + ".c.fits" : w[3], pt = w[3] == "-" ? scratch + ".t.fits" : w[3];
      remove(pc.c_str()); remove(pt.c_str());
      c << "rc=" << writesplinefitstable(pc.c_str(), &H[h]) << " file=" << filehash(pc);
      int trc = 0; try{ if(!T[h]) trc = 1; else T[h]->write_fits(pt); }catch(std::exception& e){ trc = 1; } t << "rc=" << trc << " file=" << filehash(pt);
    }
    else if(kind == "getkey"){
      const char* r = splinetable_get_key(&H[h], w[3].c_str()); c << "ptr=" << (r ? std::string(r) : std::string("NULL"));
      const char* r2 = NULL; try{ if(T[h]) r2 = T[h]->get_aux_value(w[3].c_str()); }catch(...){} t << "ptr=" << (r2 ? std::string(r2) : std::string("NULL"));
      std::string cs = c.str(), ts = t.str(); for(char& ch : cs) if(ch == ' ') ch = '_'; for(char& ch : ts) if(ch == ' ') ch = '_';
      c.str(cs); c.seekp(0, std::ios::end); t.str(ts); t.seekp(0, std::ios::end);
    }
    else if(kind == "readkey"){   // readkey h i|d key
      if(w[3] == "i"){
        int v = -777, v2 = -777; int rc = splinetable_read_key(&H[h], SPLINETABLE_INT, w[4].c_str(), &v);
        c << "rc=" << rc << " val=" << v;
        bool ok = false; try{ ok = T[h] && T[h]->read_key(w[4].c_str(), v2); }catch(...){ ok = false; } t << "rc=" << (ok ? 0 : 1) << " val=" << v2;
      }else{
        double v = -777, v2 = -777; int rc = splinetable_read_key(&H[h], SPLINETABLE_DOUBLE, w[4].c_str(), &v);
        c << "rc=" << rc << " val=" << hexd(v);
        bool ok = false; try{ ok = T[h] && T[h]->read_key(w[4].c_str(), v2); }catch(...){ ok = false; } t << "rc=" << (ok ? 0 : 1) << " val=" << hexd(v2);
      }
    }
    else if(kind == "writekey"){  // writekey h i|d key value
      std::string key = w[4]; for(char& ch : key) if(ch == '~') ch = '\x01';   // '~' stands for a non-printable character
      if(w[3] == "i"){
        int v = atoi(w[5].c_str()); c << "rc=" << splinetable_write_key(&H[h], SPLINETABLE_INT, key.c_str(), &v);
        int trc = 0; try{ if(!T[h]) trc = 1; else T[h]->write_key(key.c_str(), v); }catch(std::exception& e){ trc = 1; } t << "rc=" << trc;
      }else{
        double v = atof(w[5].c_str()); c << "rc=" << splinetable_write_key(&H[h], SPLINETABLE_DOUBLE, key.c_str(), &v);
        int trc = 0; try{ if(!T[h]) trc = 1; else T[h]->write_key(key.c_str(), v); }catch(std::exception& e){ trc = 1; } t << "rc=" << trc;
      }
    }
    else if(kind == "acc"){       // every accessor, every dimension
      const struct splinetable* p = &H[h]; const ST* q = T[h];
      uint32_t nd = splinetable_ndim(p); c << "ndim=" << nd; t << "ndim=" << q->get_ndim();
      uint64_t hc = 1469598103934665603ULL, ht = hc;
      for(uint32_t d = 0; d < nd && d < q->get_ndim(); d++){
        uint64_t a[5] = { splinetable_order(p, d), splinetable_nknots(p, d), splinetable_ncoeffs(p, d), splinetable_stride(p, d), 0 };
        uint64_t b[5] = { q->get_order(d), q->get_nknots(d), q->get_ncoeffs(d), q->get_stride(d), 0 };
        hc = fnv(hc, a, sizeof a); ht = fnv(ht, b, sizeof b);
        double e[3] = { splinetable_lower_extent(p, d), splinetable_upper_extent(p, d), q->periods ? splinetable_period(p, d) : 0.0 };
        double f[3] = { q->lower_extent(d), q->upper_extent(d), q->periods ? q->get_period(d) : 0.0 };
        hc = fnv(hc, e, sizeof e); ht = fnv(ht, f, sizeof f);
        hc = fnv(hc, splinetable_knots(p, d), 8 * a[1]); ht = fnv(ht, q->get_knots(d), 8 * b[1]);
        for(uint64_t j = 0; j < a[1]; j++){ double v = splinetable_knot(p, d, j), v2 = q->get_knot(d, j); hc = fnv(hc, &v, 8); ht = fnv(ht, &v2, 8); }
      }
      uint64_t n = splinetable_total_ncoeffs(p), n2 = q->get_ncoeffs();
      c << " total=" << n; t << " total=" << n2;
      if(nd){ hc = fnv(hc, splinetable_coefficients(p), 4 * n); ht = fnv(ht, q->get_coefficients(), 4 * n2); }
      c << " hash=" << hx(hc); t << " hash=" << hx(ht);
    }
    else if(kind == "eval"){      // eval h q derivmask : tablesearchcenters + ndsplineeval + ndsplineeval_deriv
      int qf = atoi(w[3].c_str()); int dm = atoi(w[4].c_str());
      std::vector<double> x; point(T[h], qf, x); uint32_t nd = T[h]->get_ndim();
      std::vector<int> ce(nd ? nd : 1, -1), ce2(nd ? nd : 1, -1);
      int rc = tablesearchcenters(&H[h], x.data(), ce.data());
      bool ok = T[h]->searchcenters(x.data(), ce2.data());
      c << "rc=" << rc; t << "rc=" << (int)ok;
      if(rc && ok){
        c << " centers="; t << " centers=";
        for(uint32_t i = 0; i < nd; i++){ c << (i ? "," : "") << ce[i]; t << (i ? "," : "") << ce2[i]; }
        std::vector<unsigned int> dv(nd ? nd : 1, 0); for(uint32_t i = 0; i < nd; i++) dv[i] = (dm >> i) & 1 ? 1 + (i & 1) : 0;
        c << " v=" << hexd(ndsplineeval(&H[h], x.data(), ce.data(), dm)) << " d=" << hexd(ndsplineeval_deriv(&H[h], x.data(), ce.data(), dv.data()));
        t << " v=" << hexd(T[h]->ndsplineeval(x.data(), ce2.data(), dm)) << " d=" << hexd(T[h]->ndsplineeval_deriv(x.data(), ce2.data(), dv.data()));
      }
    }
    else if(kind == "grad"){      // grad h q : ndsplineeval_gradient (void: a failure can only show in the output buffer)
      int qf = atoi(w[3].c_str());
      std::vector<double> x; point(T[h], qf, x); uint32_t nd = T[h]->get_ndim();
      std::vector<int> ce(nd ? nd : 1, -1);
      bool ok = T[h]->searchcenters(x.data(), ce.data());
      if(!ok){ c << "outside"; t << "outside"; }
      else{
        std::vector<double> g(nd + 1, -777.0), g2(nd + 1, -777.0);
        ndsplineeval_gradient(&H[h], x.data(), ce.data(), g.data());
        int threw = 0; try{ T[h]->ndsplineeval_gradient(x.data(), ce.data(), g2.data()); }catch(std::exception& e){ threw = 1; }
        // a failing twin leaves no value: the wrapper must mark every slot not-a-number
        if(threw) for(double& v : g2) v = std::numeric_limits<double>::quiet_NaN();
        c << "g="; t << "g=";
        for(uint32_t i = 0; i <= nd; i++){ c << (i ? "," : "") << (g[i] != g[i] ? std::string("nan") : hexd(g[i])); t << (i ? "," : "") << (g2[i] != g2[i] ? std::string("nan") : hexd(g2[i])); }
        t << " threw=" << threw; c << " threw=" << threw;   // (same token on both lines; the model predicts it)
      }
    }
    else if(kind == "notable"){   // notable h <function> [null] : a value-returning wrapper on a handle WITHOUT a table (zero-initialised,
                                  // failed read, freed) or, with `null`, on the NULL handle. There is no C++ object to be the twin: the
                                  // `t` line is what include/photospline/cinter/splinetable.h documents for that case.
      std::string fn = w[3]; bool nullh = w.size() > 4 && w[4] == "null";
      if(!nullh && H[h].data){ c << "generator-error:handle-has-a-table"; t << "-"; }
      else{
        const struct splinetable* p = nullh ? NULL : &H[h];
        double x[4] = {0.25, 0.25, 0.25, 0.25}; int ce[4] = {-7, -7, -7, -7}; unsigned int dv[4] = {0, 0, 0, 0};
        auto I = [&](uint64_t v, uint64_t doc){ c << "int=" << v; t << "int=" << doc; };
        auto P = [&](const void* v){ c << "ptr=" << (v ? "nonnull" : "NULL"); t << "ptr=NULL"; };
        auto D = [&](double v){ c << "dbl=" << (v != v ? std::string("nan") : hexd(v)); t << "dbl=nan"; };
        if(fn == "splinetable_ndim") I(splinetable_ndim(p), 0);
        else if(fn == "splinetable_order") I(splinetable_order(p, 0), 0);
        else if(fn == "splinetable_nknots") I(splinetable_nknots(p, 0), 0);
        else if(fn == "splinetable_knots") P(splinetable_knots(p, 0));
        else if(fn == "splinetable_knot") D(splinetable_knot(p, 0, 0));
        else if(fn == "splinetable_lower_extent") D(splinetable_lower_extent(p, 0));
        else if(fn == "splinetable_upper_extent") D(splinetable_upper_extent(p, 0));
        else if(fn == "splinetable_period") D(splinetable_period(p, 0));
        else if(fn == "splinetable_ncoeffs") I(splinetable_ncoeffs(p, 0), 0);
        else if(fn == "splinetable_total_ncoeffs") I(splinetable_total_ncoeffs(p), 0);
        else if(fn == "splinetable_stride") I(splinetable_stride(p, 0), 0);
        else if(fn == "splinetable_coefficients") P(splinetable_coefficients(p));
        else if(fn == "tablesearchcenters"){
          int rc = tablesearchcenters(p, x, ce); bool untouched = ce[0] == -7 && ce[1] == -7 && ce[2] == -7 && ce[3] == -7;
          c << "int=" << rc << " centers=" << (untouched ? "untouched" : "written"); t << "int=0 centers=untouched";
        }
        else if(fn == "ndsplineeval"){ int z[4] = {0, 0, 0, 0}; D(ndsplineeval(p, x, z, 0)); }
        else if(fn == "ndsplineeval_deriv"){ int z[4] = {0, 0, 0, 0}; D(ndsplineeval_deriv(p, x, z, dv)); }
        else if(fn == "ndsplineeval_gradient"){
          int z[4] = {0, 0, 0, 0}; double g[4] = {-777.0, -777.0, -777.0, -777.0};
          ndsplineeval_gradient(p, x, z, g);
          bool rest = g[1] == -777.0 && g[2] == -777.0 && g[3] == -777.0;
          c << "g0=" << (g[0] != g[0] ? std::string("nan") : hexd(g[0])) << " rest=" << (rest ? "untouched" : "written"); t << "g0=nan rest=untouched";
        }
        else { c << "unknown-function"; t << "-"; }
      }
    }
    else if(kind == "conv"){      // conv h dim nk k0 k1 ...
      int dim = atoi(w[3].c_str()); size_t nk = atoi(w[4].c_str());
      std::vector<double> kn(nk ? nk : 1); for(size_t i = 0; i < nk; i++) kn[i] = atof(w[5 + i].c_str());
      c << "rc=" << splinetable_convolve(&H[h], dim, kn.data(), nk);
      int trc = 0; try{ if(!T[h]) trc = 1; else T[h]->convolve(dim, kn.data(), nk); }catch(std::exception& e){ trc = 1; } t << "rc=" << trc;
    }
    else if(kind == "readmem"){   // readmem h path
      std::vector<char> b = slurp(w[3]); std::vector<char> b2 = b;
      struct splinetable_buffer sb; sb.data = b.data(); sb.size = b.size();
      c << "rc=" << readsplinefitstable_mem(&sb, &H[h]);
      int trc = 0; try{ if(!T[h]) T[h] = new ST(); T[h]->read_fits_mem(b2.data(), b2.size()); }catch(std::exception& e){ trc = 1; } t << "rc=" << trc;
    }
    else if(kind == "writemem"){  // writemem h b
      int b = atoi(w[3].c_str());
      c << "rc=" << writesplinefitstable_mem(&B[b], &H[h]);
      int trc = 0; try{ if(!T[h]) trc = 1; else BT[b] = T[h]->write_fits_mem(); }catch(std::exception& e){ trc = 1; } t << "rc=" << trc;
      c << " buf=" << (B[b].data ? std::to_string(B[b].size) + ":" + hx(fnv(1469598103934665603ULL, B[b].data, B[b].size)) : std::string("NULL"));
      t << " buf=" << (BT[b].first ? std::to_string(BT[b].second) + ":" + hx(fnv(1469598103934665603ULL, BT[b].first, BT[b].second)) : std::string("NULL"));
    }
    else if(kind == "writemem_occupied"){   // writemem into a buffer struct whose data is not NULL: refused by the wrapper
      int b = atoi(w[3].c_str());
      c << "rc=" << writesplinefitstable_mem(&B[b], &H[h]); t << "rc=1";
    }
    else if(kind == "readbuf"){   // readbuf h b : read the table back from a caller-held buffer
      int b = atoi(w[3].c_str());
      c << "rc=" << readsplinefitstable_mem(&B[b], &H[h]);
      int trc = 0; try{ if(!T[h]) T[h] = new ST(); T[h]->read_fits_mem(BT[b].first, BT[b].second); }catch(std::exception& e){ trc = 1; } t << "rc=" << trc;
    }
    else if(kind == "buffree"){
      int b = h; free(B[b].data); B[b].data = NULL; B[b].size = 0; free(BT[b].first); BT[b].first = NULL; BT[b].second = 0; c << "void"; t << "void";
    }
#ifdef PHOTOSPLINE_INCLUDES_SPGLAM
    else if(kind == "fit"){       // fit h npts ord nk bad
      FitProblem P(atoi(w[3].c_str()), atoi(w[4].c_str()), atoi(w[5].c_str()), atoi(w[6].c_str()));
      const double* cp[1] = { P.coords.data() }; const double* kp[1] = { P.kn.data() }; uint64_t nkn[1] = { P.kn.size() };
      c << "rc=" << splinetable_glamfit(&H[h], &P.data, P.weights.data(), cp, P.so.data(), kp, nkn, P.sm.data(), P.po.data(), PHOTOSPLINE_GLAM_NO_MONODIM, false);
      int trc = 0;
      try{
        if(!T[h]) trc = 1;   // the wrapper refuses a handle without object; there is no twin call
        else{
          std::vector<std::vector<double> > cc(1, P.coords), kk(1, P.kn);
          T[h]->fit(P.data, P.weights, cc, P.so, kk, P.sm, P.po, ST::no_monodim, false);
        }
      }catch(std::exception& e){ trc = 1; }
      t << "rc=" << trc;
    }
    else if(kind == "grideval"){  // grideval h r npts
      int r = atoi(w[3].c_str()); int npts = atoi(w[4].c_str());
      uint32_t nd = T[h] ? T[h]->get_ndim() : 0;
      std::vector<std::vector<double> > grid(nd); std::vector<const double*> cp(nd ? nd : 1); std::vector<uint32_t> nc(nd ? nd : 1);
      for(uint32_t i = 0; i < nd; i++){
        double lo = T[h]->lower_extent(i), hi = T[h]->upper_extent(i);
        for(int j = 0; j < npts + (int)i; j++) grid[i].push_back(lo + (hi - lo) * (j + 0.5) / (npts + i));
        cp[i] = grid[i].data(); nc[i] = grid[i].size();
      }
      int rc = splinetable_grideval(&H[h], cp.data(), nc.data(), &R[r]);
      c << "rc=" << rc << " " << nd_text(R[r]);
      int trc = 0;
      try{ if(!T[h]) trc = 1; else RT[r] = T[h]->grideval(grid); }catch(std::exception& e){ trc = 1; }
      t << "rc=" << trc << " " << nd_text(RT[r].get());
    }
    else if(kind == "nddestroy"){ int r = h; ndsparse_destroy(R[r]); R[r] = NULL; RT[r].reset(); c << "void"; t << "void"; }
#endif
    else if(kind == "perm"){      // perm h p0 p1 ...   (the wrapper copies get_ndim() entries: the caller supplies at least that many)
      std::vector<size_t> p; for(size_t i = 3; i < w.size(); i++) p.push_back((size_t)strtoull(w[i].c_str(), NULL, 10));
      uint32_t nd = T[h] ? T[h]->get_ndim() : 0;
      std::vector<size_t> pc = p; pc.resize(std::max<size_t>(pc.size(), nd ? nd : 1), 0);
      std::vector<size_t> pt(pc.begin(), pc.begin() + nd);
      c << "rc=" << splinetable_permute(&H[h], pc.data());
      int trc = 0; try{ if(!T[h]) trc = 1; else T[h]->permuteDimensions(pt); }catch(std::exception& e){ trc = 1; } t << "rc=" << trc;
    }
    else if(kind == "nullarg"){   // nullarg h <function> <argument>: a NULL pointer for that argument; the wrapper must refuse
      std::string fn = w[3], a = w[4]; int rc = -99; bool isptr = false; const void* pr = (const void*)1;
      struct splinetable* tp = a == "table" ? NULL : &H[h];
      int iv = 0; double dv = 0;
      if(fn == "splinetable_init") rc = splinetable_init(tp);
      else if(fn == "readsplinefitstable") rc = readsplinefitstable(a == "path" ? NULL : "/nonexistent/x.fits", tp);
      else if(fn == "writesplinefitstable") rc = writesplinefitstable(a == "path" ? NULL : (scratch + ".n.fits").c_str(), tp);
      else if(fn == "splinetable_get_key"){ isptr = true; pr = splinetable_get_key(tp, a == "key" ? NULL : "KEY1"); }
      else if(fn == "splinetable_read_key") rc = splinetable_read_key(tp, SPLINETABLE_INT, a == "key" ? NULL : "KEY1", a == "result" ? NULL : &iv);
      else if(fn == "splinetable_write_key") rc = splinetable_write_key(tp, SPLINETABLE_DOUBLE, a == "key" ? NULL : "KEY1", a == "value" ? NULL : &dv);
      else if(fn == "readsplinefitstable_mem"){ struct splinetable_buffer sb; char z[4] = {0}; sb.data = a == "buffer->data" ? NULL : z; sb.size = 4;
        rc = readsplinefitstable_mem(a == "buffer" ? NULL : &sb, tp); }
      else if(fn == "writesplinefitstable_mem"){ struct splinetable_buffer sb; sb.data = NULL; sb.size = 0; rc = writesplinefitstable_mem(a == "buffer" ? NULL : &sb, tp); if(sb.data) free(sb.data); }
      else if(fn == "splinetable_convolve"){ double kn[2] = {0, 1}; rc = splinetable_convolve(tp, 0, a == "knots" ? NULL : kn, 2); }
      else if(fn == "splinetable_permute"){ size_t p[8] = {0, 1, 2, 3, 4, 5, 6, 7}; rc = splinetable_permute(tp, a == "permutation" ? NULL : p); }
#ifdef PHOTOSPLINE_INCLUDES_SPGLAM
      else if(fn == "splinetable_glamfit"){ FitProblem P(8, 2, 8, 0); const double* cp[1] = { P.coords.data() }; const double* kp[1] = { P.kn.data() }; uint64_t nkn[1] = { P.kn.size() };
        rc = splinetable_glamfit(tp, a == "data" ? NULL : &P.data, P.weights.data(), cp, P.so.data(), kp, nkn, P.sm.data(), P.po.data(), PHOTOSPLINE_GLAM_NO_MONODIM, false); }
      else if(fn == "splinetable_grideval"){ struct ndsparse* res = (struct ndsparse*)1; double g[2] = {0.1, 0.2}; const double* cp[8] = {g, g, g, g, g, g, g, g}; uint32_t nc[8] = {2, 2, 2, 2, 2, 2, 2, 2};
        rc = splinetable_grideval(tp, cp, nc, a == "result" ? NULL : &res); if(a != "result" && res) rc = -98; }
      else if(fn == "ndsparse_destroy"){ ndsparse_destroy(NULL); rc = 1; }
#endif
      else if(fn == "splinetable_free"){ splinetable_free(tp); rc = 1; }
      else rc = -97;
      if(isptr) c << "refused=" << (pr == NULL); else c << "refused=" << (rc != 0);
      t << "refused=1";
    }
    else { c << "unknown-op"; t << "-"; }
    printf("c %d %s %s\nt %d %s %s\n", k, kind.c_str(), c.str().c_str(), k, kind.c_str(), t.str().c_str());
    int live = 0, res = 0, buf = 0;
    for(int i = 0; i < 3; i++){ printf("s %d %s\nu %d %s\n", i, dump(HT(i)).c_str(), i, dump(T[i]).c_str()); if(H[i].data) live++; }
    for(int i = 0; i < 2; i++){ if(R[i]) res++; if(B[i].data) buf++; }
    printf("g live=%d res=%d buf=%d\n", live, res, buf);
    fflush(stdout);
    k++;
  }
  return 0;
}

// gen: lines "file <path> <ndim> o0 nk0 o1 nk1 ... naux k0 v0 k1 v1 ..."
static int gen_files(const char* path){
  std::ifstream in(path); std::string line;
  while(std::getline(in, line)){
    std::vector<std::string> w = split_ws(line);
    if(w.empty() || w[0] != "file") continue;
    size_t p = 2; uint32_t nd = atoi(w[p++].c_str());
    std::vector<uint32_t> ord(nd); std::vector<std::vector<double> > kn(nd);
    size_t nco = 1;
    for(uint32_t i = 0; i < nd; i++){
      ord[i] = atoi(w[p++].c_str()); int nk = atoi(w[p++].c_str());
      for(int k = 0; k < nk; k++) kn[i].push_back(k * (1.0 + 0.25 * i) - 1.0);
      nco *= nk - ord[i] - 1;
    }
    std::vector<float> co(nco);
    for(size_t i = 0; i < nco; i++) co[i] = (i % 5 == 3) ? 0.f : (float)(1.0 + 0.37 * ((i * 7919u) % 101) / 101.0 + 0.01 * nd);
    ST t; build_table(t, ord, kn, co, 0.0);
    int na = atoi(w[p++].c_str());
    for(int i = 0; i < na; i++){ t.write_key(w[p].c_str(), w[p + 1]); p += 2; }
    t.write_fits(w[1]);
  }
  return 0;
}

static int probe(const char* path){
  try{ ST t; t.read_fits(path); printf("disk ok\n"); }catch(std::exception& e){ printf("disk fail %s\n", exmsg(e).c_str()); }
  fflush(stdout);
  std::vector<char> b = slurp(path);
  if(b.empty()){ printf("mem fail failed_to_open_(no_bytes)\n"); return 0; }
  try{ ST t; t.read_fits_mem(b.data(), b.size()); printf("mem ok\n"); }catch(std::exception& e){ printf("mem fail %s\n", exmsg(e).c_str()); }
  return 0;
}

extern "C" const char* __asan_default_options(){ return "detect_leaks=1:abort_on_error=0:exitcode=77:new_delete_type_mismatch=1"; }

int main(int argc, char** argv){
  if(argc < 3){ fprintf(stderr, "usage: C18_harness gen|probe|run file [skip]\n"); return 2; }
  if(std::string(argv[1]) == "gen") return gen_files(argv[2]);
  if(std::string(argv[1]) == "probe") return probe(argv[2]);
  return run_cases(argv[2], argc > 3 ? atol(argv[3]) : 0);
}
