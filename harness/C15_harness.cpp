// C15_harness.cpp — implementation side of the C15 correspondence (splinetable::permuteDimensions and the C wrapper
// splinetable_permute). Case format (written by tools/props/C15.py):
//   T <id> <ndim> <hasperiods 0|1>
//   D <order> <nknots> <pad hex64> <ext0 hex64> <ext1 hex64> <period hex64> <knot hex64>*nknots      (ndim lines)
//   C <n> <coef hex32>*n
//   I <tag>                                   dump of the table as built (the model starts from this dump)
//   S <tag> <m|c> <perm> [<perm> ...]         apply the permutations in turn to a fresh copy through the member function
//                                             (m) or the C wrapper (c); perm = comma separated size_t values, "-" = empty
//   E <tag> <perm> <x hex64>*ndim             value of the original at x and of the permuted table at (x[perm[0]], x[perm[1]], ...)
//   V <tag> <m|c> <perm>                      tables too large to dump (> 2^24 coefficients): the coefficient array is filled with a pattern
//                                             of the flat index, permuted, and verified HERE against an independent index computation
//                                             (the statement of C15_coeff_relocated); then the inverse is applied and the original pattern
//                                             must be back. Output: st=.. nd=.. order=.. nknots=.. naxes=.. strides=.. bad=<#wrong> first=<flat> inv=<0|1>
// Output, one line per command: "<tag> st=<status,...> eq=<0|1> nd=.. order=.. nknots=.. naxes=.. strides=.. knots=.. ext=.. per=.. coef=.."
// status: ok | Length | TooLarge | Duplicate | Missing | Other (member function, from the exception text) ; rc0 | rc1 (C wrapper).
// eq = operator== against an untouched copy. knots are dumped with their padding (order elements on both sides), because the
// code moves the pointers and the padding is read by the evaluation routines.
#include "verif_common.h"
#include <photospline/cinter/splinetable.h>

struct DimSpec { uint32_t order; double pad, e0, e1, per; std::vector<double> kn; };
struct Spec { uint32_t nd; bool hasper; std::vector<DimSpec> d; std::vector<float> co; };

static inline float pattern_of(uint64_t i){ return (float)((i % 16777213ull) + 1); }     // exact in float, distinct within any window of 2^24-3
static void build(ST& t, const Spec& s, bool pattern=false){
  uint32_t nd=s.nd; t.ndim=nd;
  t.order=t.allocate<uint32_t>(nd); t.nknots=t.allocate<uint64_t>(nd);
  t.naxes=t.allocate<uint64_t>(nd); t.strides=t.allocate<uint64_t>(nd);
  t.knots=t.allocate<ST::double_ptr>(nd);
  t.extents=t.allocate<ST::double_ptr>(nd); t.extents[0]=t.allocate<double>(2*nd);
  for(uint32_t i=0;i<nd;i++){
    const DimSpec& d=s.d[i];
    t.order[i]=d.order; t.nknots[i]=d.kn.size(); t.naxes[i]=d.kn.size()-d.order-1;
    t.knots[i]=t.allocate<double>(d.kn.size()+2*d.order)+d.order;
    for(int k=-(int)d.order;k<(int)(d.kn.size()+d.order);k++) t.knots[i][k]=d.pad+k;   // distinct padding per slot
    std::copy(d.kn.begin(),d.kn.end(),&t.knots[i][0]);
    t.extents[i]=t.extents[0]+2*i; t.extents[i][0]=d.e0; t.extents[i][1]=d.e1;
  }
  t.strides[nd-1]=1; for(int i=nd-1;i>0;i--) t.strides[i-1]=t.strides[i]*t.naxes[i];
  uint64_t n=t.strides[0]*t.naxes[0]; t.coefficients=t.allocate<float>(n);
  if(pattern) for(uint64_t i=0;i<n;i++) t.coefficients[i]=pattern_of(i);
  else for(uint64_t i=0;i<n;i++) t.coefficients[i]= i<s.co.size()?s.co[i]:0.f;
  if(s.hasper){ t.periods=t.allocate<double>(nd); for(uint32_t i=0;i<nd;i++) t.periods[i]=s.d[i].per; }
  else t.periods=NULL;
  t.naux=0; t.aux=NULL;
}

template<typename T> static std::string joinnum(const T* p, uint32_t n){ std::string s; for(uint32_t i=0;i<n;i++){ if(i) s+=","; s+=std::to_string(p[i]); } return s; }

static std::string dump(const ST& t){
  std::ostringstream os; uint32_t nd=t.ndim;
  os<<"nd="<<nd<<" order="<<joinnum(&t.order[0],nd)<<" nknots="<<joinnum(&t.nknots[0],nd)<<" naxes="<<joinnum(&t.naxes[0],nd)
    <<" strides="<<joinnum(&t.strides[0],nd)<<" knots=";
  for(uint32_t i=0;i<nd;i++){ if(i) os<<";";
    // the extent of the allocation behind knots[i] is given by order[i] and nknots[i] as they are NOW: if the code fails to
    // keep pointer, order and count together this reads (and reports) whatever is there
    int o=t.order[i]; long n=t.nknots[i];
    for(long k=-o;k<n+o;k++){ if(k!=-o) os<<"_"; os<<hexd(t.knots[i][k]); } }
  os<<" ext="; for(uint32_t i=0;i<nd;i++){ if(i) os<<";"; os<<hexd(t.extents[i][0])<<":"<<hexd(t.extents[i][1]); }
  os<<" per="; if(!t.periods) os<<"none"; else for(uint32_t i=0;i<nd;i++){ if(i) os<<";"; os<<hexd(t.periods[i]); }
  uint64_t n=1; for(uint32_t i=0;i<nd;i++) n*=t.naxes[i];
  os<<" coef="; for(uint64_t i=0;i<n;i++){ if(i) os<<","; os<<hexf(t.coefficients[i]); }
  return os.str();
}

static std::vector<size_t> parse_perm(const std::string& s){
  std::vector<size_t> p; if(s=="-") return p;
  std::stringstream ss(s); std::string e; while(std::getline(ss,e,',')) p.push_back((size_t)strtoull(e.c_str(),NULL,10)); return p; }

static std::string apply_member(ST& t,const std::vector<size_t>& p){
  try{ t.permuteDimensions(p); return "ok"; }
  catch(std::exception& ex){ std::string w=ex.what();
    if(w.find("Wrong number")!=std::string::npos) return "Length";
    if(w.find("Too large")!=std::string::npos) return "TooLarge";
    if(w.find("Duplicate")!=std::string::npos) return "Duplicate";
    if(w.find("Missing")!=std::string::npos) return "Missing";
    return "Other"; }
  catch(...){ return "Other"; }
}

int main(int argc,char** argv){
  if(argc<2){ fprintf(stderr,"usage: C15_harness cases [skip]\n"); return 2; }
  std::ifstream in(argv[1]);
  long skip = argc>2? atol(argv[2]) : 0;
  // the C wrapper prints the exception text to stderr; keep the announcement channel clean
  std::string line; Spec sp; long qn=0;
  while(std::getline(in,line)){
    auto tk=split_ws(line); if(tk.empty()) continue;
    if(tk[0]=="T"){ sp=Spec(); sp.nd=atoi(tk[2].c_str()); sp.hasper=tk[3]=="1"; }
    else if(tk[0]=="D"){ DimSpec d; d.order=atoi(tk[1].c_str()); d.pad=dfrom(parse_hex(tk[3])); d.e0=dfrom(parse_hex(tk[4])); d.e1=dfrom(parse_hex(tk[5]));
      d.per=dfrom(parse_hex(tk[6])); for(size_t i=7;i<tk.size();i++) d.kn.push_back(dfrom(parse_hex(tk[i]))); sp.d.push_back(d); }
    else if(tk[0]=="C"){ sp.co.clear(); for(size_t i=2;i<tk.size();i++) sp.co.push_back(ffrom((uint32_t)parse_hex(tk[i]))); }
    else if(tk[0]=="I"||tk[0]=="S"||tk[0]=="E"||tk[0]=="V"){
      if(qn++ < skip) continue;
      fprintf(stderr,"@%s\n",tk[1].c_str()); fflush(stderr);
      std::ostringstream os; os<<tk[1];
      if(tk[0]=="I"){ ST t; build(t,sp); os<<" "<<dump(t); }
      else if(tk[0]=="S"){
        ST t, ref; build(t,sp); build(ref,sp);
        std::string st;
        for(size_t i=3;i<tk.size();i++){
          std::vector<size_t> p=parse_perm(tk[i]);
          if(i>3) st+=",";
          if(tk[2]=="m") st+=apply_member(t,p);
          else { p.resize(std::max<size_t>(p.size(),sp.nd+1),0);   // the wrapper reads exactly ndim entries
            struct splinetable ct; ct.data=(void*)&t; int rc=splinetable_permute(&ct,p.data()); st+= rc==0?"rc0":rc==1?"rc1":"rc?"; }
        }
        bool eq=false; try{ eq=(t==ref); }catch(...){}
        os<<" st="<<st<<" eq="<<(eq?1:0)<<" "<<dump(t);
      }
      else if(tk[0]=="V"){
        ST t; build(t,sp,true);
        uint32_t nd=sp.nd; std::vector<uint64_t> sh0(nd), st0(nd);
        for(uint32_t i=0;i<nd;i++){ sh0[i]=t.naxes[i]; st0[i]=t.strides[i]; }
        uint64_t n=1; for(uint32_t i=0;i<nd;i++) n*=sh0[i];
        std::vector<size_t> p=parse_perm(tk[3]);
        std::string st;
        if(tk[2]=="m") st=apply_member(t,p);
        else { std::vector<size_t> pc=p; pc.resize(std::max<size_t>(pc.size(),nd+1),0); struct splinetable ct; ct.data=(void*)&t; int rc=splinetable_permute(&ct,pc.data()); st= rc==0?"rc0":"rc1"; }
        os<<" st="<<st<<" nd="<<t.ndim<<" order="<<joinnum(&t.order[0],nd)<<" nknots="<<joinnum(&t.nknots[0],nd)<<" naxes="<<joinnum(&t.naxes[0],nd)<<" strides="<<joinnum(&t.strides[0],nd);
        uint64_t bad=0, first=0;
        if((st=="ok"||st=="rc0") && p.size()>=nd){
          // row-major strides of the NEW shape, computed here
          std::vector<uint64_t> sh1(nd), st1(nd); for(uint32_t i=0;i<nd;i++) sh1[i]=sh0[p[i]];
          st1[nd-1]=1; for(int i=nd-1;i>0;i--) st1[i-1]=st1[i]*sh1[i];
          std::vector<uint64_t> m(nd,0);
          for(uint64_t pos=0;pos<n;pos++){
            uint64_t np=0; for(uint32_t i=0;i<nd;i++) np+=m[p[i]]*st1[i];
            if(t.coefficients[np]!=pattern_of(pos)){ if(!bad) first=pos; bad++; }
            for(int d=nd-1; d>=0; d--){ if(++m[d]<sh0[d]) break; m[d]=0; }
          }
          std::vector<size_t> q(nd); for(uint32_t i=0;i<nd;i++) q[p[i]]=i;
          std::string st2=apply_member(t,q);
          bool inv= st2=="ok";
          if(inv){ for(uint32_t i=0;i<nd;i++) if(t.naxes[i]!=sh0[i]||t.strides[i]!=st0[i]) inv=false;
                   if(inv) for(uint64_t pos=0;pos<n;pos++) if(t.coefficients[pos]!=pattern_of(pos)){ inv=false; break; } }
          os<<" bad="<<bad<<" first="<<first<<" inv="<<(inv?1:0);
        }
      }
      else { // E
        ST t, tp; build(t,sp); build(tp,sp);
        std::vector<size_t> p=parse_perm(tk[2]);
        std::vector<double> x, xp; for(size_t i=3;i<tk.size();i++) x.push_back(dfrom(parse_hex(tk[i])));
        std::string st=apply_member(tp,p);
        os<<" st="<<st;
        if(st=="ok"){
          for(size_t i=0;i<p.size();i++) xp.push_back(x[p[i]]);
          std::vector<int> c(sp.nd+2,-7), cp(sp.nd+2,-7);
          bool ok0=t.searchcenters(x.data(),c.data()), ok1=tp.searchcenters(xp.data(),cp.data());
          os<<" ok0="<<ok0<<" ok1="<<ok1;
          if(ok0&&ok1){
            os<<" c0="; for(uint32_t i=0;i<sp.nd;i++){ if(i) os<<","; os<<c[i]; }
            os<<" c1="; for(uint32_t i=0;i<sp.nd;i++){ if(i) os<<","; os<<cp[i]; }
            os<<" v0="<<hexd(t.ndsplineeval(x.data(),c.data(),0))<<" v1="<<hexd(tp.ndsplineeval(xp.data(),cp.data(),0));
            os<<" d0="<<hexd(t.ndsplineeval<double>(x.data(),c.data(),0))<<" d1="<<hexd(tp.ndsplineeval<double>(xp.data(),cp.data(),0));
          }
        }
      }
      puts(os.str().c_str()); fflush(stdout);
    }
  }
  return 0;
}
