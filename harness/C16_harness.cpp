// C16_harness.cpp — implementation side of the C16 correspondence: runs operation sequences on the auxiliary
// key store of a real photospline::splinetable<> (tiny 1-d table built in memory), C++ members and the C
// interface, interleaved with FITS round trips on disk and in memory. One output line per operation:
//   "<seq>.<idx> <op> res=<result> store=<hexkey>:<hexval>,..."   (strings hex encoded; "-" = empty store)
// The same input file is read by extract/aux_driver.ml (the model), which prints the same format.
//
// Input lines (strings hex encoded, "-" is the empty string):
//   S <id>            new sequence: fresh table, empty store
//   Ws <k> <v>        write_key(k, std::string v)       Wc <k> <v>  write_key(k, const char* v)
//   Wi <k> <int>      write_key(k, int)                 Wd <k> <hexbits> <v>  write_key(k, double); <v> = "%g" text (for the model)
//   Ci <k> <int>      splinetable_write_key(INT)        Cd <k> <hexbits> <v>  splinetable_write_key(DOUBLE)
//   R <k>             remove_key
//   G <k>             get_aux_value and splinetable_get_key
//   Ri/Rd/Rs <k>      read_key<int>/<double>/std::string
//   Xi/Xd <k>         splinetable_read_key INT/DOUBLE (result pre-set to a sentinel)
//   K <i>             get_aux_key(i) (only printed when i < naux)
//   FD / FM           write_fits+read_fits through a temporary file / write_fits_mem+read_fits_mem
#include "verif_common.h"
#include <photospline/cinter/splinetable.h>
#include <unistd.h>

static std::string hexs(const char* s){ if(!s) return "NULL"; if(!*s) return "-"; std::string o; char b[4];
  for(const unsigned char* p=(const unsigned char*)s;*p;p++){ snprintf(b,sizeof b,"%02x",*p); o+=b; } return o; }
static std::string unhex(const std::string& h){ if(h=="-") return ""; std::string o;
  for(size_t i=0;i+1<h.size();i+=2) o.push_back((char)strtoul(h.substr(i,2).c_str(),NULL,16)); return o; }

static std::string classify(const std::string& m){
  if(m.find("Cannot set key with reserved name")!=std::string::npos) return "E_reserved";
  if(m.find("Standard (short) FITS header keywords are forbidden")!=std::string::npos) return "E_shortchar";
  if(m.find("contain '=' characters")!=std::string::npos) return "E_eq";
  if(m.find("contain lowercase characters")!=std::string::npos) return "E_lower";
  if(m.find("Value is too long")!=std::string::npos) return "E_toolong";
  if(m.find("must not be longer than")!=std::string::npos) return "E_longkey";
  if(m.find("contain non-printable characters (key was")!=std::string::npos) return "E_keychar";
  if(m.find("Value contains non-printable characters")!=std::string::npos) return "E_valchar";
  if(m.find("must not begin or end with a blank")!=std::string::npos) return "E_blank";
  if(m.find("Failed to write aux entry")!=std::string::npos) return "E_writeaux";
  std::string r="E_other:"; for(char c: m) r.push_back((c==' '||c=='\n')?'_':c); return r;
}

static std::string dump(const ST& t){
  size_t n=t.get_naux_values();
  if(n==0) return "-";
  std::string o;
  for(size_t i=0;i<n;i++){ if(i) o+=","; o+=hexs(t.get_aux_key(i)); o+=":"; o+=hexs(&*t.aux[i][1]); }
  return o;
}
// what the public accessors report for every stored key (get_aux_value finds the FIRST entry with that key)
static std::string dump_lookup(const ST& t){
  size_t n=t.get_naux_values();
  if(n==0) return "-";
  std::string o;
  for(size_t i=0;i<n;i++){ if(i) o+=","; o+=hexs(t.get_aux_key(i)); o+=":"; o+=hexs(t.get_aux_value(t.get_aux_key(i))); }
  return o;
}

static ST* fresh(){
  ST* t=new ST();
  std::vector<uint32_t> ord{1}; std::vector<std::vector<double>> kn{{0,1,2,3,4}}; std::vector<float> co{1.f,2.f,3.f};
  build_table(*t,ord,kn,co,0.0);
  return t;
}

template<typename F> static std::string guarded(F f){
  try{ return f(); }
  catch(std::exception& e){ return classify(e.what()); }
  catch(...){ return "E_unknown"; }
}

int main(int argc,char** argv){
  if(argc<2){ fprintf(stderr,"usage: C16_harness cases [tmpdir]\n"); return 2; }
  std::ifstream in(argv[1]);
  std::string tmpdir = argc>2? argv[2] : "/tmp";
  std::string tmpfile = tmpdir+"/c16_"+std::to_string((long)getpid())+".fits";
  std::string line, seq="?"; long idx=0;
  std::unique_ptr<ST> tab(fresh());
  // cfitsio and the C wrappers print diagnostics on stderr; not part of the comparison
  while(std::getline(in,line)){
    auto tk=split_ws(line); if(tk.empty()) continue;
    const std::string& op=tk[0];
    if(op=="S"){ seq=tk[1]; idx=0; tab.reset(fresh()); continue; }
    std::string res;
    ST& t=*tab;
    struct splinetable ct; ct.data=(void*)tab.get();
    std::string k = tk.size()>1? unhex(tk[1]) : "";
    if(op=="Ws"){ std::string v=unhex(tk[2]); res=guarded([&]{ return std::string(t.write_key(k.c_str(),v)?"1":"0"); }); }
    else if(op=="Wc"){ std::string v=unhex(tk[2]); const char* vp=v.c_str(); res=guarded([&]{ return std::string(t.write_key(k.c_str(),vp)?"1":"0"); }); }
    else if(op=="Wi"){ int v=(int)strtol(tk[2].c_str(),NULL,10); res=guarded([&]{ return std::string(t.write_key(k.c_str(),v)?"1":"0"); }); }
    else if(op=="Wd"){ double v=dfrom(parse_hex(tk[2])); res=guarded([&]{ return std::string(t.write_key(k.c_str(),v)?"1":"0"); }); }
    else if(op=="Ci"){ int v=(int)strtol(tk[2].c_str(),NULL,10); res="rc"+std::to_string(splinetable_write_key(&ct,SPLINETABLE_INT,k.c_str(),&v)); }
    else if(op=="Cd"){ double v=dfrom(parse_hex(tk[2])); res="rc"+std::to_string(splinetable_write_key(&ct,SPLINETABLE_DOUBLE,k.c_str(),&v)); }
#ifndef C16_NO_REMOVE
    else if(op=="R"){ res=guarded([&]{ return std::string(t.remove_key(k.c_str())?"1":"0"); }); }
#else
    else if(op=="R"){ res="UNSUPPORTED"; }
#endif
    else if(op=="G"){ const char* a=t.get_aux_value(k.c_str()); const char* b=splinetable_get_key(&ct,k.c_str());
      res=hexs(a); if(hexs(a)!=hexs(b)) res+="/C:"+hexs(b); }
    else if(op=="Ri"){ int v=-777; bool ok=t.read_key(k.c_str(),v); res= ok? "ok:"+std::to_string(v) : "fail"; }
    else if(op=="Rd"){ double v=-777; bool ok=t.read_key(k.c_str(),v); res= ok? "ok:"+hexd(v) : "fail"; }
    else if(op=="Rs"){ std::string v="<untouched>"; bool ok=t.read_key(k.c_str(),v); res= ok? "ok:"+hexs(v.c_str()) : "fail"; }
    else if(op=="Xi"){ int v=-777; int rc=splinetable_read_key(&ct,SPLINETABLE_INT,k.c_str(),&v); res="rc"+std::to_string(rc)+":"+std::to_string(v); }
    else if(op=="Xd"){ double v=-777; int rc=splinetable_read_key(&ct,SPLINETABLE_DOUBLE,k.c_str(),&v); res="rc"+std::to_string(rc)+":"+hexd(v); }
    else if(op=="K"){ size_t i=strtoul(tk[1].c_str(),NULL,10); res= i<t.get_naux_values()? hexs(t.get_aux_key(i)) : "range"; }
    else if(op=="FD"){
      res=guarded([&]{ t.write_fits(tmpfile); std::unique_ptr<ST> n(new ST()); bool ok=n->read_fits(tmpfile); tab=std::move(n); return std::string(ok?"ok":"readfalse"); });
      unlink(tmpfile.c_str());
    }
    else if(op=="FM"){
      res=guarded([&]{ auto buf=t.write_fits_mem(); std::unique_ptr<ST> n(new ST());
        bool ok=false; try{ ok=n->read_fits_mem(buf.first,buf.second); }catch(...){ free(buf.first); throw; }
        free(buf.first); tab=std::move(n); return std::string(ok?"ok":"readfalse"); });
    }
    else { fprintf(stderr,"bad op %s\n",op.c_str()); return 2; }
    std::string d=dump(*tab), d2=dump_lookup(*tab);
    printf("%s.%ld %s res=%s store=%s%s\n",seq.c_str(),idx,op.c_str(),res.c_str(),d.c_str(), d==d2? "" : (" lookup="+d2).c_str());
    fflush(stdout);
    idx++;
  }
  return 0;
}
