// C08_harness.cpp — implementation side of property C08 (failing / interrupted writes).
//   C08_harness w <list>   lines "id tablefile outpath writer failop errno sticky fsize log apifail":
//        build the table, arm the stdio shim (harness/C08_shim.c, LD_PRELOADed) for outpath, optionally make op `failop`
//        fail with `errno` (failop = -1: none; sticky = 1: every op from there on), optionally set RLIMIT_FSIZE to `fsize`
//        bytes (0 = off; SIGXFSZ ignored so that the write fails with EFBIG), run the writer
//        (file = write_fits, cfile = writesplinefitstable, mem = write_fits_mem, cmem = writesplinefitstable_mem; the memory
//        writers put their buffer into outpath afterwards), print "id status=ok|exc|rc<N> ops=<n> injected=<m> steps=<n> apiinjected=<m> msg=<...>".
//        apifail: index of the cfitsio API call (fits_create_file = 0, ...) that is made to report an error (-1: none).
//        `log` ("-" = none): shim op log (text) and log.bin (bytes of all writes, concatenated).
//   C08_harness r <list>   lines "id fitsfile outdump": read_fits in a fresh object, dump it or "ERROR <what>".
//        A table whose read failed is never destroyed (the destructor after a failed read is C07's subject).
//   C08_harness memfail <tablefile>   write_fits_mem / writesplinefitstable_mem on a table that cfitsio refuses
//        (an auxiliary key planted behind write_key's back that fits_write_key rejects): exercises the exception path of
//        write_fits_mem; run in the checked build with leak detection to see whether the malloc'd buffer is released.
// Table text format: tools/props/C06.py.
#include "verif_common.h"
#include <photospline/cinter/splinetable.h>
#include <sys/resource.h>
#include <signal.h>
#include <errno.h>

extern "C" {
void c08_arm(const char* path, const char* logpath, long fail_op, int err, int sticky) __attribute__((weak));
long c08_disarm(long* failed) __attribute__((weak));
void c08_arm_api(long fail_step) __attribute__((weak));
long c08_api_steps(long* failed) __attribute__((weak));
}

static std::string hexstr(const std::string& s){ if(s.empty()) return "-"; std::string o; char b[4];
  for(unsigned char c: s){ snprintf(b,sizeof b,"%02x",c); o+=b; } return o; }
static std::string unhex(const std::string& h){ if(h=="-") return ""; std::string o;
  for(size_t i=0;i+1<h.size();i+=2) o.push_back((char)strtoul(h.substr(i,2).c_str(),NULL,16)); return o; }

static void dump_table(const ST& t, const std::string& path){
  std::ofstream os(path);
  os<<"ndim "<<t.ndim<<"\n";
  if(t.ndim==0){ os<<"end\n"; return; }
  os<<"order"; for(uint32_t i=0;i<t.ndim;i++) os<<" "<<t.order[i]; os<<"\n";
  os<<"naxes"; for(uint32_t i=0;i<t.ndim;i++) os<<" "<<t.naxes[i]; os<<"\n";
  os<<"strides"; for(uint32_t i=0;i<t.ndim;i++) os<<" "<<t.strides[i]; os<<"\n";
  os<<"nknots"; for(uint32_t i=0;i<t.ndim;i++) os<<" "<<t.nknots[i]; os<<"\n";
  for(uint32_t i=0;i<t.ndim;i++){ os<<"knots "<<i; for(uint64_t k=0;k<t.nknots[i];k++) os<<" "<<hexd(t.knots[i][k]); os<<"\n"; }
  uint64_t n=t.strides[0]*t.naxes[0];
  os<<"coef"; for(uint64_t k=0;k<n;k++) os<<" "<<hexf(t.coefficients[k]); os<<"\n";
  if(t.extents){ os<<"extents"; for(uint32_t i=0;i<2*t.ndim;i++) os<<" "<<hexd(t.extents[0][i]); os<<"\n"; }
  else os<<"extents none\n";
  if(t.periods){ os<<"periods"; for(uint32_t i=0;i<t.ndim;i++) os<<" "<<hexd(t.periods[i]); os<<"\n"; }
  else os<<"periods none\n";
  os<<"naux "<<t.naux<<"\n";
  for(uint32_t i=0;i<t.naux;i++) os<<"aux "<<hexstr(&t.aux[i][0][0])<<" "<<hexstr(&t.aux[i][1][0])<<"\n";
  os<<"end\n";
}

static ST* build_from_file(const std::string& path){
  std::ifstream in(path); std::string line;
  std::vector<uint32_t> ord; std::vector<std::vector<double>> kn; std::vector<float> co;
  std::vector<double> ext, per; bool ext_none=false, have_ext=false, have_per=false;
  std::vector<std::pair<std::string,std::string>> aux;
  while(std::getline(in,line)){
    auto w=split_ws(line); if(w.empty()) continue;
    if(w[0]=="order"){ for(size_t i=1;i<w.size();i++) ord.push_back(strtoul(w[i].c_str(),NULL,10)); }
    else if(w[0]=="knots"){ std::vector<double> k; for(size_t i=2;i<w.size();i++) k.push_back(dfrom(parse_hex(w[i]))); kn.push_back(k); }
    else if(w[0]=="coef"){ for(size_t i=1;i<w.size();i++) co.push_back(ffrom((uint32_t)parse_hex(w[i]))); }
    else if(w[0]=="extents"){ if(w.size()>1 && w[1]=="none") ext_none=true; else { have_ext=true; for(size_t i=1;i<w.size();i++) ext.push_back(dfrom(parse_hex(w[i]))); } }
    else if(w[0]=="periods"){ if(!(w.size()>1 && w[1]=="none")){ have_per=true; for(size_t i=1;i<w.size();i++) per.push_back(dfrom(parse_hex(w[i]))); } }
    else if(w[0]=="aux"){ aux.push_back(std::make_pair(unhex(w[1]), w.size()>2?unhex(w[2]):std::string())); }
  }
  ST* t=new ST();
  build_table(*t,ord,kn,co,0.0);
  uint32_t nd=t->ndim;
  if(have_ext) for(uint32_t i=0;i<2*nd && i<ext.size();i++) t->extents[0][i]=ext[i];
  if(ext_none){ t->deallocate(t->extents[0],2*nd); t->deallocate(t->extents,nd); t->extents=NULL; }
  if(have_per){ t->periods=t->template allocate<double>(nd); for(uint32_t i=0;i<nd;i++) t->periods[i]= i<per.size()?per[i]:0.0; }
  for(auto& kv: aux) t->write_key(kv.first.c_str(), kv.second);
  return t;
}

static void spit(const std::string& path, const void* p, size_t n){ std::ofstream f(path, std::ios::binary); f.write((const char*)p,n); }
static std::string oneline(std::string s){ for(char& c: s) if(c=='\n'||c=='\r') c=' '; return s; }

static int mode_w(const char* list){
  if(!c08_arm || !c08_disarm){ fprintf(stderr,"C08_harness: stdio shim not loaded (LD_PRELOAD)\n"); return 3; }
  signal(SIGXFSZ, SIG_IGN);
  std::ifstream in(list); std::string line;
  std::string last_tf; ST* t=NULL;
  while(std::getline(in,line)){
    auto w=split_ws(line); if(w.size()<10) continue;
    std::string id=w[0], tf=w[1], outp=w[2], writer=w[3];
    long failop=strtol(w[4].c_str(),NULL,10); int err=atoi(w[5].c_str()); int sticky=atoi(w[6].c_str());
    unsigned long long fsize=strtoull(w[7].c_str(),NULL,10); std::string log=w[8]; long apifail=strtol(w[9].c_str(),NULL,10);
    std::ostringstream st; st<<id;
    try{
      if(tf!=last_tf){ delete t; t=build_from_file(tf); last_tf=tf; }
    }catch(std::exception& e){ std::cout<<id<<" status=build-exc msg="<<oneline(e.what())<<std::endl; continue; }
    remove(outp.c_str());
    struct rlimit old; getrlimit(RLIMIT_FSIZE,&old);
    c08_arm(outp.c_str(), log=="-"?NULL:log.c_str(), failop, err, sticky);
    c08_arm_api(apifail);
    if(fsize){ struct rlimit nl=old; nl.rlim_cur=fsize; setrlimit(RLIMIT_FSIZE,&nl); }
    std::string status="ok", msg;
    try{
      if(writer=="file") t->write_fits(outp);
      else if(writer=="cfile"){ struct splinetable cst; cst.data=t; int rc=writesplinefitstable(outp.c_str(),&cst); if(rc){ status="rc"+std::to_string(rc); } }
      else if(writer=="mem"){ auto r=t->write_fits_mem(); spit(outp,r.first,r.second); free(r.first); }
      else if(writer=="cmem"){ struct splinetable cst; cst.data=t; struct splinetable_buffer b; b.data=NULL; b.size=0;
        int rc=writesplinefitstable_mem(&b,&cst); if(rc) status="rc"+std::to_string(rc); else { spit(outp,b.data,b.size); free(b.data); } }
      else status="badwriter";
    }catch(std::exception& e){ status="exc"; msg=oneline(e.what()); }
    catch(...){ status="exc"; msg="non-std exception"; }
    if(fsize) setrlimit(RLIMIT_FSIZE,&old);
    long apiinj=0; long steps=c08_api_steps(&apiinj);
    long injected=0; long ops=c08_disarm(&injected);
    // cfitsio keeps an error message stack; drain it so that one case does not leak text into the next
    fits_clear_errmsg();
    std::cout<<id<<" status="<<status<<" ops="<<ops<<" injected="<<injected<<" steps="<<steps<<" apiinjected="<<apiinj<<" msg="<<(msg.empty()?"-":msg)<<std::endl;
  }
  delete t;
  return 0;
}

static int mode_r(const char* list){
  std::ifstream in(list); std::string line;
  while(std::getline(in,line)){
    auto w=split_ws(line); if(w.size()<3) continue;
    std::string id=w[0], ff=w[1], outp=w[2];
    ST* t=new ST();
    try{ bool r=t->read_fits(ff); dump_table(*t,outp); std::cout<<id<<" read="<<r<<std::endl; delete t; }
    catch(std::exception& e){ std::ofstream f(outp); f<<"ERROR "<<oneline(e.what())<<"\n"; std::cout<<id<<" read=EXC "<<oneline(e.what())<<std::endl; /* not destroyed: C07 */ }
    fits_clear_errmsg();
  }
  return 0;
}

static int mode_memfail(const char* tf){
  ST* t=build_from_file(tf);
  // plant an auxiliary entry that fits_write_key refuses (illegal character in a short keyword), behind write_key's back
  t->write_key("GOODKEY","v");
  t->aux[t->naux-1][0][0]='\t';
  int excs=0;
  for(int i=0;i<3;i++){
    try{ auto r=t->write_fits_mem(); free(r.first); std::cout<<"memfail: write_fits_mem unexpectedly succeeded\n"; }
    catch(std::exception& e){ excs++; }
  }
  { struct splinetable cst; cst.data=t; struct splinetable_buffer b; b.data=NULL; b.size=0;
    int rc=writesplinefitstable_mem(&b,&cst); std::cout<<"memfail: writesplinefitstable_mem rc="<<rc<<" data="<<(b.data?"set":"null")<<"\n"; }
  t->aux[t->naux-1][0][0]='G';
  delete t;
  fits_clear_errmsg();
  std::cout<<"memfail: exceptions="<<excs<<std::endl;
  return 0;
}

int main(int argc,char** argv){
  if(argc<3){ fprintf(stderr,"usage: C08_harness w|r listfile | memfail tablefile\n"); return 2; }
  if(!strcmp(argv[1],"w")) return mode_w(argv[2]);
  if(!strcmp(argv[1],"memfail")) return mode_memfail(argv[2]);
  return mode_r(argv[2]);
}
