// C12_harness.cpp — runs the REAL walk_descents / evaluate_descent (src/fitter/cholesky_solve.c) under
// schedules forced through hook H1, and real monotone fits under varying OMP_NUM_THREADS.
//
//   C12_harness sched      stdin: one case per line
//        case <id> threads <N> nF <nF> n <n> F <nF ints> x <n hex> xF <nF hex> AtA <nF*nF hex, col-major> Atb <nF hex>
//             sched <len> <ints...>
//     stdout per case:
//        ref <id> na <na> alpha <hex..> res <hex..> chosen <a> feasible <0|1> x <hex..> H1 <k> <ints> residual <hex>
//        out <id> ret <0|1> x <hex..> H1 <k> <ints> residual <hex> calcs <n> consumed <n> steps <n> drift <malloc_count> <memory_inuse>
//             commons <started> <finished> <unbalanced> <shared_by_workers> <workers_on_callers_common> <unknown> trace <tid:K ...>
//        (commons: which thread calls CHOLMOD with which cholmod_common during walk_descents, observed through ld --wrap, see cw_*)
//     or  fail <id> <what + thread states | trace>    and the process exits (the caller restarts after it)
//   C12_harness nnls       stdin: case <id> n <n> m <m> seed <s> corr <c> threads <list..>;  stdout: nnlsbegin/nnlsend <id> <T> n <n> x <hex..>
//   C12_harness fit        stdin: case <id> dim <1|2> ns <samples/dim> nk <knots/dim> order <o> mono <dim> shape <k> noise <seed> threads <list..>
//     stdout:  fitbegin <id> <T> ... (library's verbose output) ... fitend <id> <T> ncoef <n> coef <hex32..>
#include <cstdio>
#include <cstdlib>
#include <cstring>
#include <cmath>
#include <cstdint>
#include <string>
#include <vector>
#include <sstream>
#include <iostream>
#include <algorithm>
#include <unistd.h>
#include <cholmod.h>
#include "photospline/splinetable.h"
#include "cholesky_solve.h"
#include "photospline/detail/splineutil.h"
#include "C12_sched.h"

static double unhex(const std::string &s) { uint64_t u = strtoull(s.c_str(), nullptr, 16); double d; memcpy(&d, &u, 8); return d; }
static std::string hexd(double d) { uint64_t u; memcpy(&u, &d, 8); char b[20]; snprintf(b, sizeof b, "%016llx", (unsigned long long)u); return b; }
static std::string hexf(float f) { uint32_t u; memcpy(&u, &f, 4); char b[12]; snprintf(b, sizeof b, "%08x", u); return b; }

static std::string cur_id;
static void on_fail(const char *msg) { printf("fail %s %s\n", cur_id.c_str(), msg); fflush(stdout); }

// ---- which thread uses which cholmod_common (D15).  The CHOLMOD entry points reachable from walk_descents /
// evaluate_descent / calc_residual are wrapped at link time (-Wl,--wrap=...); while cw_watch is set every call is
// attributed to (calling thread, Common).  Model (Handshake.v, shared_common = false): the coordinator starts N commons
// before the first pthread_create and finishes them after the last join; worker j uses commons[j] only; nobody uses the
// caller's common.  Commons are registered single-threaded (cholmod_l_start by the coordinator, the caller's common by the
// harness), so the table is read-only while workers run; the per-entry fields are relaxed atomics (no happens-before edge
// is added between the threads), except `touch`, which under TSan is a PLAIN counter: libcholmod is not instrumented, so a
// race on a cholmod_common becomes visible to TSan as a race on this proxy.
#include <atomic>
#include <pthread.h>
struct cw_entry { cholmod_common *key; std::atomic<uintptr_t> owner; long touch; std::atomic<long> touch_a; };
static cw_entry cw_tab[80];
static int cw_n;
static bool cw_watch;
static pthread_t cw_coord;
static cholmod_common *cw_callers;
static std::atomic<long> cw_shared, cw_on_callers, cw_unknown;
static long cw_started, cw_finished, cw_unbalanced;
static void cw_begin(cholmod_common *callers)
{
	cw_n = 0; cw_shared = 0; cw_on_callers = 0; cw_unknown = 0; cw_started = cw_finished = cw_unbalanced = 0;
	cw_coord = pthread_self(); cw_callers = callers;
	cw_tab[cw_n].key = callers; cw_tab[cw_n].owner = 0; cw_tab[cw_n].touch = 0; cw_tab[cw_n].touch_a = 0; cw_n++;
	cw_watch = true;
}
static void cw_touch(cholmod_common *c)
{
	if (!cw_watch) return;
	cw_entry *e = nullptr;
	for (int i = 0; i < cw_n; i++) if (cw_tab[i].key == c) e = &cw_tab[i];
	if (!e) { cw_unknown.fetch_add(1, std::memory_order_relaxed); return; }
#if defined(__SANITIZE_THREAD__)
	e->touch++;
#else
	e->touch_a.fetch_add(1, std::memory_order_relaxed);
#endif
	if (pthread_equal(pthread_self(), cw_coord)) return;
	if (c == cw_callers) cw_on_callers.fetch_add(1, std::memory_order_relaxed);
	uintptr_t me = (uintptr_t)pthread_self(), none = 0;
	if (!e->owner.compare_exchange_strong(none, me, std::memory_order_relaxed) && none != me)
		cw_shared.fetch_add(1, std::memory_order_relaxed);
}
extern "C" {
int __real_cholmod_l_start(cholmod_common *);
int __real_cholmod_l_finish(cholmod_common *);
cholmod_dense *__real_cholmod_l_allocate_dense(size_t, size_t, size_t, int, cholmod_common *);
cholmod_dense *__real_cholmod_l_copy_dense(cholmod_dense *, cholmod_common *);
int __real_cholmod_l_sdmult(cholmod_sparse *, int, double *, double *, cholmod_dense *, cholmod_dense *, cholmod_common *);
int __real_cholmod_l_free_dense(cholmod_dense **, cholmod_common *);
int __wrap_cholmod_l_start(cholmod_common *c)
{
	int r = __real_cholmod_l_start(c);
	if (cw_watch) {
		if (pthread_equal(pthread_self(), cw_coord) && cw_n < 80) {
			cw_tab[cw_n].key = c; cw_tab[cw_n].owner = 0; cw_tab[cw_n].touch = 0; cw_tab[cw_n].touch_a = 0; cw_n++; cw_started++;
		} else cw_unknown.fetch_add(1, std::memory_order_relaxed);       // a common started by a worker, or too many
	}
	return r;
}
int __wrap_cholmod_l_finish(cholmod_common *c)
{
	cw_touch(c);
	int r = __real_cholmod_l_finish(c);
	if (cw_watch) { cw_finished++; if (c->malloc_count != 0 || c->memory_inuse != 0) cw_unbalanced++; }
	return r;
}
cholmod_dense *__wrap_cholmod_l_allocate_dense(size_t a, size_t b, size_t d, int t, cholmod_common *c) { cw_touch(c); return __real_cholmod_l_allocate_dense(a, b, d, t, c); }
cholmod_dense *__wrap_cholmod_l_copy_dense(cholmod_dense *x, cholmod_common *c) { cw_touch(c); return __real_cholmod_l_copy_dense(x, c); }
int __wrap_cholmod_l_sdmult(cholmod_sparse *A, int tr, double *al, double *be, cholmod_dense *X, cholmod_dense *Y, cholmod_common *c) { cw_touch(c); return __real_cholmod_l_sdmult(A, tr, al, be, X, Y, c); }
int __wrap_cholmod_l_free_dense(cholmod_dense **x, cholmod_common *c) { cw_touch(c); return __real_cholmod_l_free_dense(x, c); }
}

static int rcmp(const void *xa, const void *xb) { double a = *(const double *)xa, b = *(const double *)xb; return a < b ? 1 : a > b ? -1 : 0; }

static int run_sched()
{
	cholmod_common c;
	cholmod_l_start(&c);
	std::string line;
	while (std::getline(std::cin, line)) {
		std::istringstream in(line);
		std::string tok, id;
		int N = 1; long nF = 0, n = 0;
		std::vector<long> F; std::vector<double> x, xF, AtA, Atb; std::vector<int> sched;
		if (!(in >> tok) || tok != "case") continue;
		in >> id; cur_id = id;
		while (in >> tok) {
			std::string h;
			if (tok == "threads") in >> N;
			else if (tok == "nF") in >> nF;
			else if (tok == "n") in >> n;
			else if (tok == "F") { F.resize(nF); for (auto &v : F) in >> v; }
			else if (tok == "x") { x.resize(n); for (auto &v : x) { in >> h; v = unhex(h); } }
			else if (tok == "xF") { xF.resize(nF); for (auto &v : xF) { in >> h; v = unhex(h); } }
			else if (tok == "AtA") { AtA.resize(nF * nF); for (auto &v : AtA) { in >> h; v = unhex(h); } }
			else if (tok == "Atb") { Atb.resize(nF); for (auto &v : Atb) { in >> h; v = unhex(h); } }
			else if (tok == "sched") { int k; in >> k; sched.resize(k); for (auto &v : sched) in >> v; }
		}
		// CHOLMOD data
		cholmod_dense *Ad = cholmod_l_allocate_dense(nF, nF, nF, CHOLMOD_REAL, &c);
		memcpy(Ad->x, AtA.data(), sizeof(double) * nF * nF);
		cholmod_sparse *AtA_F = cholmod_l_dense_to_sparse(Ad, 1, &c);     // stype 0, as cholmod_l_submatrix gives in nnls.c
		cholmod_l_free_dense(&Ad, &c);
		cholmod_dense *Atb_F = cholmod_l_allocate_dense(nF, 1, nF, CHOLMOD_REAL, &c);
		memcpy(Atb_F->x, Atb.data(), sizeof(double) * nF);
		cholmod_dense *xd = cholmod_l_allocate_dense(n, 1, n, CHOLMOD_REAL, &c);
		memcpy(xd->x, x.data(), sizeof(double) * n);
		cholmod_dense *xFd = cholmod_l_allocate_dense(nF, 1, nF, CHOLMOD_REAL, &c);
		memcpy(xFd->x, xF.data(), sizeof(double) * nF);

		// ---- sequential reference = the specification of the line search on these numbers
		std::vector<double> alpha(nF + 2);
		alpha[0] = 0; alpha[1] = 1; int na = 2;
		for (long i = 0; i < nF; i++) if (xF[i] < 0) {
			alpha[na] = x[F[i]] / (x[F[i]] - xF[i]);
			if (alpha[na] < 1 && alpha[na] > 0) ++na;
		}
		qsort(&alpha[2], na - 2, sizeof(double), rcmp);
		std::vector<double> res(na);
		std::vector<std::vector<double> > xc(na, std::vector<double>(nF));
		std::vector<std::vector<long> > h1(na);
		cholmod_dense *tmp = cholmod_l_allocate_dense(nF, 1, nF, CHOLMOD_REAL, &c);
		for (int a = 0; a < na; a++) {
			for (long i = 0; i < nF; i++) {
				double v = (1.0 - alpha[a]) * x[F[i]] + alpha[a] * xF[i];
				if (v < 0.0) { v = 0.0; h1[a].push_back(F[i]); }
				xc[a][i] = v; ((double *)tmp->x)[i] = v;
			}
			res[a] = calc_residual(AtA_F, Atb_F, tmp, &c);
		}
		cholmod_l_free_dense(&tmp, &c);
		int chosen = na - 1;
		for (int a = 1; a < na; a++) if (res[a] < res[0] || a == na - 1) { chosen = a; break; }
		bool feas = res[chosen] < res[0];
		std::vector<double> xref(x);
		for (long k = 0; k < nF; k++) xref[F[k]] = xc[chosen][k];
		printf("ref %s na %d alpha", id.c_str(), na);
		for (int a = 0; a < na; a++) printf(" %s", hexd(alpha[a]).c_str());
		printf(" res");
		for (int a = 0; a < na; a++) printf(" %s", hexd(res[a]).c_str());
		printf(" chosen %d feasible %d x", chosen, (int)feas);
		for (long k = 0; k < n; k++) printf(" %s", hexd(xref[k]).c_str());
		printf(" H1 %zu", h1[chosen].size());
		for (long v : h1[chosen]) printf(" %ld", v);
		printf(" residual %s\n", feas ? hexd(res[chosen]).c_str() : "-");
		fflush(stdout);

		// ---- the real thing under the forced schedule
		char nb[16]; snprintf(nb, sizeof nb, "%d", N);
		unsetenv("GOTO_NUM_THREADS"); setenv("OMP_NUM_THREADS", nb, 1);
		std::vector<long> H1(nF + 1, -1); long nH1 = 0, nFv = nF; double residual = NAN; int calcs = 0;
		bool forced = !(sched.size() == 1 && sched[0] == -1);           // "sched 1 -1" = free-running (no scheduler)
		if (forced) verif_sched_load(sched.data(), (int)sched.size(), on_fail);
		// CHOLMOD's allocation statistics in the (shared) common: everything walk_descents allocates it also frees,
		// so both must be back at their values afterwards unless concurrent workers lost an update (D15)
		size_t mc0 = c.malloc_count, mi0 = c.memory_inuse;
		cw_begin(&c);
		int ret = walk_descents(AtA_F, Atb_F, xd, xFd, F.data(), &nFv, H1.data(), &nH1, &residual, &calcs, 0, &c);
		cw_watch = false;
		long consumed = forced ? verif_sched_consumed() : 0;
		static char tbuf[1 << 20]; int steps = 0; tbuf[0] = 0;
		if (forced) { steps = verif_sched_trace(tbuf, sizeof tbuf); verif_sched_unload(); }
		printf("out %s ret %d x", id.c_str(), ret);
		for (long k = 0; k < n; k++) printf(" %s", hexd(((double *)xd->x)[k]).c_str());
		printf(" H1 %ld", nH1);
		for (long k = 0; k < nH1; k++) printf(" %ld", H1[k]);
		printf(" residual %s calcs %d consumed %ld steps %d drift %ld %ld commons %ld %ld %ld %ld %ld %ld trace %s\n", ret ? hexd(residual).c_str() : "-", calcs, consumed, steps,
		    (long)(c.malloc_count - mc0), (long)(c.memory_inuse - mi0),
		    cw_started, cw_finished, cw_unbalanced, cw_shared.load(), cw_on_callers.load(), cw_unknown.load(), tbuf);
		c.malloc_count = mc0; c.memory_inuse = mi0;
		fflush(stdout);
		cholmod_l_free_sparse(&AtA_F, &c); cholmod_l_free_dense(&Atb_F, &c); cholmod_l_free_dense(&xd, &c); cholmod_l_free_dense(&xFd, &c);
	}
	cholmod_l_finish(&c);
	return 0;
}

// small deterministic generator for the fit data
static uint64_t sm_state;
static double sm_unit() { sm_state += 0x9E3779B97F4A7C15ULL; uint64_t z = sm_state; z = (z ^ (z >> 30)) * 0xBF58476D1CE4E5B9ULL; z = (z ^ (z >> 27)) * 0x94D049BB133111EBULL; z ^= z >> 31; return (z >> 11) / 9007199254740992.0; }

static int run_fit()
{
	std::string line;
	while (std::getline(std::cin, line)) {
		std::istringstream in(line);
		std::string tok, id;
		unsigned dim = 1, ns = 20, nk = 8, order = 2, mono = 0, shape = 0; uint64_t noise = 1; std::vector<int> threads;
		if (!(in >> tok) || tok != "case") continue;
		in >> id;
		while (in >> tok) {
			if (tok == "dim") in >> dim; else if (tok == "ns") in >> ns; else if (tok == "nk") in >> nk;
			else if (tok == "order") in >> order; else if (tok == "mono") in >> mono; else if (tok == "shape") in >> shape;
			else if (tok == "noise") in >> noise;
			else if (tok == "threads") { int t; while (in >> t) threads.push_back(t); }
		}
		for (int T : threads) {
			sm_state = noise * 0x9E3779B97F4A7C15ULL + 12345;
			std::vector<uint32_t> orders(dim, order);
			std::vector<std::vector<double> > knots(dim), coords(dim);
			for (unsigned d = 0; d < dim; d++) {
				for (unsigned j = 0; j < nk; j++) knots[d].push_back(-1.0 - 0.2 * order + (2.0 + 0.4 * order) * j / (nk - 1));
				for (unsigned j = 0; j < ns; j++) coords[d].push_back(-1.0 + 2.0 * j / (ns - 1));
			}
			size_t total = 1; for (unsigned d = 0; d < dim; d++) total *= ns;
			photospline::ndsparse data(total, dim);
			std::vector<double> weights(total, 1.0);
			std::vector<unsigned int> idx(dim, 0);
			for (size_t i = 0; i < total; i++) {
				size_t r = i;
				for (unsigned d = 0; d < dim; d++) { idx[dim - 1 - d] = r % ns; r /= ns; }
				double u = coords[mono][idx[mono]], v = dim > 1 ? coords[1 - mono][idx[1 - mono]] : 0.0;
				double val;
				switch (shape % 4) {
				case 0: val = sin(3.0 * u) + 0.3 * v; break;                  // rises and falls: constraints bind
				case 1: val = -u * u * u + 0.5 * u + 0.2 * v * v; break;
				case 2: val = fabs(u) + 0.1 * v; break;
				default: val = u + 0.8 * sin(7.0 * u) * (1.0 + 0.3 * v); break;
				}
				val += 0.2 * (sm_unit() - 0.5);
				data.insertEntry(val, idx.data());
			}
			char nb[16]; snprintf(nb, sizeof nb, "%d", T);
			unsetenv("GOTO_NUM_THREADS"); setenv("OMP_NUM_THREADS", nb, 1);
			printf("fitbegin %s %d\n", id.c_str(), T); fflush(stdout);
			photospline::splinetable<> spline;
			spline.fit(data, weights, coords, orders, knots, std::vector<double>(dim, 1e-3), std::vector<uint32_t>(dim, 2), mono, true);
			fflush(stdout);
			printf("\nfitend %s %d ncoef %llu coef", id.c_str(), T, (unsigned long long)spline.get_ncoeffs());
			for (uint64_t k = 0; k < spline.get_ncoeffs(); k++) printf(" %s", hexf(spline.get_coefficients()[k]).c_str());
			printf("\n"); fflush(stdout);
		}
	}
	return 0;
}

// random dense NNLS problems straight into nnls_normal_block3 (the solver behind fit(..., monodim)); these reach
// walk_descents far more often than small spline fits do
static int run_nnls()
{
	std::string line;
	while (std::getline(std::cin, line)) {
		std::istringstream in(line);
		std::string tok, id;
		long n = 6, m = 10; uint64_t seed = 1; double corr = 0.5; std::vector<int> threads;
		if (!(in >> tok) || tok != "case") continue;
		in >> id;
		while (in >> tok) {
			if (tok == "n") in >> n; else if (tok == "m") in >> m; else if (tok == "seed") in >> seed; else if (tok == "corr") in >> corr;
			else if (tok == "threads") { int t; while (in >> t) threads.push_back(t); }
		}
		sm_state = seed * 0x9E3779B97F4A7C15ULL + 777;
		std::vector<double> A(m * n), b(m);
		for (long i = 0; i < m; i++) { double common = sm_unit(); for (long j = 0; j < n; j++) A[i * n + j] = corr * common + (1 - corr) * sm_unit(); b[i] = 2.0 * sm_unit() - 0.7; }
		for (int T : threads) {
			cholmod_common c;                       // fresh per solve, as in fit(): CHOLMOD keeps history-dependent state in it
			cholmod_l_start(&c);
			cholmod_dense *Ad = cholmod_l_allocate_dense(n, n, n, CHOLMOD_REAL, &c);
			for (long j = 0; j < n; j++) for (long k = 0; k < n; k++) { double v = (j == k) ? 1e-9 : 0.0; for (long i = 0; i < m; i++) v += A[i * n + j] * A[i * n + k]; ((double *)Ad->x)[j + k * n] = v; }
			cholmod_sparse *AtA = cholmod_l_dense_to_sparse(Ad, 1, &c);
			cholmod_l_free_dense(&Ad, &c);
			cholmod_dense *Atb = cholmod_l_allocate_dense(n, 1, n, CHOLMOD_REAL, &c);
			for (long j = 0; j < n; j++) { double v = 0; for (long i = 0; i < m; i++) v += A[i * n + j] * b[i]; ((double *)Atb->x)[j] = v; }
			char nb[16]; snprintf(nb, sizeof nb, "%d", T);
			unsetenv("GOTO_NUM_THREADS"); setenv("OMP_NUM_THREADS", nb, 1);
			printf("nnlsbegin %s %d\n", id.c_str(), T); fflush(stdout);
			cholmod_dense *x = nnls_normal_block3(AtA, Atb, 1, &c);
			printf("\nnnlsend %s %d n %ld x", id.c_str(), T, n);
			for (long j = 0; j < n; j++) printf(" %s", hexd(((double *)x->x)[j]).c_str());
			printf("\n"); fflush(stdout);
			cholmod_l_free_dense(&x, &c); cholmod_l_free_dense(&Atb, &c); cholmod_l_free_sparse(&AtA, &c);
			cholmod_l_finish(&c);
		}
	}
	return 0;
}

int main(int argc, char **argv)
{
	if (argc >= 2 && !strcmp(argv[1], "sched")) return run_sched();
	if (argc >= 2 && !strcmp(argv[1], "fit")) return run_fit();
	if (argc >= 2 && !strcmp(argv[1], "nnls")) return run_nnls();
	fprintf(stderr, "usage: C12_harness sched|fit\n");
	return 2;
}
