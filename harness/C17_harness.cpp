// C17_harness.cpp — implementation side of the correspondence for C17 (grid evaluation).
// Case file (tools/props/C17.py):
//   T <ndim> <pad hex64> / D <order> <nknots> <knot hex64>... / C <ncoef> <coef hex32>...   (as in evalfam.py)
//   G <id> <exact 0/1> <n0> <hex64>*n0 <n1> <hex64>*n1 ...   one grid: per dimension the abscissae
// Output, one record per line, all for grid <id>:
//   B <id> <dim> <nrow> <ncol> r,c:hex64 ...     bsplinebasis() called directly: stored entries, sorted by (r,c)
//   R <id> cpp <ndim> ranges=a,b,.. n=<rows> i0,i1,..:hex64 ...   splinetable::grideval, entries sorted by index tuple
//   R <id> c   ...                                same through the C interface splinetable_grideval
//   R <id> cpp THROW <what>                       when grideval throws
//   P <id> <values>  pointwise evaluation at EVERY grid point in row-major order of the grid indices:
//                    per point "-" (lookup failed) or "<hex64 double path>/<hex64 float path>"
#include "verif_common.h"
#include <photospline/cinter/splinetable.h>
extern "C" {
#include <photospline/detail/splineutil.h>
}

static void print_nd(std::ostream& os, const ::ndsparse* nd){
  size_t n=nd->rows, d=nd->ndim;
  std::vector<size_t> perm(n); for(size_t i=0;i<n;i++) perm[i]=i;
  std::sort(perm.begin(),perm.end(),[&](size_t a,size_t b){
    for(size_t k=0;k<d;k++){ if(nd->i[k][a]!=nd->i[k][b]) return nd->i[k][a]<nd->i[k][b]; } return a<b; });
  os<<d<<" ranges="; for(size_t k=0;k<d;k++){ if(k) os<<","; os<<nd->ranges[k]; }
  os<<" n="<<n;
  for(size_t e=0;e<n;e++){ size_t r=perm[e]; os<<" "; for(size_t k=0;k<d;k++){ if(k) os<<","; os<<nd->i[k][r]; } os<<":"<<hexd(nd->x[r]); }
}

int main(int argc,char** argv){
  if(argc<2){ fprintf(stderr,"usage: C17_harness cases [skip]\n"); return 2; }
  std::ifstream in(argv[1]);
  long skip = argc>2? atol(argv[2]) : 0;
  std::string line;
  std::unique_ptr<ST> tab;
  std::vector<uint32_t> ord; std::vector<std::vector<double>> kn; double pad=0; uint32_t nd=0;
  long gn=0;
  while(std::getline(in,line)){
    auto tk=split_ws(line); if(tk.empty()) continue;
    if(tk[0]=="T"){ nd=atoi(tk[1].c_str()); pad=dfrom(parse_hex(tk[2])); ord.clear(); kn.clear(); tab.reset(); }
    else if(tk[0]=="D"){ ord.push_back(atoi(tk[1].c_str())); std::vector<double> k; for(size_t i=3;i<tk.size();i++) k.push_back(dfrom(parse_hex(tk[i]))); kn.push_back(k); }
    else if(tk[0]=="C"){ std::vector<float> co; for(size_t i=2;i<tk.size();i++) co.push_back(ffrom((uint32_t)parse_hex(tk[i])));
      // extents / periods (state grid evaluation must not read) vary from table to table
      uint64_t h=0x9e3779b97f4a7c15ull; for(auto& k: kn) for(double v: k){ uint64_t b; memcpy(&b,&v,8); h=(h^b)*0x100000001b3ull; }
      tab.reset(new ST()); build_table(*tab,ord,kn,co,pad,(int)((h>>33)%7)); }
    else if(tk[0]=="G" || tk[0]=="H"){
      if(gn++ < skip) continue;
      const std::string id=tk[1];
      const bool huge= tk[0]=="H";
      fprintf(stderr,"@%s\n",id.c_str()); fflush(stderr);
      std::vector<std::vector<double>> grid;
      size_t p=3;   // tk[2] = exact flag (model side only)
      const ST& t=*tab;
      for(uint32_t d=0; d<nd; d++){
        std::vector<double> g;
        if(!huge){
          size_t n=atoi(tk[p++].c_str());
          for(size_t i=0;i<n;i++) g.push_back(dfrom(parse_hex(tk[p++])));
        }else{
          // H <id> 0 <ntotal> <k> <position>:<hex64> * k per dimension: a grid of ntotal abscissae of which only the k listed ones lie
          // where the table can be non-zero; every other abscissa lies beyond the last knot (all basis functions vanish there)
          size_t n=strtoull(tk[p++].c_str(),NULL,10), k=atoi(tk[p++].c_str());
          double hi=t.knots[d][t.nknots[d]-1]; double step=std::max(1.0,std::fabs(hi))*0.001;
          g.resize(n); for(size_t i=0;i<n;i++) g[i]=hi+std::max(1.0,std::fabs(hi))+step*(double)(i%1000);
          for(size_t i=0;i<k;i++){ std::string e=tk[p++]; size_t c=e.find(':'); g[strtoull(e.substr(0,c).c_str(),NULL,10)]=dfrom(parse_hex(e.substr(c+1))); }
        }
        grid.push_back(g);
      }
      // --- basis matrices, bsplinebasis called directly
      if(!huge){
        cholmod_common cc; cholmod_l_start(&cc);
        for(uint32_t d=0; d<nd; d++){
          cholmod_sparse* b=bsplinebasis(t.knots[d],t.nknots[d],grid[d].data(),grid[d].size(),t.order[d],&cc);
          std::ostringstream os; os<<"B "<<id<<" "<<d<<" "<<b->nrow<<" "<<b->ncol;
          typedef std::pair<std::pair<long,long>,double> ent;
          std::vector<ent> es;
          long* bp=(long*)b->p; long* bi=(long*)b->i; double* bx=(double*)b->x; long* bnz=(long*)b->nz;
          for(size_t c=0;c<b->ncol;c++){
            long e0=bp[c], e1= b->packed? bp[c+1] : bp[c]+bnz[c];
            for(long e=e0;e<e1;e++) es.push_back(ent(std::make_pair(bi[e],(long)c),bx[e]));
          }
          std::sort(es.begin(),es.end(),[](const ent& a,const ent& b){ return a.first<b.first; });
          for(auto& e: es) os<<" "<<e.first.first<<","<<e.first.second<<":"<<hexd(e.second);
          puts(os.str().c_str());
          cholmod_l_free_sparse(&b,&cc);
        }
        cholmod_l_finish(&cc);
      }
      // --- C++ member
      {
        std::ostringstream os; os<<"R "<<id<<" cpp ";
        try{
          std::unique_ptr<photospline::ndsparse> r=t.grideval(grid);
          print_nd(os,r.get());
        }catch(std::exception& ex){ std::string w=ex.what(); std::replace(w.begin(),w.end(),' ','_'); os<<"THROW "<<w; }
        puts(os.str().c_str());
      }
      // --- C interface
      {
        std::ostringstream os; os<<"R "<<id<<" c ";
        struct splinetable ct; ct.data=(void*)tab.get();
        std::vector<const double*> cp; std::vector<uint32_t> nc;
        for(uint32_t d=0; d<nd; d++){ cp.push_back(grid[d].data()); nc.push_back(grid[d].size()); }
        struct ndsparse* res=NULL;
        int rc=splinetable_grideval(&ct,cp.data(),nc.data(),&res);
        if(rc!=0 || !res) os<<"THROW rc="<<rc;
        else{
          print_nd(os,res);
          // ndsparse_destroy(res) deletes through the C base type (finding D14, belongs to C18); release properly here
          delete static_cast<photospline::ndsparse*>(res);
        }
        puts(os.str().c_str());
      }
      // --- pointwise evaluation at every grid point, row-major in the grid indices
      if(!huge){
        std::ostringstream os; os<<"P "<<id;
        std::vector<size_t> g(nd,0); size_t total=1; for(uint32_t d=0; d<nd; d++) total*=grid[d].size();
        std::vector<double> x(nd); std::vector<int> c(nd+2);
        for(size_t n=0;n<total;n++){
          size_t r=n; for(int d=nd-1; d>=0; d--){ g[d]=r%grid[d].size(); r/=grid[d].size(); }
          for(uint32_t d=0; d<nd; d++) x[d]=grid[d][g[d]];
          if(t.searchcenters(x.data(),c.data()))
            os<<" "<<hexd(t.ndsplineeval<double>(x.data(),c.data(),0))<<"/"<<hexd(t.ndsplineeval<float>(x.data(),c.data(),0));
          else os<<" -";
        }
        puts(os.str().c_str());
      }
      fflush(stdout);
    }
  }
  return 0;
}
