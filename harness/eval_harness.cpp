// eval_harness.cpp — implementation side of the correspondence for C01..C05 (case format: tools/props/evalfam.py).
// Compiled from /repo's working tree in several flavours (faithful -O3 with/without PHOTOSPLINE_NO_EVAL_TEMPLATES,
// checked ASan+UBSan). Prints one line per query: "<id> key=value ...".
#include "verif_common.h"
#include <photospline/cinter/splinetable.h>

#ifdef PHOTOSPLINE_NO_EVAL_TEMPLATES
#define TSUF "n"
#else
#define TSUF "t"
#endif

template<typename Float>
static std::string variant_of(const ST::evaluator_type<Float>& ev){
  std::string a="unknown", b="unknown";
  // the generic routine is always a candidate, whatever the table says
  if(ev.eval_ptr==(&ST::template ndsplineeval_core<Float>)) a="G";
  if(ev.v_eval_ptr==(&ST::template ndsplineeval_multibasis_core<Float>)) b="G";
#ifndef PHOTOSPLINE_NO_EVAL_TEMPLATES
#include "generated_variants.inc"
#endif
  return a+","+b;
}

static std::string centers_str(bool ok,const std::vector<int>& c){
  std::string s= ok?"1:":"0:"; if(ok) for(size_t i=0;i<c.size();i++){ if(i) s+=","; s+=std::to_string(c[i]); } return s; }

template<typename Float>
static void run_precision(const char* pfx, const ST& t, const ST::evaluator_type<Float>& ev, const std::vector<double>& x,
                          const std::vector<int>& c, const std::vector<int>& masks, const std::vector<std::vector<unsigned>>& ks,
                          std::ostream& os){
  uint32_t nd=t.ndim;
  for(int m: masks){
    os<<" "<<pfx<<".m"<<m<<".member="<<hexd(t.ndsplineeval<Float>(x.data(),c.data(),m));
    os<<" "<<pfx<<".m"<<m<<".ev" TSUF "="<<hexd(ev.ndsplineeval(x.data(),c.data(),m));
  }
  // gradient
  {
    std::vector<double> g(nd+1+8,0.0);
    try{ t.ndsplineeval_gradient<Float>(x.data(),c.data(),g.data());
      os<<" "<<pfx<<".g.member="; for(uint32_t i=0;i<=nd;i++){ if(i) os<<","; os<<hexd(g[i]); } }
    catch(std::exception&){ os<<" "<<pfx<<".g.member=THROW"; }
    std::vector<double> g2(nd+1+8,0.0);
    try{ ev.ndsplineeval_gradient(x.data(),c.data(),g2.data());
      os<<" "<<pfx<<".g.ev" TSUF "="; for(uint32_t i=0;i<=nd;i++){ if(i) os<<","; os<<hexd(g2[i]); } }
    catch(std::exception&){ os<<" "<<pfx<<".g.ev" TSUF "=THROW"; }
  }
  for(auto& kv: ks){
    std::string kl; for(size_t i=0;i<kv.size();i++){ if(i) kl+=","; kl+=std::to_string(kv[i]); }
    os<<" "<<pfx<<".k"<<kl<<".ev" TSUF "="<<hexd(ev.ndsplineeval_deriv(x.data(),c.data(),kv.data()));
  }
  // call operator of the evaluator (mask 0)
  os<<" "<<pfx<<".op.ev" TSUF "="<<hexd(ev(x.data(),0));
}

int main(int argc,char** argv){
  if(argc<2){ fprintf(stderr,"usage: eval_harness cases [skip]\n"); return 2; }
  std::ifstream in(argv[1]);
  long skip = argc>2? atol(argv[2]) : 0;
  std::string line;
  std::unique_ptr<ST> tab;
  std::vector<uint32_t> ord; std::vector<std::vector<double>> kn; double pad=0; uint32_t nd=0;
  long qn=0;
  while(std::getline(in,line)){
    auto tk=split_ws(line); if(tk.empty()) continue;
    if(tk[0]=="T"){ nd=atoi(tk[1].c_str()); pad=dfrom(parse_hex(tk[2])); ord.clear(); kn.clear(); tab.reset(); }
    else if(tk[0]=="D"){ ord.push_back(atoi(tk[1].c_str())); std::vector<double> k; for(size_t i=3;i<tk.size();i++) k.push_back(dfrom(parse_hex(tk[i]))); kn.push_back(k); }
    else if(tk[0]=="C"){ std::vector<float> co; for(size_t i=2;i<tk.size();i++) co.push_back(ffrom((uint32_t)parse_hex(tk[i])));
      // the state evaluation must not read (extents, periods) varies from table to table, derived from the knot bits
      uint64_t h=0x9e3779b97f4a7c15ull; for(auto& k: kn) for(double v: k){ uint64_t b; memcpy(&b,&v,8); h=(h^b)*0x100000001b3ull; }
      tab.reset(new ST()); build_table(*tab,ord,kn,co,pad,(int)((h>>33)%7)); }
    else if(tk[0]=="Q"){
      if(qn++ < skip) continue;
      std::vector<double> x; std::vector<int> masks; std::vector<std::vector<unsigned>> ks; std::string sect;
      for(size_t i=2;i<tk.size();i++){
        if(tk[i]=="X"||tk[i]=="M"||tk[i]=="K"||tk[i]=="F"){ sect=tk[i]; continue; }
        if(sect=="X") x.push_back(dfrom(parse_hex(tk[i])));
        else if(sect=="M") masks.push_back(atoi(tk[i].c_str()));
        else if(sect=="K"){ std::vector<unsigned> kv; std::stringstream ss(tk[i]); std::string e; while(std::getline(ss,e,',')) kv.push_back(atoi(e.c_str())); ks.push_back(kv); }
      }
      const ST& t=*tab;
      std::ostringstream os; os<<tk[1];
      // announce the query before running it so that a crash can be attributed
      fprintf(stderr,"@%s\n",tk[1].c_str()); fflush(stderr);
      std::vector<int> c(nd+2,-777), c2(nd+2,-777), c3(nd+2,-777);
      auto evf=t.get_evaluator<float>(); auto evd=t.get_evaluator<double>();
      bool ok=t.searchcenters(x.data(),c.data());
      bool ok2=evf.searchcenters(x.data(),c2.data());
      struct splinetable ct; ct.data=(void*)tab.get();
      bool ok3=tablesearchcenters(&ct,x.data(),c3.data());
      c.resize(nd); c2.resize(nd); c3.resize(nd);
      os<<" sc.member="<<centers_str(ok,c)<<" sc.ev="<<centers_str(ok2,c2)<<" sc.c="<<centers_str(ok3,c3);
      // the output array is an OUT parameter: what it holds on entry (the centers of a previous point or of another table) must not matter
      for(int hint=1;hint<=5;hint++){
        std::vector<int> ch(nd+2,-777);
        for(uint32_t d=0;d<nd;d++){
          long nk=(long)t.get_nknots(d), o=(long)t.get_order(d), v=0;
          switch(hint){
            case 1: v= ok ? c[d]+1 : nk-2; break;
            case 2: v= nk-2; break;
            case 3: v= nk-o-1; break;                       // the first span of the right margin
            case 4: v= o>0 ? o-1 : 0; break;                // the last span of the left margin
            default: { uint64_t b; double xv=x[d]; memcpy(&b,&xv,8); v=(long)(((b>>7)^(b>>29)^(uint64_t)(d*2654435761u))%(uint64_t)std::max<long>(nk,1)); }
          }
          ch[d]=(int)v;
        }
        bool okh=tablesearchcenters(&ct,x.data(),ch.data());
        ch.resize(nd);
        os<<" sc.ch"<<hint<<"="<<centers_str(okh,ch);
      }
      os<<" var." TSUF ".f="<<variant_of(evf)<<" var." TSUF ".d="<<variant_of(evd);
      if(ok){
        run_precision<float>("f",t,evf,x,c,masks,ks,os);
        run_precision<double>("d",t,evd,x,c,masks,ks,os);
        // paths that exist in single precision only
        for(int m: masks) os<<" f.m"<<m<<".c="<<hexd(ndsplineeval(&ct,x.data(),c.data(),m));
        if(nd+1<=PHOTOSPLINE_MAXDIM){ std::vector<double> g(nd+1+8,0.0); ndsplineeval_gradient(&ct,x.data(),c.data(),g.data());
          os<<" f.g.c="; for(uint32_t i=0;i<=nd;i++){ if(i) os<<","; os<<hexd(g[i]); } }
        for(auto& kv: ks){ std::string kl; for(size_t i=0;i<kv.size();i++){ if(i) kl+=","; kl+=std::to_string(kv[i]); }
          os<<" f.k"<<kl<<".member="<<hexd(t.ndsplineeval_deriv(x.data(),c.data(),kv.data()));
          os<<" f.k"<<kl<<".c="<<hexd(ndsplineeval_deriv(&ct,x.data(),c.data(),kv.data())); }
        os<<" f.op.member="<<hexd(t(x.data()));
      } else {
        os<<" f.op.member="<<hexd(t(x.data()))<<" f.op.ev" TSUF "="<<hexd(evf(x.data(),0))<<" d.op.ev" TSUF "="<<hexd(evd(x.data(),0));
      }
      puts(os.str().c_str()); fflush(stdout);
    }
  }
  return 0;
}
