// C09_harness.cpp — runs the REAL fitter (C++ splinetable::fit and C splinetable_glamfit) on exactly described
// small problems and dumps (a) the float coefficients, (b) the normal matrix and right-hand side that
// glamfit_complex hands to cholesky_solve (captured with the linker's --wrap=cholesky_solve: no source
// change in the library), (c) per-dimension objects obtained by calling the fitter's C functions directly
// (bsplinebasis, box, slicemultiply, calc_penalty).
//
// input (whitespace separated tokens; doubles as 16-digit hex bit patterns):
//   case <id> <ndim> <flags>            flags bit0: C++ call gets a single smoothing value (smooth[0]);
//                                             bit1: C++ call gets a single penalty order (porder[0])
//   per dim:  <order> <porder> <smooth> <nknots> <knots...> <npts> <coords...>
//   <rows>  then per row: <i_0> .. <i_{ndim-1}> <value> <weight>
// output: see the printf's; every line starts with a tag.
#include "verif_common.h"
#include <photospline/cinter/splinetable.h>
#include <photospline/detail/glam.h>

extern "C" {
cholmod_dense* __real_cholesky_solve(cholmod_sparse* AtA, cholmod_dense* Atb, cholmod_common* c, int verbose, int n_resolves);
cholmod_sparse* calc_penalty(uint64_t* nsplines, double* knots, uint32_t ndim, uint32_t i, uint32_t order, uint32_t porder, uint32_t monodim, cholmod_common* c);
}

static std::string g_tag;
static void dump_sparse(const char* tag, cholmod_sparse* S, cholmod_common* c){
  // dense dump in row-major order of everything that is stored (duplicates cannot occur in a cholmod_sparse
  // produced by triplet_to_sparse/add/ssmult); symmetric-stored matrices are expanded by cholmod_l_copy
  cholmod_sparse* U = (S->stype!=0) ? cholmod_l_copy(S,0,1,c) : S;
  cholmod_dense* D = cholmod_l_sparse_to_dense(U,c);
  printf("%s %zu %zu", tag, (size_t)D->nrow, (size_t)D->ncol);
  for(size_t i=0;i<D->nrow;i++) for(size_t j=0;j<D->ncol;j++) printf(" %s", hexd(((double*)D->x)[j*D->d+i]).c_str());
  printf("\n");
  cholmod_l_free_dense(&D,c);
  if(U!=S) cholmod_l_free_sparse(&U,c);
}

extern "C" cholmod_dense* __wrap_cholesky_solve(cholmod_sparse* AtA, cholmod_dense* Atb, cholmod_common* c, int verbose, int n_resolves){
  dump_sparse((g_tag+".A").c_str(), AtA, c);
  printf("%s.r %zu", g_tag.c_str(), (size_t)Atb->nrow);
  for(size_t i=0;i<Atb->nrow;i++) printf(" %s", hexd(((double*)Atb->x)[i]).c_str());
  printf("\n");
  return __real_cholesky_solve(AtA,Atb,c,verbose,n_resolves);
}

static double rdd(){ char b[64]; if(scanf("%63s",b)!=1) exit(3); return dfrom(strtoull(b,nullptr,16)); }
static long rdi(){ long v; if(scanf("%ld",&v)!=1) exit(3); return v; }

struct Dim { uint32_t order, porder; double smooth; std::vector<double> knots, coords; };

int main(){
  char word[64];
  while(scanf("%63s",word)==1){
    if(strcmp(word,"case")!=0){ fprintf(stderr,"bad token %s\n",word); return 2; }
    char id[64]; if(scanf("%63s",id)!=1) return 3;
    uint32_t ndim=rdi(); int flags=rdi();
    std::vector<Dim> dims(ndim);
    for(auto& d: dims){
      d.order=rdi(); d.porder=rdi(); d.smooth=rdd();
      size_t nk=rdi(); d.knots.resize(nk); for(auto& k: d.knots) k=rdd();
      size_t np=rdi(); d.coords.resize(np); for(auto& x: d.coords) x=rdd();
    }
    size_t rows=rdi();
    std::vector<std::vector<unsigned>> idx(rows,std::vector<unsigned>(ndim));
    std::vector<double> val(rows), wt(rows);
    for(size_t r=0;r<rows;r++){ for(uint32_t k=0;k<ndim;k++) idx[r][k]=rdi(); val[r]=rdd(); wt[r]=rdd(); }
    printf("case %s\n",id);
    std::vector<uint32_t> orders, porders; std::vector<double> smooth; std::vector<std::vector<double>> knots, coords;
    for(auto& d: dims){ orders.push_back(d.order); porders.push_back(d.porder); smooth.push_back(d.smooth); knots.push_back(d.knots); coords.push_back(d.coords); }
    size_t ncoef=1; for(auto& d: dims) ncoef*=d.knots.size()-d.order-1;

    // the ndsparse: ranges are the numbers of abscissae (fit() requires max index < range; glamfit uses
    // data->ranges[i] as the length of coords[i])
    auto make_data=[&](photospline::ndsparse& data){
      for(size_t r=0;r<rows;r++){ data.x[r]=val[r]; for(uint32_t k=0;k<ndim;k++) data.i[k][r]=idx[r][k]; }
      for(uint32_t k=0;k<ndim;k++) data.ranges[k]=dims[k].coords.size();
      data.entriesInserted=rows;
    };
    // (a) C++ entry point
    {
      g_tag="cpp";
      photospline::ndsparse data(rows,ndim); make_data(data);
      ST t;
      try{
        std::vector<double> sm = (flags&1)? std::vector<double>{smooth[0]} : smooth;
        std::vector<uint32_t> po = (flags&2)? std::vector<uint32_t>{porders[0]} : porders;
        t.fit(data,wt,coords,orders,knots,sm,po,ST::no_monodim,false);
        printf("cpp.coef 0 %zu",ncoef);
        for(size_t i=0;i<ncoef;i++) printf(" %s",hexf(t.coefficients[i]).c_str());
        printf("\n");
        printf("cpp.naxes"); for(uint32_t k=0;k<ndim;k++) printf(" %llu",(unsigned long long)t.naxes[k]); printf("\n");
      }catch(std::exception& e){ printf("cpp.coef 1 0 # %s\n",e.what()); }
    }
    // (b) C entry point
    {
      g_tag="c";
      photospline::ndsparse data(rows,ndim); make_data(data);
      struct splinetable tab; splinetable_init(&tab);
      std::vector<const double*> cp, kp; std::vector<uint64_t> nk;
      for(auto& d: dims){ cp.push_back(d.coords.data()); kp.push_back(d.knots.data()); nk.push_back(d.knots.size()); }
      int rc=splinetable_glamfit(&tab,&data,wt.data(),cp.data(),orders.data(),kp.data(),nk.data(),smooth.data(),porders.data(),(uint32_t)-1,false);
      if(rc==0){
        auto& rt=*static_cast<ST*>(tab.data);
        printf("c.coef 0 %zu",ncoef);
        for(size_t i=0;i<ncoef;i++) printf(" %s",hexf(rt.coefficients[i]).c_str());
        printf("\n");
      } else printf("c.coef %d 0\n",rc);
      splinetable_free(&tab);
    }
    // (c) the fitter's building blocks called directly
    {
      cholmod_common cc; cholmod_l_start(&cc);
      std::vector<uint64_t> nspl; for(auto& d: dims) nspl.push_back(d.knots.size()-d.order-1);
      std::vector<cholmod_sparse*> bases, boxed;
      for(uint32_t k=0;k<ndim;k++){
        cholmod_sparse* b=bsplinebasis(dims[k].knots.data(),dims[k].knots.size(),dims[k].coords.data(),dims[k].coords.size(),dims[k].order,&cc);
        char tag[32]; snprintf(tag,sizeof tag,"basis.%u",k); dump_sparse(tag,b,&cc);
        cholmod_sparse* bb=box(b,b,&cc);
        snprintf(tag,sizeof tag,"box.%u",k); dump_sparse(tag,bb,&cc);
        bases.push_back(b); boxed.push_back(bb);
        // calc_penalty wants the padded knot vector only through knots[j..]; plain copy is enough
        // Only within the limits inside which fit() itself reaches calc_penalty (penalty order <= spline order and <= nsplines:
        // beyond them divided_diffs overruns its scratch arrays / the row count nsplines - porder wraps; fit() refuses such
        // arguments when the smoothing is non-zero and never looks at the penalty order when it is zero).
        if(dims[k].porder<=dims[k].order && dims[k].porder<=nspl[k]){
          std::vector<double> kn(dims[k].knots);
          cholmod_sparse* P=calc_penalty(nspl.data(),kn.data(),ndim,k,dims[k].order,dims[k].porder,PHOTOSPLINE_GLAM_NO_MONODIM,&cc);
          snprintf(tag,sizeof tag,"pen.%u",k); dump_sparse(tag,P,&cc);
          cholmod_l_free_sparse(&P,&cc);
        }
      }
      // F and R arrays through the real slicemultiply, dumped as (index tuple, value) lists
      for(int which=0;which<2;which++){
        struct ndsparse a; ndsparse_allocate(&a,rows,ndim);
        for(size_t r=0;r<rows;r++){ a.x[r]= which? wt[r]*val[r] : wt[r]; for(uint32_t k=0;k<ndim;k++) a.i[k][r]=idx[r][k]; }
        for(uint32_t k=0;k<ndim;k++) a.ranges[k]=dims[k].coords.size();
        int err=0;
        for(uint32_t k=0;k<ndim && !err;k++) err=slicemultiply(&a, which? bases[k] : boxed[k], k, &cc);
        printf("%s %d %u", which?"Rarr":"Farr", err, ndim);
        for(uint32_t k=0;k<ndim;k++) printf(" %u",a.ranges[k]);
        printf(" %zu",a.rows);
        for(size_t r=0;r<a.rows;r++){ for(uint32_t k=0;k<ndim;k++) printf(" %u",a.i[k][r]); printf(" %s",hexd(a.x[r]).c_str()); }
        printf("\n");
        ndsparse_free(&a);
      }
      for(auto b: bases) cholmod_l_free_sparse(&b,&cc);
      for(auto b: boxed) cholmod_l_free_sparse(&b,&cc);
      cholmod_l_finish(&cc);
    }
    printf("end %s\n",id);
    fflush(stdout);
  }
  return 0;
}
