// verif_common.h — shared by all harness drivers. Standard headers first, then the library with its
// private members reachable (no source change in /repo is needed for this).
#ifndef VERIF_COMMON_H
#define VERIF_COMMON_H
#include <sstream>
#include <iostream>
#include <fstream>
#include <algorithm>
#include <memory>
#include <numeric>
#include <random>
#include <chrono>
#include <array>
#include <string>
#include <vector>
#include <map>
#include <set>
#include <cmath>
#include <cstring>
#include <cstdio>
#include <cstdlib>
#include <cinttypes>
#include <stdexcept>
#include <functional>
#include <fitsio.h>
#include <fitsio2.h>
#ifdef PHOTOSPLINE_INCLUDES_SPGLAM
#include <cholmod.h>
#endif
#define private public
#include <photospline/splinetable.h>
#undef private

typedef photospline::splinetable<> ST;

static inline uint64_t dbits(double d){ uint64_t u; memcpy(&u,&d,8); return u; }
static inline uint32_t fbits(float f){ uint32_t u; memcpy(&u,&f,4); return u; }
static inline double dfrom(uint64_t u){ double d; memcpy(&d,&u,8); return d; }
static inline float ffrom(uint32_t u){ float f; memcpy(&f,&u,4); return f; }
static inline std::string hexd(double d){ char b[32]; snprintf(b,sizeof b,"%016" PRIx64,dbits(d)); return b; }
static inline std::string hexf(float f){ char b[32]; snprintf(b,sizeof b,"%08" PRIx32,fbits(f)); return b; }

// Build a table in place exactly the way the library lays it out: knots allocated with `order' padding
// elements on both sides (allocate(nknots+2*order)+order), padding filled with `pad'.
// [unrelated]: how the table state that lookup and evaluation must NOT depend on is filled in: 0 = the conventional
// extents (knots[order], knots[naxes]) and no periods; 1..5 = extents below/above/inside the supported range, reversed,
// NaN, and a periods array with arbitrary values (a table read from a file may carry any of these)
template<class Table>
static void build_table(Table& t, const std::vector<uint32_t>& ord, const std::vector<std::vector<double>>& kn,
                        const std::vector<float>& co, double pad, int unrelated=0){
  uint32_t nd=ord.size(); t.ndim=nd;
  t.order=t.template allocate<uint32_t>(nd); t.nknots=t.template allocate<uint64_t>(nd);
  t.naxes=t.template allocate<uint64_t>(nd); t.strides=t.template allocate<uint64_t>(nd);
  t.knots=t.template allocate<typename Table::double_ptr>(nd);
  t.extents=t.template allocate<typename Table::double_ptr>(nd); t.extents[0]=t.template allocate<double>(2*nd);
  for(uint32_t i=0;i<nd;i++){
    t.order[i]=ord[i]; t.nknots[i]=kn[i].size(); t.naxes[i]=kn[i].size()-ord[i]-1;
    t.knots[i]=t.template allocate<double>(kn[i].size()+2*ord[i])+ord[i];
    for(int k=-(int)ord[i];k<(int)(kn[i].size()+ord[i]);k++) t.knots[i][k]=pad;
    std::copy(kn[i].begin(),kn[i].end(),&t.knots[i][0]);
    t.extents[i]=t.extents[0]+2*i; t.extents[i][0]=kn[i][ord[i]]; t.extents[i][1]=kn[i][kn[i].size()-ord[i]-1];
    size_t na=kn[i].size()-ord[i]-1;
    switch((unrelated+(int)i)%6){
      case 1: t.extents[i][0]=kn[i][0]; t.extents[i][1]=kn[i].back(); break;                           // partial support included
      case 2: t.extents[i][0]=0.5*(kn[i][std::min(na,(size_t)ord[i]+1)]+kn[i][na]); t.extents[i][1]=kn[i][na]; break;   // lower extent inside the range
      case 3: t.extents[i][0]=kn[i][na]; t.extents[i][1]=kn[i][ord[i]]; break;                          // reversed
      case 4: t.extents[i][0]=std::nan(""); t.extents[i][1]=std::nan(""); break;
      case 5: t.extents[i][0]=-1e300; t.extents[i][1]=kn[i][ord[i]]; break;                             // upper extent at the lower end
      default: break;
    }
    if(unrelated==0){ t.extents[i][0]=kn[i][ord[i]]; t.extents[i][1]=kn[i][na]; }
  }
  t.strides[nd-1]=1; for(int i=nd-1;i>0;i--) t.strides[i-1]=t.strides[i]*t.naxes[i];
  uint64_t n=t.strides[0]*t.naxes[0]; t.coefficients=t.template allocate<float>(n);
  for(uint64_t i=0;i<n;i++) t.coefficients[i]= i<co.size()?co[i]:0.f;
  t.periods=NULL; t.naux=0; t.aux=NULL;
  if(unrelated%2==1){ t.periods=t.template allocate<double>(nd); for(uint32_t i=0;i<nd;i++) t.periods[i]= (i%2? 1.0 : kn[i].back()-kn[i][0]); }
}

static inline std::vector<std::string> split_ws(const std::string& s){
  std::vector<std::string> out; std::istringstream is(s); std::string w; while(is>>w) out.push_back(w); return out; }
static inline uint64_t parse_hex(const std::string& s){ return strtoull(s.c_str(),NULL,16); }
#endif
