// C06_harness.cpp — implementation side of the FITS round-trip correspondence (property C06).
//   C06_harness w <list>   lines "id tablefile outprefix": build the table, dump it (outprefix.orig), write it with
//                          write_fits / write_fits_mem / writesplinefitstable / writesplinefitstable_mem
//                          (outprefix.{file,mem,cfile,cmem}.fits), and do the library's own round trip
//                          (read_fits, read_fits_mem -> outprefix.{rtfile,rtmem}; operator==; bitwise evaluation).
//   C06_harness r <list>   lines "id fitsfile outprefix": read the file with read_fits, read_fits_mem, the C wrappers and an
//                          independent reader written directly against cfitsio (no photospline code) and dump each result
//                          (outprefix.{rfile,rmem,crfile,crmem,indep}).
// Table text format: see tools/props/C06.py (table_lines). One status line per id on stdout.
#include "verif_common.h"
#include <photospline/cinter/splinetable.h>

static std::string hexstr(const std::string& s){ if(s.empty()) return "-"; std::string o; char b[4];
  for(unsigned char c: s){ snprintf(b,sizeof b,"%02x",c); o+=b; } return o; }
static std::string unhex(const std::string& h){ if(h=="-") return ""; std::string o;
  for(size_t i=0;i+1<h.size();i+=2) o.push_back((char)strtoul(h.substr(i,2).c_str(),NULL,16)); return o; }

static void dump_table(const ST& t, const std::string& path){
  std::ofstream os(path);
  os<<"ndim "<<t.ndim<<"\n";
  if(t.ndim==0){ os<<"end\n"; return; }
  os<<"order"; for(uint32_t i=0;i<t.ndim;i++) os<<" "<<t.order[i]; os<<"\n";
  os<<"naxes"; for(uint32_t i=0;i<t.ndim;i++) os<<" "<<t.naxes[i]; os<<"\n";
  os<<"strides"; for(uint32_t i=0;i<t.ndim;i++) os<<" "<<t.strides[i]; os<<"\n";
  os<<"nknots"; for(uint32_t i=0;i<t.ndim;i++) os<<" "<<t.nknots[i]; os<<"\n";
  for(uint32_t i=0;i<t.ndim;i++){ os<<"knots "<<i; for(uint64_t k=0;k<t.nknots[i];k++) os<<" "<<hexd(t.knots[i][k]); os<<"\n"; }
  uint64_t n=t.strides[0]*t.naxes[0];
  os<<"coef"; for(uint64_t k=0;k<n;k++) os<<" "<<hexf(t.coefficients[k]); os<<"\n";
  if(t.extents){ os<<"extents"; for(uint32_t i=0;i<2*t.ndim;i++) os<<" "<<hexd(t.extents[0][i]); os<<"\n"; }
  else os<<"extents none\n";
  if(t.periods){ os<<"periods"; for(uint32_t i=0;i<t.ndim;i++) os<<" "<<hexd(t.periods[i]); os<<"\n"; }
  else os<<"periods none\n";
  os<<"naux "<<t.naux<<"\n";
  for(uint32_t i=0;i<t.naux;i++) os<<"aux "<<hexstr(&t.aux[i][0][0])<<" "<<hexstr(&t.aux[i][1][0])<<"\n";
  os<<"end\n";
}

// returns a heap table that is never destroyed when construction fails half way (the library's destructor is C07's subject)
// write_key is offered every 'aux' line of the case in order; a key it refuses (exception) is recorded as <hexkey>:R when
// the message names a reserved keyword, <hexkey>:O otherwise, and the table is built from the remaining ones
static ST* build_from_file(const std::string& path, std::vector<std::string>* refused=NULL){
  std::ifstream in(path); std::string line;
  std::vector<uint32_t> ord; std::vector<std::vector<double>> kn; std::vector<float> co;
  std::vector<double> ext, per; bool ext_none=false, have_ext=false, have_per=false;
  std::vector<std::pair<std::string,std::string>> aux;
  while(std::getline(in,line)){
    auto w=split_ws(line); if(w.empty()) continue;
    if(w[0]=="order"){ for(size_t i=1;i<w.size();i++) ord.push_back(strtoul(w[i].c_str(),NULL,10)); }
    else if(w[0]=="knots"){ std::vector<double> k; for(size_t i=2;i<w.size();i++) k.push_back(dfrom(parse_hex(w[i]))); kn.push_back(k); }
    else if(w[0]=="coef"){ for(size_t i=1;i<w.size();i++) co.push_back(ffrom((uint32_t)parse_hex(w[i]))); }
    else if(w[0]=="extents"){ if(w.size()>1 && w[1]=="none") ext_none=true; else { have_ext=true; for(size_t i=1;i<w.size();i++) ext.push_back(dfrom(parse_hex(w[i]))); } }
    else if(w[0]=="periods"){ if(!(w.size()>1 && w[1]=="none")){ have_per=true; for(size_t i=1;i<w.size();i++) per.push_back(dfrom(parse_hex(w[i]))); } }
    else if(w[0]=="aux"){ aux.push_back(std::make_pair(unhex(w[1]), w.size()>2?unhex(w[2]):std::string())); }
  }
  ST* t=new ST();
  build_table(*t,ord,kn,co,0.0);
  uint32_t nd=t->ndim;
  if(have_ext) for(uint32_t i=0;i<2*nd && i<ext.size();i++) t->extents[0][i]=ext[i];
  if(ext_none){ t->deallocate(t->extents[0],2*nd); t->deallocate(t->extents,nd); t->extents=NULL; }
  if(have_per){ t->periods=t->template allocate<double>(nd); for(uint32_t i=0;i<nd;i++) t->periods[i]= i<per.size()?per[i]:0.0; }
  for(auto& kv: aux){
    if(!refused){ t->write_key(kv.first.c_str(), kv.second); continue; }
    try{ t->write_key(kv.first.c_str(), kv.second); }
    catch(std::exception& e){
      std::string h=hexstr(kv.first.c_str()); if(h.empty()) h="-";
      refused->push_back(h+(std::string(e.what()).find("reserved name")!=std::string::npos?":R":":O")); }
  }
  return t;
}

static bool slurp(const std::string& path, std::vector<char>& buf){
  std::ifstream f(path, std::ios::binary); if(!f) return false;
  buf.assign(std::istreambuf_iterator<char>(f), std::istreambuf_iterator<char>()); return true; }
static void spit(const std::string& path, const void* p, size_t n){ std::ofstream f(path, std::ios::binary); f.write((const char*)p,n); }
static void spit_err(const std::string& path, const std::string& msg){ std::ofstream f(path); f<<"ERROR "<<msg<<"\n"; }

// splitmix-style deterministic points inside the extents (or knot range)
static uint64_t sm(uint64_t& s){ s+=0x9E3779B97F4A7C15ULL; uint64_t z=s; z=(z^(z>>30))*0xBF58476D1CE4E5B9ULL; z=(z^(z>>27))*0x94D049BB133111EBULL; return z^(z>>31); }

static bool evaluable(const ST& t){
  for(uint32_t d=0;d<t.ndim;d++){
    if(t.naxes[d]<t.order[d]+1 || t.nknots[d]!=t.naxes[d]+t.order[d]+1) return false;
    for(uint64_t k=0;k<t.nknots[d];k++){ if(!std::isfinite(t.knots[d][k])) return false; if(k && t.knots[d][k]<t.knots[d][k-1]) return false; }
  }
  return true;
}
static std::string eval_bits(const ST& t, uint64_t seed, int npts){
  if(!evaluable(t)) return "NA";
  std::string out; uint32_t nd=t.ndim; uint64_t s=seed;
  for(int p=0;p<npts;p++){
    std::vector<double> x(nd); std::vector<int> c(nd);
    for(uint32_t d=0;d<nd;d++){
      double lo=t.knots[d][t.order[d]], hi=t.knots[d][t.nknots[d]-t.order[d]-1];
      double u=(sm(s)>>11)/9007199254740992.0; x[d]=lo+u*(hi-lo); }
    bool ok=t.searchcenters(x.data(),c.data());
    out+= ok?"1:":"0:";
    if(ok){ out+=hexd(t.ndsplineeval(x.data(),c.data(),0)); out+=","; out+=hexd(t.ndsplineeval(x.data(),c.data(),1)); }
    out+=";";
  }
  return out;
}

static int mode_w(const char* list){
  std::ifstream in(list); std::string line;
  while(std::getline(in,line)){
    auto w=split_ws(line); if(w.size()<3) continue;
    std::string id=w[0], tf=w[1], pre=w[2];
    std::ostringstream st; st<<id;
    try{
      std::vector<std::string> refused;
      ST* t=build_from_file(tf,&refused);
      st<<" refused="; if(refused.empty()) st<<"-"; for(size_t i=0;i<refused.size();i++) st<<(i?",":"")<<refused[i];
      dump_table(*t, pre+".orig");
      t->write_fits(pre+".file.fits");
      { auto r=t->write_fits_mem(); spit(pre+".mem.fits", r.first, r.second);
        // round trip through memory with the very buffer returned
        ST* t3=new ST(); bool okm=t3->read_fits_mem(r.first, r.second); dump_table(*t3, pre+".rtmem");
        st<<" rtmem_ret="<<okm<<" rtmem_eq="<<((*t3)==(*t))<<" rtmem_eq_rev="<<((*t)==(*t3));
        { std::string a=eval_bits(*t,12345,6), b=eval_bits(*t3,12345,6); st<<" rtmem_eval="<<(a=="NA"&&b=="NA"?"NA":(a==b?"1":"0")); }
        delete t3; free(r.first); }
      { ST* t2=new ST(); bool okf=t2->read_fits(pre+".file.fits"); dump_table(*t2, pre+".rtfile");
        st<<" rtfile_ret="<<okf<<" rtfile_eq="<<((*t2)==(*t))<<" rtfile_ne="<<((*t2)!=(*t));
        { std::string a=eval_bits(*t,777,6), b=eval_bits(*t2,777,6); st<<" rtfile_eval="<<(a=="NA"&&b=="NA"?"NA":(a==b?"1":"0")); }
        delete t2; }
      { struct splinetable cst; cst.data=t;
        int rc=writesplinefitstable((pre+".cfile.fits").c_str(), &cst); st<<" cwrite="<<rc;
        struct splinetable_buffer b; b.data=NULL; b.size=0;
        int rc2=writesplinefitstable_mem(&b,&cst); st<<" cwrite_mem="<<rc2;
        if(rc2==0){ spit(pre+".cmem.fits", b.data, b.size); free(b.data); } }
      delete t;
      st<<" ok";
    }catch(std::exception& e){ st<<" EXC "<<e.what(); }
    std::cout<<st.str()<<std::endl;
  }
  return 0;
}

// An independent reader: cfitsio only, no photospline code. Reads the documented layout.
static void indep_read(const std::string& path, const std::string& outp){
  std::ofstream os(outp);
  fitsfile* f; int st=0;
  fits_open_diskfile(&f, path.c_str(), READONLY, &st);
  if(st){ os<<"ERROR open "<<st<<"\n"; return; }
  int hdutype=0; fits_movabs_hdu(f,1,&hdutype,&st);
  int bitpix=0, naxis=0; long ax[16]; for(int i=0;i<16;i++) ax[i]=0;
  fits_get_img_param(f,16,&bitpix,&naxis,ax,&st);
  if(st||naxis<1||naxis>16){ os<<"ERROR primary "<<st<<"\n"; fits_close_file(f,&st); return; }
  os<<"ndim "<<naxis<<"\n";
  os<<"bitpix "<<bitpix<<"\n";
  os<<"order"; for(int i=0;i<naxis;i++){ char k[32]; snprintf(k,sizeof k,"ORDER%d",i); long long v=-1; int s2=0; fits_read_key(f,TLONGLONG,k,&v,NULL,&s2); if(s2){ int s3=0; fits_read_key(f,TLONGLONG,"ORDER",&v,NULL,&s3);} os<<" "<<v; } os<<"\n";
  // documented layout: NAXISj = naxes[ndim-j]
  os<<"naxes"; for(int i=0;i<naxis;i++) os<<" "<<ax[naxis-1-i]; os<<"\n";
  uint64_t n=1; for(int i=0;i<naxis;i++) n*=ax[i];
  { std::vector<float> c(n); int anynul=0; if(n) fits_read_img(f,TFLOAT,1,n,NULL,c.data(),&anynul,&st);
    os<<"coef"; for(uint64_t k=0;k<n;k++) os<<" "<<hexf(c[k]); os<<"\n"; }
  std::vector<long> nk(naxis,0);
  for(int i=0;i<naxis;i++){
    char nm[32]; snprintf(nm,sizeof nm,"KNOTS%d",i);
    fits_movnam_hdu(f,IMAGE_HDU,nm,0,&st);
    int bp=0,na=0; long a1[4]={0,0,0,0}; fits_get_img_param(f,4,&bp,&na,a1,&st);
    if(st){ os<<"ERROR knots "<<i<<" "<<st<<"\n"; fits_close_file(f,&st); return; }
    std::vector<double> k(a1[0]); int anynul=0; fits_read_img(f,TDOUBLE,1,a1[0],NULL,k.data(),&anynul,&st);
    os<<"knots "<<i<<" bitpix "<<bp; for(long j=0;j<a1[0];j++) os<<" "<<hexd(k[j]); os<<"\n";
  }
  { int s2=0; fits_movnam_hdu(f,IMAGE_HDU,(char*)"EXTENTS",0,&s2);
    if(s2){ os<<"extents none\n"; }
    else{ int bp=0,na=0; long a1[4]={0,0,0,0}; fits_get_img_param(f,4,&bp,&na,a1,&s2);
      std::vector<double> e(a1[0]); int anynul=0; fits_read_img(f,TDOUBLE,1,a1[0],NULL,e.data(),&anynul,&s2);
      os<<"extents"; for(long j=0;j<a1[0];j++) os<<" "<<hexd(e[j]); os<<"\n"; } }
  if(st) os<<"ERROR status "<<st<<"\n";
  os<<"end\n";
  int s3=0; fits_close_file(f,&s3);
}

static int mode_r(const char* list){
  std::ifstream in(list); std::string line;
  while(std::getline(in,line)){
    auto w=split_ws(line); if(w.size()<3) continue;
    std::string id=w[0], ff=w[1], pre=w[2];
    std::ostringstream st; st<<id;
    // read_fits
    { ST* t=new ST(); try{ bool r=t->read_fits(ff); st<<" rfile="<<r; dump_table(*t,pre+".rfile"); delete t; }
      catch(std::exception& e){ spit_err(pre+".rfile", e.what()); st<<" rfile=EXC"; /* leaked on purpose */ } }
    // read_fits_mem
    { std::vector<char> buf; slurp(ff,buf);
      ST* t=new ST(); try{ bool r=t->read_fits_mem(buf.data(),buf.size()); st<<" rmem="<<r; dump_table(*t,pre+".rmem"); delete t; }
      catch(std::exception& e){ spit_err(pre+".rmem", e.what()); st<<" rmem=EXC"; } }
    // C wrappers
    { struct splinetable cst; cst.data=NULL; int rc=readsplinefitstable(ff.c_str(),&cst); st<<" crfile="<<rc;
      if(rc==0){ dump_table(*static_cast<ST*>(cst.data), pre+".crfile"); splinetable_free(&cst); } else spit_err(pre+".crfile","rc"); }
    { std::vector<char> buf; slurp(ff,buf);
      struct splinetable cst; cst.data=NULL; struct splinetable_buffer b; b.data=buf.data(); b.size=buf.size();
      int rc=readsplinefitstable_mem(&b,&cst); st<<" crmem="<<rc;
      if(rc==0){ dump_table(*static_cast<ST*>(cst.data), pre+".crmem"); splinetable_free(&cst); } else spit_err(pre+".crmem","rc"); }
    indep_read(ff, pre+".indep");
    st<<" ok";
    std::cout<<st.str()<<std::endl;
  }
  return 0;
}

int main(int argc,char** argv){
  if(argc<3){ fprintf(stderr,"usage: C06_harness w|r listfile\n"); return 2; }
  if(argv[1][0]=='w') return mode_w(argv[2]);
  return mode_r(argv[2]);
}
