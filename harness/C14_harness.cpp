// C14_harness.cpp — implementation side of the correspondence for C14 (splinetable::convolve and the C wrapper
// splinetable_convolve). Case format (tools/props/C14.py):
//   T <ndim> <pad hex64>
//   D <order> <nknots> <knot hex64>...              (ndim lines)
//   C <ncoef> <coef hex32>...
//   E <lo hex64> <hi hex64> ...                     (optional: extents per dimension; default = fully supported range)
//   V <id> <dim> <n> <kernel knot hex64>*n [c]      (rebuild the table from T/D/C/E, convolve; trailing "c" = through the C wrapper)
//   Q <id> X <hex64>*ndim                           (evaluate the table produced by the last V)
//   U <id> <n>                                      (photospline::factorial(n))
// One output line per V/Q/U: "<id> key=value ...".
#include "verif_common.h"
#include <photospline/cinter/splinetable.h>
#include <photospline/detail/convolve.h>

template<typename T, typename F>
static std::string join(const T* p, size_t n, F f){ std::string s; for(size_t i=0;i<n;i++){ if(i) s+=","; s+=f(p[i]); } return s; }

int main(int argc,char** argv){
  if(argc<2){ fprintf(stderr,"usage: C14_harness cases [skip]\n"); return 2; }
  std::ifstream in(argv[1]);
  long skip = argc>2? atol(argv[2]) : 0;
  std::string line;
  std::unique_ptr<ST> tab;
  std::vector<uint32_t> ord; std::vector<std::vector<double>> kn; std::vector<float> co; std::vector<double> ext; double pad=0; uint32_t nd=0;
  long qn=0;
  while(std::getline(in,line)){
    auto tk=split_ws(line); if(tk.empty()) continue;
    if(tk[0]=="T"){ nd=atoi(tk[1].c_str()); pad=dfrom(parse_hex(tk[2])); ord.clear(); kn.clear(); co.clear(); ext.clear(); tab.reset(); }
    else if(tk[0]=="D"){ ord.push_back(atoi(tk[1].c_str())); std::vector<double> k; for(size_t i=3;i<tk.size();i++) k.push_back(dfrom(parse_hex(tk[i]))); kn.push_back(k); }
    else if(tk[0]=="C"){ co.clear(); for(size_t i=2;i<tk.size();i++) co.push_back(ffrom((uint32_t)parse_hex(tk[i]))); }
    else if(tk[0]=="E"){ ext.clear(); for(size_t i=1;i<tk.size();i++) ext.push_back(dfrom(parse_hex(tk[i]))); }
    else if(tk[0]=="U"){
      if(qn++ < skip) continue;
      fprintf(stderr,"@%s\n",tk[1].c_str()); fflush(stderr);
      unsigned n=atoi(tk[2].c_str());
      printf("%s factorial=%u\n",tk[1].c_str(),photospline::factorial(n)); fflush(stdout);
    }
    else if(tk[0]=="V"){
      bool silent = (qn++ < skip);   // the table is still needed by later Q lines: rebuild and convolve silently
      if(!silent){ fprintf(stderr,"@%s\n",tk[1].c_str()); fflush(stderr); }
      uint32_t dim=atoi(tk[2].c_str()); size_t n=atoi(tk[3].c_str());
      std::vector<double> kk; for(size_t i=0;i<n;i++) kk.push_back(dfrom(parse_hex(tk[4+i])));
      bool via_c = tk.size()>4+n && tk[4+n]=="c";
      tab.reset(new ST()); build_table(*tab,ord,kn,co,pad);
      if(ext.size()==2*nd) for(uint32_t i=0;i<nd;i++){ tab->extents[i][0]=ext[2*i]; tab->extents[i][1]=ext[2*i+1]; }
      std::string status="ok";
      try{
        if(via_c){ struct splinetable ct; ct.data=(void*)tab.get(); int rc=splinetable_convolve(&ct,(int)dim,kk.data(),n); if(rc!=0) status="rc"+std::to_string(rc); }
        else tab->convolve(dim,kk.data(),n);
      }catch(std::exception& e){ status="throw"; }
      if(silent) continue;
      const ST& t=*tab;
      std::ostringstream os; os<<tk[1]<<" status="<<status<<" ndim="<<t.ndim;
      os<<" order="<<join(t.order,t.ndim,[](uint32_t v){return std::to_string(v);});
      os<<" nknots="<<join(t.nknots,t.ndim,[](uint64_t v){return std::to_string(v);});
      os<<" naxes="<<join(t.naxes,t.ndim,[](uint64_t v){return std::to_string(v);});
      os<<" strides="<<join(t.strides,t.ndim,[](uint64_t v){return std::to_string(v);});
      for(uint32_t i=0;i<t.ndim;i++){
        os<<" ext."<<i<<"="<<hexd(t.extents[i][0])<<","<<hexd(t.extents[i][1]);
        os<<" knots."<<i<<"="<<join(&t.knots[i][0],t.nknots[i],[](double v){return hexd(v);});
      }
      uint64_t nc=t.naxes[0]*t.strides[0];
      os<<" ncoef="<<nc<<" coef="<<join(t.coefficients,nc,[](float v){return hexf(v);});
      puts(os.str().c_str()); fflush(stdout);
    }
    else if(tk[0]=="Q"){
      if(qn++ < skip) continue;
      fprintf(stderr,"@%s\n",tk[1].c_str()); fflush(stderr);
      std::vector<double> x; for(size_t i=3;i<tk.size();i++) x.push_back(dfrom(parse_hex(tk[i])));
      const ST& t=*tab;
      std::vector<int> c(nd+2,-777);
      bool ok=t.searchcenters(x.data(),c.data());
      std::ostringstream os; os<<tk[1]<<" sc="<<(ok?1:0);
      if(ok){
        os<<" f="<<hexd(t.ndsplineeval<float>(x.data(),c.data(),0));
        os<<" d="<<hexd(t.ndsplineeval<double>(x.data(),c.data(),0));
        struct splinetable ct; ct.data=(void*)tab.get();
        os<<" c="<<hexd(ndsplineeval(&ct,x.data(),c.data(),0));
      }
      puts(os.str().c_str()); fflush(stdout);
    }
  }
  return 0;
}
