// C13_bigfit.cpp — valid, larger fits (incl. monotone ones, which drive the NNLS solver's factor updates) in the checked
// build: "fitting either completes or throws; it never reads or writes out of bounds" for VALID arguments too.
// usage: C13_bigfit seed n0 n1 n2 kind smoothing monodim(-1 = none)    prints "ok ncoef <n>"
#include <cstdio>
#include <vector>
#include <random>
#include <cmath>
#include <photospline/splinetable.h>
using namespace photospline;
int main(int argc,char**argv){
  unsigned seed= argc>1? atoi(argv[1]):1; std::mt19937 rng(seed); std::uniform_real_distribution<double> U(0,1);
  std::vector<size_t> n={(size_t)(argc>2?atoi(argv[2]):9),(size_t)(argc>3?atoi(argv[3]):8),(size_t)(argc>4?atoi(argv[4]):7)}; uint32_t order=2; int kind=argc>5?atoi(argv[5]):0; double smv=argc>6?atof(argv[6]):1e-3; int md=argc>7?atoi(argv[7]):1; uint32_t mdarg = md<0 ? splinetable<>::no_monodim : (uint32_t)md; if(md<0) md=0;
  std::vector<std::vector<double>> coords(3), knots(3);
  for(int d=0;d<3;d++){ for(size_t i=0;i<n[d];i++) coords[d].push_back(i+0.5); for(int i=-(int)order;i<(int)n[d]-1+ (int)order+2 - (int)order;i++) knots[d].push_back(i*1.0+0.0); }
  // knots: from -order .. enough
  for(int d=0;d<3;d++){ knots[d].clear(); for(int i=-(int)order; i<=(int)n[d]+ (int)order -2; i++) knots[d].push_back(i*1.3); }
  std::vector<double> vals, w; std::vector<std::vector<unsigned>> ids;
  std::vector<unsigned> idx(3);
  for(idx[0]=0;idx[0]<n[0];idx[0]++)for(idx[1]=0;idx[1]<n[1];idx[1]++)for(idx[2]=0;idx[2]<n[2];idx[2]++){
    double v= kind==0? 10-1.0*idx[1]+3*U(rng)+0.3*idx[0] : kind==1? 5*sin(1.7*idx[md])+U(rng) : (U(rng)<0.5? 10*U(rng): -3.0*idx[md]);
    if(kind==3 && U(rng)<0.4 && !(idx[0]==n[0]-1 && idx[1]==n[1]-1 && idx[2]==n[2]-1)) continue;   // data-free cells (the last cell is kept: it carries the maximal indices)
    vals.push_back(v); ids.push_back(idx); w.push_back(1.0);}
  photospline::ndsparse data(vals.size(),3);
  for(size_t e=0;e<vals.size();e++) data.insertEntry(vals[e],&ids[e][0]);
  std::vector<uint32_t> ords(3,order); std::vector<double> sm(1,smv); std::vector<uint32_t> po(1,2);
  splinetable<> t; t.fit(data,w,coords,ords,knots,sm,po,mdarg,false);
  printf("ok ncoef %lu\n",(unsigned long)t.get_ncoeffs());
}
