// C07_harness.cpp — implementation side of property C07 (reading any bytes fails cleanly or yields a safe table).
//   C07_harness <listfile> <validfile> <startfile> <startentry>
// listfile: lines "id path dumpout". For every file, five entry points are exercised in turn:
//   0 rfile  : splinetable<>::read_fits(path)            on a default-constructed object
//   1 rmem   : splinetable<>::read_fits_mem(bytes)
//   2 ctor   : splinetable<>(path)
//   3 crfile : C readsplinefitstable(path, &cst)
//   4 crmem  : C readsplinefitstable_mem(&buf, &cst)
// On success the BATTERY runs on whatever was loaded: dump (exact comparison with the model is done by the caller), lookup and all
// evaluations at boundary points, == with itself, re-serialise (write_fits_mem), re-read, compare dumps, destroy.
// On failure: is the object empty (ndim == 0)?  is it reusable (a second read of <validfile> into the SAME object must succeed and
// compare == to the reference)?  is it destructible?
// One status line per (file, entry) on stdout. Before every step "@<fileindex> <entry> <id> <step>" goes to stderr so that the
// caller can attribute a sanitizer abort / signal / timeout to the step and restart after it.
#include "verif_common.h"
#include <cfloat>
#include <photospline/cinter/splinetable.h>
#include <signal.h>
#include <unistd.h>
#include <new>

// Allocation cap: a request above 1 GiB fails with std::bad_alloc, as it would on a machine that cannot serve it. (ASan's own
// operator new aborts the process on such a request instead of throwing, which would hide what the library does next.)
static const size_t ALLOC_CAP = (size_t)1 << 30;
static void* capped(size_t n){ if(n>ALLOC_CAP) throw std::bad_alloc(); void* p=malloc(n?n:1); if(!p) throw std::bad_alloc(); return p; }
void* operator new(size_t n){ return capped(n); }
void* operator new[](size_t n){ return capped(n); }
void operator delete(void* p) noexcept { free(p); }
void operator delete[](void* p) noexcept { free(p); }
void operator delete(void* p, size_t) noexcept { free(p); }
void operator delete[](void* p, size_t) noexcept { free(p); }

static std::string hexstr(const std::string& s){ if(s.empty()) return "-"; std::string o; char b[4];
  for(unsigned char c: s){ snprintf(b,sizeof b,"%02x",c); o+=b; } return o; }

static std::string dump_table(const ST& t, bool with_aux=true){
  std::ostringstream os;
  os<<"ndim "<<t.ndim<<"\n";
  if(t.ndim==0){ os<<"end\n"; return os.str(); }
  os<<"order"; for(uint32_t i=0;i<t.ndim;i++) os<<" "<<t.order[i]; os<<"\n";
  os<<"naxes"; for(uint32_t i=0;i<t.ndim;i++) os<<" "<<t.naxes[i]; os<<"\n";
  os<<"strides"; for(uint32_t i=0;i<t.ndim;i++) os<<" "<<t.strides[i]; os<<"\n";
  os<<"nknots"; for(uint32_t i=0;i<t.ndim;i++) os<<" "<<t.nknots[i]; os<<"\n";
  for(uint32_t i=0;i<t.ndim;i++){ os<<"knots "<<i; for(uint64_t k=0;k<t.nknots[i];k++) os<<" "<<hexd(t.knots[i][k]); os<<"\n"; }
  uint64_t n=t.strides[0]*t.naxes[0];
  os<<"coef"; for(uint64_t k=0;k<n;k++) os<<" "<<hexf(t.coefficients[k]); os<<"\n";
  if(t.extents){ os<<"extents"; for(uint32_t i=0;i<2*t.ndim;i++) os<<" "<<hexd(t.extents[0][i]); os<<"\n"; }
  else os<<"extents none\n";
  if(with_aux) os<<"naux "<<t.naux<<"\n";
  for(uint32_t i=0;with_aux && i<t.naux;i++) os<<"aux "<<hexstr(&t.aux[i][0][0])<<" "<<hexstr(&t.aux[i][1][0])<<"\n";
  os<<"end\n";
  return os.str();
}

static bool slurp(const std::string& path, std::vector<char>& buf){
  std::ifstream f(path, std::ios::binary); if(!f) return false;
  buf.assign(std::istreambuf_iterator<char>(f), std::istreambuf_iterator<char>()); return true; }

static long g_file=0; static int g_entry=0; static std::string g_id;
static void step(const char* s){ fprintf(stderr,"@%ld %d %s %s\n",g_file,g_entry,g_id.c_str(),s); fflush(stderr); alarm(20); }
static void on_alarm(int){ const char m[]="\nC07-TIMEOUT\n"; ssize_t r=write(2,m,sizeof m-1); (void)r; _exit(77); }

static std::string oneline(const char* w){ std::string s(w); for(char& c: s) if(c=='\n'||c=='\r') c=' '; if(s.size()>160) s.resize(160); return s; }

// candidate coordinates of one dimension: knot-vector boundaries, extents, their neighbours, and the special values
static std::vector<double> candidates(const ST& t, uint32_t d){
  std::vector<double> c;
  uint64_t nk=t.nknots[d], o=t.order[d];
  uint64_t idx[6]={0,o,nk>o+1?nk-o-1:0,nk-1,nk/2,o+1};
  for(int j=0;j<6;j++) if(idx[j]<nk){ double v=t.knots[d][idx[j]]; c.push_back(v); c.push_back(std::nextafter(v,-INFINITY)); c.push_back(std::nextafter(v,INFINITY)); }
  if(t.extents){ double lo=t.extents[d][0], hi=t.extents[d][1]; c.push_back(lo); c.push_back(hi); c.push_back(lo+(hi-lo)/2); }
  c.push_back(0.0); c.push_back(-INFINITY); c.push_back(INFINITY); c.push_back(NAN); c.push_back(-1e300); c.push_back(1e300);
  // far ends of the double range (differences with knots of the other sign overflow) and points inside the fully supported range
  // computed without overflow
  c.push_back(1e308); c.push_back(-1e308); c.push_back(1.7e308); c.push_back(-1.7e308); c.push_back(DBL_MAX); c.push_back(-DBL_MAX); c.push_back(5e-324);
  if(nk>2*o+1){ double a=t.knots[d][o], b=t.knots[d][nk-o-1]; c.push_back(a/2+b/2); c.push_back(a/4+3*(b/4)); c.push_back(3*(a/4)+b/4); }
  return c;
}

// lookup + every evaluation entry point at boundary points. Returns "points/found/exceptions/xorhash".
static std::string eval_battery(const ST& t){
  uint32_t nd=t.ndim; std::vector<std::vector<double>> cand(nd);
  size_t most=0; for(uint32_t d=0;d<nd;d++){ cand[d]=candidates(t,d); most=std::max(most,cand[d].size()); }
  uint64_t lcg=88172645463325252ULL; unsigned npts=0,found=0,exc=0; uint64_t h=0;
  std::vector<double> x(nd), grad(nd+1); std::vector<int> cen(nd); std::vector<unsigned> der(nd);
  for(size_t p=0;p<most+12;p++){
    for(uint32_t d=0;d<nd;d++){
      size_t j = p<most ? p%cand[d].size() : (size_t)((lcg=lcg*6364136223846793005ULL+1442695040888963407ULL)>>33)%cand[d].size();
      x[d]=cand[d][j]; }
    npts++;
    try{
      bool ok=t.searchcenters(x.data(),cen.data());
      if(ok){
        found++;
        h^=dbits(t.ndsplineeval(x.data(),cen.data(),0));
        for(uint32_t d=0;d<nd && d<31;d++) h^=dbits(t.ndsplineeval(x.data(),cen.data(),1<<d))+d;
        for(uint32_t d=0;d<nd;d++) der[d]= d==p%nd ? 2 : (d==(p+1)%nd ? 1 : 0);
        h^=dbits(t.ndsplineeval_deriv(x.data(),cen.data(),der.data()));
        try{ t.ndsplineeval_gradient(x.data(),cen.data(),grad.data()); for(uint32_t d=0;d<=nd;d++) h^=dbits(grad[d])+17*d; }
        catch(std::exception&){ if(nd+1<=PHOTOSPLINE_MAXDIM) exc++; }
      }
      h^=dbits(t(x.data()));
    }catch(std::exception&){ exc++; }
  }
  std::ostringstream os; os<<npts<<"/"<<found<<"/"<<exc; return os.str();
}

static ST* g_ref=NULL; static std::vector<char> g_refbytes; static std::string g_refpath, g_refdump;

// the battery on a loaded table; returns the status text. dumpout: where to write the dump ("" = do not write)
static std::string battery(ST& t, const std::string& dumpout, std::string& dump){
  std::ostringstream st;
  step("dump"); dump=dump_table(t);
  if(!dumpout.empty()){ std::ofstream f(dumpout); f<<dump; }
  st<<" dumphash="<<std::hash<std::string>()(dump);
  step("eval"); st<<" eval="<<eval_battery(t);
  step("selfeq"); st<<" selfeq="<<(t==t)<<" selfne="<<(t!=t);
  step("reserialise");
  try{
    auto r=t.write_fits_mem();
    step("reread");
    try{ ST t2; bool ok=t2.read_fits_mem(r.first,r.second); std::string d2=dump_table(t2,false);   // auxiliary keys: their round trip (blank padding, odd characters) is C06/C16's subject
         st<<" reread="<<ok<<" redump="<<(d2==dump_table(t,false))<<" req="<<(t2==t); step("reread-destroy"); }
    catch(std::exception& e){ st<<" reread=EXC("<<oneline(e.what())<<")"; }
    free(r.first);
  }catch(std::exception& e){ st<<" reser=EXC("<<oneline(e.what())<<")"; }
  return st.str();
}

static bool g_destroyed_nonempty=false;

// after a failed read into *t: empty? reusable? destructible?
static std::string after_failure(ST* t, bool mem){
  std::ostringstream st;
  bool empty = t->ndim==0;
  st<<" empty="<<empty;
  if(empty){
    step("reuse");
    try{ bool ok = mem ? t->read_fits_mem(g_refbytes.data(),g_refbytes.size()) : t->read_fits(g_refpath);
         st<<" reuse="<<ok<<" reuse_eq="<<((*t)==(*g_ref))<<" reuse_dump="<<(dump_table(*t)==g_refdump); }
    catch(std::exception& e){ st<<" reuse=EXC("<<oneline(e.what())<<")"; }
    step("destroy"); delete t; st<<" destroyed=1";
  } else if(!g_destroyed_nonempty){
    // a failed read left ndim != 0: the destructor is expected to be safe all the same; try it once per process (it usually is not)
    g_destroyed_nonempty=true; std::cout<<std::flush; step("destroy-nonempty"); delete t; st<<" destroyed=1";
  } else st<<" destroyed=skipped";
  return st.str();
}

int main(int argc,char** argv){
  if(argc<5){ fprintf(stderr,"usage: C07_harness list validfile startfile startentry\n"); return 2; }
  signal(SIGALRM,on_alarm);
  g_refpath=argv[2]; long startfile=atol(argv[3]); int startentry=atoi(argv[4]);
  g_id="<startup>"; g_file=-1; step("reference");
  // the reference is a valid file: if the library refuses it, say so once and go on without it (every reuse test then fails with the
  // same exception, and the caller reports the rejected valid file)
  g_ref=new ST(); slurp(g_refpath,g_refbytes);
  try{ g_ref->read_fits(g_refpath); g_refdump=dump_table(*g_ref); }
  catch(std::exception& e){ std::cout<<"<reference> rfile FAIL msg="<<hexstr(oneline(e.what()))<<std::endl; g_ref=new ST(); g_refdump="<none>"; }
  std::ifstream in(argv[1]); std::string line; long fi=-1;
  while(std::getline(in,line)){
    auto w=split_ws(line); if(w.size()<3) continue;
    fi++; if(fi<startfile) continue;
    g_file=fi; g_id=w[0]; const std::string path=w[1], dumpout=w[2];
    std::vector<char> bytes; slurp(path,bytes);
    bool dumped=false;
    for(int e=(fi==startfile?startentry:0); e<5; e++){
      g_entry=e; std::ostringstream st; std::string dump;
      static const char* names[5]={"rfile","rmem","ctor","crfile","crmem"};
      st<<g_id<<" "<<names[e];
      if(e==0||e==1){
        step("read"); ST* t=new ST(); bool ok=false, thrown=false;
        try{ ok = e==0 ? t->read_fits(path) : t->read_fits_mem(bytes.data(),bytes.size()); }
        catch(std::exception& ex){ thrown=true; st<<" FAIL msg="<<hexstr(oneline(ex.what())); }
        if(!thrown){ st<<" OK ret="<<ok<<battery(*t, dumped?"":dumpout, dump); dumped=true; step("destroy"); delete t; st<<" destroyed=1"; }
        else st<<after_failure(t,e==1);
      } else if(e==2){
        step("read");
        try{ ST t(path); st<<" OK ret=1"<<battery(t, dumped?"":dumpout, dump); dumped=true; step("destroy"); }
        catch(std::exception& ex){ st<<" FAIL msg="<<hexstr(oneline(ex.what()))<<" empty=NA"; }
      } else {
        step("read"); struct splinetable cst; cst.data=NULL; int rc;
        struct splinetable_buffer b; b.data=bytes.data(); b.size=bytes.size();
        if(e==3) rc=readsplinefitstable(path.c_str(),&cst); else rc=bytes.empty()?1:readsplinefitstable_mem(&b,&cst);
        if(rc==0){ st<<" OK ret=1"<<battery(*static_cast<ST*>(cst.data), dumped?"":dumpout, dump); dumped=true; step("destroy"); splinetable_free(&cst); st<<" destroyed=1"; }
        else{
          st<<" FAIL rc="<<rc;
          bool empty = cst.data==NULL || static_cast<ST*>(cst.data)->ndim==0;
          st<<" empty="<<empty;
          if(empty){
            step("reuse"); struct splinetable_buffer rb; rb.data=g_refbytes.data(); rb.size=g_refbytes.size();
            int rc2 = e==3 ? readsplinefitstable(g_refpath.c_str(),&cst) : readsplinefitstable_mem(&rb,&cst);
            st<<" reuse="<<(rc2==0);
            if(rc2==0) st<<" reuse_eq="<<(*static_cast<ST*>(cst.data)==*g_ref)<<" reuse_dump="<<(dump_table(*static_cast<ST*>(cst.data))==g_refdump);
            step("destroy"); if(cst.data) splinetable_free(&cst); st<<" destroyed=1";
          } else if(!g_destroyed_nonempty){ g_destroyed_nonempty=true; step("destroy-nonempty"); splinetable_free(&cst); st<<" destroyed=1"; }
          else st<<" destroyed=skipped";
        }
      }
      alarm(0);
      std::cout<<st.str()<<std::endl;
    }
  }
  g_id="<exit>"; g_file=fi+1; g_entry=0; step("exit");
  alarm(0);
  return 0;
}
