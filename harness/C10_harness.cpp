// C10_harness.cpp — runs the REAL monotone fit (C++ splinetable::fit(..., monodim)) on exactly described small
// problems and dumps
//   (a) the normal system (T-spline basis, penalty included) that glamfit_complex hands to nnls_normal_block3, and the
//       increment vector the REAL nnls_normal_block3 returns for it (captured with the linker's --wrap=nnls_normal_block3:
//       no source change in the library; the solver is run with verbose=1 so that its own trace tells a max_iter exit),
//   (b) the float coefficients of the monotone fit (after the cumulative-sum back-transformation of glamfit_complex),
//   (c) the float coefficients of the unconstrained fit of the same data and its normal system (B-spline basis; --wrap=cholesky_solve),
//   (c') for ndim >= 2 the penalty matrix of every dimension with non-zero smoothing, in the B-basis and as built for the monotone fit
//        (calc_penalty called directly without / with the monotonic dimension),
//   (d) real ndsplineeval of the monotone table with the derivative bit of monodim (and the plain value) at given points.
//
// input (whitespace separated tokens; doubles as 16-digit hex bit patterns):
//   case <id> <ndim> <monodim> <flags>       flags bit0: skip the unconstrained fit
//   per dim:  <order> <porder> <smooth> <nknots> <knots...> <npts> <coords...>
//   <rows>  then per row: <i_0> .. <i_{ndim-1}> <value> <weight>
//   <neval> then per point: <x_0> .. <x_{ndim-1}>
// output: every line starts with a tag; BEGIN/END lines are flushed so that the driver can tell which case hung
// (walk_descents can lose a wake-up: D7/C12, not C10's subject).
#include "verif_common.h"
#include <photospline/detail/glam.h>
#include <photospline/detail/splineutil.h>

extern "C" {
cholmod_dense* __real_nnls_normal_block3(cholmod_sparse* AtA, cholmod_dense* Atb, int verbose, cholmod_common* c);
cholmod_dense* __real_cholesky_solve(cholmod_sparse* AtA, cholmod_dense* Atb, cholmod_common* c, int verbose, int n_resolves);
cholmod_sparse* calc_penalty(uint64_t* nsplines, double* knots, uint32_t ndim, uint32_t i, uint32_t order, uint32_t porder, uint32_t monodim, cholmod_common* c);
}

static void dump_sparse(const char* tag, cholmod_sparse* S, cholmod_common* c){
  cholmod_sparse* U = (S->stype!=0) ? cholmod_l_copy(S,0,1,c) : S;
  cholmod_dense* D = cholmod_l_sparse_to_dense(U,c);
  printf("%s %zu %zu", tag, (size_t)D->nrow, (size_t)D->ncol);
  for(size_t i=0;i<D->nrow;i++) for(size_t j=0;j<D->ncol;j++) printf(" %s", hexd(((double*)D->x)[j*D->d+i]).c_str());
  printf("\n");
  cholmod_l_free_dense(&D,c);
  if(U!=S) cholmod_l_free_sparse(&U,c);
}

static int g_calls=0;
extern "C" cholmod_dense* __wrap_nnls_normal_block3(cholmod_sparse* AtA, cholmod_dense* Atb, int verbose, cholmod_common* c){
  g_calls++;
  dump_sparse("nnls.A", AtA, c);
  printf("nnls.r %zu", (size_t)Atb->nrow);
  for(size_t i=0;i<Atb->nrow;i++) printf(" %s", hexd(((double*)Atb->x)[i]).c_str());
  printf("\nnnls.trace.begin\n"); fflush(stdout);
  cholmod_dense* x = __real_nnls_normal_block3(AtA,Atb,1,c);
  fflush(stdout);
  printf("\nnnls.trace.end\n");
  if(x){
    printf("nnls.x %zu", (size_t)x->nrow);
    for(size_t i=0;i<x->nrow;i++) printf(" %s", hexd(((double*)x->x)[i]).c_str());
    printf("\n");
  } else printf("nnls.x NULL\n");
  return x;
}

// the B-spline-basis normal system of the unconstrained fit (only while g_free_phase is set: cholesky_solve has other callers)
static int g_free_phase=0;
extern "C" cholmod_dense* __wrap_cholesky_solve(cholmod_sparse* AtA, cholmod_dense* Atb, cholmod_common* c, int verbose, int n_resolves){
  if(g_free_phase){
    dump_sparse("free.A", AtA, c);
    printf("free.r %zu", (size_t)Atb->nrow);
    for(size_t i=0;i<Atb->nrow;i++) printf(" %s", hexd(((double*)Atb->x)[i]).c_str());
    printf("\n");
  }
  return __real_cholesky_solve(AtA,Atb,c,verbose,n_resolves);
}

static double rdd(){ char b[64]; if(scanf("%63s",b)!=1) exit(3); return dfrom(strtoull(b,nullptr,16)); }
static long rdi(){ long v; if(scanf("%ld",&v)!=1) exit(3); return v; }

struct Dim { uint32_t order, porder; double smooth; std::vector<double> knots, coords; };

int main(){
  char word[64];
  while(scanf("%63s",word)==1){
    if(strcmp(word,"case")!=0){ fprintf(stderr,"bad token %s\n",word); return 2; }
    char id[64]; if(scanf("%63s",id)!=1) return 3;
    uint32_t ndim=rdi(); uint32_t monodim=rdi(); int flags=rdi();
    std::vector<Dim> dims(ndim);
    for(auto& d: dims){
      d.order=rdi(); d.porder=rdi(); d.smooth=rdd();
      size_t nk=rdi(); d.knots.resize(nk); for(auto& k: d.knots) k=rdd();
      size_t np=rdi(); d.coords.resize(np); for(auto& x: d.coords) x=rdd();
    }
    size_t rows=rdi();
    std::vector<std::vector<unsigned>> idx(rows,std::vector<unsigned>(ndim));
    std::vector<double> val(rows), wt(rows);
    for(size_t r=0;r<rows;r++){ for(uint32_t k=0;k<ndim;k++) idx[r][k]=rdi(); val[r]=rdd(); wt[r]=rdd(); }
    size_t neval=rdi();
    std::vector<std::vector<double>> pts(neval,std::vector<double>(ndim));
    for(auto& p: pts) for(auto& x: p) x=rdd();
    printf("BEGIN %s\n",id); fflush(stdout);
    std::vector<uint32_t> orders, porders; std::vector<double> smooth; std::vector<std::vector<double>> knots, coords;
    for(auto& d: dims){ orders.push_back(d.order); porders.push_back(d.porder); smooth.push_back(d.smooth); knots.push_back(d.knots); coords.push_back(d.coords); }
    size_t ncoef=1; for(auto& d: dims) ncoef*=d.knots.size()-d.order-1;
    auto make_data=[&](photospline::ndsparse& data){
      for(size_t r=0;r<rows;r++){ data.x[r]=val[r]; for(uint32_t k=0;k<ndim;k++) data.i[k][r]=idx[r][k]; }
      for(uint32_t k=0;k<ndim;k++) data.ranges[k]=dims[k].coords.size();
      data.entriesInserted=rows;
    };
    // monotone fit
    {
      photospline::ndsparse data(rows,ndim); make_data(data);
      ST t;
      g_calls=0;
      try{
        t.fit(data,wt,coords,orders,knots,smooth,porders,monodim,false);
        printf("mono.calls %d\n",g_calls);
        printf("mono.coef 0 %zu",ncoef);
        for(size_t i=0;i<ncoef;i++) printf(" %s",hexf(t.coefficients[i]).c_str());
        printf("\n");
        printf("mono.naxes"); for(uint32_t k=0;k<ndim;k++) printf(" %llu",(unsigned long long)t.naxes[k]); printf("\n");
        for(size_t e=0;e<neval;e++){
          std::vector<int> centers(ndim);
          if(!t.searchcenters(pts[e].data(),centers.data())){ printf("eval %zu out\n",e); continue; }
          double dv=t.ndsplineeval(pts[e].data(),centers.data(),1<<monodim);
          double v=t.ndsplineeval(pts[e].data(),centers.data(),0);
          printf("eval %zu ok %s %s\n",e,hexd(dv).c_str(),hexd(v).c_str());
        }
      }catch(std::exception& e){ printf("mono.coef 1 0 # %s\n",e.what()); }
    }
    fflush(stdout);
    // unconstrained fit of the same data
    if(!(flags&1)){
      photospline::ndsparse data(rows,ndim); make_data(data);
      ST t;
      try{
        g_free_phase=1;
        t.fit(data,wt,coords,orders,knots,smooth,porders,ST::no_monodim,false);
        g_free_phase=0;
        printf("free.coef 0 %zu",ncoef);
        for(size_t i=0;i<ncoef;i++) printf(" %s",hexf(t.coefficients[i]).c_str());
        printf("\n");
      }catch(std::exception& e){ g_free_phase=0; printf("free.coef 1 0 # %s\n",e.what()); }
    }
    // the per-dimension penalty matrices (calc_penalty called directly) for ndim >= 2, every dimension with non-zero smoothing:
    //   pen.k  in the B-spline basis (no monotonic dimension), penT.k as the monotone fit builds it (monodim given):
    // the driver checks penT.k == (L' in the monodim slot) pen.k (L in the monodim slot) term by term, and uses pen.k to tell the
    // signature of the old defect D28 (other dimensions' terms left in the B-basis) from any other disagreement
    if(ndim>=2 && !(flags&1)){
      cholmod_common cc; cholmod_l_start(&cc);
      std::vector<uint64_t> nspl; for(auto& d: dims) nspl.push_back(d.knots.size()-d.order-1);
      for(uint32_t k=0;k<ndim;k++){
        if(dims[k].smooth==0.0) continue;
        std::vector<double> kn(dims[k].knots);
        char tag[32];
        cholmod_sparse* P=calc_penalty(nspl.data(),kn.data(),ndim,k,dims[k].order,dims[k].porder,PHOTOSPLINE_GLAM_NO_MONODIM,&cc);
        snprintf(tag,sizeof tag,"pen.%u",k); dump_sparse(tag,P,&cc);
        cholmod_l_free_sparse(&P,&cc);
        P=calc_penalty(nspl.data(),kn.data(),ndim,k,dims[k].order,dims[k].porder,monodim,&cc);
        snprintf(tag,sizeof tag,"penT.%u",k); dump_sparse(tag,P,&cc);
        cholmod_l_free_sparse(&P,&cc);
      }
      cholmod_l_finish(&cc);
    }
    printf("END %s\n",id);
    fflush(stdout);
  }
  return 0;
}
