/* control interface of the deterministic scheduler (harness/C12_sched.cpp) */
#ifndef C12_SCHED_H
#define C12_SCHED_H
#ifdef __cplusplus
extern "C" {
#endif
/* the calling thread becomes thread 0; on_fail(message) is called (then the process _exits) on DEADLOCK /
 * DIVERGE / MISUSE; message = "<WHAT> <thread states> | <trace so far>" */
void verif_sched_load(const int *sched, int n, void (*on_fail)(const char *));
void verif_sched_unload(void);
/* trace of performed steps "tid:K" K in C<k> L U W R B S J<tid> X(spurious) ; returns number of steps */
int verif_sched_trace(char *buf, int cap);
long verif_sched_forced_steps(void);
long verif_sched_consumed(void);
#ifdef __cplusplus
}
#endif
#endif
