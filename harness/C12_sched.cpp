// C12_sched.cpp — deterministic cooperative scheduler behind hook H1 (photospline_verif_sched.h).
//
// Real threads, but while a schedule is loaded only ONE thread runs at a time: every thread parks inside
// the wrapper of each pthread call ("synchronisation point") and proceeds only when the scheduler grants
// it the next step; the scheduler decides only when every live thread is parked (or has exited).
// A granted step = perform the pending pthread operation, then run on to the next pthread call.
// pthread_cond_wait is two steps: WAIT (release the mutex, join the waiter set) and REACQ (after a
// broadcast/signal/forced spurious wake-up, when the mutex is free).  The scheduler implements the
// mutex/condvar semantics itself (POSIX, no implicit spurious wake-ups), so it knows which threads are
// enabled: all parked and none enabled = DEADLOCK.
//
// Schedule entries: t >= 0: thread t (0 = the thread that loaded the schedule = coordinator, k+1 = the
// k-th created thread) performs its pending step; 1000+t: spurious wake-up of thread t (no thread runs).
// When the schedule is exhausted the lowest-numbered enabled thread runs (default policy), so prefixes
// are legal schedules.  One mutex and one condition variable are supported (all walk_descents uses).
#define PHOTOSPLINE_VERIF_SCHED_IMPL
#include "photospline_verif_sched.h"
#include "C12_sched.h"
#include <mutex>
#include <condition_variable>
#include <vector>
#include <string>
#include <cstdio>
#include <cstdlib>
#include <unistd.h>

namespace {
enum Kind { K_NONE = 0, K_CREATE, K_LOCK, K_UNLOCK, K_WAIT, K_REACQ, K_BCAST, K_SIGNAL, K_JOIN };
const char KCH[] = { '?', 'C', 'L', 'U', 'W', 'R', 'B', 'S', 'J' };
const int MAXT = 80;
struct Th {
	bool exists = false, exited = false, parked = false, cvwaiting = false, woken = false;
	int kind = K_NONE, arg = -1;
	pthread_t real;
};
std::mutex G;
std::condition_variable CV;
Th th[MAXT];
int nth = 0, running = 0, granted = -1, owner = -1;
bool active = false;
std::vector<int> sched;
size_t pos = 0;
std::vector<std::string> trace;
void (*fail_cb)(const char *) = nullptr;
thread_local int my_tid = -1;
pthread_mutex_t *the_mutex = nullptr;
long forced_steps = 0, free_steps = 0;

bool enabled(int t)
{
	Th &x = th[t];
	if (!x.exists || x.exited || !x.parked) return false;
	switch (x.kind) {
	case K_LOCK: return owner == -1;
	case K_REACQ: return x.woken && owner == -1;
	case K_JOIN: return th[x.arg].exited;
	default: return true;
	}
}

std::string describe()
{
	std::string s;
	char buf[96];
	for (int t = 0; t < nth; t++) {
		Th &x = th[t];
		snprintf(buf, sizeof buf, " %d:%s%c%s", t, x.exited ? "exited" : x.parked ? "" : "running",
		    (x.exited || !x.parked) ? ' ' : KCH[x.kind], (!x.exited && x.parked && !enabled(t)) ? "(blocked)" : "");
		s += buf;
	}
	snprintf(buf, sizeof buf, " owner=%d pos=%zu/%zu", owner, pos, sched.size());
	s += buf;
	return s;
}

void fail(const char *what)
{
	std::string msg = std::string(what) + describe() + " |";
	for (size_t i = 0; i < trace.size(); i++) { msg += ' '; msg += trace[i]; }
	if (fail_cb) fail_cb(msg.c_str());
	printf("SCHEDFAIL %s\n", msg.c_str());
	fflush(stdout);
	_exit(0);
}

// G held, running == 0: choose who performs the next step
void dispatch()
{
	while (pos < sched.size() && sched[pos] >= 1000) {          // forced spurious wake-ups
		int t = sched[pos] - 1000;
		if (t < 0 || t >= nth || !th[t].exists || !(th[t].parked && th[t].kind == K_REACQ) || th[t].woken)
			fail("DIVERGE spurious-wake-of-non-waiter");
		th[t].woken = true;
		char b[32]; snprintf(b, sizeof b, "%d:X", t); trace.push_back(b);
		pos++;
	}
	int t = -1;
	if (pos < sched.size()) {
		t = sched[pos];
		if (t < 0 || t >= MAXT || !enabled(t)) fail("DIVERGE scheduled-thread-not-enabled");
		pos++; forced_steps++;
	} else {
		for (int k = 0; k < nth; k++) if (enabled(k)) { t = k; break; }
		if (t < 0) fail("DEADLOCK");
		free_steps++;
	}
	granted = t;
	CV.notify_all();
}

// park at a synchronisation point; returns (G held via lk) when this thread is granted the step
void park(std::unique_lock<std::mutex> &lk, int kind, int arg)
{
	Th &me = th[my_tid];
	me.parked = true; me.kind = kind; me.arg = arg;
	running--;
	if (running == 0) dispatch();
	CV.wait(lk, [&] { return granted == my_tid; });
	granted = -1; me.parked = false; running++;
	char b[48];
	if (kind == K_CREATE || kind == K_JOIN) snprintf(b, sizeof b, "%d:%c%d", my_tid, KCH[kind], arg);
	else snprintf(b, sizeof b, "%d:%c", my_tid, KCH[kind]);
	trace.push_back(b);
}

void check_mutex(pthread_mutex_t *m)
{
	if (!the_mutex) the_mutex = m;
	else if (the_mutex != m) fail("UNSUPPORTED second-mutex");
}

int op_lock(pthread_mutex_t *m)
{
	std::unique_lock<std::mutex> lk(G);
	check_mutex(m);
	park(lk, K_LOCK, -1);
	owner = my_tid;
	lk.unlock();
	return pthread_mutex_lock(m);           // uncontended by construction
}
int op_unlock(pthread_mutex_t *m)
{
	std::unique_lock<std::mutex> lk(G);
	check_mutex(m);
	park(lk, K_UNLOCK, -1);
	if (owner != my_tid) fail("MISUSE unlock-by-non-owner");
	int r = pthread_mutex_unlock(m);
	owner = -1;
	return r;
}
int op_wait(pthread_cond_t *, pthread_mutex_t *m)
{
	std::unique_lock<std::mutex> lk(G);
	check_mutex(m);
	park(lk, K_WAIT, -1);
	if (owner != my_tid) fail("MISUSE cond_wait-by-non-owner");
	pthread_mutex_unlock(m);
	owner = -1;
	th[my_tid].cvwaiting = true; th[my_tid].woken = false;
	park(lk, K_REACQ, -1);
	th[my_tid].cvwaiting = false; th[my_tid].woken = false;
	owner = my_tid;
	lk.unlock();
	return pthread_mutex_lock(m);
}
int op_broadcast(pthread_cond_t *)
{
	std::unique_lock<std::mutex> lk(G);
	park(lk, K_BCAST, -1);
	for (int t = 0; t < nth; t++) if (th[t].cvwaiting) th[t].woken = true;
	return 0;
}
int op_signal(pthread_cond_t *)
{
	std::unique_lock<std::mutex> lk(G);
	park(lk, K_SIGNAL, -1);
	for (int t = 0; t < nth; t++) if (th[t].cvwaiting && !th[t].woken) { th[t].woken = true; break; }
	return 0;
}
struct Tramp { void *(*f)(void *); void *arg; int tid; };
void thread_gone()
{
	std::unique_lock<std::mutex> lk(G);
	th[my_tid].exited = true;
	running--;
	if (running == 0 && active) dispatch();
}
void *trampoline(void *p)
{
	Tramp t = *(Tramp *)p;
	delete (Tramp *)p;
	my_tid = t.tid;
	void *r = t.f(t.arg);
	thread_gone();
	return r;
}
int op_create(pthread_t *out, const pthread_attr_t *a, void *(*f)(void *), void *arg)
{
	std::unique_lock<std::mutex> lk(G);
	int child = nth;
	if (child >= MAXT) fail("UNSUPPORTED too-many-threads");
	park(lk, K_CREATE, child - 1);
	nth++;
	th[child] = Th();
	th[child].exists = true;
	running++;                              // the child counts as running until it parks
	Tramp *t = new Tramp{ f, arg, child };
	int r = pthread_create(&th[child].real, a, trampoline, t);
	if (r != 0) fail("pthread_create-failed");
	*out = th[child].real;
	return r;
}
int op_join(pthread_t t, void **ret)
{
	int target = -1;
	{
		std::unique_lock<std::mutex> lk(G);
		for (int k = 1; k < nth; k++) if (pthread_equal(th[k].real, t)) target = k;
		if (target < 0) fail("MISUSE join-of-unknown-thread");
		park(lk, K_JOIN, target);
	}
	return pthread_join(t, ret);
}
void op_exit(void *)
{
	thread_gone();                          // the caller (header wrapper) then calls the real pthread_exit
}
const verif_sched_ops OPS = { op_lock, op_unlock, op_wait, op_broadcast, op_signal, op_create, op_join, op_exit };
}

// evaluate_descent pins worker j to CPU j. Under a forced schedule exactly one thread runs at a time, and a
// pinned thread cannot migrate away from a busy CPU, which makes every hand-over wait for a time slice on a loaded
// machine.  The harness executable therefore overrides sched_setaffinity: a no-op while a schedule is loaded,
// the real system call otherwise (free-running runs keep the library's pinning).
#include <sys/syscall.h>
#include <sched.h>
extern "C" int sched_setaffinity(pid_t pid, size_t sz, const cpu_set_t *mask) __THROW
{
	if (active) return 0;
	return (int)syscall(SYS_sched_setaffinity, pid, sz, mask);
}

extern "C" const struct verif_sched_ops *verif_sched_active(void)
{
	return (active && my_tid >= 0) ? &OPS : nullptr;
}

extern "C" void verif_sched_load(const int *s, int n, void (*on_fail)(const char *))
{
	std::unique_lock<std::mutex> lk(G);
	for (int t = 0; t < MAXT; t++) th[t] = Th();
	sched.assign(s, s + n);
	pos = 0; trace.clear(); granted = -1; owner = -1; the_mutex = nullptr;
	forced_steps = free_steps = 0;
	fail_cb = on_fail;
	my_tid = 0; nth = 1; th[0].exists = true; running = 1;
	active = true;
}

extern "C" void verif_sched_unload(void)
{
	std::unique_lock<std::mutex> lk(G);
	active = false;
	my_tid = -1;
}

extern "C" int verif_sched_trace(char *buf, int cap)
{
	std::unique_lock<std::mutex> lk(G);
	std::string s;
	for (size_t i = 0; i < trace.size(); i++) { if (i) s += ' '; s += trace[i]; }
	snprintf(buf, cap, "%s", s.c_str());
	return (int)trace.size();
}
extern "C" long verif_sched_forced_steps(void) { return forced_steps; }
extern "C" long verif_sched_consumed(void) { return (long)pos; }
