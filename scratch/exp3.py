import sys
sys.path.insert(0, "/work/v_C11/tools"); sys.path.insert(0, "/work/v_C11/tools/props")
from common import Rng
from nnls_exact import *
rng = Rng(int(sys.argv[1])); N = int(sys.argv[2])
stats = {}
for t in range(N):
    n = rng.rint(2, 7); m = n + rng.rint(0, 2)
    M = [[rng.rint(-4, 8) for _ in range(n)] for _ in range(m)]
    A = [[sum(M[k][i] * M[k][j] for k in range(m)) for j in range(n)] for i in range(n)]
    if solve_sub(A, [0]*n, list(range(n))) is None: continue
    yv = [rng.rint(-12, 12) for _ in range(m)]
    b = [sum(M[k][i] * yv[k] for k in range(m)) for i in range(n)]
    tol = Fr(n * 100000, 2**52)
    for rep in (False, True):
        mir = block3_mirror(A, b, tol, 120, repaired=rep)
        ok = kkt_exact(A, b, mir["x"], tol)[0]
        k = (rep, mir["exit"], ok)
        stats.setdefault(k, [0, None, 0])
        stats[k][0] += 1; stats[k][2] = max(stats[k][2], mir["iters"])
        if not ok and (stats[k][1] is None or len(b) < len(stats[k][1][1])): stats[k][1] = (A, b)
for k, v in sorted(stats.items()): print(k, v[0], "max iters", v[2], v[1] if k[0] else "")
