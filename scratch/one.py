import sys
sys.argv = sys.argv[:1]
exec(open("/work/v_C11/scratch/exp1.py").read().split("rng = Rng(")[0])
import json
A, b = json.loads(sys.stdin.read())
n = len(b)
res, err = run_cases("".join(fmt_case("0." + s, s, A, b) for s in ("block3", "block", "updown", "lh_ne")))
xo = nnls_optimum(A, b); print("opt", [float(v) for v in xo], "f", float(objective(A, b, xo)))
tol = Fr(n * 100000, 2**52)
for rep in (False, True):
    mir = block3_mirror(A, b, tol, 120, repaired=rep)
    print("mirror rep=%s" % rep, [float(v) for v in mir["x"]], mir["exit"], mir["last"], mir["trace"], "kkt", kkt_exact(A, b, mir["x"], tol), "margin", float(mir["margin"]))
for s in ("block3", "block", "updown", "lh_ne"):
    x, lines = res["0." + s]
    print(s, x, "kkt worst", float(kkt_exact(A, b, [Fr(v) for v in x], 0)[1]), "f", float(objective(A, b, [Fr(v) for v in x])))
    if s == "block3": print("\n".join(l for l in lines if "work" not in l and "Update" not in l))
