import sys, itertools
sys.path.insert(0, "/work/v_C11/tools"); sys.path.insert(0, "/work/v_C11/tools/props")
from nnls_exact import *
found = {}
def classify(mir):
    tr = mir["trace"]
    if mir["last"] != "alpha": return mir["last"]
    e = tr[-1]
    if mir["nH1"] > 0: return "partial"
    if e[2] == 0: return "boundary"
    return "cancel"
R = range(-3, 4)
for n in (2, 3):
    tol = Fr(n * 100000, 2**52)
    idx = [(i, j) for i in range(n) for j in range(i, n)]
    rng_d = range(1, 5) if n == 2 else range(1, 4)
    rng_o = range(-3, 4) if n == 2 else range(-2, 3)
    rng_b = range(-4, 5) if n == 2 else range(-2, 4)
    for vals in itertools.product(*[(rng_d if i == j else rng_o) for i, j in idx]):
        A = [[0]*n for _ in range(n)]
        for (i, j), v in zip(idx, vals): A[i][j] = v; A[j][i] = v
        # SPD check by leading minors
        def det(Mx):
            if len(Mx) == 1: return Mx[0][0]
            return sum((-1)**c * Mx[0][c] * det([r[:c] + r[c+1:] for r in Mx[1:]]) for c in range(len(Mx)))
        if any(det([r[:k] for r in A[:k]]) <= 0 for k in range(1, n + 1)): continue
        for b in itertools.product(rng_b, repeat=n):
            mir = block3_mirror(A, list(b), tol, 120)
            if not kkt_exact(A, list(b), mir["x"], tol)[0]:
                c = (n, classify(mir))
                size = sum(abs(v) for r in A for v in r) + sum(abs(v) for v in b)
                if c not in found or size < found[c][0]:
                    found[c] = (size, A, list(b), [str(v) for v in mir["x"]], mir["trace"], float(mir["margin"]))
    for k, v in found.items(): print(k, v)
    if n == 2 and len(found) >= 2: pass
