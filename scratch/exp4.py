import sys, time, subprocess
sys.path.insert(0, "/work/v_C11/tools"); sys.path.insert(0, "/work/v_C11/tools/props")
from common import Rng
from nnls_exact import *
rng = Rng(int(sys.argv[1])); N = int(sys.argv[2])
cases = {}; lines = []
for t in range(N):
    n = rng.rint(2, 6); m = n + rng.rint(0, 2)
    M = [[rng.rint(-4, 8) for _ in range(n)] for _ in range(m)]
    A = [[sum(M[k][i] * M[k][j] for k in range(m)) for j in range(n)] for i in range(n)]
    if solve_sub(A, [0]*n, list(range(n))) is None: continue
    yv = [rng.rint(-12, 12) for _ in range(m)]
    b = [sum(M[k][i] * yv[k] for k in range(m)) for i in range(n)]
    cases[str(t)] = (A, b)
    for mode in ("old", "new") + (("spec",) if n <= 4 else ()):
        lines.append("%s.%s %s %d %s %s" % (t, mode, mode, n, " ".join(str(v) for r in A for v in r), " ".join(str(v) for v in b)))
t0 = time.time()
p = subprocess.run(["/work/v_C11/extract/gen/nnls_driver"], input="\n".join(lines) + "\n", stdout=subprocess.PIPE, text=True)
print("model time", time.time() - t0, "for", len(lines))
def q(s):
    a, d = s.split("/"); return Fr(int(a, 16), int(d, 16))
out = {}
for ln in p.stdout.split("\n"):
    t = ln.split()
    if not t: continue
    if t[0] == "R":
        xi = t.index("X"); ti = t.index("T")
        out[t[1]] = dict(exit=t[2], iters=int(t[3]), full=t[4], H1=t[5], x=[q(s) for s in t[xi+1:ti]], trace=t[ti+1:])
    elif t[0] == "S":
        out[t[1]] = None if t[2] == "NONE" else [q(s) for s in t[3:]]
nbad = 0; mism = 0
for t, (A, b) in cases.items():
    n = len(b); tol = Fr(n * 100000, 2**52)
    for mode, rep in (("old", False), ("new", True)):
        r = out["%s.%s" % (t, mode)]
        mir = block3_mirror(A, b, tol, 120, repaired=rep)
        tr = []
        for e in mir["trace"]:
            tr.append({"free": "free:%d", "solve": "solve:%d", "feas": "feas", "bound": "bound:%d"}[e[0]] % e[1:] if e[0] != "alpha" else "alpha:%d:%d:%d" % (e[1], e[2], int(e[3])))
        if r["x"] != mir["x"] or tr != r["trace"] or r["iters"] != mir["iters"]:
            mism += 1; print("MISMATCH", t, mode, r["trace"], tr)
        if mode == "old" and not kkt_exact(A, b, r["x"], tol)[0]: nbad += 1
        if mode == "new": assert kkt_exact(A, b, r["x"], tol)[0]
    if n <= 4:
        assert out[t + ".spec"] == nnls_optimum(A, b), t
print("cases", len(cases), "mirror mismatches", mism, "old not KKT", nbad)
