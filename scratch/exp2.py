import sys, os, time
sys.path.insert(0, "/work/v_C11/tools"); sys.path.insert(0, "/work/v_C11/tools/props")
from common import *
from nnls_exact import *
import subprocess
exe = build_harness("C11_harness", ["C11_harness.c"], repo_srcs=[], fitter=True)
print(exe)
def fmt_case(cid, solver, A, b, M=None, y=None):
    n = len(b)
    ent = [(i, j, A[i][j]) for i in range(n) for j in range(n) if A[i][j] != 0]
    L = ["case %s %s %d %d %d %d" % (cid, solver, n, len(ent), len(M) if M else 0, sum(1 for r in (M or []) for v in r if v != 0))]
    L += ["%d %d %s" % (i, j, hexd(float(v))) for i, j, v in ent]
    L.append(" ".join(hexd(float(v)) for v in b))
    if M:
        L += ["%d %d %s" % (i, j, hexd(float(v))) for i, r in enumerate(M) for j, v in enumerate(r) if v != 0]
        L.append(" ".join(hexd(float(v)) for v in y))
    return "\n".join(L) + "\n"
def run_cases(text, timeout=60):
    env = dict(os.environ, OMP_NUM_THREADS="1")
    p = subprocess.run([exe], input=text, stdout=subprocess.PIPE, stderr=subprocess.PIPE, text=True, timeout=timeout, env=env)
    res = {}; cur = None; lines = []
    for ln in p.stdout.split("\n"):
        if ln.startswith("BEGIN "): cur = ln.split()[1]; lines = []
        elif ln.startswith("X "):
            t = ln.split(); res[t[1]] = ([dfrom(int(h, 16)) for h in t[2:]], lines)
        elif ln.startswith("END "): cur = None
        elif cur: lines.append(ln)
    return res, p.stderr
rng = Rng(int(sys.argv[1]) if len(sys.argv) > 1 else 1)
N = int(sys.argv[2]) if len(sys.argv) > 2 else 300
cases = {}
text = ""
for t in range(N):
    n = rng.rint(2, 6); m = n + rng.rint(0, 2)
    M = [[rng.rint(-4, 8) for _ in range(n)] for _ in range(m)]
    A = [[sum(M[k][i] * M[k][j] for k in range(m)) for j in range(n)] for i in range(n)]
    if solve_sub(A, [0]*n, list(range(n))) is None: continue
    yv = [rng.rint(-12, 12) for _ in range(m)]
    b = [sum(M[k][i] * yv[k] for k in range(m)) for i in range(n)]
    cases[str(t)] = (A, b, M, yv)
    for s in ("block3", "block", "updown", "lh_ne", "lh_ls"):
        text += fmt_case("%d.%s" % (t, s), s, A, b, M, yv)
t0 = time.time()
res, err = run_cases(text)
print("ran", len(res), "in", time.time() - t0, err[:300])
bad = {}
cls = {}
for t, (A, b, M, yv) in cases.items():
    n = len(b)
    xo = nnls_optimum(A, b)
    if n <= 4: assert xo == nnls_enumerate(A, b)
    tol = Fr(n * 100000, 2**52)
    mir = block3_mirror(A, b, tol, 120)
    for s in ("block3", "block", "updown", "lh_ne", "lh_ls"):
        x, lines = res["%s.%s" % (t, s)]
        xf = [Fr(v) for v in x]
        ok, worst = kkt_exact(A, b, xf, tol=Fr(1, 10**6) * max(abs(v) for v in b) if any(b) else 0)
        dist = max(abs(float(a - c)) for a, c in zip(xf, xo))
        if not ok:
            bad.setdefault(s, []).append((t, float(worst), dist))
            if s == "block3":
                cls.setdefault((mir["last"], mir["nH1"] > 0, mir["trace"][-1][1:] if mir["trace"] else None, mir["exit"]), []).append((t, A, b))
                if 0: print("block3 bad", t, n, "worst", float(worst), "dist", dist, "mirror exit", mir["exit"], mir["last"], mir["nH1"], "mirror kkt", kkt_exact(A, b, mir["x"], tol)[0],
                      "mirror==impl", max(abs(float(a - c)) for a, c in zip(xf, mir["x"])))
                if 0: print("   impl:", [l.strip() for l in lines if l.strip() and "work" not in l and "Update" not in l and " s" != l[-2:]])
    mk = kkt_exact(A, b, mir["x"], tol)[0]
    if not mk and not any(tt == t for tt, _, _ in bad.get("block3", [])):
        print("mirror bad but impl ok", t, mir["exit"], mir["last"], mir["margin"] and float(mir["margin"]))
print({s: len(v) for s, v in bad.items()}, "of", len(cases))
for s, v in bad.items():
    if s != "block3": print(s, v[:5])

for k, v in cls.items():
    print(k, len(v), min(v, key=lambda c: len(c[2]))[1:])
