"""common.py — shared orchestration helpers: PRNG, builds from /repo's working tree, Coq build and
assumption capture, evidence writer, known-findings protocol, replay files."""
import hashlib, json, os, re, struct, subprocess, sys, time, shutil, math

VERIF = os.path.dirname(os.path.dirname(os.path.abspath(__file__)))
REPO = os.environ.get("VERIF_REPO", "/repo")
GUARD = "PHOTOSPLINE_VERIF"
COQDIR = os.path.join(VERIF, "coq")
EXTRACT = os.path.join(VERIF, "extract")
HARNESS = os.path.join(VERIF, "harness")
NCPU = os.cpu_count() or 4

# ------------------------------------------------------------------------------------------------
class Rng:
    """splitmix64; every random choice of a run derives from one seed so disagreements replay exactly"""
    def __init__(self, seed):
        self.s = (seed * 0x9E3779B97F4A7C15 + 0x1234567) & 0xFFFFFFFFFFFFFFFF
    def next(self):
        self.s = (self.s + 0x9E3779B97F4A7C15) & 0xFFFFFFFFFFFFFFFF
        z = self.s
        z = ((z ^ (z >> 30)) * 0xBF58476D1CE4E5B9) & 0xFFFFFFFFFFFFFFFF
        z = ((z ^ (z >> 27)) * 0x94D049BB133111EB) & 0xFFFFFFFFFFFFFFFF
        return z ^ (z >> 31)
    def below(self, n):
        return self.next() % n
    def rint(self, a, b):
        return a + self.below(b - a + 1)
    def unit(self):
        return (self.next() >> 11) / 9007199254740992.0
    def choice(self, xs):
        return xs[self.below(len(xs))]
    def chance(self, p):
        return self.unit() < p
    def shuffle(self, xs):
        for i in range(len(xs) - 1, 0, -1):
            j = self.below(i + 1)
            xs[i], xs[j] = xs[j], xs[i]
    def fork(self, tag):
        h = hashlib.sha256(("%d:%s" % (self.s, tag)).encode()).digest()
        return Rng(int.from_bytes(h[:8], "little"))

def dbits(x):
    return struct.unpack("<Q", struct.pack("<d", x))[0]
def dfrom(u):
    return struct.unpack("<d", struct.pack("<Q", u))[0]
def fbits(x):
    return struct.unpack("<I", struct.pack("<f", x))[0]
def ffrom(u):
    return struct.unpack("<f", struct.pack("<I", u))[0]
def hexd(x):
    return "%016x" % dbits(x)
def hexf(x):
    return "%08x" % fbits(x)
def nextafter(x, direction):
    return math.nextafter(x, direction)
def to_f32(x):
    try:
        return struct.unpack("<f", struct.pack("<f", x))[0]
    except OverflowError:
        return math.copysign(math.inf, x)

# ------------------------------------------------------------------------------------------------
def seed_from_env():
    try:
        return int(os.environ.get("VERIF_SEED", "1"))
    except ValueError:
        return 1

# ------------------------------------------------------------------------------------------------
# Build phases (translators, coq make, Print Assumptions pass, harness and driver builds) share files under /verif/coq,
# /verif/extract/gen and /verif/.build. Checks may be started concurrently: those phases are serialised by one lock file
# (re-entrant within a process); running the cases is not locked.
import fcntl, functools
_LOCK = {"depth": 0, "fd": None}
def locked_build(fn):
    @functools.wraps(fn)
    def wrapper(*a, **kw):
        if _LOCK["depth"] == 0:
            os.makedirs(os.path.join(VERIF, ".build"), exist_ok=True)
            fd = open(os.path.join(VERIF, ".build", "lock"), "w")
            fcntl.flock(fd, fcntl.LOCK_EX)
            _LOCK["fd"] = fd
        _LOCK["depth"] += 1
        try:
            return fn(*a, **kw)
        finally:
            _LOCK["depth"] -= 1
            if _LOCK["depth"] == 0:
                fcntl.flock(_LOCK["fd"], fcntl.LOCK_UN)
                _LOCK["fd"].close(); _LOCK["fd"] = None
    return wrapper

def _bigstack():
    """extracted OCaml recurses on the system stack (lists of thousands of cases): raise the soft stack limit"""
    import resource
    soft, hard = resource.getrlimit(resource.RLIMIT_STACK)
    want = 4 << 30
    if hard != resource.RLIM_INFINITY:
        want = min(want, hard)
    if soft == resource.RLIM_INFINITY or soft >= want:
        return
    try:
        resource.setrlimit(resource.RLIMIT_STACK, (want, hard))
    except (ValueError, OSError):
        pass

def run(cmd, timeout=None, cwd=None, env=None, input=None, check=False):
    t0 = time.time()
    pre = _bigstack if (not isinstance(cmd, str) and os.path.dirname(str(cmd[0])) == os.path.join(EXTRACT, "gen")) else None
    p = subprocess.run(cmd, cwd=cwd, env=env, input=input, stdout=subprocess.PIPE, stderr=subprocess.PIPE,
                       timeout=timeout, text=True, shell=isinstance(cmd, str), preexec_fn=pre)
    p.wall = time.time() - t0
    if check and p.returncode != 0:
        raise RuntimeError("command failed (%d): %s\n%s\n%s" % (p.returncode, cmd, p.stdout[-4000:], p.stderr[-4000:]))
    return p

def build_dir(tag):
    d = os.path.join(VERIF, ".build", tag)
    os.makedirs(d, exist_ok=True)
    return d

def sha_of_sources(paths):
    h = hashlib.sha256()
    for p in sorted(paths):
        h.update(p.encode())
        try:
            with open(p, "rb") as f:
                h.update(f.read())
        except FileNotFoundError:
            h.update(b"<missing>")
    return h.hexdigest()[:16]

def repo_source_files():
    out = []
    for sub in ("include", "src"):
        for root, _, files in os.walk(os.path.join(REPO, sub)):
            for f in files:
                if f.endswith((".h", ".c", ".cpp", ".hpp")):
                    out.append(os.path.join(root, f))
    return out

FAITHFUL = ["-O3", "-msse2", "-msse3", "-msse4", "-msse4.1", "-msse4.2", "-mno-avx", "-DNDEBUG"]
CHECKED = ["-O1", "-g", "-fsanitize=address,undefined", "-fno-sanitize-recover=all", "-fno-omit-frame-pointer"]
CORE_CPP = ["src/core/bspline.cpp", "src/core/fitsio.cpp", "src/core/convolve.cpp", "src/core/bspline_multi.cpp"]
CINTER_CPP = ["src/cinter/splinetable.cpp"]
FITTER_C = ["src/fitter/cholesky_solve.c", "src/fitter/glam.c", "src/fitter/nnls.c", "src/fitter/splineutil.c"]
FIT_LIBS = ["-lcholmod", "-lspqr", "-lsuitesparseconfig", "-lopenblas", "-lm", "-lpthread"]

def compile_objects(bdir, sources, flags, cxx=True, jobs=NCPU):
    """compile each source to an object in bdir (parallel); returns list of objects. Rebuilds always
    when the content hash of (repo sources + harness + flags) changed; otherwise reuses."""
    procs, objs = [], []
    for src in sources:
        obj = os.path.join(bdir, re.sub(r"[^A-Za-z0-9_.]", "_", os.path.relpath(src, "/")) + ".o")
        objs.append(obj)
        is_c = src.endswith(".c")
        cmd = (["gcc", "-std=gnu99"] if is_c else ["g++", "-std=c++11"]) + [f for f in flags if not (is_c and f.startswith("-std"))] + \
              ["-w", "-c", src, "-o", obj]
        procs.append((src, subprocess.Popen(cmd, stdout=subprocess.PIPE, stderr=subprocess.PIPE, text=True)))
    for src, p in procs:
        out, err = p.communicate()
        if p.returncode != 0:
            raise BuildError("compile failed: %s\n%s" % (src, err[-6000:]))
    return objs

class BuildError(Exception):
    pass

@locked_build
def build_harness(name, harness_srcs, flavour="faithful", extra_flags=(), repo_srcs=None, fitter=False, libs=(), tag=None):
    """Builds harness executable `name` from /repo's CURRENT working tree (never from /repo/_build).
    Cached by a content hash of every input; returns path of the executable."""
    flags = list(FAITHFUL if flavour == "faithful" else CHECKED if flavour == "checked" else flavour)
    flags += ["-D" + GUARD, "-I" + os.path.join(REPO, "include"), "-I" + HARNESS, "-I/usr/include/suitesparse"] + list(extra_flags)
    if fitter:
        flags += ["-DPHOTOSPLINE_INCLUDES_SPGLAM"]
    if repo_srcs is None:
        repo_srcs = CORE_CPP + CINTER_CPP
    srcs = [os.path.join(HARNESS, s) for s in harness_srcs] + [os.path.join(REPO, s) for s in repo_srcs]
    if fitter:
        srcs += [os.path.join(REPO, s) for s in FITTER_C]
    key = sha_of_sources(repo_source_files() + [os.path.join(HARNESS, f) for f in os.listdir(HARNESS)]) + \
          hashlib.sha256(" ".join(flags + list(libs) + srcs).encode()).hexdigest()[:8]
    bdir = build_dir((tag or name) + "-" + key)
    exe = os.path.join(bdir, name)
    if os.path.exists(exe):
        return exe
    # drop stale builds of the same tag
    base = os.path.join(VERIF, ".build")
    for d in os.listdir(base):
        if d.startswith((tag or name) + "-") and d != os.path.basename(bdir):
            shutil.rmtree(os.path.join(base, d), ignore_errors=True)
    objs = compile_objects(bdir, srcs, flags)
    link = ["g++"] + [f for f in flags if f.startswith("-fsanitize") or f in ("-g",)] + objs + ["-o", exe + ".tmp", "-lcfitsio"] + \
           (FIT_LIBS if fitter else []) + list(libs)
    p = run(link)
    if p.returncode != 0:
        raise BuildError("link failed\n" + p.stderr[-6000:])
    os.rename(exe + ".tmp", exe)
    return exe

# ------------------------------------------------------------------------------------------------
def translator_scripts():
    scripts = [os.path.join(VERIF, "tools", "translate_tables.py")]
    tdir = os.path.join(VERIF, "tools", "translators")
    if os.path.isdir(tdir):
        scripts += [os.path.join(tdir, f) for f in sorted(os.listdir(tdir)) if f.endswith(".py")]
    return scripts

@locked_build
def run_translator():
    """tools/translate_tables.py, then every tools/translators/*.py (each writes coq/theories/Generated_<name>.v
    from /repo's working tree and fails closed with a non-zero status); then _CoqProject is brought up to date.
    Returns (status per script name, message)."""
    msgs, status = [], {}
    for sc in translator_scripts():
        p = run([sys.executable, sc])
        status[os.path.basename(sc)] = p.returncode
        msgs.append(os.path.basename(sc) + ": " + (p.stdout + p.stderr).strip()[-600:])
    run([sys.executable, os.path.join(VERIF, "tools", "gen_coqproject.py")])
    return status, " | ".join(msgs)

def translators_for(prop_file):
    """the translators whose Generated*.v the given Properties file depends on (transitively, from coq_makefile's
    dependency file): only THEIR failure is a broken obligation of this property"""
    dep = os.path.join(COQDIR, ".Makefile.d")
    graph = {}
    try:
        for line in open(dep):
            if ".vo " not in line and not line.split(":")[0].strip().endswith(".vo"):
                continue
            lhs, _, rhs = line.partition(":")
            tgt = [t for t in lhs.split() if t.endswith(".vo")]
            if not tgt:
                continue
            name = os.path.basename(tgt[0])[:-3]
            graph.setdefault(name, set()).update(os.path.basename(r)[:-3] for r in rhs.split() if r.endswith(".vo"))
    except OSError:
        return None
    seen, todo = set(), [prop_file]
    while todo:
        n = todo.pop()
        if n in seen:
            continue
        seen.add(n)
        todo += list(graph.get(n, ()))
    gens = {n for n in seen if n.startswith("Generated")}
    out = []
    for sc in translator_scripts():
        txt = open(sc).read()
        if any(re.search(r"\b" + re.escape(g) + r"\.v\b", txt) for g in gens):
            out.append(os.path.basename(sc))
    return out

@locked_build
def coq_build(targets, timeout=1500):
    """make the given .vo targets (full .vo build). Returns (ok, log)."""
    run([sys.executable, os.path.join(VERIF, "tools", "gen_coqproject.py")], check=True)
    p = run(["make", "-k", "-j%d" % NCPU] + ["theories/%s.vo" % t for t in targets], cwd=COQDIR, timeout=timeout)
    return p.returncode == 0, (p.stdout + p.stderr)

FORBIDDEN = re.compile(r"\b(Admitted|admit|Axiom|Axioms|Parameter|Parameters|Conjecture|Abort All|Unset Guard Checking|"
                       r"bypass_check|Admit Obligations|Unset Positivity Checking|Unset Universe Checking)\b|type-in-type|impredicative-set")
def strip_coq_comments(s):
    out, depth, i = [], 0, 0
    while i < len(s):
        if s.startswith("(*", i):
            depth += 1; i += 2
        elif s.startswith("*)", i) and depth:
            depth -= 1; i += 2
        else:
            if depth == 0:
                out.append(s[i])
            i += 1
    return "".join(out)

def grep_gate():
    """no Admitted/admit/Axiom/... anywhere in the development (comments excluded)"""
    bad = []
    for root in (os.path.join(COQDIR, "theories"), EXTRACT):
        for f in sorted(os.listdir(root)):
            if f.endswith(".v"):
                txt = strip_coq_comments(open(os.path.join(root, f)).read())
                for ln, line in enumerate(txt.split("\n"), 1):
                    if FORBIDDEN.search(line):
                        bad.append("%s:%d: %s" % (f, ln, line.strip()[:120]))
    for f in ("_CoqProject",):
        txt = open(os.path.join(COQDIR, f)).read()
        if FORBIDDEN.search(txt):
            bad.append(f + ": forbidden flag")
    return bad

@locked_build
def properties_report(prop_file):
    """Re-run coqc on Properties_<id>.v to capture what it states: the theorem names and the Print
    Assumptions output beneath each. Returns (ok, theorems:list, assumptions:dict name->text, log)."""
    path = os.path.join(COQDIR, "theories", prop_file + ".v")
    src = strip_coq_comments(open(path).read())
    thms = re.findall(r"\b(?:Theorem|Corollary)\s+([A-Za-z0-9_']+)", src)
    p = run(["coqc", "-Q", "theories", "PS", "theories/%s.v" % prop_file], cwd=COQDIR, timeout=1500)
    ok = p.returncode == 0
    out = p.stdout
    assumptions = {}
    # Print Assumptions output: either "Closed under the global context" or "Axioms:\n name : type ..."
    blocks = re.split(r"(?=Closed under the global context|Axioms:)", out)
    pa = re.findall(r"Print Assumptions\s+([A-Za-z0-9_']+)", src)
    blocks = [b for b in blocks if b.startswith("Closed under") or b.startswith("Axioms:")]
    for name, b in zip(pa, blocks):
        assumptions[name] = "closed" if b.startswith("Closed") else " ".join(b.split())[:600]
    return ok, thms, assumptions, (p.stdout + p.stderr)[-4000:]

@locked_build
def build_extracted(driver_ml, out_name=None, modname=None, extract_v=None):
    """Convention: build_extracted("<name>") uses extract/Extract_<name>.v (which must say
    Extraction "<name>model.ml" ...), extract/<name>_driver.ml, and produces extract/gen/<name>_driver.
    (The long form with explicit file names is kept for the eval family.)  coqc the extraction file in
    extract/gen, then ocamlfind ocamlopt the extracted module with its driver. Cached by content hash of
    the inputs and of every compiled theory."""
    if out_name is None:
        name = driver_ml
        driver_ml, out_name, modname, extract_v = name + "_driver.ml", name + "_driver", name + "model", "Extract_%s.v" % name
    modname = modname or "evalmodel"
    extract_v = extract_v or "Extract_eval.v"
    gen = os.path.join(EXTRACT, "gen")
    os.makedirs(gen, exist_ok=True)
    exe = os.path.join(gen, out_name)
    # the modules the extraction file imports must be compiled against the CURRENT sources (a check builds only its own
    # Properties file; another module imported here may be stale after a source or translator change: "inconsistent assumptions")
    mods = []
    for line in open(os.path.join(EXTRACT, extract_v)):
        m = re.match(r"\s*From PS Require (?:Import|Export)\s+(.*?)\.\s*$", line)
        if m:
            mods += m.group(1).split()
    if mods:
        ok, log = coq_build(mods)
        if not ok:
            raise BuildError("model modules of %s do not compile\n%s" % (extract_v, log[-3000:]))
    deps = [os.path.join(EXTRACT, extract_v), os.path.join(EXTRACT, driver_ml)] + \
           [os.path.join(COQDIR, "theories", f) for f in os.listdir(os.path.join(COQDIR, "theories")) if f.endswith(".vo")]
    stamp = os.path.join(gen, out_name + ".stamp")
    key = sha_of_sources(deps)
    if os.path.exists(exe) and os.path.exists(stamp) and open(stamp).read() == key:
        return exe
    shutil.copy(os.path.join(EXTRACT, extract_v), os.path.join(gen, extract_v))
    p = run(["coqc", "-Q", os.path.join(COQDIR, "theories"), "PS", extract_v], cwd=gen, timeout=900)
    if p.returncode != 0:
        raise BuildError("extraction failed\n" + (p.stdout + p.stderr)[-4000:])
    shutil.copy(os.path.join(EXTRACT, driver_ml), os.path.join(gen, driver_ml))
    # a driver may ask for ocamlfind packages in a comment:  (* ocamlfind-flags: -package zarith -linkpkg *)
    m = re.search(r"\(\*\s*ocamlfind-flags:\s*(.*?)\s*\*\)", open(os.path.join(EXTRACT, driver_ml)).read())
    extra = m.group(1).split() if m else []
    p = run(["ocamlfind", "ocamlopt"] + extra + ["-w", "-a", modname + ".mli", modname + ".ml", driver_ml, "-o", out_name], cwd=gen, timeout=900)
    if p.returncode != 0:
        raise BuildError("ocaml build failed\n" + (p.stdout + p.stderr)[-4000:])
    open(stamp, "w").write(key)
    return exe

# ------------------------------------------------------------------------------------------------
def load_known_findings():
    try:
        return json.load(open(os.path.join(VERIF, "known_findings.json")))
    except FileNotFoundError:
        return {"findings": []}

def open_signatures(prop):
    return {f["signature"]: f for f in load_known_findings()["findings"] if f["property"] == prop and f["status"] == "open"}

def write_replay(prop, payload):
    d = os.path.join(VERIF, "replays", prop)
    os.makedirs(d, exist_ok=True)
    blob = json.dumps(payload, indent=1, sort_keys=True, default=str)
    name = hashlib.sha256(blob.encode()).hexdigest()[:12] + ".json"
    path = os.path.join(d, name)
    with open(path, "w") as f:
        f.write(blob)
    return path

class Outcome:
    """collects what a check run found; decides exit status per the known-findings protocol"""
    def __init__(self, prop):
        self.prop = prop
        self.violations = []     # (signature, description, replay payload)
        self.notes = []
    def violation(self, signature, what, payload):
        self.violations.append((signature, what, payload))
    def finish(self):
        known = open_signatures(self.prop)
        seen_known, fresh = {}, []
        for sig, what, payload in self.violations:
            if sig in known:
                seen_known.setdefault(sig, (what, payload))
            else:
                fresh.append((sig, what, payload))
        for sig, (what, payload) in seen_known.items():
            print("KNOWN-FINDING: property=%s %s [%s]" % (self.prop, known[sig].get("what", what), sig))
        for sig in known:
            if sig not in seen_known:
                # every listed finding is named on every run; this one was not among the inputs this run explored
                print("KNOWN-FINDING: property=%s %s [%s] (listed in known_findings.json; not reproduced by the inputs of this run)" % (self.prop, known[sig].get("what", ""), sig))
                self.notes.append("listed finding not reproduced in this run: " + sig)
        reported = set()
        rc = 0
        for sig, what, payload in fresh:
            if sig in reported:
                continue
            reported.add(sig)
            payload = dict(payload)
            payload.update({"property": self.prop, "signature": sig, "what": what})
            path = write_replay(self.prop, payload)
            tail = " no-failing-input-found" if payload.get("no_failing_input_found") else ""
            print("VIOLATION property=%s replay=%s%s" % (self.prop, path, tail))
            print("  -> %s [%s]" % (what, sig))
            rc = 1
        return rc, len(fresh), len(seen_known)

def write_evidence(prop, tier, seed, coverage, assumptions, wall, violations, level="proof"):
    os.makedirs(os.path.join(VERIF, "evidence"), exist_ok=True)
    ev = {"property_id": prop, "tier": tier, "seed": seed, "level": level, "coverage": coverage,
          "assumptions": assumptions, "wall_s": round(wall, 2), "violations": violations}
    with open(os.path.join(VERIF, "evidence", prop + ".json"), "w") as f:
        json.dump(ev, f, indent=1, sort_keys=True, default=str)

TRUSTED_BASE = [
    "Coq 8.16.1 kernel (coqc, vm_compute for finite sweeps/witnesses; no native_compute)",
    "no axioms declared; Print Assumptions per theorem recorded under coverage.print_assumptions",
    "hand-written Gallina model tied to /repo by the correspondence check of this run (differential, not a proof about C++)",
    "extraction: ExtrOcamlBasic only, no Extract Constant/Inductive of our own; OCaml 4.13 native floats as Arith closures (binary32 by re-rounding through Int32.bits_of_float)",
    "tools/translate_tables.py (tables -> Generated.v), harness C++/OCaml/Python drivers, g++ 12, sanitizers",
]
