#!/bin/sh
# Runs the repository's own test suite with the guard OFF in a scratch build directory outside /repo and /verif.
set -e
B=$(mktemp -d /var/tmp/ps_baseline.XXXXXX)
trap 'rm -rf "$B"' EXIT
cmake -G Ninja -S /repo -B "$B" >/dev/null
cmake --build "$B" >/dev/null
ctest --test-dir "$B" -j8 --timeout 900
