#!/bin/sh
# Runs the repository's own test suite with the guard OFF (no -DPHOTOSPLINE_VERIF) in a scratch build directory outside
# /repo and /verif, configured like the pinned baseline build (/repo/_build/CMakeCache.txt: RelWithDebInfo, -Wno-error,
# tests on). Targets that do not build on the pinned tree either (the cphotospline C wrapper library under g++ 12) are
# skipped with -k 0, exactly as in the baseline; the three test executables hold all 21 test cases.
set -e
B=$(mktemp -d /var/tmp/ps_baseline.XXXXXX)
trap 'rm -rf "$B"' EXIT
cmake -G Ninja -S /repo -B "$B" -DCMAKE_BUILD_TYPE=RelWithDebInfo -DCMAKE_CXX_FLAGS=-Wno-error -DCMAKE_C_FLAGS=-Wno-error -DBUILD_TESTING=ON >/dev/null
cmake --build "$B" -- -k 0 >"$B/build.log" 2>&1 || true
for t in photospline-test photospline-test-templated photospline-test-fit; do
  [ -x "$B/$t" ] || { echo "baseline build failed: $t missing"; tail -30 "$B/build.log"; exit 2; }
done
ctest --test-dir "$B" -j8 --timeout 900
