check("C04",
  "Kernel-checked theorems (Properties_C04.v: terminates, accepts_iff, rejects_iff, post, call_operator) about EvalModel.searchcenters for every "
  "well-formed table, every dimension count and every non-NaN coordinate vector, over any arithmetic whose comparison is a total preorder (so +-inf, "
  "signed zeros and denormals are covered). The model is compared exactly (success flag, centers, call-operator result) with the C++ member function, "
  "the evaluator object and the C wrapper on generated tables/points aimed at the proof's case splits; the property's statement is also evaluated "
  "directly on the implementation's output.",
  "Trusted: Coq kernel; IEEE comparison is a total preorder on non-NaN doubles (assumed); unbounded integers in the model; the differential tie "
  "(generator reach) between model and C++; extraction + OCaml floats for running the model.",
  "Coq proof of binary-search invariant over an abstract total preorder + exact differential correspondence", "§4 C04")
