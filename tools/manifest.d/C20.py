check("C20",
  "PARTIAL proof. Kernel-checked, for every state, every allocation-failure oracle (nat -> bool) and every I/O oracle (Properties_C20.v, closed under "
  "the global context): clear() — the destructor's body and every catch block of the fixed tree — ends in the empty object from ANY (partial) state "
  "(C20_clear_empties); a failed operation leaves its object unchanged or empty and every other object untouched (C20_failed_op; all failing paths "
  "except write_key's own allocation failure); a read always, and a fit on the fixed tree, refuses a populated table without touching anything "
  "(C20_no_abandon_read/_fit); after move construction / move assignment the source is empty and the target holds what the source held "
  "(C20_moved_from_empty_ctor/_assign); C20_tree_is_fixed ties the theorems to the configuration the translator reads off the working tree; twelve "
  "C20_refuted_* theorems give one concrete history per defect of the unchanged tree (model witnesses by vm_compute, each replayed on the real code: "
  "corpus/C20), C20_fixed_examples shows the same histories clean with the fixes. NOT proved, only tested on the model for every case of every run: the "
  "global invariant over arbitrary histories (C20_invariant), balanced traces after destruction (C20_balanced), Inv -> safe_to_call. "
  "Correspondence: histories <= 25 ops over <= 3 objects x every single allocation-failure position, real splinetable<CheckAlloc> under "
  "ASan/UBSan/LSan vs ObjModel, exact comparison after every op of outcome class, field-by-field ownership picture (null / live block of N bytes / "
  "non-null-not-live), ndim/naux/shape, live multiset of block sizes, allocation count, null-frees and allocator errors; the property statement is "
  "evaluated on the implementation's output alone (oracle).",
  "Trusted: Coq kernel; ObjModel is hand-written and tied only differentially (it abstracts knot/coefficient/string CONTENTS: a strlen over an "
  "unterminated key was found by ASan in the tie, not by the model); read-failure phases / write failures are oracle inputs taken from the exception "
  "the real code threw; allocation failures only through the Alloc parameter (operator new inside the library is not failed); fit is modelled but "
  "not driven by the harness (tie by reading); remove_key does not compile (C16) and is not exercised; evaluating an empty table is outside the "
  "property (documented precondition); the theorems are about cfg_fixed, i.e. hold for /repo only once proposed_repo_patches/C20_1..9 are applied "
  "(on the unchanged tree the obligation C20_tree_is_fixed fails and the check reports each defect with a replay).",
  "Coq proof over an ownership state machine with fault oracles (partial) + exact differential correspondence with a checking allocator and injected faults",
  "§4 C20")
