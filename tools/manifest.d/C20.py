check("C20",
  "placeholder",
  "placeholder",
  "Coq proof over operation histories of an ownership state machine + exact differential correspondence with a checking allocator and injected faults", "§4 C20")
