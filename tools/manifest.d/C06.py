check("C06",
  "Kernel-checked, unbounded theorems (Properties_C06.v) about the executable Gallina model FitsModel.v: C06_roundtrip_L2 — decode (encode d) = Ok d for "
  "every well-formed FITS document (any number of HDUs/cards/words: 2880-byte blocks, 80-byte cards with fixed-format tokens, quoted strings with doubled "
  "quotes, HIERARCH keys, commentary cards, END, blank fill, big-endian words, zero fill; leaf lemmas C06_word_bytes, C06_decimal, C06_card); "
  "C06_roundtrip_L1 — the model of read_fits_core (as written) applied to the model of write_fits_core returns the table with equal orders, knots, "
  "coefficients (bit patterns, so NaN payloads/inf/-0/denormals are covered), naxes, strides, extents (knot-derived default when absent) and auxiliary keys "
  "in order with values padded to 8 characters (C06_aux_padding_only); C06_roundtrip_partial — the same through bytes for the strict and the lenient reader, "
  "with well-formedness of the produced document as an explicit decidable hypothesis that the check evaluates (extracted) on every generated table; "
  "C06_axis_order — HDU 0 data word k = coefficient k, BITPIX -32, NAXISj = naxes[ndim-j]; C06_legacy_* — single ORDER key, missing EXTENTS, missing PERIODn. "
  "Tie, every run: the extracted model is the independent reader of the bytes written by write_fits / write_fits_mem / the C wrappers and the independent "
  "writer of files read by read_fits / read_fits_mem / the C wrappers (exact comparison of dumped objects); the library's own round trip (dump, operator==, "
  "bitwise evaluation); a reader written directly against cfitsio and a Python reader of the documented layout on the library's bytes; legacy variants; the "
  "ten shipped files (model decode == real read, content hashes pinned).",
  "Proved of the model, tied differentially to the C++ and to cfitsio (neither is verified). Partial: the byte-level composition takes wf_doc (to_doc t) as a "
  "checked hypothesis instead of deriving it from conditions on the table; 'compares equal / evaluates identically' is proved as equality of every field that "
  "operator== and evaluation read, and tested on the real objects (operator== is necessarily false for tables holding NaN, also against themselves). Outside: "
  "auxiliary values containing a quote (doubled on read-back: C16's finding), auxiliary keys that cfitsio itself interprets, PERIODn text (%.15G, not bit exact, "
  "not in the property's list), uint64 overflow of the coefficient count. Trusted: Coq kernel, extraction + OCaml driver, harness, fits_keywords translator.",
  "Coq proof of a codec (L2) and of reader-after-writer (L1) on an executable model + exact two-way differential correspondence with the library and cfitsio", "§4 C06")
