check("C01",
  "Kernel-checked theorem, for EVERY ordered field, every number of dimensions, every order and every knot vector that is non-decreasing on its valid range "
  "(nothing assumed about the allocation padding the margin code reads): whenever center lookup succeeds, EvalModel.ndsplineeval (and the call operator) equals "
  "BSpline.spline_spec = the sum over ALL stored coefficients of coefficient x product over dimensions of the Cox-de Boor function of the stored order on the stored knots, "
  "right-continuous below the upper end of full support and left-continuous from there upwards - interior, both margins and exactly on knots (C01_eval_is_tensor_sum; parts: "
  "C01_local_basis = de Boor recurrence + margin walk + re-indexing of bsplvb_simple in one dimension, C01_core_is_block_sum = the odometer walk over the coefficient block). "
  "On a repeated knot at the upper end of full support the lookup steps down to the nearest span of positive width (repair of D17, /repo 204cbcc; C04_post), so the only hypothesis left is that the fully "
  "supported range of a dimension is not the single point x — implied by knots[order] < knots[naxes], a condition on the table alone (C01_eval_is_tensor_sum_nondegenerate); that residual point is shown "
  "necessary by C01_refuted_without_regularity and is an open known finding. Tie: the same polymorphic term instantiated with IEEE binary32/binary64 is compared BITWISE with ndsplineeval<float/double>, operator() and the C wrapper on generated "
  "tables/points aimed at the proof's case splits (minimal knot count, margins, knots and their float neighbours, order 0..5, 1..9 dims, NaN/huge padding); the property itself is judged on "
  "the implementation against exact rationals (Python transcription of BSpline.v, cross-checked for equality with the extracted Coq spec on every run) with the bound K*u*sum|terms|.",
  "Partial: the rounding gap between the exact-field instance and the float instance of the same term is measured (bound K=16*sum(order+2) ulps of sum|terms|), not proved. "
  "Trusted: Coq kernel; extraction + OCaml native floats as Arith closures; the differential tie (generator reach); Python exact oracle (cross-checked against Coq on Qc).",
  "Coq proof over abstract ordered fields (de Boor invariant, odometer walk, local support) + bitwise differential correspondence of the same term on IEEE floats + exact rational oracle", "§4 C01")
