check("C16",
  "stub", "stub", "Coq proof + exact differential correspondence on operation sequences", "§4 C16")
