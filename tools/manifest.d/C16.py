check("C16",
  "Kernel-checked theorems (Properties_C16.v) about the executable model AuxModel.v of the aux key store, for EVERY operation list and store: "
  "refinement to an insertion-ordered map (outputs equal op by op, same key order, same lookup function, no duplicate keys: C16_refines_ordered_map / _from_empty, "
  "with C16_spec_put / C16_spec_del saying what the abstract operations are: latest value, absence, removal of exactly that key, order = first insertion); "
  "a rejected write leaves the store unchanged and is rejected iff `accepts` is false (C16_reject_no_change, C16_rejected_iff); decimal print/parse round trip for all Z, "
  "also in front of non-digits such as FITS padding (C16_print_parse_int), typed read-back of accepted ints and strings (C16_typed_read, C16_typed_read_string); "
  "every store of accepted entries - in particular every store reachable from the empty one - is serialised without error and read back with the same keys in the same order "
  "and every value intact up to trailing blanks (C16_survives_roundtrip - which also shows the store read back is again accepted, so round trips and operations chain: C16_accepted_preserved -, C16_roundtrip_lookup, C16_reachable_accepted), through a model of the FITS card format "
  "(quote doubling, 8-character padding, HIERARCH cards with truncation to 80 columns, keyword and raw value parsing, header ends at END, the library's quote stripping and un-doubling). "
  "The reserved-keyword lists, limits and the presence of each check are re-read from the source on every run (tools/translators/aux.py, fails closed on any other edit of the transcribed functions) "
  "and the theorems are instantiated at those parameters. The upstream code violates the property: C16_survives_roundtrip_refuted_{quote,END,commentary,long_key,renamed} are witnesses on the "
  "faithful upstream model, replayed on the real code by corpus/C16; six fix: patches are proposed (proposed_repo_patches/C16_*.diff) and the theorems hold for the patched tree. "
  "Tie: random operation sequences (<= 40 ops; C++ members, C wrappers, disk and memory FITS round trips) run through the real splinetable<> and the extracted model; result / exception class and "
  "the complete store compared exactly after every operation; the property is also evaluated directly on the implementation's output by an independent ordered-dict oracle; failing sequences are shrunk.",
  "Trusted: Coq kernel; the hand-written model and its environment model of cfitsio 4.2 card formatting (tied only differentially, via the FD/FM operations); the translator's skeleton hashes; "
  "double formatting ('%g') and double reads are checked by the Python oracle only, not modelled in Coq; allocation-failure paths not modelled; strings are NUL-free.",
  "Coq proof (refinement by invariant, string lemmas for the card format, decimal print/parse) + translator + exact differential correspondence on op sequences", "§4 C16")
