check("C13",
  "Kernel-checked theorems (Properties_C13.v) about FitArgsModel.fit_check — the sanity block of splinetable::fit transcribed check by check, in source "
  "order, by tools/translators/fitargs.py from the working tree (fails closed on any unrecognised statement or condition) — for EVERY argument shape "
  "(unbounded dimension count, lengths, orders): accept_implies_contract / accept_iff_contract (arguments that pass satisfy the hand-derived memory contract "
  "of fit.h+glam.c+splineutil.c below the block, and nothing consistent is rejected), checks_never_fault (no check is evaluated outside its own "
  "precondition: ordering of the checks), reject_sound (the first failing check in source order is reported), reject_leaves_unchanged / reject_throws / "
  "fit_defined / fit_done over the object step function, c_wrapper (+_reject, _nulls: return 0 <=> C++ fit completed; every rejection and null pointer "
  "returns 1 with the object unchanged); C13_refuted_* : seven witnesses that the sanity block of the unchanged library did NOT establish the contract "
  "(D12; fixed by proposed_repo_patches/C13_1.diff, C13_2.diff). Tested, not proved: the model and the contract against the real code — extracted model "
  "vs splinetable::fit and splinetable_glamfit in the ASan+UBSan build on the lattice of argument shapes (first failing check + dimension from the "
  "exception text, object dump unchanged on reject, accepted shapes run without sanitizer report), and the property's own list of inconsistencies "
  "evaluated directly on the implementation's outcome.",
  "Trusted: Coq kernel; the hand-derived contract fit_contract (its adequacy for the C/C++ below the checks is only tested under sanitizers on tiny fits: "
  "<= 6 splines, <= 8 abscissae per dimension); the translator's reading of each condition text (FitArgs.g_fires/d_fires); internal consistency of the "
  "ndsparse data object and of the C caller's array lengths; solver outcome abstracted (solver_ok); leaks when fitting into a populated table and the "
  "object state after a solver failure are C20's; stack exhaustion for very large orders is not modelled.",
  "Coq proof over an executable argument-shape model whose check sequence is translated from the source + exact differential correspondence and sanitizer runs over the shape lattice", "§4 C13")
