check("C14",
  "Kernel-checked theorems (Properties_C14.v) about ConvModel.convolve, a statement-by-statement Gallina transcription of splinetable::convolve, "
  "convoluted_blossom, divdiff and factorial: C14_structure (for every well-formed table of any dimension count and any lengths, every valid dimension and every "
  "kernel of n >= 2 knots, over ANY arithmetic: order' = order+n-1, new knots = a sorted permutation of the pairwise sums, nknots' = nknots*n, naxes' = nknots'-order'-1, "
  "every other dimension's order/knots/naxes/extents unchanged, strides row-major, coefficient count = prod naxes, wf_table of the result; std::sort enters as a Section "
  "hypothesis 'returns a sorted permutation', discharged for the insertion sort the executed model uses), C14_coeffs_mode_product (the four nested loops produce, cell by "
  "cell, the product of the old coefficient array with the transfer matrix along the convolved dimension; plain dot product under exact arithmetic), "
  "C14_trafo_is_conv_lowdeg_order0/_order1 (for spline order 0 and 1 with a 2-knot kernel the transfer-matrix entry equals the B-spline coefficient of the exact convolution "
  "integral in closed form, over Q by case analysis + field: anchors the sign for odd and even k and the normalisation q!(k-1)!/(k+q-1)!), and regression statements for the code "
  "as shipped (factorial(0) = 0 zeroes an order-0 convolution; the (-1)^k factor negates even orders) — both defects fixed in the repo, model follows the fixed code. "
  "TESTED, NOT PROVED: the general analytic identity (Strom 1994) for orders 0..5 x kernels of 2..6 knots — on every run the same Gallina term evaluated at Qc (exact rationals), "
  "expanded in the new B-spline basis, is compared for exact equality with an independent exact piecewise-polynomial convolution integral (tools/props/conv_oracle.py) at "
  "order'+1 points of every new knot interval (equality of polynomial pieces). Correspondence every run: C++ member function and C wrapper vs model with native binary64 "
  "closures and float stores — order, nknots, naxes, strides, extents, knots and all new coefficients compared bitwise on generated tables (1..4 dims, orders 0..5, irregular "
  "knots, symmetric/asymmetric/aligned/narrow/wide kernels). The property's own statement is evaluated on the implementation (structure + ndsplineeval of the convolved table vs "
  "the exact integral, tolerance 16*sum(order+2)*2^-24*sum|terms|).",
  "Partial: the convolution identity is a theorem only for order 0/1 with a box kernel, otherwise an exact-arithmetic test; floating-point rounding is measured, not proved — and "
  "is a KNOWN FINDING (C14:value:rounding-cancellation): the double-precision divided differences lose far more than single precision for narrow kernels / strongly irregular knots / "
  "high order x many kernel knots; each such case is reported only after it is shown that C++ == model bitwise and that the algorithm at Qc is exact there. Trusted: Coq kernel; the "
  "differential tie (generator reach); extraction + OCaml floats; the Python exact oracle (cross-checked against the closed forms proved in Coq); std::sort as an oracle; unbounded "
  "integers in the model (factorial exact for order+n <= 12).",
  "Coq proofs (structure, index arithmetic, low-degree closed forms) + exact-rational test of the analytic identity + bitwise differential correspondence", "§4 C14")
