check("C09",
  "Kernel-checked theorems over any ordered field (Properties_C09.v), about the executable model FitModel.fit_system of what splinetable::fit -> glamfit_complex builds before the solve: "
  "(1) C09_normal_eq_minimise / C09_fit_minimises: for a weighted least-squares objective J (data terms and penalty terms alike: triples weight, design row, value) with non-negative weights, a solution c of "
  "the normal equations A c = r (A = sum w b b^T, r = sum w z b) satisfies J(c') - J(c) = (c'-c)^T A (c'-c) >= 0 for every c', and for positive definite A the minimiser is unique; with the linear solver as an oracle. "
  "(2) C09_penalty_is_DtD / C09_penalty_is_normal_matrix / C09_penalty_1d: for EVERY number of dimensions calc_penalty's matrix (D^T D Kronecker-multiplied with identities, left fold as in the code) is the Gram matrix M^T M of "
  "M = I x..x D x..x I with D the rows of divided_diffs coefficients, so c^T P c = sum_rows (p.c)^2 >= 0 and P is the normal matrix of unit-weight triples (Kronecker mixed-product and transpose lemmas proved on list matrices). "
  "(3) C09_glam_is_kron_partial: for EVERY number of dimensions and every axis, one slicemultiply - rotate axes, flatten with strides, multiply by b^T, unflatten with / and %, rotate back, the code's index arithmetic on "
  "(index tuple, value) entries with duplicate summation - is the mode product result[..,c,..] = sum_r b[r][c] a[..,r,..] (mixed-radix flat/unflat inverses, rotation lemmas, accumulator spec). "
  "(4) C09_zero_weight_and_order_irrelevant: J, A and r are invariant under permutation of the entry list and under entries of weight zero. "
  "Tie on every run: the real C++ fit and C splinetable_glamfit on generated exact problems (1..3 dims, orders 0..3, penalty orders 0..order, irregular knots, sparse/duplicate cells, zero weights, smoothing 0..2^10); "
  "bsplinebasis, box, calc_penalty, the F and R arrays after the real slicemultiply, and the normal system captured at cholesky_solve (ld --wrap, no source change) are compared with the exact model to double precision; "
  "the model's exact system must EQUAL (as rationals) a direct evaluation of the statement's objective (Cox-de Boor values, derivative-coefficient recursion; no GLAM); float coefficients are compared with the certified exact "
  "minimiser within a tolerance scaled by a rigorous bound on ||A^-1||; the oracle evaluates the exact objective at the returned coefficients; permuted / zero-weight-padded variants must give the identical exact system and the same coefficients; "
  "polynomial data of degree < penalty order must have exact minimum 0; spline data with zero smoothing must be reproduced.",
  "Partial: (3) is proved per axis only - the composition over all dimensions followed by the split/reorder/flatten of F into B^T W B (B the Kronecker product of the per-dimension bases) is NOT proved (full statement kept in "
  "Properties_C09.v); it is tested by exact rational equality model == direct definition on every case. The statement 'divided_diffs rows are the B-spline coefficients of the derivative' (de Boor X.16) and polynomial "
  "reproduction (Marsden) are tested, not proved. Rounding is measured, not proved. Trusted: Coq kernel; CHOLMOD as solver oracle (Section hypothesis solve_spec); dense-matrix reading of CHOLMOD sparse operations; extraction + Zarith closures "
  "(cross-checked against the extracted Qc instance on a subset); Python fractions for the direct oracle; ld --wrap.",
  "Coq proofs (least-squares minimisation over ordered fields, Gram/Kronecker algebra on list matrices, mixed-radix index arithmetic of slicemultiply) + exact-rational differential correspondence with intermediates of the real fitter", "§4 C09")
