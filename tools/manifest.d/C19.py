check("C19",
  "Kernel-checked, unbounded theorems (Properties_C19.v) about MemModel.v, an executable model of every allocator request of read_fits_core, "
  "convolve and the destructor in program order and of estimateMemory: C19_bound (peak of load + declared convolution <= estimate, for every "
  "number of dimensions, sizes, orders, auxiliary keys, kernel size n >= 1 and dimension), C19_bound_noconv, C19_bound_with_slack (the estimate "
  "additionally covers sizeof(splinetable) and > 1 KB), C19_peak_is_final_state (convolve frees before it allocates: nothing transient on top), "
  "C19_balanced_after_destroy, plus two obligations on the translated source (aux keys counted on the primary HDU; the estimate's post-convolution "
  "shape is convolve's). Hypotheses are boolean (card_limits: key+value fit one 80-character card; valid_conv: dimension exists and is consistent), "
  "shown satisfiable and shown necessary by Examples. The sizes (sizeof(splinetable) as compiled, pointer sizes, FLEN_*) and the arithmetic of "
  "estimateMemory are re-translated from the source tree on every run (tools/translators/mem.py, fails closed). On every run the exact event "
  "sequence (alloc/free, bytes) recorded by a byte-counting allocator passed as the Alloc template argument, and estimateMemory's value, are compared "
  "with the model event by event on files written by the library (1..6 dims, orders 0..5, 0..50 aux keys incl. HIERARCH) and the shipped tables, "
  "x {no convolution, 2..8 kernel knots}; the property itself is evaluated on the implementation (measured peak <= estimate; a capacity-limited "
  "allocator of the estimated size completes load + convolve).",
  "Trusted: Coq kernel; N arithmetic without size_t wrap-around; the differential tie (generator reach) between MemModel and the C++; the "
  "translator's C-expression parser; the harness's independent cfitsio shape reader; extraction + OCaml driver. Not covered: convolution of "
  "order-0 dimensions / 1-knot kernels on the real code (factorial(0) loops 2^32 times, defect D4) — covered by the model only; fragmentation "
  "and alignment overhead of a real arena. Needs the repo fix proposed_repo_patches/C19_1.diff (D18: aux keys were counted on the wrong HDU); "
  "on the unfixed tree the check reports C19:load:peak>estimate:aux-keys with a concrete file.",
  "Coq proof over allocation traces (peak/live semantics) + translator for estimateMemory + exact trace correspondence with a counting allocator", "§4 C19")
