check("C19", "stub", "stub", "stub", "§4 C19")
