check("C03",
  "Kernel-checked theorems for EVERY arithmetic (no float laws): the generic, per-dimension, constant-order and known-mixed-order routines (scalar and multi-basis) "
  "compute the same term whenever the specialised routine is applicable (C03_cores_agree); the dispatch table TRANSLATED from get_evaluator on every run only ever selects "
  "applicable routines and always selects one (C03_dispatch_table_sound/_total by vm_compute over the finite table, lifted by C03_dispatch_sound/_total); hence the evaluator "
  "object equals the member functions (C03_evaluator_eq_member); gradient lane 0 is the plain value and lane j+1 the bitmask derivative 2^j (C03_value_lane); "
  "bspline_nonzero = (bsplvb_simple, bspline_deriv_nonzero). Tie: two harness builds (with/without PHOTOSPLINE_NO_EVAL_TEMPLATES) compare every path bitwise with the "
  "model of the routine actually selected (function-pointer identity vs the model's selection), and the property itself (all paths bit-identical) is evaluated on the implementation.",
  "Trusted: Coq kernel; translator's reading of the switch (fails closed, cross-checked at run time by pointer identity); SIMD lanes modelled as independent scalar lanes; "
  "differential tie; C wrappers compared, not modelled separately.",
  "Coq structural proof (any arithmetic) + translated dispatch table obligations + bitwise differential correspondence", "§4 C03")
