check("C02",
  "Kernel-checked theorems over EVERY ordered field, all dimension counts, orders and knot vectors non-decreasing on their valid range: with any derivative bitmask, "
  "EvalModel.ndsplineeval equals the tensor-product sum in which the Cox-de Boor function is replaced, along exactly the flagged dimensions, by de Boor's derivative formula "
  "B' = n(B_{i,n-1}/(t_{i+n}-t_i) - B_{i+1,n-1}/(t_{i+n+1}-t_{i+1})) with the same one-sided convention as plain evaluation, margins and knots included (C02_bitmask_is_derivative_sum; "
  "one-dimensional heart: C02_local_derivative_basis about bspline_deriv_nonzero); the gradient evaluation returns the plain value in component 0 and that derivative along dimension j in "
  "component j+1 (C02_gradient_components, through the any-arithmetic lane theorem of C03); a derivative along an order-0 dimension is zero (C02_order0_derivative_zero). "
  "Tie: the same polymorphic terms on IEEE binary32/64 are compared BITWISE with ndsplineeval(mask), ndsplineeval_gradient and ndsplineeval_deriv (member, evaluator object, C wrappers); the "
  "property is judged on the implementation against exact rational derivatives (every mask for <= 4 dims, gradient <= 7 dims, arbitrary-order derivative vectors up to order+1).",
  "Partial: (1) 'the formula is d/dx of the piecewise polynomial' is the textbook identity (de Boor PGS X(8)), not re-proved - the exact oracle applies the formula; (2) ndsplineeval_deriv with an order >= 2 "
  "is modelled and compared bitwise, but has no theorem: it uses the right-continuous recursion, which is the open known finding C02:deriv>=2@x>=upper_full_support_knot; (3) rounding bound measured, not proved; "
  "(4) the zero-width-interval point class is excluded as in C01 (known finding D17). Trusted: Coq kernel, extraction + OCaml floats, differential tie, Python exact oracle (cross-checked with Coq on Qc).",
  "Coq proof over abstract ordered fields (derivative combination on top of the de Boor invariant; tensor assembly; lane theorem) + bitwise differential correspondence + exact rational oracle", "§4 C02")
