check("C17",
  "Kernel-checked theorems (Properties_C17.v, all closed under the global context) about GridModel.v, a statement-by-statement model of splinetable::grideval, bsplinebasis and "
  "slicemultiply in which the n-d sparse array is, as in the code, a list of (index tuple, value) rows with ranges - for EVERY ordered field, every number of dimensions, every order and "
  "every non-decreasing knot vector, repeated knots included: (1) C17_slicemultiply_is_mode_product / _shape: the rotate-flatten-multiply-unflatten of slicemultiply is the mode-dim product for every index tuple "
  "(both sides vanish outside the new ranges), built on C17_unflatten_flatten / C17_flatten_unflatten / C17_cols, the mixed-radix round trips of its two index loops for any ndim and dim; "
  "(2) C17_grideval_spec: the returned ranges are the grid lengths, every grid entry equals the sum over ALL coefficients of coefficient x product over dimensions of the right-continuous "
  "Cox-de Boor function at the grid abscissa, the array is 0 outside the ranges, and an entry that is not listed is 0 (and so is the sum there); (3) C17_agrees_pointwise / "
  "C17_spec_is_pointwise: at every grid point where center lookup succeeds and x_d < knots_d[naxes_d] in every dimension the entry IS EvalModel.ndsplineeval at that point (through the C01 "
  "theorem); C17_agrees_pointwise_upper extends this to points AT AND ABOVE the upper end of full support in every dimension of order >= 1 with strictly increasing knots (B-splines of order >= 1 are continuous: C17_Upper.Bfun_sides_agree). Tie, every run: bsplinebasis called directly vs the model at binary64 BITWISE; splinetable::grideval and the C splinetable_grideval vs the model: ranges and the stored index "
  "set exactly, values within K*2^-53*sum|terms| of the exact rational value; the extracted model on Qc equals the extracted specification exactly (executed instance of the theorem); and the "
  "property itself is judged on the implementation: every grid point strictly inside the knot range vs real pointwise ndsplineeval<double> and <float>, unlisted points as 0.",
  "Partial: (a) the rounding gap between the exact-field and binary64 instances of the model is measured (K = 16*sum(order+2) + 2*prod(order+1) ulps of sum|terms|), not proved; CHOLMOD's "
  "summation order is unspecified, so sums are never compared bitwise. (b) Grid points with x_d >= knots_d[naxes_d] (pointwise evaluation is left-continuous there, splineutil's bspline "
  "right-continuous; same continuous function for order >= 1) are covered by the oracle on every run, not by C17_agrees_pointwise; C17_last_knot_differs shows the two conventions differ AT the "
  "last knot for order 0 (outside the property's domain). (c) Empty grid axes and all-zero coefficient arrays (ndsparse(0,ndim) throws) are outside the theorems. Repaired defect (D23, fix 33ef56f, regression corpus/C17/repeated_knot.json): "
  "splineutil.c's bspline divided 0/0 on every repeated knot, so grideval returned NaN for such tables; the function now skips a Cox-de Boor term whose denominator vanishes, the model follows "
  "(GridModel.bspline_guarded) and C17_bspline_is_cox_de_boor states that this recursion IS the right-continuous Cox-de Boor function (0/0 := 0) for every knot sequence, order, index and x - no "
  "monotonicity, no exclusion; about a quarter of the generated tables carry repeated knots (multiplicities up to order+2), C17_repeated_knot_example is a concrete instance. Grid points where "
  "pointwise evaluation itself returns NaN (x = knots[naxes] = knots[naxes-1]: finding D17 of C01) are counted and skipped. "
  "Trusted: Coq kernel; CHOLMOD modelled by its documented meaning; "
  "extraction + OCaml native floats; Python exact-rational transcription of grid_spec (cross-checked against the extracted Qc definitions every run); generator reach.",
  "Coq proof over abstract ordered fields (mixed-radix index bijection, mode products, nested-sum interchange, reuse of the C01 theorem) + differential correspondence (bitwise basis matrices, "
  "exact sparsity pattern, toleranced sums) + exact rational oracle + pointwise-evaluation oracle on the real code", "§4 C17")
