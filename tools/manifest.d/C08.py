check("C08",
  "Kernel-checked, unbounded theorems (Properties_C08.v) about executable Gallina models. (A) error propagation — WriteModel.v models write_fits / write_fits_mem "
  "(after the fixes C08_1..C08_4) as the time-ordered list of cfitsio calls with their status checks and cfitsio's sticky-status convention, run against an arbitrary "
  "failure oracle: C08_success_implies_all_ok (success reported => no call failed, every table, every oracle, both writers), C08_failure_is_first_fault (failure is "
  "reported at exactly the first failing call), C08_all_ok_implies_success; C08_refuted_close_error_old (the model of the code before the fix reports success when "
  "exactly the guard's fits_close_file fails — D5, for every table). (B) crash states — C08_prefix_safe: on ANY prefix of ANY byte string the reader model accepts, the "
  "reader model (FitsModel.read_bytes) fails or returns the same orders, knots, coefficients, shape (a prefix of a byte string decodes to a prefix of its HDU list, never to "
  "a different HDU; the reader needs every HDU it uses); C08_crash_is_prefix: the crash states of the one-pass schedule are the prefixes of the final bytes; "
  "C08_crash_safe: for every table whose complete cfitsio-formatted file (cf_bytes, byte-exact incl. cfitsio's comments) reads back (decidable hypothesis evaluated per table) "
  "and every k, reading crash t k fails or yields equal orders/knots/coefficients; C08_crash_safe_model: the same for the model's own encoding with C06's round trip instead of "
  "the hypothesis. Tie, every run, through an LD_PRELOAD shim on stdio and on cfitsio's entry points: recorded positioned writes (merged) == extracted sched t (offsets and bytes), "
  "recorded cfitsio calls == extracted steps; crash enumeration (op boundaries, block/HDU/card/data-unit boundaries +-1, random interiors) materialised from the RECORDED trace, "
  "real reader in the checked build, oracle = the property, model crash state byte-equal and model reader accepting whenever the real one does; fault enumeration: every single "
  "stdio op failing (ENOSPC), sticky, RLIMIT_FSIZE (EFBIG surfacing at flush/close), every cfitsio call failing, through write_fits, writesplinefitstable, write_fits_mem, "
  "writesplinefitstable_mem; oracles 'success => complete file on disk' and 'what is left on disk is rejected or loads equal'; model run_writer on the call that failed.",
  "Proved of the models; photospline and cfitsio are tied differentially, not verified. The write schedule is cfitsio's buffering policy taken as an oracle (observed: one "
  "front-to-back pass once the header keys precede the image data — fix C08_2; before that fix a header growing past one block made cfitsio move image data in place and crash "
  "states loaded as different tables) and checked by trace equality per table. (A) quantifies over failures of cfitsio calls; that cfitsio reports a failing stdio operation "
  "through one of them is enumerated, not proved (a lone failing fflush is ignored by cfitsio; the following fclose completes or fails). Crash model: prefix of the write sequence, "
  "no OS/device reordering after power loss. complete_reads_back is a checked hypothesis for cfitsio's byte format. The model reader is more lenient than cfitsio on files ending "
  "inside a block (accepts a superset). Python wrapper read, not run. Trusted: Coq kernel, extraction + OCaml driver, shim, harness, Python oracles.",
  "Coq proof about fallible-step and crash-prefix models + LD_PRELOAD trace equality, crash-state and fault enumeration against the real writer and reader", "§4 C08")
