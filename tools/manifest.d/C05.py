check("C05",
  "Kernel-checked theorems about the LOGIC of memory safety, on the same polymorphic model that is compared bitwise with the C++: (A) for every coordinate vector whose coordinates are each "
  "non-NaN or NaN (NaN = every comparison false), over any arithmetic with a total preorder on non-NaN values, the lookup terminates and either fails or returns order <= center <= nknots-order-2 in "
  "every dimension; NaN is always rejected (C05_lookup_fails_or_in_range, C05_nan_rejected); (B) the evaluation core instantiated with a COLLECTING arithmetic (a value is the list of coefficient "
  "positions it was computed from) yields the exact sequence of coefficient positions ndsplineeval_core reads, and for every dimension count, order, row-major shape and in-range centers all of them lie in "
  "[0, ncoeffs) (C05_coefficient_reads_in_bounds, odometer invariant + mixed-radix bound); (C) for ANY arithmetic with NO laws (comparisons may answer anything), the margin walk, every entry the de Boor "
  "recurrence computes before re-indexing, the derivative combination, bspline_nonzero and the recursive derivative are unchanged when the knot array is altered outside [-order, nknots+order) = the block the "
  "library allocates, and the interval index stays in [-1, nknots-1] (C05_knot_reads_within_allocation); (D) the gradient is refused or its ndim+1 results fit the accumulator lanes, an obligation over the constants "
  "translated from detail/simd.h on every run (C05_gradient_lanes_fit, C05_gradient_refused_or_fits). Tie: ASan+UBSan build (assertions on) of every entry point on tables allocated exactly as the library does, "
  "coordinates from all IEEE classes crossed over dimensions; success flag and centers compared exactly with the model; a sanitizer report is the failing input.",
  "Partial: the theorems bound the MODEL's accesses; that the compiled C++ performs exactly those accesses (and nothing else, e.g. the local VLAs) is validated by the sanitizer build on this run's cases, not proved. "
  "Local-basis array indices (localbasis[n][i], i <= order) are covered by the list lengths in C01's theorems, caller buffers by the harness only. Trusted: Coq kernel, translator for MAXDIM/VECTOR_SIZE, sanitizers.",
  "Coq proofs (lookup invariant incl. NaN; odometer invariant on a collecting-arithmetic instance of the model; knot-independence for arbitrary arithmetic; translated constants) + sanitizer-checked differential correspondence", "§4 C05")
