check("C18",
      "proof (partial) + exact differential tie",
      "Kernel-checked, closed under the global context: C18_no_escape (for every glue table satisfying the computed obligation — and "
      "C18_no_escape_tree for the table transcribed from the working tree — no call, in any state, with any NULL arguments, under any "
      "allocation oracle and any outcome of the C++ member yields `Escaped`); C18_faithful (on a live handle a one-member wrapper changes "
      "the object world exactly as ObjModel.cpp_step of its twin and returns lift(outcome)); C18_failure_signalled / C18_success_not_failure "
      "(Failed <-> non-zero / NULL / NaN-filled); C18_balanced_glue (induction over ARBITRARY valid call sequences: every table object, "
      "ndsparse result and memory-file buffer the wrappers hand out is released exactly once with its size); tree obligations "
      "C18_tree_glue_ok / C18_tree_null_checked / C18_tree_forwarding by vm_compute over the translated table; C18_refuted_* witnesses for "
      "the unchanged wrappers. NOT proved: balance of the C++ objects' OWN allocations (needs C20_balanced, unproved) — tested by "
      "LeakSanitizer at the end of every sequence. Trusted: the translator's statement patterns (fail-closed), the nothrow claim for "
      "accessors/search/eval members (by reading, exercised on every run), C20's object model.",
      "Coq 8.16 proofs over CApiModel (glue data from tools/translators/cinter.py around ObjModel.cpp_step) + call sequences <= 30 over 1..3 "
      "handles through the real extern \"C\" functions beside C++ twin objects under ASan/UBSan/LSan, compared call by call with the model",
      "§4 C18")
