check("C10",
  "Kernel-checked theorems (Properties_C10.v). For MonoModel.backtransform — the cumulative-sum loop at the end of glamfit_complex transcribed with its own index arithmetic "
  "(flat row-major array, stride1/stride2 from the loop over the dimensions, in-place `out[p] += out[p - stride2]`) — for EVERY shape and every monodim: increments >= 0 => the "
  "result is non-decreasing along monodim, (a) exactly over any ordered field (C10_cumsum_monotone), (b) for any rounding operator that is monotone and idempotent, "
  "float add = rnd(a+b) (C10_cumsum_monotone_rnd), (c) for IEEE binary32 addition, Flocq's Bplus with round-to-nearest-even, under the explicit hypothesis that every entry of the result is finite "
  "(no NaN, no overflow) (C10_cumsum_monotone_ieee; C10_flocq_round_laws: Flocq's round satisfies the laws of (b)); the loop is the flat recurrence "
  "(C10_backtransform_spec: entry = its own increment plus the predecessor along monodim) and leaves nothing else changed (length; entries with index 0 along monodim). "
  "C10_tspline_basis: (B tril) inc = B (cumsum inc) for every matrix B with rows of the right length (basis AND finite-difference matrix: the T-spline change of basis is exact). "
  "C10_Bfun_nonneg: Cox-de Boor functions are >= 0 (proved here, by induction on the order). C10_coeff_monotone_implies_surface: coefficients non-decreasing along dimension d => the tensor-product sum with de Boor's "
  "derivative formula along d (BSpline.spline_spec with the unit derivative vector = what ndsplineeval returns with that bit, C02) is >= 0 at every point of the fully supported region, any number of dimensions "
  "(summation by parts; boundary terms vanish on full support). C10_inactive_constraint: if the unconstrained solution of the (symmetric positive definite) T-basis normal equations is >= 0 then it is the "
  "unique KKT point (via C11_kkt_unique), so the NNLS optimum is it, and within the solver's tolerance the objective gap is bounded (C11_kkt_tol_gap with C11_block3_exit_kkt). "
  "Correspondence/oracle every run on real fit(..., monodim) calls (1..3 dims, every monodim, orders 1..4, noisy/decreasing/oscillating/step/negative/spline data, sparse grids, zero weights): "
  "returned float coefficients non-decreasing along monodim (exact); increments returned by the real nnls_normal_block3 on the captured normal system >= 0 (exact); extracted model of the float store + "
  "cumulative-sum loop applied to the captured NNLS solution == returned coefficients (bitwise); captured T-basis system == L'(A - P_other)L + P_other of the captured B-basis system (exact rationals, 2^-36); "
  "exact rational derivative along monodim >= 0 and real ndsplineeval derivative >= -rounding bound at knots/abscissae/random points of the fully supported region; inactive constraint: NNLS solution == exact "
  "solution of the captured system, monotone coefficients == exact unconstrained minimiser, with condition-scaled tolerances.",
  "OPEN known finding C10:inactive:other-dimension-penalty-applied-to-increments: for ndim >= 2 the penalty terms of the non-monotonic dimensions are not transformed to the T-spline basis "
  "(identity instead of L'L in the monodim slot of the Kronecker product), so with non-zero smoothing in another dimension the monotone fit does not return the unconstrained coefficients even when "
  "those are non-negative and increasing (second sentence of the property); the first sentence (monotonicity) is unaffected. Tested only / trusted: nnls_normal_block3 itself (C11's model and theorems; here only its output is checked), "
  "CHOLMOD as the mathematical matrix operations, gcc's float addition = Flocq's Bplus (bitwise tie via the extracted model with native floats), rounding of the normal equations (condition-scaled tolerance), "
  "singular/ill-conditioned normal equations are outside (counted). The IEEE theorem depends on the standard library's real-number axioms (Flocq); all other theorems are closed under the global context.",
  "Coq proofs over an abstract ordered field / abstract rounding / Flocq binary32 + extraction + --wrap capture + differential correspondence against exact-rational oracles", "§4 C10")
