check("C11",
  "Kernel-checked theorems (Properties_C11.v), over any ordered field and executed at exact rationals: KKT => minimiser of 1/2 x'Ax - b'x on x >= 0 and "
  "KKT => unique for symmetric positive definite A (C11_kkt_minimises, C11_kkt_unique; real linear algebra over lists, convexity argument), KKT within t => "
  "objective gap <= 2 t sum(x') (C11_kkt_tol_gap); for NnlsModel.block3 (statement-by-statement model of nnls_normal_block3 + the sequential specification of "
  "walk_descents, constants and exit test regenerated from the source by tools/translators/nnls.py): x >= 0 exactly on EVERY exit incl. max_iter "
  "(C11_block3_nonneg, C11_block3_nonneg_gen), normal exit => KKT within kkt_tolerance for the solver as in the tree, i.e. with fix 616ccdb "
  "(C11_block3_exit_kkt, no hypothesis beyond an n x n matrix), at most max_iter passes (C11_block3_terminates_partial, C11_block3_inner_bound), and "
  "C11_block3_old_exit_kkt_refuted: the exit test `nH2 == 0` of the unrepaired solver does not imply KKT (3 exit paths, integer SPD witnesses, replayed on the real code). "
  "Correspondence every run: extracted Coq model == python mirror exactly; Coq model vs real block3 (the solver's own verbose trace, x) on well-separated systems; "
  "Coq 2^n-enumeration spec == certified exact optimum (n<=4); the property itself (non-negativity, KKT residual, distance to the exact optimum) evaluated on the output "
  "of all four real solvers (Lawson-Hanson on normal equations and on the least-squares system) on SPD systems n<=12 (random/degenerate/ties/badly scaled, dyadic data) "
  "and sparse systems n<=400 (KKT residual only).",
  "Partial/tested only: nnls_normal_block, nnls_normal_block_updown, nnls_lawson_hanson have no Coq model (oracle on outputs only); unreachability of the model's "
  "InnerFuel exit (termination of `while (!feasible)`) is counted per run, not proved; the max_iter exit returns x >= 0 but nothing more: OPEN known finding C11:block3-maxiter-exit-not-kkt "
  "(the real solver cycles on a degenerate system until max_iter and returns a non-optimal vector; corpus w7; the exact model converges). Trusted: Coq kernel; CHOLMOD/SPQR replaced by one exact verified reduced solve in the model (their rounding is covered by the oracle's "
  "condition-number-scaled tolerance only); IEEE arithmetic of the solvers tested not proved; python fractions oracle; the differential tie and the translator's pattern list.",
  "Coq proofs over an abstract ordered field (Qc instance executed) + translator + differential correspondence against exact-rational oracle", "§4 C11")
