check("C15",
  "Kernel-checked theorems (Properties_C15.v, all closed under the global context) about PermModel.permute_checked, a statement-by-statement model of "
  "splinetable::permuteDimensions (three validation loops, per-axis copies, inverse-permutation scatter, partial_sum/reverse stride computation, the coefficient loop "
  "npos += (pos / strides[i] % naxes[i]) * t_strides[iperm[i]] with the STORED strides, copy-back), for EVERY well-formed table (ndim >= 1, unbounded sizes), every argument vector and "
  "abstract element types (so all bit patterns): C15_rejects / C15_accepts (rejected iff not a permutation of 0..ndim-1; table untouched; the 'Missing index' loop is dead code), "
  "C15_wrong_length_class, C15_c_wrapper (splinetable_permute: 0 + permuted / 1 + untouched), C15_coeff_relocated (value at multi-index m sits at the permuted multi-index, in range), "
  "C15_coeff_permutation, C15_junk_irrelevant (no uninitialised slot survives), C15_attributes (order, nknots, knots incl. padding, extents, naxes, periods of new axis i = old axis p_i), "
  "C15_shape (row-major strides, result well-formed), C15_inverse (inverse vector restores the identical table), C15_same_function (tensor-product sum over any commutative ring is "
  "invariant), C15_refuted_periods_v0 (the code as found did not permute periods: D11, fixed by proposed_repo_patches/C15_1.diff; the model follows the fixed code). "
  "Tie: complete dumps (integers and bit patterns of every member, knots with padding) of the real code after member-function and C-wrapper calls, in -O3 and ASan/UBSan builds, "
  "equal the extracted model's dumps for every permutation of <=4 (quick) / <=5 (thorough) dims, sampled 6-dim ones, compositions, inverse round trips and every malformed class; "
  "the property's own statement (independent index arithmetic, operator==, evaluation at permuted points vs the exact rational value) is evaluated on the implementation's output.",
  "Trusted: Coq kernel; the hand transcription permute.h -> PermModel.v (tied differentially, not proved about C++); unbounded integers (uint64 exact for tables that fit in memory); "
  "extraction + OCaml driver with strings as abstract elements; harness table construction through private members. 'Same function' on IEEE floats is tested against the exact value "
  "within the C01 rounding bound, not proved (float products are reordered); ndim = 0 excluded (undefined behaviour in the code, outside the property's range).",
  "Coq proof (mixed-radix index arithmetic, permutations) + exact differential correspondence on complete table dumps + property oracle", "§4 C15")
