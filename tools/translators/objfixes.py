#!/usr/bin/env python3
"""objfixes.py — which of the proposed C20 fixes (proposed_repo_patches/C20_*.diff) the working tree contains.
Writes coq/theories/Generated_objfixes.v (tree_cfg : ObjModel.cfg). Fails closed: for every flag exactly one of
the 'original' and the 'fixed' source pattern must be present."""
import os, re, sys
REPO = os.environ.get("VERIF_REPO", "/repo")
V = os.path.dirname(os.path.dirname(os.path.dirname(os.path.abspath(__file__))))
def rd(p): return open(os.path.join(REPO, "include/photospline", p)).read()
H, F, C, FT, P, AX = rd("splinetable.h"), rd("detail/fitsio.h"), rd("detail/convolve.h"), rd("detail/fit.h"), rd("detail/permute.h"), rd("detail/aux.h")
def body(src, start, end):
    i = src.index(start); j = src.index(end, i); return src[i:j]
dtor = body(H, "~splinetable(){", "splinetable& operator=(splinetable&& other)")
movea = body(H, "splinetable& operator=(splinetable&& other){", "bool operator==(const splinetable& other) const{")
eqop = body(H, "bool operator==(const splinetable& other) const{", "bool operator!=(const splinetable& other) const{")
readcore = body(F, "::read_fits_core(fitsfile* fits", "::write_fits(const std::string& filePath) const{")
readfits = body(F, "::read_fits(const std::string& filePath){", "::read_fits_core(fitsfile* fits")
# remove_key is transcribed statement by statement (ObjModel.step_remove_key): its body, comments and white space removed, must be
# EXACTLY one of the two texts the model was written against — any other edit of the function fails closed
def squeeze(t):
    t = re.sub(r"//[^\n]*", "", t); t = re.sub(r"/\*.*?\*/", "", t, flags=re.S)
    return re.sub(r"\s+", "", t)
rmkey = squeeze(body(AX, "::remove_key(const char* key){", "template<typename Alloc>\ntemplate<typename T>\nbool splinetable<Alloc>::read_key("))
RM_HEAD = ("::remove_key(constchar*key){uint32_ti;for(i=0;i<naux;i++){if(strcmp(key,&*aux[i][0])==0)break;}if(i==naux)return(false);")
RM_ORIG = RM_HEAD + ("char_ptr_ptr*tmp_aux=nullptr;try{tmp_aux=newchar_ptr_ptr[naux-1];for(uint32_tj=0,k=0;j<naux;j++){if(j!=i)tmp_aux[k++]=aux[j];}"
    "deallocate(aux[i][0],strlen(&aux[i][0][0])+1);deallocate(aux[i][1],strlen(&aux[i][1][0])+1);deallocate(aux[i],2);deallocate(aux,naux);"
    "naux--;aux=allocate<char_ptr_ptr>(naux);std::copy_n(&tmp_aux[0],naux,&aux[0]);delete[]tmp_aux;}catch(...){delete[]tmp_aux;throw;}return(true);}")
RM_FIXED = RM_HEAD + ("char_ptr_ptr_ptrnew_aux=allocate<char_ptr_ptr>(naux-1);for(uint32_tj=0,k=0;j<naux;j++){if(j!=i)new_aux[k++]=aux[j];}"
    "deallocate(aux[i][0],strlen(&aux[i][0][0])+1);deallocate(aux[i][1],strlen(&aux[i][1][0])+1);deallocate(aux[i],2);deallocate(aux,naux);"
    "aux=new_aux;naux--;return(true);}")
FLAGS = [  # name, original pattern present, fixed pattern present
 ("fx_aux", "deallocate(aux,naux);" in dtor and "release_aux" not in H,
            "void release_aux()" in H and "release_aux();" in readcore and ("release_aux();" in dtor or "clear();" in dtor)),
 ("fx_clear", "uint64_t ncoeffs=strides[0]*naxes[0];" in dtor and "clear();" not in readfits,
              "void clear()" in H and "clear();" in dtor and readfits.count("clear();") == 2 and "std::fill(knots,knots+ndim,nullptr);" in readcore
              and "std::fill(extents,extents+ndim,nullptr);" in readcore
              and re.search(r"aux\[i\]\[0\] = allocate<char>\(keylen\);\s*(//[^\n]*\s*)*std::copy\(key,key\+keylen,aux\[i\]\[0\]\);", readcore) is not None),
 ("fx_conv", "dim>=ndim" not in C and "clear();" not in C,
             "if(dim>=ndim)" in C and "if(n_conv_knots<2)" in C and "clear();" in C and "this->coefficients=nullptr;" in C and "knots[i]=nullptr;" in C),
 ("fx_fit", "cannot fit" not in FT and "clear();" not in FT,
            "if(ndim!=0)" in FT and "cannot fit" in FT and "clear();" in FT and "std::fill(this->knots,this->knots+ndim,nullptr);" in FT
            and "std::fill(extents,extents+ndim,nullptr);" in FT),
 ("fx_eq", "ndim == 0" not in eqop, re.search(r"if \(ndim == 0\)[^\n]*\n\s*return true;", eqop) is not None),
 ("fx_perm", "if(ndim==0)" not in P, re.search(r"if\(ndim==0\)[^\n]*\n\s*return;", P) is not None),
 ("fx_moveasg", "swap(ndim,other.ndim);" in movea and "std::move(other)" not in movea,
                "swap(ndim,other.ndim);" in movea and "splinetable released(std::move(other));" in movea),
 ("fx_auxsize", "aux[i][1] = allocate<char>(valuelen);" in readcore, "aux[i][1] = allocate<char>(storedlen);" in readcore),
 ("fx_rmkey", rmkey == RM_ORIG, rmkey == RM_FIXED),
]
bits, bad = "", []
for name, orig, fixed in FLAGS:
    if orig == fixed:
        bad.append("%s: original=%s fixed=%s" % (name, orig, fixed))
    bits += "1" if (fixed and not orig) else "0"
# Fails closed — but never leaves a file from ANOTHER tree behind: an unrecognised site is written as `not fixed` (so that
# C20_tree_is_fixed cannot hold and the check's model follows the original code there and is compared with whatever the
# tree now does), the exit status says that the translation failed.
out = "(* generated by tools/translators/objfixes.py from %s — do not edit.  tree_cfg_bits := \"%s\"%s *)\n" % (
    REPO, bits, ("  UNRECOGNISED: " + "; ".join(bad)) if bad else "")
out += "From PS Require Import ObjModel.\nDefinition tree_cfg : cfg :=\n  {| " + ";\n     ".join("%s := %s" % (n, "true" if b == "1" else "false") for (n, _, _), b in zip(FLAGS, bits)) + " |}.\n"
p = os.path.join(V, "coq", "theories", "Generated_objfixes.v")
if not os.path.exists(p) or open(p).read() != out:
    open(p, "w").write(out)
if bad:
    print("objfixes: unrecognised source state: " + "; ".join(bad)); sys.exit(1)
print("objfixes: tree_cfg bits %s" % bits)
