#!/usr/bin/env python3
"""cinter.py — transcribes the GLUE SHAPE of every extern "C" function of src/cinter/splinetable.cpp into
coq/theories/Generated_cinter.v (wrappers : list CGlue.glue): which pointer arguments the leading check tests, what
it returns, whether the body sits inside try{}catch(std::exception&){}catch(...){} and what the catch blocks return,
which C++ member the body forwards to and with which arguments, what the normal path returns.

Fails closed: every statement of every function body has to match one of the statement shapes below; a function that
is declared in include/photospline/cinter/splinetable.h and not defined (or the reverse) is an error too."""
import os, re, sys
REPO = os.environ.get("VERIF_REPO", "/repo")
V = os.path.dirname(os.path.dirname(os.path.dirname(os.path.abspath(__file__))))
SRC = os.path.join(REPO, "src/cinter/splinetable.cpp")
HDR = os.path.join(REPO, "include/photospline/cinter/splinetable.h")

class Unrecognised(Exception):
    pass

def strip_comments(s):
    s = re.sub(r"/\*.*?\*/", " ", s, flags=re.S)
    return re.sub(r"//[^\n]*", " ", s)

def norm(s):
    s = re.sub(r"\s+", " ", s).strip()
    return re.sub(r"\s*([^\w\s])\s*", r"\1", s)

def functions(src):
    """top-level function definitions of the extern "C" block: (rtype, name, params text, body text)"""
    s = strip_comments(src)
    s = "\n".join(l for l in s.split("\n") if not l.lstrip().startswith("#"))
    i = s.index('extern "C"'); i = s.index("{", i) + 1
    out, depth, start = [], 0, i
    j = i
    while j < len(s):
        ch = s[j]
        if ch == "{":
            if depth == 0:
                head = s[start:j]
                bs = j
            depth += 1
        elif ch == "}":
            if depth == 0:
                rest = s[start:j].strip()
                if rest:
                    raise Unrecognised("text outside any function: %r" % rest[:80])
                break                      # end of extern "C"
            depth -= 1
            if depth == 0:
                m = re.fullmatch(r"\s*([\w\s\*]+?[\s\*])(\w+)\s*\(([^()]*)\)\s*", head, flags=re.S)
                if not m:
                    raise Unrecognised("not a function header: %r" % head.strip()[:120])
                out.append((norm(m.group(1)), m.group(2), m.group(3), s[bs + 1:j]))
                start = j + 1
        j += 1
    return out

def split_statements(b):
    """split a normalised body at top level: `;` outside (){} ends a statement, so does a `}` returning to depth 0"""
    out, cur, par, br = [], "", 0, 0
    for ch in b:
        cur += ch
        if ch == "(": par += 1
        elif ch == ")": par -= 1
        elif ch == "{": br += 1
        elif ch == "}":
            br -= 1
            if br == 0 and par == 0:
                out.append(cur); cur = ""
        elif ch == ";" and par == 0 and br == 0:
            out.append(cur[:-1]); cur = ""
    if cur.strip():
        raise Unrecognised("dangling text %r" % cur[:80])
    return out

def split_args(a):
    out, cur, d = [], "", 0
    a = a.replace("->", "\x00")
    for ch in a:
        if ch in "(<": d += 1
        if ch in ")>": d -= 1
        if ch == "," and d == 0:
            out.append(cur); cur = ""
        else:
            cur += ch
    if cur: out.append(cur)
    out = [x.replace("\x00", "->") for x in out]
    res = []
    for x in out:
        m = re.fullmatch(r"\*static_cast<(?:const )?\w+\*>\((\w+)\)", x)
        res.append(m.group(1) if m else x)
    return res

RET = {"return(0)": "CR0", "return(1)": "CR1", "return(NULL)": "CRNull", "return": "CRVoid",
       "return(std::numeric_limits<double>::quiet_NaN())": "CRNaN"}
# what a leading check may hand back: one of RET, or (void ndsplineeval_gradient) the NaN fill of the output buffer
CHECK_RET = r"(?:(return(?:\((?:\w+|std::numeric_limits<double>::quiet_NaN\(\))\))?);|\{(gradient_failed\(table,evaluates\);return;)\})"
BIND = re.compile(r"(const )?auto&real_table=\*static_cast<(const )?photospline::splinetable<>\*>\(table->data\)")
# statements that only repackage arguments (array views, the permutation vector, handing results back): literal text
PLUMBING = [norm(x) for x in [
    "using photospline::detail::array_view",
    "array_view<double> weightsv(weights,data->rows)",
    "std::vector<array_view<double>> coordsv(data->ndim)",
    "for(size_t i=0; i<data->ndim; i++) coordsv[i].reset(coords[i],data->ranges[i])",
    "array_view<uint32_t> splineOrderv(splineOrder,data->ndim)",
    "std::vector<array_view<double>> knotsv(data->ndim)",
    "for(size_t i=0; i<data->ndim; i++) knotsv[i].reset(knots[i],nknots[i])",
    "array_view<double> smoothingv(smoothing,data->ndim)",
    "array_view<uint32_t> penaltyOrderv(penaltyOrder,data->ndim)",
    "std::vector<array_view<double>> coordsv(real_table.get_ndim())",
    "for(size_t i=0; i<real_table.get_ndim(); i++) coordsv[i].reset(coords[i],ncoords[i])",
    "std::vector<size_t> permutationv(real_table.get_ndim())",
    "std::copy(permutation,permutation+real_table.get_ndim(),permutationv.begin())",
    "*result=nd.release()", "buffer->data=result.first", "buffer->size=result.second",
]]
# a helper that is not a wrapper: fills the caller's gradient buffer with NaN when the evaluation failed
# (it asks splinetable_ndim — itself a checked wrapper: 0 for a handle without a table — how many slots there are)
HELPERS = {"gradient_failed": norm("""
	uint32_t ndim=splinetable_ndim(table);
	for(uint32_t i=0; i<=ndim; i++)
		evaluates[i]=std::numeric_limits<double>::quiet_NaN();""")}

def glue_of(rtype, name, params, body):
    g = dict(name=name, rtype=rtype, params=[], pre=[], checked=[], check_ret="CRNone", free_first=False, tri=False,
             catch_ret="CRNone", false_ret="CRNone", member="", fwd=[], ok_ret="CRNone")
    for p in [x.strip() for x in params.split(",") if x.strip()]:
        m = re.fullmatch(r".*?[\s\*](\w+)", p, flags=re.S)
        if not m: raise Unrecognised("%s: parameter %r" % (name, p))
        g["params"].append(m.group(1))
    b = norm(body)
    # leading items, in order: NULL checks `if(!a||!b->c||d->e)return(V);` and initialisations `*p=NULL;` of an output
    # parameter (a dereference BEFORE the check if p has not been tested yet)
    while True:
        m = re.match(r"\*(\w+)=NULL;", b)
        if m:
            if m.group(1) not in g["checked"]: g["pre"].append(m.group(1))
            b = b[m.end():]; continue
        m = re.match(r"if\(([^()]*)\)" + CHECK_RET, b)
        if m and all(re.fullmatch(r"!?\w+(?:->\w+)?", o) for o in m.group(1).split("||")) and m.group(1) != "table->data":
            for o in m.group(1).split("||"):
                g["checked"].append(o[1:] if o.startswith("!") else o + ":nonnull")
            r = "CRNaNFill" if m.group(3) else RET[m.group(2)]
            if g["check_ret"] not in ("CRNone", r): raise Unrecognised("%s: the leading checks return different things" % name)
            g["check_ret"] = r; b = b[m.end():]; continue
        break
    m = re.match(r"if\(table->data\)splinetable_free\(table\);", b)
    if m:
        g["free_first"] = True; b = b[m.end():]
    nanfill = r"(gradient_failed\(table,evaluates\);)?"
    m = re.fullmatch(r"try\{(.*)\}catch\(std::exception&ex\)\{fprintf\(stderr,\"%s\\n\",ex\.what\(\)\);" + nanfill +
                     r"(return(?:\(\w+\))?);\}catch\(\.\.\.\)\{" + nanfill + r"(return(?:\(\w+\))?);\}((?:return\(\w+\);)?)", b)
    tail = None
    if m:
        g["tri"] = True
        r1 = ("CRNaNFill" if m.group(2) else RET[m.group(3)]); r2 = ("CRNaNFill" if m.group(4) else RET[m.group(5)])
        if r1 != r2: raise Unrecognised("%s: the two catch blocks return different things" % name)
        g["catch_ret"] = r1
        core, tail = m.group(1), m.group(6)
    else:
        if "try{" in b or "catch(" in b: raise Unrecognised("%s: try/catch of an unknown shape: %r" % (name, b[:200]))
        core = b
    calls = []
    stmts = split_statements(core)
    for st in stmts:
        if BIND.fullmatch(st): continue
        if st in PLUMBING: continue
        if st == "auto real_table=static_cast<photospline::splinetable<>*>(table->data)": continue
        if st == "table->data=NULL": continue
        if st == "delete real_table": calls.append(("delete", ["real_table"])); continue
        if st == "delete nd": calls.append(("delete ::ndsparse", ["nd"])); continue
        if st == "delete static_cast<photospline::ndsparse*>(nd)": calls.append(("delete photospline::ndsparse", ["nd"])); continue
        mm = re.fullmatch(r"table->data=new photospline::splinetable<>\((\w*)\)", st)
        if mm: calls.append(("new", [mm.group(1)] if mm.group(1) else [])); continue
        if st == "if(!table->data)table->data=new photospline::splinetable<>()": calls.append(("new_if_null", [])); continue
        mm = re.fullmatch(r"(?:auto (?:nd|result)=)?real_table\.(\w+)\((.*)\)", st)
        if mm: calls.append((mm.group(1), split_args(mm.group(2)))); continue
        mm = re.fullmatch(r"return\(real_table\.(\w+)\((.*)\)\)", st)
        if mm:
            calls.append((mm.group(1), split_args(mm.group(2)))); g["ok_ret"] = "CRValue"; continue
        mm = re.fullmatch(r"switch\(type\)\{case SPLINETABLE_INT:(.*?)break;case SPLINETABLE_DOUBLE:(.*?)break;\}", st)
        if mm:
            arms = []
            for arm, ty in ((mm.group(1), "int"), (mm.group(2), "double")):
                a = re.fullmatch(r"if\(!real_table\.(\w+)\((.*)\)\)return\(1\);", arm)
                if a:
                    arms.append((a.group(1), split_args(a.group(2)), "CR1"))
                else:
                    a = re.fullmatch(r"real_table\.(\w+)\((.*)\);", arm)
                    if not a: raise Unrecognised("%s: switch arm %r" % (name, arm))
                    arms.append((a.group(1), split_args(a.group(2)), "CRNone"))
                if ("<%s*>" % ty) not in arm and ("<const %s*>" % ty) not in arm:
                    raise Unrecognised("%s: the %s arm does not cast to %s" % (name, ty, ty))
            if arms[0] != arms[1]: raise Unrecognised("%s: the two arms of the switch differ: %r" % (name, arms))
            calls.append((arms[0][0], arms[0][1])); g["false_ret"] = arms[0][2]; continue
        if st in RET and st == stmts[-1] and g["tri"] is False and g["ok_ret"] == "CRNone":
            g["ok_ret"] = RET[st]; continue
        raise Unrecognised("%s: statement %r" % (name, st))
    if g["tri"]:
        if tail:
            t = RET[tail[:-1]]
            if g["ok_ret"] == "CRValue":
                if t != g["catch_ret"]: raise Unrecognised("%s: unreachable tail return differs from the catch value" % name)
            else:
                g["ok_ret"] = t
        elif g["ok_ret"] == "CRNone":
            g["ok_ret"] = "CRVoid"
    elif g["ok_ret"] == "CRNone":
        g["ok_ret"] = "CRVoid"
    if g["ok_ret"] == "CRVoid" and rtype != "void": raise Unrecognised("%s: non-void function falls off its end" % name)
    names = [c[0] for c in calls]
    if names == ["new_if_null", "read_fits_mem"]:
        g["member"], g["fwd"] = "new_if_null+read_fits_mem", calls[1][1]
    elif len(calls) == 1:
        g["member"], g["fwd"] = calls[0]
    else:
        raise Unrecognised("%s: forwards to %r" % (name, names))
    return g

def coq_list(xs): return "[" + "; ".join('"%s"' % x for x in xs) + "]"

def main():
    try:
        fs = functions(open(SRC).read())
        glues = []
        for rtype, name, params, body in fs:
            if rtype.startswith("static "):
                if name in HELPERS and norm(body) == HELPERS[name]: continue
                raise Unrecognised("helper %s of an unknown shape" % name)
            glues.append(glue_of(rtype, name, params, body))
        hdr = strip_comments(open(HDR).read())
        declared = set(re.findall(r"\b(\w+)\s*\([^()]*\)\s*;", hdr))
        defined = set(g["name"] for g in glues)
        if declared != defined:
            raise Unrecognised("declared but not defined: %s; defined but not declared: %s" % (sorted(declared - defined), sorted(defined - declared)))
    except (Unrecognised, ValueError, KeyError, OSError) as e:
        print("cinter: unrecognised source: %s" % e); sys.exit(1)
    out = "(* generated by tools/translators/cinter.py from %s — do not edit *)\n" % SRC
    out += "From Coq Require Import List String.\nFrom PS Require Import CGlue.\nImport ListNotations.\nOpen Scope string_scope.\n\nDefinition wrappers : list glue := [\n"
    rows = []
    for g in glues:
        rows.append('  mkGlue "%s" "%s" %s %s %s %s %s %s %s %s "%s" %s %s' % (
            g["name"], g["rtype"], coq_list(g["params"]), coq_list(g["pre"]), coq_list(g["checked"]), g["check_ret"],
            "true" if g["free_first"] else "false", "true" if g["tri"] else "false", g["catch_ret"], g["false_ret"],
            g["member"], coq_list(g["fwd"]), g["ok_ret"]))
    out += ";\n".join(rows) + "\n].\n"
    p = os.path.join(V, "coq", "theories", "Generated_cinter.v")
    if not os.path.exists(p) or open(p).read() != out:
        open(p, "w").write(out)
    print("cinter: %d wrappers, %d inside try/catch" % (len(glues), sum(1 for g in glues if g["tri"])))

if __name__ == "__main__":
    main()
