#!/usr/bin/env python3
"""nnls.py — translator for C11: reads src/fitter/nnls.c and src/fitter/cholesky_solve.c of the repo working tree
and writes coq/theories/Generated_nnls.v with the constants and the *shape* of the decisions the model
NnlsModel.v transcribes. Fails closed (exit 1): every statement the model depends on must be present in the
source in exactly the recognised form; anything else means the model no longer describes the code."""
import os, re, sys

REPO = os.environ.get("VERIF_REPO", "/repo")
VERIF = os.path.dirname(os.path.dirname(os.path.dirname(os.path.abspath(__file__))))
OUT = os.path.join(VERIF, "coq", "theories", "Generated_nnls.v")

def die(msg):
    # the previous Generated_nnls.v (if any) is left in place so that the model can still be run to look for a
    # failing input; run.py marks the proof obligations as broken because of the non-zero status
    sys.stderr.write("nnls translator: " + msg + "\n")
    sys.exit(1)

def strip_comments(s):
    s = re.sub(r"/\*.*?\*/", " ", s, flags=re.S)
    s = re.sub(r"//[^\n]*", " ", s)
    return s

def norm(s):
    return re.sub(r"\s+", "", s)

def function_body(src, name):
    m = re.search(r"\n" + re.escape(name) + r"\s*\(", src)
    if not m:
        die("function %s not found" % name)
    i = src.index("{", m.end())
    depth, j = 0, i
    while j < len(src):
        if src[j] == "{":
            depth += 1
        elif src[j] == "}":
            depth -= 1
            if depth == 0:
                return src[i:j + 1]
        j += 1
    die("unbalanced braces in %s" % name)

def need(body, what, pattern):
    if norm(pattern) not in body:
        die("%s: expected statement not found: %s" % (what, pattern))

def main():
    try:
        nnls = strip_comments(open(os.path.join(REPO, "src/fitter/nnls.c")).read())
        chol = strip_comments(open(os.path.join(REPO, "src/fitter/cholesky_solve.c")).read())
    except OSError as e:
        die(str(e))
    # ---- constants -----------------------------------------------------------------------------
    m = re.search(r"#define\s+KKT_TOL\s+1e-(\d+)\s*\n", nnls)
    if not m: die("KKT_TOL not of the form 1e-<k>")
    kkt_exp = int(m.group(1))
    m = re.search(r"#define\s+MAX_TRIALS\s+(\d+)\s*\n", nnls)
    if not m: die("MAX_TRIALS not an integer literal")
    max_trials = int(m.group(1))
    b3 = function_body(nnls, "nnls_normal_block3")
    b3n = norm(b3)
    m = re.findall(r"max_iter\s*=\s*(\d+)\s*;", b3)
    if len(m) != 1: die("block3: max_iter assignment not unique / not an integer literal")
    max_iter = int(m[0])
    m = re.search(r"kkt_tolerance=\(\(double\)\(nvar\)\)\*DBL_EPSILON\*1e(\d+);", b3n)
    if not m: die("block3: kkt_tolerance is not ((double)(nvar)) * DBL_EPSILON * 1e<k>")
    tol_exp = int(m.group(1))
    if len(re.findall(r"kkt_tolerance=", b3n)) != 1: die("block3: kkt_tolerance assigned more than once")
    # ---- block3: the statements the model transcribes ---------------------------------------------
    need(b3n, "block3", "for (iter = 0; iter < max_iter; iter++) {")
    need(b3n, "block3", "if (((double *)(y->x))[G_[i]] < -kkt_tolerance) { H2[nH2++] = G_[i]; }")
    need(b3n, "block3", "if (nGprime < 0) { G_ = G; nG_ = nG; } else { G_ = Gprime; nG_ = nGprime; }")
    need(b3n, "block3", "feasible = false; while (!feasible) {")
    need(b3n, "block3", "L = modify_factor(AtA, L, F, &nF, G, &nG, H1, &nH1, H2, &nH2, verbose, c);")
    need(b3n, "block3", "if (((double*)(x_F->x))[i] < 0) { nF_inf++; if (((double*)(x->x))[F[i]] < kkt_tolerance) nF_inf_boundary++; }")
    need(b3n, "block3", "if (nF_inf == 0) {")
    need(b3n, "block3", "} else if (nF_inf == nF_inf_boundary) {")
    need(b3n, "block3", "if (((double*)(x_F->x))[i] < 0) { H1[nH1++] = F[i]; ((double*)(x->x))[F[i]] = 0; }")
    need(b3n, "block3", "feasible = walk_descents(AtA_F, Atb_F, x, x_F, F, &nF, H1, &nH1, &residual, &residual_calcs, verbose, c);")
    need(b3n, "block3", "if (nH1 == 0) { nGprime = nFprime = -1;")
    need(b3n, "block3", "cholmod_l_sdmult(AtA_FG, 0, ones, mones, x_F, Atb_G, c);")
    need(b3n, "block3", "for (i = 0; i < nG_; i++) ((double *)(x->x))[G_[i]] = 0; for (i = 0; i < nF_; i++) ((double *)(y->x))[F_[i]] = 0;")
    exits = re.findall(r"if\(([^{};]*)\)break;", b3n)
    if len(exits) != 1:
        die("block3: expected exactly one conditional break in the outer loop, found %r" % exits)
    if exits[0] == "nH2==0":
        repaired = False
    elif exits[0] == "nH2==0&&nH1==0&&full_step":
        repaired = True
        need(b3n, "block3(repaired)", "full_step = true;")
        need(b3n, "block3(repaired)", "full_step = false;")
        if len(re.findall(r"full_step=true;", b3n)) != 2 or len(re.findall(r"full_step=false;", b3n)) != 1:
            die("block3(repaired): full_step must be set true at initialisation and in the 'entirely feasible' branch, false before walk_descents, nowhere else")
        if not re.search(r"\(nF_inf==0\)\{[^}]*full_step=true;", b3n):
            die("block3(repaired): full_step = true not inside the nF_inf == 0 branch")
        if not re.search(r"full_step=false;feasible=walk_descents\(", b3n):
            die("block3(repaired): full_step = false not directly before walk_descents")
    else:
        die("block3: unrecognised exit condition: " + exits[0])
    # ---- walk_descents / evaluate_descent -----------------------------------------------------------
    wd = norm(function_body(chol, "walk_descents"))
    need(wd, "walk_descents", "alpha[0] = 0; alpha[1] = 1; n_alpha = 2;")
    need(wd, "walk_descents", "if (((double*)(x_F->x))[i] < 0) { alpha[n_alpha] = ((double*)(x->x))[F[i]] / (((double*)(x->x))[F[i]] -((double*)(x_F->x))[i]); if ((alpha[n_alpha] < 1) && (alpha[n_alpha] > 0)) ++n_alpha; }")
    need(wd, "walk_descents", "qsort(&alpha[2], n_alpha-2, sizeof(alpha[0]), double_rcmp);")
    need(wd, "walk_descents", "if ((i == 0) && (j == 0)) {")
    need(wd, "walk_descents", "res = descent_trials[j].residual; } else if ((descent_trials[j].residual < res) || (i*n_threads + j == n_alpha-1)) {")
    need(wd, "walk_descents", "if (descent_trials[j].residual < res) { feasible = true; *residual = descent_trials[j].residual; } else feasible = false;")
    ed = norm(function_body(chol, "evaluate_descent"))
    need(ed, "evaluate_descent", "*xptr = (1.0 - trial->alpha[0]) * ((double*)(x->x))[F[i]] + trial->alpha[0] * ((double*)(x_F->x))[i];")
    need(ed, "evaluate_descent", "if (*xptr < 0.0) { *xptr = 0.0; trial->H1[trial->nH1++] = F[i]; }")
    cr = norm(function_body(chol, "calc_residual"))
    need(cr, "calc_residual", "double ones[2] = { 1., 0}; double mtwos[2] = {-2., 0};")
    need(cr, "calc_residual", "cholmod_l_sdmult(AtA, 0, ones, mtwos, x, AtAx, c);")
    need(cr, "calc_residual", "result += ((double*)(x->x))[i] * ((double*)(AtAx->x))[i];")
    rc = norm(function_body(chol, "double_rcmp"))
    need(rc, "double_rcmp", "if (*a < *b) return (1); else if (*a > *b) return (-1); else return (0);")
    # ---- PJV block solvers --------------------------------------------------------------------------
    for fn in ("nnls_normal_block", "nnls_normal_block_updown"):
        bb = norm(function_body(nnls, fn))
        need(bb, fn, "iter = 3*nvar;")
        need(bb, fn, "while (iter-- > 0) {")
        need(bb, fn, "if (((double *)(x->x))[F[i]] < -KKT_TOL) H1[nH1++] = F[i];")
        need(bb, fn, "if (((double *)(y->x))[G[i]] < -KKT_TOL) H2[nH2++] = G[i];")
        need(bb, fn, "if (nH1 == 0 && nH2 == 0) break;")
    txt = """(* Generated_nnls.v — written by tools/translators/nnls.py from src/fitter/nnls.c and
   src/fitter/cholesky_solve.c of the repo working tree. DO NOT EDIT. *)
From Coq Require Import ZArith.
Definition block3_max_iter : nat := %d.                 (* nnls.c: max_iter = %d *)
Definition block3_tol_pow10 : Z := %d.                  (* kkt_tolerance = nvar * DBL_EPSILON * 1e%d *)
Definition dbl_epsilon_log2 : Z := 52.                  (* DBL_EPSILON = 2^-52 (float.h, binary64) *)
Definition block3_exit_requires_full_step : bool := %s. (* outer-loop exit: %s *)
Definition pjv_kkt_tol_pow10 : Z := %d.                 (* KKT_TOL = 1e-%d *)
Definition pjv_max_trials : nat := %d.                  (* MAX_TRIALS *)
Definition pjv_iter_factor : nat := 3.                  (* iter = 3*nvar *)
""" % (max_iter, max_iter, tol_exp, tol_exp, "true" if repaired else "false", exits[0], kkt_exp, kkt_exp, max_trials)
    old = open(OUT).read() if os.path.exists(OUT) else None
    if old != txt:
        open(OUT, "w").write(txt)
    print("Generated_nnls.v: max_iter=%d tol=n*eps*1e%d exit=%s KKT_TOL=1e-%d" % (max_iter, tol_exp, exits[0], kkt_exp))

main()
