#!/usr/bin/env python3
"""nnls.py — translator for C11: reads src/fitter/nnls.c and src/fitter/cholesky_solve.c of the repo working tree
and writes coq/theories/Generated_nnls.v with the constants and the *shape* of the decisions the model
NnlsModel.v transcribes. Fails closed (exit 1): every statement the model depends on must be present in the
source in exactly the recognised form; anything else means the model no longer describes the code."""
import os, re, sys

REPO = os.environ.get("VERIF_REPO", "/repo")
VERIF = os.path.dirname(os.path.dirname(os.path.dirname(os.path.abspath(__file__))))
OUT = os.path.join(VERIF, "coq", "theories", "Generated_nnls.v")

def die(msg):
    # the previous Generated_nnls.v (if any) is left in place so that the model can still be run to look for a
    # failing input; run.py marks the proof obligations as broken because of the non-zero status
    sys.stderr.write("nnls translator: " + msg + "\n")
    sys.exit(1)

def strip_comments(s):
    s = re.sub(r"/\*.*?\*/", " ", s, flags=re.S)
    s = re.sub(r"//[^\n]*", " ", s)
    return s

def norm(s):
    return re.sub(r"\s+", "", s)

def function_body(src, name):
    m = re.search(r"\n" + re.escape(name) + r"\s*\(", src)
    if not m:
        die("function %s not found" % name)
    i = src.index("{", m.end())
    depth, j = 0, i
    while j < len(src):
        if src[j] == "{":
            depth += 1
        elif src[j] == "}":
            depth -= 1
            if depth == 0:
                return src[i:j + 1]
        j += 1
    die("unbalanced braces in %s" % name)

def need(body, what, pattern):
    if norm(pattern) not in body:
        die("%s: expected statement not found: %s" % (what, pattern))

def cb(v):
    return "true" if v else "false"

def main():
    try:
        nnls = strip_comments(open(os.path.join(REPO, "src/fitter/nnls.c")).read())
        chol = strip_comments(open(os.path.join(REPO, "src/fitter/cholesky_solve.c")).read())
    except OSError as e:
        die(str(e))
    # ---- constants -----------------------------------------------------------------------------
    m = re.search(r"#define\s+KKT_TOL\s+1e-(\d+)\s*\n", nnls)
    if not m: die("KKT_TOL not of the form 1e-<k>")
    kkt_exp = int(m.group(1))
    m = re.search(r"#define\s+MAX_TRIALS\s+(\d+)\s*\n", nnls)
    if not m: die("MAX_TRIALS not an integer literal")
    max_trials = int(m.group(1))
    b3 = function_body(nnls, "nnls_normal_block3")
    b3n = norm(b3)
    m = re.findall(r"max_iter\s*=\s*(\d+)\s*;", b3)
    if len(m) != 1: die("block3: max_iter assignment not unique / not an integer literal")
    max_iter = int(m[0])
    m = re.search(r"kkt_tolerance=\(\(double\)\(nvar\)\)\*DBL_EPSILON\*1e(\d+);", b3n)
    if not m: die("block3: kkt_tolerance is not ((double)(nvar)) * DBL_EPSILON * 1e<k>")
    tol_exp = int(m.group(1))
    if len(re.findall(r"kkt_tolerance=", b3n)) != 1: die("block3: kkt_tolerance assigned more than once")
    # ---- block3: the statements the model transcribes ---------------------------------------------
    need(b3n, "block3", "for (iter = 0; iter < max_iter; iter++) {")
    need(b3n, "block3", "if (((double *)(y->x))[G_[i]] < -kkt_tolerance) { H2[nH2++] = G_[i]; }")
    need(b3n, "block3", "if (nGprime < 0) { G_ = G; nG_ = nG; } else { G_ = Gprime; nG_ = nGprime; }")
    need(b3n, "block3", "feasible = false; while (!feasible) {")
    need(b3n, "block3", "L = modify_factor(AtA, L, F, &nF, G, &nG, H1, &nH1, H2, &nH2, verbose, c);")
    need(b3n, "block3", "if (((double*)(x_F->x))[i] < 0) { nF_inf++; if (((double*)(x->x))[F[i]] < kkt_tolerance) nF_inf_boundary++; }")
    need(b3n, "block3", "if (nF_inf == 0) {")
    need(b3n, "block3", "} else if (nF_inf == nF_inf_boundary) {")
    need(b3n, "block3", "if (((double*)(x_F->x))[i] < 0) { H1[nH1++] = F[i]; ((double*)(x->x))[F[i]] = 0; }")
    need(b3n, "block3", "feasible = walk_descents(AtA_F, Atb_F, x, x_F, F, &nF, H1, &nH1, &residual, &residual_calcs, verbose, c);")
    need(b3n, "block3", "if (nH1 == 0) { nGprime = nFprime = -1;")
    need(b3n, "block3", "cholmod_l_sdmult(AtA_FG, 0, ones, mones, x_F, Atb_G, c);")
    need(b3n, "block3", "for (i = 0; i < nG_; i++) ((double *)(x->x))[G_[i]] = 0; for (i = 0; i < nF_; i++) ((double *)(y->x))[F_[i]] = 0;")
    exits = re.findall(r"if\(([^{};]*)\)break;", b3n)
    if len(exits) != 1:
        die("block3: expected exactly one conditional break in the outer loop, found %r" % exits)
    if exits[0] == "nH2==0":
        repaired = False
    elif exits[0] == "nH2==0&&nH1==0&&full_step":
        repaired = True
        need(b3n, "block3(repaired)", "full_step = true;")
        need(b3n, "block3(repaired)", "full_step = false;")
        if len(re.findall(r"full_step=true;", b3n)) != 2 or len(re.findall(r"full_step=false;", b3n)) != 1:
            die("block3(repaired): full_step must be set true at initialisation and in the 'entirely feasible' branch, false before walk_descents, nowhere else")
        if not re.search(r"\(nF_inf==0\)\{[^}]*full_step=true;", b3n):
            die("block3(repaired): full_step = true not inside the nF_inf == 0 branch")
        if not re.search(r"full_step=false;feasible=walk_descents\(", b3n):
            die("block3(repaired): full_step = false not directly before walk_descents")
    else:
        die("block3: unrecognised exit condition: " + exits[0])
    b3exit = exits[0]
    # ---- walk_descents / evaluate_descent -----------------------------------------------------------
    wd = norm(function_body(chol, "walk_descents"))
    need(wd, "walk_descents", "alpha[0] = 0; alpha[1] = 1; n_alpha = 2;")
    need(wd, "walk_descents", "if (((double*)(x_F->x))[i] < 0) { alpha[n_alpha] = ((double*)(x->x))[F[i]] / (((double*)(x->x))[F[i]] -((double*)(x_F->x))[i]); if ((alpha[n_alpha] < 1) && (alpha[n_alpha] > 0)) ++n_alpha; }")
    need(wd, "walk_descents", "qsort(&alpha[2], n_alpha-2, sizeof(alpha[0]), double_rcmp);")
    need(wd, "walk_descents", "if ((i == 0) && (j == 0)) {")
    need(wd, "walk_descents", "res = descent_trials[j].residual; } else if ((descent_trials[j].residual < res) || (i*n_threads + j == n_alpha-1)) {")
    need(wd, "walk_descents", "if (descent_trials[j].residual < res) { feasible = true; *residual = descent_trials[j].residual; } else feasible = false;")
    ed = norm(function_body(chol, "evaluate_descent"))
    need(ed, "evaluate_descent", "*xptr = (1.0 - trial->alpha[0]) * ((double*)(x->x))[F[i]] + trial->alpha[0] * ((double*)(x_F->x))[i];")
    need(ed, "evaluate_descent", "if (*xptr < 0.0) { *xptr = 0.0; trial->H1[trial->nH1++] = F[i]; }")
    cr = norm(function_body(chol, "calc_residual"))
    need(cr, "calc_residual", "double ones[2] = { 1., 0}; double mtwos[2] = {-2., 0};")
    need(cr, "calc_residual", "cholmod_l_sdmult(AtA, 0, ones, mtwos, x, AtAx, c);")
    need(cr, "calc_residual", "result += ((double*)(x->x))[i] * ((double*)(AtAx->x))[i];")
    rc = norm(function_body(chol, "double_rcmp"))
    need(rc, "double_rcmp", "if (*a < *b) return (1); else if (*a > *b) return (-1); else return (0);")
    # ---- PJV block solvers (NnlsModel2.pjv_step) ------------------------------------------------------
    pjv = {}
    for fn in ("nnls_normal_block", "nnls_normal_block_updown"):
        bb = norm(function_body(nnls, fn))
        need(bb, fn, "iter = 3*nvar;")
        need(bb, fn, "trials = MAX_TRIALS;")
        need(bb, fn, "murty_steps = MAX_TRIALS;")
        need(bb, fn, "nF = 0; nG = nvar; for (i = 0; i < nvar; i++) G[i] = i; ninf = nvar + 1;")
        need(bb, fn, "for (i = 0; i < nvar; i++) ((double *)(y->x))[i] = -((double *)(Atb->x))[i];")
        need(bb, fn, "while (iter-- > 0) {")
        need(bb, fn, "nH1 = nH2 = 0; for (i = 0; i < nF; i++) if (((double *)(x->x))[F[i]] < -KKT_TOL) H1[nH1++] = F[i]; "
                     "for (i = 0; i < nG; i++) if (((double *)(y->x))[G[i]] < -KKT_TOL) H2[nH2++] = G[i];")
        exits = re.findall(r"if\(([^{};]*)\)break;", bb)
        if len(exits) != 1:
            die("%s: expected exactly one conditional break, found %r" % (fn, exits))
        if exits[0] == "nH1==0&&nH2==0":
            both = True
        elif exits[0] == "nH2==0":
            both = False
        else:
            die("%s: unrecognised exit condition: %s" % (fn, exits[0]))
        if len(re.findall(r"\bbreak;", bb)) != 1 or "return(x);" not in bb or len(re.findall(r"return", bb)) != 1 or \
           len(re.findall(r"goto", bb)) != 2:
            die("%s: control flow not as transcribed (one break, one return, two gotos)" % fn)
        need(bb, fn, "if (ninf <= murty_steps) trials = -1;" if fn == "nnls_normal_block" else "if ((ninf <= murty_steps) ) trials = -1;")
        conds = re.findall(r"if\((ninf>murty_steps&&[^{};]*)\)\{", bb)
        if len(conds) != 1:
            die("%s: progress test not found / not unique" % fn)
        if conds[0] == "ninf>murty_steps&&(nH2+nH1<ninf||trials<-murty_steps)":
            escape = True
        elif conds[0] == "ninf>murty_steps&&nH2+nH1<ninf":
            escape = False
        else:
            die("%s: unrecognised progress test: %s" % (fn, conds[0]))
        need(bb, fn, "if (nH2 + nH1 <= ninf) murty_steps++; ninf = nH2 + nH1; trials = MAX_TRIALS; } else { trials--;")
        need(bb, fn, "if (trials < 0) { if (nH2 == 0) { goto maxh1; } else if (nH1 == 0) { goto maxh2; } else if (H1[nH1 - 1] > H2[nH2 - 1]) { "
                     "maxh1: H1[0] = H1[nH1 - 1]; nH1 = 1; nH2 = 0;")
        need(bb, fn, "} else { maxh2: H2[0] = H2[nH2 - 1]; nH2 = 1; nH1 = 0;")
        need(bb, fn, "double ones[2] = {1., 0}, mones[2] = {-1., 0};")
        need(bb, fn, "for (i = 0; i < nG; i++) ((double *)(Atb_G->x))[i] = ((double *)(Atb->x))[G[i]];")
        need(bb, fn, "AtA_FG = cholmod_l_submatrix(AtA, G, nG, F, nF, 1,1,c); cholmod_l_sdmult(AtA_FG, 0, ones, mones, x_F, Atb_G, c); "
                     "for (i = 0; i < nG; i++) ((double *)(y->x))[G[i]] = ((double *)(Atb_G->x))[i];")
        need(bb, fn, "for (i = 0; i < nG; i++) ((double *)(x->x))[G[i]] = 0; for (i = 0; i < nF; i++) ((double *)(y->x))[F[i]] = 0;")
        pjv[fn] = (both, escape, exits[0], conds[0])
    bb = norm(function_body(nnls, "nnls_normal_block"))
    need(bb, "nnls_normal_block", "for (i = 0, j = 0; i < nH1; i++) { G[nG++] = H1[i]; while (F[j] != H1[i]) j++; "
         "for (k = j+i; k+1 < nF; k++) F[k-i] = F[k-i+1]; } nF -= nH1;")
    need(bb, "nnls_normal_block", "for (i = 0, j = 0; i < nH2; i++) { F[nF++] = H2[i]; while (G[j] != H2[i]) j++; "
         "for (k = j+i; k+1 < nG; k++) G[k-i] = G[k-i+1]; } nG -= nH2; qsort(G, nG, sizeof(G[0]), intcmp); qsort(F, nF, sizeof(F[0]), intcmp);")
    need(bb, "nnls_normal_block", "AtA_F = cholmod_l_submatrix(AtA, F, nF, F, nF, 1, 1, c);")
    need(bb, "nnls_normal_block", "for (i = 0; i < nF; i++) ((double *)(Atb_F->x))[i] = ((double *)(Atb->x))[F[i]];")
    need(bb, "nnls_normal_block", "x_F = cholesky_solve(AtA_F, Atb_F, c, verbose, N_RESOLVES); "
         "for (i = 0; i < nF; i++) ((double *)(x->x))[F[i]] = ((double *)(x_F->x))[i];")
    bb = norm(function_body(nnls, "nnls_normal_block_updown"))
    need(bb, "nnls_normal_block_updown", "L = modify_factor(AtA, L, F, &nF, G, &nG, H1, &nH1, H2, &nH2, verbose, c);")
    need(bb, "nnls_normal_block_updown", "if (L->n == nvar) { x = cholmod_l_solve(CHOLMOD_A, L, Atb, c); } else {")
    need(bb, "nnls_normal_block_updown", "for (i = 0; i < nF; i++) ((double*)(Atb_F->x))[i] = ((double*)(Atb->x))[F[i]]; x_F = cholmod_l_solve(CHOLMOD_A, L, Atb_F, c);")
    need(bb, "nnls_normal_block_updown", "for (i = 0; i < nF; i++) ((double*)(x->x))[F[i]] = ((double*)(x_F->x))[i];")
    need(bb, "nnls_normal_block_updown", "for (i = 0; i < nF; i++) ((double *)(x_F->x))[i] = ((double *)(x->x))[F[i]];")
    mf = norm(function_body(chol, "modify_factor_p"))
    need(mf, "modify_factor_p", "for (i = 0, j = 0; i < nH1; i++) { G[nG++] = H1[i]; while (F[j] != H1[i]) j++; for (k = j+i; k+1 < nF; k++) F[k-i] = F[k-i+1];")
    need(mf, "modify_factor_p", "nF -= nH1; nH1 = 0;")
    need(mf, "modify_factor_p", "for (i = 0, j = 0; i < nH2; i++) { F[nF++] = H2[i]; while (G[j] != H2[i]) j++; for (k = j+i; k+1 < nG; k++) G[k-i] = G[k-i+1];")
    need(mf, "modify_factor_p", "nG -= nH2; nH2 = 0; qsort(G, nG, sizeof(G[0]), intcmp); qsort(F, nF, sizeof(F[0]), intcmp);")
    need(mf, "modify_factor_p", "*nF_ = nF; *nG_ = nG; *nH1_ = nH1; *nH2_ = nH2;")
    # get_column: the column of A restricted to the rows in F that cholmod_l_rowadd receives when a coefficient re-enters the factor
    # (the model takes a factor update to yield the factor of A_FF; that rests on this function returning exactly A[F,k])
    m = re.search(r"cholmod_sparse\s*\*\s*get_column\s*\(", chol)
    if not m: die("function get_column not found")
    i0 = chol.index("{", m.end()); depth = 0; j0 = i0
    while j0 < len(chol):
        if chol[j0] == "{": depth += 1
        elif chol[j0] == "}":
            depth -= 1
            if depth == 0: break
        j0 += 1
    gc = norm(chol[i0:j0 + 1])
    need(gc, "get_column", "R = cholmod_l_allocate_sparse(A->nrow, 1, nF, false, true, 0, CHOLMOD_REAL, c);")
    need(gc, "get_column", "if (A->packed) A_col_nz = Ap[k+1]-Ap[k]; else A_col_nz = Anz[k];")
    need(gc, "get_column", "nz = 0; for (i = 0; i < nF; i++) { for (j = 0; j < A_col_nz; j++) { if (Ai[Ap[k]+j] == Fset[i]) { Ri[nz] = Ai[Ap[k]+j]; Rx[nz] = Ax[Ap[k]+j]; nz++; } } }")
    need(gc, "get_column", "if (iPerm != NULL) { for (i = 0; i < nz; i++) { row = Ri[i]; Ri[i] = iPerm[row]; } }")
    need(gc, "get_column", "Rp[0] = 0; Rp[1] = nz; return(R);")
    need(mf, "modify_factor_p", "col = get_column(A, H2[i], iPerm, F, nF, c);")
    mfo = norm(function_body(chol, "modify_factor"))
    need(mfo, "modify_factor", "return(modify_factor_p(A, L, F, nF_, G, nG_, H1, nH1_, H2, nH2_, update, verbose, c));")
    # ---- Lawson-Hanson (NnlsModel2.lh_step / lh_inner): every decision verbatim --------------------------
    lh = norm(function_body(nnls, "nnls_lawson_hanson"))
    need(lh, "lawson_hanson", "int last_freed = -1;")
    need(lh, "lawson_hanson", "if (npos == 0) npos = A->ncol;")
    need(lh, "lawson_hanson", "nP = A->ncol - npos; nZ = npos; for (i = 0; i < nZ; i++) Z[i] = i; for (i = 0; i < nP; i++) P[i] = npos + i;")
    need(lh, "lawson_hanson", "for (n = 0; n < max_iterations || max_iterations == 0; n++) {")
    need(lh, "lawson_hanson", "if (normaleq) { double alpha[2] = {1.0, 0.0}, beta[2] = {-1.0, 0.0}; memcpy(w->x, y->x, sizeof(double)*A->ncol); "
         "cholmod_l_sdmult(A, 0 , beta, alpha, x, w, c); }")
    need(lh, "lawson_hanson", "if (nZ == 0) break;")
    need(lh, "lawson_hanson", "wmax = ((double *)(w->x))[Z[0]]; t = 0; for (i = 1; i < nZ; i++) { if (((double *)(w->x))[Z[i]] > wmax && last_freed != Z[i]) { "
         "t = i; wmax = ((double *)(w->x))[Z[t]]; } }")
    need(lh, "lawson_hanson", "if (wmax <= 0) break;")
    need(lh, "lawson_hanson", "if (wmax < tolerance && n >= min_iterations) { if (nP == 0) break; assert(nP>0); wpmin = ((double *)(w->x))[P[0]]; "
         "for (i = 1; i < nP; i++) { if (((double *)(w->x))[P[i]] < wpmin) wpmin = ((double *)(w->x))[P[i]]; } if (-wpmin < tolerance) break; }")
    need(lh, "lawson_hanson", "last_freed = Z[t]; alpha = -1; P[nP++] = Z[t]; nZ--; for (i = t; i < nZ; i++) Z[i] = Z[i+1];")
    need(lh, "lawson_hanson", "while (1) {")
    need(lh, "lawson_hanson", "Ap = cholmod_l_submatrix(A, P, nP, P, nP, 1, 1, c);")
    need(lh, "lawson_hanson", "for (i = 0; i < nP; i++) ((double *)(yp->x))[i] = ((double *)(y->x))[P[i]]; p = SuiteSparseQR_C_backslash_default(Ap, yp, c);")
    need(lh, "lawson_hanson", "for (i = 0; i < nP; i++) if (P[i] < npos && ((double *)(p->x))[i] <= 0) break; if (i == nP) { bzero(x->x, sizeof(double)*x->nrow); "
         "for (i = 0; i < nP; i++) ((double *)(x->x))[P[i]] = ((double *)(p->x))[i]; cholmod_l_free_dense(&p, c); break; }")
    need(lh, "lawson_hanson", "alpha = 2; qmax = -1; for (i = 0; i < nP; i++) { if (P[i] >= npos || ((double *)(p->x))[i] > 0) continue; "
         "qtemp = ((double *)(x->x))[P[i]]/ (((double *)(x->x))[P[i]] - ((double *)(p->x))[i]); "
         "if (qtemp < alpha && qtemp != 0) { qmax = P[i]; alpha = qtemp; } else if (last_freed == P[i]) { alpha = 0; qmax = P[i]; break; } }")
    need(lh, "lawson_hanson", "if (qmax < 0) { fprintf(stderr, \"%s line %d: Math has failed\\n\", __FILE__, __LINE__); exit(1); }")
    need(lh, "lawson_hanson", "for (i = 0; i < nP; i++) ((double *)(x->x))[P[i]] += alpha* (((double *)(p->x))[i] - ((double *)(x->x))[P[i]]); "
         "((double *)(x->x))[qmax] = 0;")
    need(lh, "lawson_hanson", "for (i = 0; i < nP; i++) { if (P[i] >= npos || ((double *)(x->x))[P[i]] > 0) continue;")
    need(lh, "lawson_hanson", "((double *)(x->x))[P[i]] = 0; Z[nZ++] = P[i]; nP--; for (j = i; j < nP; j++) P[j] = P[j+1]; i--; } if (alpha == 0) break; } if (alpha == 0) break; }")
    if len(re.findall(r"\bbreak;", lh)) != 9 or len(re.findall(r"return", lh)) != 1:
        die("lawson_hanson: number of break / return statements not as transcribed (%d breaks)" % len(re.findall(r"\bbreak;", lh)))
    txt = """(* Generated_nnls.v — written by tools/translators/nnls.py from src/fitter/nnls.c and
   src/fitter/cholesky_solve.c of the repo working tree. DO NOT EDIT. *)
From Coq Require Import ZArith.
Definition block3_max_iter : nat := %d.                 (* nnls.c: max_iter = %d *)
Definition block3_tol_pow10 : Z := %d.                  (* kkt_tolerance = nvar * DBL_EPSILON * 1e%d *)
Definition dbl_epsilon_log2 : Z := 52.                  (* DBL_EPSILON = 2^-52 (float.h, binary64) *)
Definition block3_exit_requires_full_step : bool := %s. (* outer-loop exit: %s *)
Definition pjv_kkt_tol_pow10 : Z := %d.                 (* KKT_TOL = 1e-%d *)
Definition pjv_max_trials : nat := %d.                  (* MAX_TRIALS *)
Definition pjv_iter_factor : nat := 3.                  (* iter = 3*nvar *)
Definition pjv_block_exit_both : bool := %s.            (* nnls_normal_block: exit on %s *)
Definition pjv_block_escape : bool := %s.               (* nnls_normal_block: progress test %s *)
Definition pjv_updown_exit_both : bool := %s.           (* nnls_normal_block_updown: exit on %s *)
Definition pjv_updown_escape : bool := %s.              (* nnls_normal_block_updown: progress test %s *)
""" % ((max_iter, max_iter, tol_exp, tol_exp, "true" if repaired else "false", b3exit, kkt_exp, kkt_exp, max_trials) +
       tuple(v for fn in ("nnls_normal_block", "nnls_normal_block_updown")
             for v in (cb(pjv[fn][0]), pjv[fn][2], cb(pjv[fn][1]), pjv[fn][3])))
    old = open(OUT).read() if os.path.exists(OUT) else None
    if old != txt:
        open(OUT, "w").write(txt)
    print("Generated_nnls.v: max_iter=%d tol=n*eps*1e%d exit=%s KKT_TOL=1e-%d block: exit=%s escape=%s updown: exit=%s escape=%s" % (
        max_iter, tol_exp, b3exit, kkt_exp, pjv["nnls_normal_block"][2], pjv["nnls_normal_block"][1], pjv["nnls_normal_block_updown"][2], pjv["nnls_normal_block_updown"][1]))

main()
