#!/usr/bin/env python3
"""aux.py — translator for C16: writes coq/theories/Generated_aux.v from the library's CURRENT working tree.

Transcribed mechanically:
  * src/core/fitsio.cpp  reservedFitsKeyword: the list of reserved prefixes (strncmp(LIT,key,strlen LIT)==0)
    and exact names (strcmp(LIT,key)==0);
  * include/photospline/detail/aux.h  write_key: the numeric limits (short key length, 68, 80, 13, 66) and
    which of the optional checks are present (quote-aware length, long-key length / blank checks);
  * include/photospline/detail/fitsio.h  read_fits_core: whether the aux reader undoes the doubling of quotes;
  * src/cinter/splinetable.cpp  splinetable_read_key: whether the result of read_key is reported.

Fails closed (exit 3): every function the model transcribes by hand (get_aux_value, remove_key, read_key x2,
write_key, the aux blocks of read_fits_core / write_fits_core, the three C wrappers) is reduced to a skeleton
(comments and white space removed, the recognised optional snippets cut out, the extracted numbers replaced by
'#') whose hash must be one of the shapes the model was written against. Any other edit of those functions
stops the proof build; the correspondence check then looks for a concrete failing input."""
import hashlib, os, re, sys

REPO = os.environ.get("VERIF_REPO", "/repo")
VERIF = os.path.dirname(os.path.dirname(os.path.dirname(os.path.abspath(__file__))))
OUT = os.path.join(VERIF, "coq", "theories", "Generated_aux.v")

class Unparsed(Exception):
    pass

def strip_comments(s):
    # string literals in these files contain no comment markers except inside messages with "'"; handle // and /* */ outside strings
    out, i, n = [], 0, len(s)
    while i < n:
        c = s[i]
        if c == '"':
            j = i + 1
            while s[j] != '"':
                j += 2 if s[j] == "\\" else 1
            out.append(s[i:j + 1]); i = j + 1
        elif c == "'":
            j = i + 1
            while s[j] != "'":
                j += 2 if s[j] == "\\" else 1
            out.append(s[i:j + 1]); i = j + 1
        elif s.startswith("//", i):
            while i < n and s[i] != "\n":
                i += 1
        elif s.startswith("/*", i):
            i = s.index("*/", i) + 2
        else:
            out.append(c); i += 1
    return "".join(out)

def norm(s):
    """remove white space outside string literals"""
    out, i, n = [], 0, len(s)
    while i < n:
        c = s[i]
        if c == '"':
            j = i + 1
            while s[j] != '"':
                j += 2 if s[j] == "\\" else 1
            out.append(s[i:j + 1]); i = j + 1
        elif c == "'":
            j = i + 1
            while s[j] != "'":
                j += 2 if s[j] == "\\" else 1
            out.append(s[i:j + 1]); i = j + 1
        elif c.isspace():
            i += 1
        else:
            out.append(c); i += 1
    return "".join(out)

def body_after(src, header_re, which=0):
    ms = list(re.finditer(header_re, src))
    if len(ms) <= which:
        raise Unparsed("header not found: " + header_re)
    i = src.index("{", ms[which].end())
    depth, j = 0, i
    while True:
        if src[j] == "{":
            depth += 1
        elif src[j] == "}":
            depth -= 1
            if depth == 0:
                return src[i + 1:j]
        j += 1

def sha(s):
    return hashlib.sha256(s.encode()).hexdigest()[:16]

def read(rel):
    return strip_comments(open(os.path.join(REPO, rel)).read())

# skeleton hashes of the shapes the model transcribes (computed with --hashes on the pinned upstream tree and on
# the tree with the proposed C16 patches)
KNOWN = {
    "get_aux_value": {"b2bb0a89f85befd0"},
    "remove_key": {"6176074e66f3f2aa",           # the upstream shape does not compile when instantiated (D8)
                   # + proposed repo patch C20_10 (the replacement pointer table is allocated before anything is released; no
                   # parking array): same search, same entry removed, same order of the survivors — only the allocation order differs
                   "ee48aeb16f482a3e"},
    "remove_key_upstream": {"90acd5b455ad4cf8"},
    "read_key_T": {"556dd1837c8040df"},
    "read_key_str": {"ccf62af5ab74fe48"},
    "write_key": {"80ba479b1e14a23a"},
    "aux_read_block": {"f0f3df3eae996845",
                       # + the ownership fixes of C20 (aux array pre-filled with nullptr, key stored before the value block is
                       # requested, value block sized to the stored length incl. collapsed quotes): same keys and values stored
                       "6257dfdf913ff1b2"},
    "aux_write_loop": {"5354cbc54052233d", "2ffe00d867f25bea"},   # second: with repo patch C08_2 (coefficient write_pix moved between the aux loop and the knot loop; the loop itself is unchanged)
    "c_get_key": {"ca9051007a02b999"},
    "c_read_key": {"0c955a41c4f2a000"},
    "c_write_key": {"355da0b52c5f5452"},
}

def cut(text, snippet, what):
    """remove an optional recognised snippet; returns (text', present)"""
    if snippet in text:
        if text.count(snippet) != 1:
            raise Unparsed("snippet occurs more than once: " + what)
        return text.replace(snippet, "", 1), True
    return text, False

def main():
    show = "--hashes" in sys.argv
    sk = {}
    # ---- reservedFitsKeyword
    fc = read("src/core/fitsio.cpp")
    rb = norm(body_after(fc, r"bool\s+reservedFitsKeyword\s*\(\s*const\s+char\s*\*\s*key\s*\)"))
    m = re.fullmatch(r"return\((.*)\);", rb)
    if not m:
        raise Unparsed("reservedFitsKeyword is not a single return expression")
    prefixes, exacts = [], []
    for term in m.group(1).split("||"):
        t = re.fullmatch(r'strncmp\("([A-Za-z0-9_\- ]*)",key,(\d+)\)==0', term)
        if t:
            if int(t.group(2)) != len(t.group(1)):
                raise Unparsed("strncmp length differs from the literal's length: " + term)
            prefixes.append(t.group(1)); continue
        t = re.fullmatch(r'strcmp\("([A-Za-z0-9_\- ]*)",key\)==0', term)
        if t:
            exacts.append(t.group(1)); continue
        raise Unparsed("unrecognised term in reservedFitsKeyword: " + term)
    # ---- aux.h
    ah = read("include/photospline/detail/aux.h")
    sk["get_aux_value"] = norm(body_after(ah, r"splinetable<Alloc>::get_aux_value\s*\("))
    rk = norm(body_after(ah, r"splinetable<Alloc>::remove_key\s*\("))
    sk["remove_key"] = rk
    sk["read_key_T"] = norm(body_after(ah, r"splinetable<Alloc>::read_key\s*\(", 0))
    sk["read_key_str"] = norm(body_after(ah, r"splinetable<Alloc>::read_key\s*\(", 1))
    wk = norm(body_after(ah, r"splinetable<Alloc>::write_key\s*\("))
    # optional snippets (the proposed fixes)
    wk, quote_aware = cut(wk, "size_tencodedlen=(valuelen-1)+std::count(valuedata.begin(),valuedata.end(),'\\'');", "quote-aware length")
    if quote_aware:
        wk, ok = cut(wk, "if(encodedlen>maxdatalen){", "quote-aware comparison")
        if not ok:
            raise Unparsed("encodedlen is computed but not compared with maxdatalen")
        wk = wk.replace('throwstd::runtime_error("Value is too long', 'if(valuelen-1>maxdatalen){throwstd::runtime_error("Value is too long', 1)
    mk = re.search(r'if\(keylen-1>(\d+)\)throwstd::runtime_error\("Long \(HIERARCH\) FITS header keywords must not be ""longer than \d+ characters \(key was \'"\+std::string\(key\)\+"\'\)"\);', wk)
    long_keymax = None
    if mk:
        long_keymax = int(mk.group(1))
        wk = wk.replace(mk.group(0), "", 1)
    wk, blank_check = cut(wk, 'if(key[0]==\' \'||key[keylen-2]==\' \'||strncmp(key,"HIERARCH ",9)==0)throwstd::runtime_error('
                              '"Long (HIERARCH) FITS header keywords must not begin ""or end with a blank or begin with \'HIERARCH \' (key was \'"+std::string(key)+"\')");',
                          "long key blank check")
    wk, pk = cut(wk, 'if(key[i]<32||key[i]>126)throwstd::runtime_error("Long (HIERARCH) FITS header keywords must not ""contain non-printable characters (key was \'"+std::string(key)+"\')");',
                 "printable check of long keys")
    wk, pv = cut(wk, 'for(charc:valuedata){if(c<32||c>126)throwstd::runtime_error("Value contains non-printable characters, which ""cannot be stored in a FITS header (\'"+valuedata+"\')");}',
                 "printable check of values")
    if pk != pv:
        raise Unparsed("printable-character check present for keys or values only")
    # numbers
    def num(pattern, what):
        mm = re.search(pattern, wk)
        if not mm:
            raise Unparsed("constant not found in write_key: " + what)
        return mm
    m1 = num(r"size_tmaxdatalen=(\d+);", "maxdatalen for short keys")
    m2 = num(r"if\(keylen<=(\d+)\)\{", "short key threshold")
    m3 = num(r"maxdatalen=(\d+)-\((\d+)\+keylen-1\);", "maxdatalen for long keys")
    short_vmax, short_keylen, card, overhead = int(m1.group(1)), int(m2.group(1)) - 1, int(m3.group(1)), int(m3.group(2))
    wk = wk.replace(m1.group(0), "size_tmaxdatalen=#;", 1).replace(m2.group(0), "if(keylen<=#){", 1).replace(m3.group(0), "maxdatalen=#-(#+keylen-1);", 1)
    sk["write_key"] = wk
    # ---- fitsio.h
    fh = read("include/photospline/detail/fitsio.h")
    core = norm(body_after(fh, r"splinetable<Alloc>::read_fits_core\s*\("))
    a, b = core.find("intnkeys=0;"), core.find("order=allocate<uint32_t>(ndim);")
    if a < 0 or b < 0 or b < a:
        raise Unparsed("aux block of read_fits_core not found")
    blk = core[a:b]
    blk, unquote = cut(blk, "if(value[0]=='\\''){char*out=&aux[i][1][0];for(constchar*in=out;*in;in++){if(in[0]=='\\''&&in[1]=='\\'')in++;*out++=*in;}*out='\\0';}",
                       "undoing of doubled quotes")
    if not unquote:
        # the same loop applied to the text in the local buffer before it is stored (after the ownership fixes)
        blk, unquote = cut(blk, "char*out=stored;for(constchar*in=stored;*in;in++){if(in[0]=='\\''&&in[1]=='\\'')in++;*out++=*in;}*out='\\0';",
                           "undoing of doubled quotes (local buffer)")
    sk["aux_read_block"] = blk
    wcore = norm(body_after(fh, r"splinetable<Alloc>::write_fits_core\s*\("))
    a, b = wcore.find("for(uint32_ti=0;i<naux;i++)"), wcore.find("for(uint32_ti=0;i<ndim;i++){if(nknots[i]>")
    if a < 0 or b < 0 or b < a:
        raise Unparsed("aux loop of write_fits_core not found")
    sk["aux_write_loop"] = wcore[a:b]
    # ---- C wrappers
    cc = read("src/cinter/splinetable.cpp")
    sk["c_get_key"] = norm(body_after(cc, r"splinetable_get_key\s*\("))
    cr = norm(body_after(cc, r"int\s+splinetable_read_key\s*\("))
    n_rep = 0
    for ty in ("int", "double"):
        old = "real_table.read_key(key,*static_cast<%s*>(result));" % ty
        new = "if(!real_table.read_key(key,*static_cast<%s*>(result)))return(1);" % ty
        if new in cr:
            cr = cr.replace(new, old, 1); n_rep += 1
    if n_rep not in (0, 2):
        raise Unparsed("splinetable_read_key reports the result for one type only")
    sk["c_read_key"] = cr
    sk["c_write_key"] = norm(body_after(cc, r"int\s+splinetable_write_key\s*\("))
    # ---- accessors in splinetable.h (one-liners, required verbatim)
    sh = norm(read("include/photospline/splinetable.h"))
    for acc in ("size_tget_naux_values()const{return(naux);}", "constchar*get_aux_key(size_ti)const{return(aux[i][0]);}"):
        if sh.count(acc) != 1:
            raise Unparsed("accessor not found verbatim in splinetable.h: " + acc)
    if show:
        for k, v in sk.items():
            print(k, sha(v))
        return 0
    remove_ok = True
    for name, text in sk.items():
        h = sha(text)
        if name == "remove_key":
            if h in KNOWN["remove_key"]:
                continue
            if h in KNOWN["remove_key_upstream"]:
                remove_ok = False    # ill-typed: cannot be instantiated; the check reports it and runs without removals
                continue
            raise Unparsed("remove_key has a shape the model was not written against (skeleton %s)" % h)
        if h not in KNOWN[name]:
            raise Unparsed("%s has a shape the model was not written against (skeleton %s)" % (name, h))
    def coqstr(s):
        return '"' + s.replace('"', '""') + '"'
    def coqlist(xs):
        return "[" + "; ".join(coqstr(x) for x in xs) + "]"
    txt = """(* GENERATED by tools/translators/aux.py from %s — do not edit *)
From Coq Require Import List String NArith.
From PS Require Import AuxModel.
Import ListNotations.
Open Scope string_scope.
Definition gen_params : params := {|
  p_reserved_prefix := %s;
  p_reserved_exact := %s;
  p_short_keylen := %d; p_short_vmax := %d%%N; p_card := %d%%N; p_hier_overhead := %d%%N;
  p_long_keymax := %s; p_long_blank_check := %s; p_quote_aware := %s; p_unquote_read := %s; p_printable_check := %s;
  p_c_read_reports := %s |}.
Definition gen_remove_key_compiles : bool := %s.
Definition gen_translation_ok : bool := true.
""" % (REPO, coqlist(prefixes), coqlist(exacts), short_keylen, short_vmax, card, overhead,
       ("Some %d" % long_keymax) if long_keymax is not None else "None",
       str(blank_check).lower(), str(quote_aware).lower(), str(unquote).lower(), str(pk).lower(), str(n_rep == 2).lower(), str(remove_ok).lower())
    old = open(OUT).read() if os.path.exists(OUT) else None
    if old != txt:
        open(OUT, "w").write(txt)
    print("Generated_aux.v: %d reserved prefixes, %d exact; limits %d/%d/%d/%d; long_keymax=%s blank_check=%s quote_aware=%s unquote=%s printable=%s c_read_reports=%s remove_key_compiles=%s" % (
        len(prefixes), len(exacts), short_keylen, short_vmax, card, overhead, long_keymax, blank_check, quote_aware, unquote, pk, n_rep == 2, remove_ok))
    return 0

if __name__ == "__main__":
    try:
        sys.exit(main())
    except Unparsed as e:
        print("aux.py: UNPARSED: %s" % e)
        # fail closed: the proofs require gen_translation_ok = true. The executable model stays available (with the
        # parameters the model was written against) so that the check can still search for a failing input.
        open(OUT, "w").write("""(* GENERATED by tools/translators/aux.py: TRANSLATION FAILED (%s) *)
From Coq Require Import List String NArith.
From PS Require Import AuxModel.
Import ListNotations.
Open Scope string_scope.
Definition gen_params : params := {|
  p_reserved_prefix := ["BITPIX";"SIMPLE";"TYPE";"ORDER";"NAXIS";"PERIOD";"EXTEND";"COMMENT"];
  p_reserved_exact := ["";"END";"HISTORY";"CONTINUE";"PCOUNT";"GCOUNT";"EXTNAME";"HDUNAME"];
  p_short_keylen := 8; p_short_vmax := 68%%N; p_card := 80%%N; p_hier_overhead := 13%%N;
  p_long_keymax := Some 66; p_long_blank_check := true; p_quote_aware := true; p_unquote_read := true; p_printable_check := true;
  p_c_read_reports := true |}.
Definition gen_remove_key_compiles : bool := true.
Definition gen_translation_ok : bool := false.
""" % str(e).replace("*)", "* )"))
        sys.exit(3)
