#!/usr/bin/env python3
"""fitargs.py — translator for C13: the *sequence of argument checks* of splinetable::fit.

Reads include/photospline/detail/fit.h of the CURRENT working tree ($VERIF_REPO or /repo), takes the text between
`//Sanity checking` and `//Initialize variables`, and transcribes it statement by statement into

    coq/theories/Generated_fitargs.v :  Definition fit_checks_src : list item := [ Once g | PerDim [d; ...] ; ... ].

Every statement of the block must be one of
    if(<cond>) throw std::logic_error(...);
    for(uint32_t i=0; i<data.ndim; i++){ <declaration | if(<cond>) throw ...;>* }
and every <cond> (white space removed) must be one of the texts in GCOND / DCOND below — each is the condition
whose meaning FitArgs.g_fires / FitArgs.d_fires gives to the constructor of the same name. Anything else (a
changed operator, a new check, a check moved into/out of a loop with a different text, a statement that is not a
check) is NOT recognised and the translator FAILS CLOSED (exit status 3, the generated file is left untouched).
Removing, adding (a recognised) or re-ordering checks changes `fit_checks_src`, hence the proof obligations
`covers fit_checks_src = true` / `well_ordered fit_checks_src = true` of C13_Proofs.v.

Also from src/fitter/glam.c: whether divided_diffs declares its variable length arrays a[order], b[order] after
the `porder == 0` early return (Definition divided_diffs_vla_after_return : bool) — the contract clause for
order 0 depends on it — and the two uses of `porder` that the penalty-order clause protects must still be there.
"""
import os, re, sys

REPO = os.environ.get("VERIF_REPO", "/repo")
VERIF = os.path.dirname(os.path.dirname(os.path.dirname(os.path.abspath(__file__))))
OUT = os.path.join(VERIF, "coq", "theories", "Generated_fitargs.v")

class Unparsed(Exception):
    pass

GCOND = {
    "data.ndim==0": "GNdimZero",
    "data.rows==0": "GRowsZero",
    "data.rows!=weights.size()": "GWeights",
    "coords.size()!=data.ndim": "GNCoords",
    "splineOrder.size()!=data.ndim": "GNOrders",
    "knots.size()!=data.ndim": "GNKnotVecs",
    "smoothing.size()!=data.ndim&&smoothing.size()!=1": "GNSmooth",
    "penaltyOrder.size()!=data.ndim&&penaltyOrder.size()!=1": "GNPenalty",
    "monodim!=no_monodim&&monodim>=data.ndim": "GMonodim",
}
# per-dimension conditions; value = (constructor, declarations that must precede it inside the same loop body)
DCOND = {
    "maxIdx>=data.ranges[i]": ("DMaxIdx", ["unsignedintmaxIdx=*std::max_element(data.i[i],data.i[i]+data.rows);"]),
    "coords[i].size()<data.ranges[i]": ("DCoordLen", []),
    "knots[i].size()<(uint64_t)splineOrder[i]+2": ("DKnotCount", []),
    "!std::is_sorted(knots[i].begin(),knots[i].end())": ("DUnsorted", []),
    "(smoothing.size()>1?smoothing[i]:smoothing[0])!=0.0&&(pOrder>splineOrder[i]||pOrder>knots[i].size()-splineOrder[i]-1)":
        ("DPenaltyOrder", ["uint32_tpOrder=(penaltyOrder.size()>1?penaltyOrder[i]:penaltyOrder[0]);"]),
}
LOOP_HEAD = "for(uint32_ti=0;i<data.ndim;i++)"

def strip_comments(s):
    s = re.sub(r"/\*.*?\*/", " ", s, flags=re.S)
    return re.sub(r"//[^\n]*", " ", s)

def strip_strings(s):
    return re.sub(r'"(?:[^"\\]|\\.)*"', '""', s)

def matching(s, i, open_c, close_c):
    depth = 0
    for j in range(i, len(s)):
        if s[j] == open_c:
            depth += 1
        elif s[j] == close_c:
            depth -= 1
            if depth == 0:
                return j
    raise Unparsed("unbalanced %s at %d" % (open_c, i))

def parse_stmts(s, in_loop):
    """s: comment/strings-stripped, white space removed. returns list of ('if', cond) | ('decl', text) | ('for', [stmts])"""
    out, i = [], 0
    while i < len(s):
        if s.startswith("if(", i):
            j = matching(s, i + 2, "(", ")")
            cond = s[i + 3 : j]
            rest = s[j + 1 :]
            m = re.match(r"throwstd::(logic_error|runtime_error)\(", rest)
            if not m:
                raise Unparsed("`if(%s)` is not followed by a throw: %s" % (cond, rest[:60]))
            k = matching(s, j + 1 + m.end() - 1, "(", ")")
            if s[k + 1 : k + 2] != ";":
                raise Unparsed("throw statement not terminated after if(%s)" % cond)
            out.append(("if", cond))
            i = k + 2
        elif s.startswith(LOOP_HEAD, i) and not in_loop:
            j = i + len(LOOP_HEAD)
            if s[j] != "{":
                raise Unparsed("loop body without braces")
            k = matching(s, j, "{", "}")
            out.append(("for", parse_stmts(s[j + 1 : k], True)))
            i = k + 1
        elif in_loop:
            k = s.find(";", i)
            if k < 0:
                raise Unparsed("unterminated statement in loop: " + s[i : i + 60])
            out.append(("decl", s[i : k + 1]))
            i = k + 1
        else:
            raise Unparsed("unrecognised statement in the sanity block: " + s[i : i + 80])
    return out

def translate_fit_h():
    src = open(os.path.join(REPO, "include/photospline/detail/fit.h")).read()
    a = src.find("//Sanity checking")
    b = src.find("//Initialize variables")
    if a < 0 or b < 0 or b < a:
        raise Unparsed("sanity block markers not found in fit.h")
    block = re.sub(r"\s+", "", strip_strings(strip_comments(src[a:b])))
    # The block ends with the guard on the TARGET object ("splinetable already contains data": fit refuses a populated
    # table, FitArgsModel.fit_step) and opens the try block whose handler empties the table again after a failure past
    # this point (fit_step: a solver failure leaves the table EMPTY). Both are required: the model is written for them.
    tail = 'if(ndim!=0)throwstd::runtime_error("");try{'
    if not block.endswith(tail):
        raise Unparsed("the sanity block does not end with the populated-target guard followed by `try{`")
    block = block[: -len(tail)]
    rest = re.sub(r"\s+", "", strip_strings(strip_comments(src[b:])))
    if 'if(result!=0)throwstd::runtime_error("");}catch(...){clear();throw;}' not in rest:
        raise Unparsed("fit() does not end with `if(result!=0) throw ...; }catch(...){ clear(); throw; }`")
    items = []
    for st in parse_stmts(block, False):
        if st[0] == "if":
            if st[1] not in GCOND:
                raise Unparsed("unrecognised check condition: " + st[1])
            items.append("Once " + GCOND[st[1]])
        elif st[0] == "for":
            decls, conds = [], []
            for sub in st[1]:
                if sub[0] == "decl":
                    decls.append(sub[1])
                elif sub[0] == "if":
                    if sub[1] not in DCOND:
                        raise Unparsed("unrecognised per-dimension check condition: " + sub[1])
                    name, need = DCOND[sub[1]]
                    for n in need:
                        if n not in decls:
                            raise Unparsed("declaration needed by %s missing before it: %s" % (name, n))
                    conds.append(name)
                else:
                    raise Unparsed("nested loop in sanity block")
            allowed = [n for c in DCOND.values() for n in c[1]]
            for d in decls:
                if d not in allowed:
                    raise Unparsed("unrecognised statement inside a check loop: " + d)
            items.append("PerDim [" + "; ".join(conds) + "]")
        else:
            raise Unparsed("statement outside any form: %r" % (st,))
    # what follows the block must start assigning members only after it (the model's "reject leaves unchanged")
    head = re.sub(r"\s+", "", strip_strings(strip_comments(src[src.find("{", src.find("bool verbose")) : a])))
    if re.search(r"(?<![\w.>])(ndim|order|knots|nknots|extents|naxes|strides|coefficients)=(?!=)", head.replace("this->", "")):
        raise Unparsed("a member is assigned before the sanity block")
    return items

def translate_glam_c():
    src = strip_comments(open(os.path.join(REPO, "src/fitter/glam.c")).read())
    m = re.search(r"static\s+void\s+divided_diffs\s*\(int order, int porder, int j, double\* knots, double\* out\)\s*\{", src)
    if not m:
        raise Unparsed("divided_diffs header not found/changed")
    body = src[m.end() : matching(src, m.end() - 1, "{", "}")]
    flat = re.sub(r"\s+", "", body)
    vla = flat.find("doublea[order],b[order];")
    ret = flat.find("if(porder==0){out[0]=1.0;return;}")
    if vla < 0 or ret < 0:
        raise Unparsed("divided_diffs: scratch arrays a[order], b[order] or the porder==0 return not recognised")
    for needle in ("out[porder]=a[porder-1]/delta;", "divided_diffs(order,porder-1,j+1,knots,a);", "divided_diffs(order,porder-1,j,knots,b);"):
        if needle not in flat:
            raise Unparsed("divided_diffs: statement not recognised: " + needle)
    m2 = re.search(r"\ncalc_penalty\s*\(", src)
    if not m2:
        raise Unparsed("calc_penalty not found")
    cp = re.sub(r"\s+", "", src[m2.end() :])
    for needle in ("doubledivd[porder+1];", "row<nsplines[dim]-porder;", "divided_diffs(order,porder,row,knots,divd);"):
        if needle not in cp:
            raise Unparsed("calc_penalty: statement not recognised: " + needle)
    return ret < vla

def main():
    try:
        items = translate_fit_h()
        vla_after = translate_glam_c()
    except Unparsed as e:
        print("fitargs translator: FAIL CLOSED: %s" % e)
        sys.exit(3)
    txt = ("(* GENERATED by tools/translators/fitargs.py from include/photospline/detail/fit.h (sanity block of splinetable::fit)\n"
           "   and src/fitter/glam.c (divided_diffs). Do not edit. *)\n"
           "From Coq Require Import List.\nImport ListNotations.\nFrom PS Require Import FitArgs.\n\n"
           "Definition fit_checks_src : list item :=\n  [ " + ";\n    ".join(items) + " ].\n\n"
           "Definition divided_diffs_vla_after_return : bool := %s.\n" % ("true" if vla_after else "false"))
    old = open(OUT).read() if os.path.exists(OUT) else None
    if old != txt:
        with open(OUT, "w") as f:
            f.write(txt)
    print("fitargs: %d check items (%s), vla_after_return=%s" % (len(items), ", ".join(items), vla_after))

if __name__ == "__main__":
    main()
