#!/usr/bin/env python3
"""readchecks.py — regenerates coq/theories/Generated_readchecks.v from include/photospline/detail/fitsio.h:
the sequence of `if(<condition>) throw std::runtime_error(...)` tests in splinetable<Alloc>::read_fits_core, in program order.
Every throw site of the function must be recognised (fails closed otherwise):
  * conditions that FitsModel.of_doc already models (cfitsio status tests, dimension / axis / knot count sign tests) are only
    verified to be present;
  * consistency checks between axes, orders and knot vectors, and on knot values, become entries of `read_checks : list rcheck`
    (C07_Checks.v), with their numeric parameters taken from the source text — so that a weakened check (say `-order[i]-2`)
    changes the model and breaks the proof of C07_accept_wf instead of going unnoticed."""
import os, re, sys
REPO = os.environ.get("VERIF_REPO", "/repo")
VERIF = os.path.dirname(os.path.dirname(os.path.dirname(os.path.abspath(__file__))))
src = open(os.path.join(REPO, "include/photospline/detail/fitsio.h")).read()
m = re.search(r"bool\s+splinetable<Alloc>::read_fits_core\s*\([^)]*\)\s*\{", src)
if not m:
    print("read_fits_core not found"); sys.exit(1)
# body: up to the matching closing brace
i, depth = m.end(), 1
while depth and i < len(src):
    depth += {"{": 1, "}": -1}.get(src[i], 0)
    i += 1
body = src[m.end():i]
body = re.sub(r"//[^\n]*", "", body)
body = re.sub(r"/\*.*?\*/", "", body, flags=re.S)
nthrow = len(re.findall(r"\bthrow\b", body))
sites = []
for mm in re.finditer(r"if\s*\(((?:[^()]|\((?:[^()]|\([^()]*\))*\))*)\)\s*\{?\s*throw\s+std::runtime_error", body):
    sites.append(re.sub(r"\s+", "", mm.group(1)))
if len(sites) != nthrow:
    print("read_fits_core: %d throw statements but %d recognised `if(cond) throw std::runtime_error` sites" % (nthrow, len(sites))); sys.exit(1)
EXISTING = {"error!=0": "status", "ext_error!=0": "status", "type!=IMAGE_HDU": "ENotImage", "temp_dim<1": "EBadDim",
            "naxes_temp[i]<0": "ENegAxis", "nknots_temp<=0": "EKnotsCount"}
checks, seen_existing = [], []
for c in sites:
    if c in EXISTING:
        seen_existing.append(EXISTING[c]); continue
    if c == "naxes_temp[i]<=0":
        seen_existing.append("ENegAxis"); checks.append("CkAxisPositive"); continue
    mm = re.fullmatch(r"uint64_t\(nknots_temp\)<(\d+)\*uint64_t\(order\[i\]\)\+(\d+)", c)
    if mm:
        checks.append("CkKnotsEnough %s %s" % (mm.group(1), mm.group(2))); continue
    mm = re.fullmatch(r"naxes\[i\]!=uint64_t\(nknots_temp\)-order\[i\]-(\d+)", c)
    if mm:
        checks.append("CkAxesMatch %s" % mm.group(1)); continue
    if c == "!std::isfinite(knots[i][k])":
        checks.append("CkKnotsFinite"); continue
    if c == "knots[i][k]<knots[i][k-1]":
        checks.append("CkKnotsSorted"); continue
    print("read_fits_core: unrecognised throw condition: " + c); sys.exit(1)
for need in ("ENotImage", "EBadDim", "ENegAxis", "EKnotsCount"):
    if need not in seen_existing:
        print("read_fits_core: the test modelled as %s in FitsModel.of_doc is gone" % need); sys.exit(1)
if "CkKnotsSorted" in checks:
    # the comparison loop must start at k = 1
    if not re.search(r"for\s*\(\s*uint64_t\s+k\s*=\s*1\s*;\s*k\s*<\s*nknots\[i\]\s*;\s*k\+\+\s*\)\s*\{?\s*if\s*\(\s*knots\[i\]\[k\]\s*<\s*knots\[i\]\[k-1\]", body):
        print("read_fits_core: the knot ordering test is not inside `for(uint64_t k=1; k<nknots[i]; k++)`"); sys.exit(1)
if "CkKnotsFinite" in checks:
    if not re.search(r"for\s*\(\s*uint64_t\s+k\s*=\s*0\s*;\s*k\s*<\s*nknots\[i\]\s*;\s*k\+\+\s*\)\s*\{?\s*if\s*\(\s*!std::isfinite\(knots\[i\]\[k\]\)", body):
        print("read_fits_core: the knot finiteness test is not inside `for(uint64_t k=0; k<nknots[i]; k++)`"); sys.exit(1)
# read_fits_mem: every throw site between the function head and the call of read_fits_core must be recognised; is the guard
# "every HDU lies inside the caller's buffer" there?
mm = re.search(r"bool\s+splinetable<Alloc>::read_fits_mem\s*\([^)]*\)\s*\{(.*?)read_fits_core\s*\(", src, re.S)
if not mm:
    print("read_fits_mem not found"); sys.exit(1)
pre = re.sub(r"/\*.*?\*/", "", re.sub(r"//[^\n]*", "", mm.group(1)), flags=re.S)
nthrow_mem = len(re.findall(r"\bthrow\b", pre))
guards = [re.sub(r"\s+", "", g) for g in re.findall(r"if\s*\(((?:[^()]|\((?:[^()]|\([^()]*\))*\))*)\)\s*\{?(?:\s*fits_report_error\([^;]*;)?\s*throw\s+std::runtime_error", pre)]
if len(guards) != nthrow_mem:
    print("read_fits_mem: %d throw statements but %d recognised guards" % (nthrow_mem, len(guards))); sys.exit(1)
mem_guard = False
for g in guards:
    if g in ("ndim!=0", "error!=0"):
        continue
    if g == "scan_error==0&&(dataend<0||uint64_t(dataend)>given_size)":
        if not re.search(r"const\s+uint64_t\s+given_size\s*=\s*buffer_size\s*;", pre) or \
           not re.search(r"for\s*\(\s*int\s+hdu\s*=\s*1\s*;\s*hdu\s*<=\s*nhdus\s*&&\s*scan_error\s*==\s*0\s*;\s*hdu\+\+\s*\)", pre) or \
           not re.search(r"fits_get_hduaddrll\(\s*fits\s*,\s*&headstart\s*,\s*&datastart\s*,\s*&dataend\s*,\s*&scan_error\s*\)", pre):
            print("read_fits_mem: HDU extent guard found but not in the expected loop over all HDUs"); sys.exit(1)
        mem_guard = True; continue
    print("read_fits_mem: unrecognised guard: " + g); sys.exit(1)
out = ["(* GENERATED by tools/translators/readchecks.py from include/photospline/detail/fitsio.h (read_fits_core) — do not edit *)",
       "From Coq Require Import List NArith.", "From PS Require Import C07_Checks.", "Import ListNotations.", "Open Scope N_scope.",
       "(* consistency checks performed by read_fits_core, in program order *)",
       "Definition read_checks : list rcheck := [" + "; ".join(checks) + "].",
       "(* read_fits_mem refuses a buffer when an HDU found in it ends beyond the end of the buffer *)",
       "Definition mem_guard_present : bool := %s." % ("true" if mem_guard else "false")]
path = os.path.join(VERIF, "coq", "theories", "Generated_readchecks.v")
txt = "\n".join(out) + "\n"
if not os.path.exists(path) or open(path).read() != txt:
    open(path, "w").write(txt)
print("read_fits_core throw sites: %d, consistency checks: %s; read_fits_mem HDU extent guard: %s" % (len(sites), ", ".join(checks) or "none", mem_guard))
