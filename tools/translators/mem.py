#!/usr/bin/env python3
"""mem.py — translator for C19: writes coq/theories/Generated_mem.v from the repo working tree.

What is transcribed mechanically (everything else of the C19 model is hand-written in MemModel.v and tied to the
code by the exact trace correspondence of tools/props/C19.py):

  * the sizes the estimate depends on, as compiled: sizeof(splinetable<>), of the pointer typedefs and scalar
    types named in estimateMemory, FLEN_KEYWORD / FLEN_VALUE / FLEN_CARD of the installed cfitsio
    (a tiny program is compiled against the working tree's headers and run);
  * the arithmetic of splinetable::estimateMemory (include/photospline/detail/fitsio.h): every statement that
    writes `size', `nknots', `naxes[i]', `order[convolution_dimension]' is parsed with a small C-expression
    parser and emitted as a Gallina N expression, in program order;
  * whether the auxiliary keys are counted while the primary HDU is current (before the first fits_movnam_hdu);
  * the prefix list of reservedFitsKeyword (src/core/fitsio.cpp), compared with the list restated in
    harness/C19_harness.cpp.

Fails closed: any statement in the parsed region that is not recognised -> exit 1, nothing usable is written."""
import os, re, subprocess, sys, tempfile, hashlib

VERIF = os.path.dirname(os.path.dirname(os.path.dirname(os.path.abspath(__file__))))
REPO = os.environ.get("VERIF_REPO", "/repo")
OUT = os.path.join(VERIF, "coq", "theories", "Generated_mem.v")

class Fail(Exception):
    pass

def fail(msg):
    raise Fail(msg)

# ---------------------------------------------------------------------------------------------- sizes
SIZEOF_CXX = {  # type as written in estimateMemory -> C++ expression for the probe
    "splinetable<Alloc>": "photospline::splinetable<>",
    "double_ptr": "photospline::splinetable<>::double_ptr",
    "uint32_t": "uint32_t", "uint64_t": "uint64_t", "double": "double", "float": "float", "char": "char",
}
SIZEOF_NAME = {"splinetable<Alloc>": "sizeof_table", "double_ptr": "sizeof_double_ptr", "uint32_t": "sizeof_uint32",
               "uint64_t": "sizeof_uint64", "double": "sizeof_double", "float": "sizeof_float", "char": "sizeof_char"}

def probe_sizes():
    src = "#include <cstdio>\n#include <cstdint>\n#include <fitsio.h>\n#include <photospline/splinetable.h>\nint main(){\n"
    for t, cxx in SIZEOF_CXX.items():
        src += '  printf("%s %%zu\\n", sizeof(%s));\n' % (SIZEOF_NAME[t], cxx)
    src += '  printf("sizeof_char_ptr %zu\\n", sizeof(photospline::splinetable<>::char_ptr));\n'
    src += '  printf("sizeof_char_ptr_ptr %zu\\n", sizeof(photospline::splinetable<>::char_ptr_ptr));\n'
    src += '  printf("FLEN_KEYWORD %d\\nFLEN_VALUE %d\\nFLEN_CARD %d\\n", FLEN_KEYWORD, FLEN_VALUE, FLEN_CARD);\n  return 0;\n}\n'
    # cache by content of the headers + probe (compiling splinetable.h costs a few seconds)
    h = hashlib.sha256(src.encode())
    inc = os.path.join(REPO, "include", "photospline")
    for root, _, files in sorted(os.walk(inc)):
        for f in sorted(files):
            h.update(open(os.path.join(root, f), "rb").read())
    for f in ("/usr/include/fitsio.h",):
        if os.path.exists(f):
            h.update(open(f, "rb").read())
    cdir = os.path.join(VERIF, ".build", "mem_probe")
    os.makedirs(cdir, exist_ok=True)
    cache = os.path.join(cdir, h.hexdigest()[:20] + ".txt")
    if os.path.exists(cache):
        txt = open(cache).read()
    else:
        with tempfile.TemporaryDirectory(dir=cdir) as d:
            cpp = os.path.join(d, "p.cpp")
            open(cpp, "w").write(src)
            exe = os.path.join(d, "p")
            p = subprocess.run(["g++", "-std=c++11", "-O0", "-w", "-I" + os.path.join(REPO, "include"), cpp, "-o", exe, "-lcfitsio"],
                               capture_output=True, text=True, timeout=300)
            if p.returncode != 0:
                fail("size probe does not compile: " + p.stderr[-1500:])
            p = subprocess.run([exe], capture_output=True, text=True, timeout=60)
            if p.returncode != 0:
                fail("size probe failed to run")
            txt = p.stdout
        for f in os.listdir(cdir):
            if f.endswith(".txt"):
                os.remove(os.path.join(cdir, f))
        open(cache, "w").write(txt)
    sizes = {}
    for line in txt.strip().split("\n"):
        k, v = line.split()
        sizes[k] = int(v)
    return sizes

# ---------------------------------------------------------------------------------------------- C expression -> Gallina
TOK = re.compile(r"\s*(sizeof\s*\(\s*[A-Za-z_0-9<>]+\s*\)|[A-Za-z_][A-Za-z_0-9]*(?:\[[A-Za-z_]+\])?|\d+(?:ULL|UL|U|L)?|<<|[-+*%()])")

class Parser:
    """expr := term (('+'|'-') term)* ; term := shift (('*'|'%') shift)* ; shift := atom ('<<' atom)? ;
    atom := number | sizeof(T) | name | '(' expr ')'.   (C precedence of << is below + -, so it is only
    accepted between two bare atoms, which is how the source uses it: 1ULL<<10.)"""
    def __init__(self, text, atoms):
        self.toks = []
        pos = 0
        text = text.strip()
        while pos < len(text):
            m = TOK.match(text, pos)
            if not m:
                fail("cannot tokenise %r at %r" % (text, text[pos:]))
            self.toks.append(m.group(1))
            pos = m.end()
        self.i = 0
        self.atoms = atoms
    def peek(self):
        return self.toks[self.i] if self.i < len(self.toks) else None
    def take(self):
        t = self.peek()
        self.i += 1
        return t
    def expr(self):
        e = self.term()
        while self.peek() in ("+", "-"):
            op = self.take()
            r = self.term()
            e = "(%s %s %s)" % (e, op, r)
        return e
    def term(self):
        e = self.shift()
        while self.peek() in ("*", "%"):
            op = self.take()
            r = self.shift()
            e = "(%s %s %s)" % (e, "*" if op == "*" else "mod", r)
        return e
    def shift(self):
        e = self.atom()
        if self.peek() == "<<":
            if self.i >= 2 and self.toks[self.i - 2] in ("+", "-", "*", "%"):
                fail("'<<' after an arithmetic operator: precedence not handled")
            self.take()
            r = self.atom()
            if self.peek() in ("+", "-", "*", "%"):
                fail("'<<' before an arithmetic operator: precedence not handled")
            e = "(N.shiftl %s %s)" % (e, r)
        return e
    def atom(self):
        t = self.take()
        if t is None:
            fail("unexpected end of expression")
        if t == "(":
            e = self.expr()
            if self.take() != ")":
                fail("missing )")
            return e
        if re.match(r"\d", t):
            return re.match(r"\d+", t).group(0)
        m = re.match(r"sizeof\s*\(\s*(.*?)\s*\)$", t)
        if m:
            ty = m.group(1)
            if ty not in SIZEOF_NAME:
                fail("sizeof of unknown type %r" % ty)
            return SIZEOF_NAME[ty]
        if t in self.atoms:
            return self.atoms[t]
        fail("unknown name %r in expression" % t)

def gallina(text, atoms):
    p = Parser(text, atoms)
    e = p.expr()
    if p.peek() is not None:
        fail("trailing tokens in %r" % text)
    return e

# ---------------------------------------------------------------------------------------------- estimateMemory
def function_body(src, header_re):
    m = re.search(header_re, src)
    if not m:
        fail("function not found: " + header_re)
    i = src.index("{", m.end() - 1)
    depth, j = 0, i
    while j < len(src):
        if src[j] == "{":
            depth += 1
        elif src[j] == "}":
            depth -= 1
            if depth == 0:
                return src[i + 1:j]
        j += 1
    fail("unbalanced braces")

def strip_comments(s):
    s = re.sub(r"/\*.*?\*/", " ", s, flags=re.S)
    return re.sub(r"//[^\n]*", "", s)

def parse_estimate():
    path = os.path.join(REPO, "include", "photospline", "detail", "fitsio.h")
    src = open(path).read()
    body = strip_comments(function_body(src, r"size_t\s+splinetable<Alloc>::estimateMemory\s*\([^)]*\)\s*\{"))
    # every statement (split on ';') that assigns to one of the tracked variables, in program order
    tracked = r"(?:size_t\s+size|size|nknots|naxes\[i\]|order\[convolution_dimension\]|const\s+size_t\s+KB|int64_t\s+ncoeffs|uint32_t\s+naux)"
    stmts = []
    for m in re.finditer(r"(?<![A-Za-z_0-9.>])(" + tracked + r")\s*(\+=|\*=|-=|=)(?!=)\s*([^;]*);", body):
        stmts.append((m.start(), re.sub(r"\s+", " ", m.group(1)).strip(), m.group(2), re.sub(r"\s+", " ", m.group(3)).strip()))
    # any other write to the tracked names that the pattern above would miss (++, --, /=, <<=, function out-params) -> closed
    for bad in re.finditer(r"\b(size|nknots|ncoeffs|naux|KB)\s*(\+\+|--|/=|%=|<<=|>>=|\|=|&=|\^=)", body):
        fail("unrecognised update of %s in estimateMemory" % bad.group(1))
    if len(re.findall(r"&\s*size\b", body)):
        fail("address of size taken")
    # the only out-parameter write to nknots that is expected: fits_get_img_size(fits, 1, &nknots, &error)
    amp = re.findall(r"&\s*nknots\b", body)
    if len(amp) != 1 or not re.search(r"fits_get_img_size\s*\(\s*fits\s*,\s*1\s*,\s*&nknots\s*,\s*&error\s*\)", body):
        fail("nknots is not read exactly once by fits_get_img_size(fits,1,&nknots,&error)")
    out = {}
    fixed = []
    seen = []
    loop = re.search(r"for\s*\(\s*int\s+i\s*=\s*0\s*;\s*i\s*<\s*dim\s*;\s*i\+\+\s*\)\s*\{", body)
    if not loop:
        fail("knot loop `for (int i = 0; i < dim; i++)` not found")
    lbody_start = loop.end()
    depth, j = 1, lbody_start
    while depth:
        depth += {"{": 1, "}": -1}.get(body[j], 0)
        j += 1
    loop_rng = (lbody_start, j)
    cond = re.search(r"if\s*\(\s*unsigned\s*\(\s*i\s*\)\s*==\s*convolution_dimension\s*\)\s*\{", body[loop_rng[0]:loop_rng[1]])
    if not cond:
        fail("`if (unsigned(i) == convolution_dimension){` not found in the knot loop")
    cstart = loop_rng[0] + cond.end()
    cend = body.index("}", cstart)
    A_loop = {"nknots": "nknots", "order[i]": "order", "n_convolution_knots": "n"}
    A_tail = {"dim": "dim", "ncoeffs": "ncoeffs", "naux": "naux", "FLEN_KEYWORD": "FLEN_KEYWORD", "FLEN_VALUE": "FLEN_VALUE"}
    for pos, lhs, op, rhs in stmts:
        inloop = loop_rng[0] <= pos < loop_rng[1]
        incond = cstart <= pos < cend
        key = (lhs, op)
        if lhs == "size_t size" and op == "=":
            if inloop or "init" in out:
                fail("unexpected (re)declaration of size")
            out["init"] = gallina(rhs, {})
        elif lhs == "order[convolution_dimension]" and op == "+=":
            if inloop or "conv_order" in out or pos > loop.start():
                fail("order[convolution_dimension] update not (once) before the knot loop")
            out["conv_order"] = "(order + %s)" % gallina(rhs, {"n_convolution_knots": "n"})
        elif lhs == "nknots" and op == "*=":
            if not incond or "conv_nknots" in out:
                fail("nknots *= ... not (once) inside the convolution-dimension branch")
            out["conv_nknots"] = "(nknots * %s)" % gallina(rhs, {"n_convolution_knots": "n"})
        elif lhs == "naxes[i]" and op == "=":
            if not incond or "conv_naxis" in out or "conv_nknots" not in out:
                fail("naxes[i] = ... not (once) inside the convolution-dimension branch after nknots *=")
            out["conv_naxis"] = gallina(rhs, {"nknots": "nknots", "order[i]": "order"})
        elif lhs == "size" and op == "+=" and inloop:
            if incond or "knot_term" in out or pos < cend:
                fail("size += in the knot loop not (once) after the convolution-dimension branch")
            out["knot_term"] = gallina(rhs, A_loop)
        elif lhs == "int64_t ncoeffs" and op == "=":
            if inloop or pos < loop_rng[1] or not re.match(
                    r"std::accumulate\(naxes\.begin\(\),\s*naxes\.end\(\),\s*\(int64_t\)1,\s*std::multiplies<int64_t>\(\)\)$", rhs):
                fail("ncoeffs is not the product of naxes after the loop: " + rhs)
            out["ncoeffs_ok"] = True
        elif lhs == "uint32_t naux" and op == "=":
            if rhs != "countAuxKeywords(fits)" or inloop or "naux_pos" in out:
                fail("naux is not countAuxKeywords(fits): " + rhs)
            out["naux_pos"] = pos
        elif lhs == "const size_t KB" and op == "=":
            if inloop or "KB" in out:
                fail("unexpected KB")
            out["KB"] = gallina(rhs, {})
        elif lhs == "size" and op == "+=" and not inloop:
            if pos < loop_rng[1] or not out.get("ncoeffs_ok"):
                fail("size += before the knot loop / before ncoeffs")
            if "KB" in out:
                if "round" in out:
                    fail("more than one size update after KB")
                out["round"] = gallina(rhs, {"KB": "KB", "size": "size"})
            else:
                fixed.append(gallina(rhs, A_tail))
        else:
            fail("unrecognised statement in estimateMemory: %s %s %s" % (lhs, op, rhs))
        seen.append(key)
    for k in ("init", "conv_order", "conv_nknots", "conv_naxis", "knot_term", "ncoeffs_ok", "naux_pos", "KB", "round"):
        if k not in out:
            fail("estimateMemory: missing " + k)
    if not re.search(r"return\s*\(\s*size\s*\)\s*;\s*$", body.strip()):
        fail("estimateMemory does not end with return(size)")
    if not re.search(r"std::reverse\(naxes\.begin\(\),\s*naxes\.end\(\)\)", body):
        fail("naxes not reversed")
    # which HDU is current when the auxiliary keys are counted
    first_mov = body.find("fits_movnam_hdu")
    if first_mov < 0:
        fail("no fits_movnam_hdu in estimateMemory")
    out["naux_primary"] = out["naux_pos"] < first_mov
    if not out["naux_primary"] and out["naux_pos"] < loop_rng[1]:
        fail("countAuxKeywords inside the knot loop")
    out["fixed"] = fixed
    return out

def parse_reserved():
    src = open(os.path.join(REPO, "src", "core", "fitsio.cpp")).read()
    body = strip_comments(function_body(src, r"bool\s+reservedFitsKeyword\s*\([^)]*\)\s*\{"))
    m = re.match(r"\s*return\s*\((.*)\)\s*;\s*$", body, flags=re.S)
    if not m:
        fail("reservedFitsKeyword is not a single return")
    pre, exact = [], []
    for part in m.group(1).split("||"):
        mm = re.match(r'\s*strncmp\(\s*"([A-Z]+)"\s*,\s*key\s*,\s*(\d+)\s*\)\s*==\s*0\s*$', part)
        if mm and len(mm.group(1)) == int(mm.group(2)):
            pre.append(mm.group(1)); continue
        mm = re.match(r'\s*strcmp\(\s*"([A-Z]*)"\s*,\s*key\s*\)\s*==\s*0\s*$', part)
        if mm:
            exact.append(mm.group(1)); continue
        fail("reservedFitsKeyword: unrecognised disjunct " + part.strip())
    h = open(os.path.join(VERIF, "harness", "C19_harness.cpp")).read()
    hm = re.search(r"static const char\* pre\[\]=\{([^}]*)\}", h)
    hpre = re.findall(r'"([A-Z]+)"', hm.group(1)) if hm else None
    if hpre != pre:
        fail("reserved-key prefixes in the source %r differ from the list restated in harness/C19_harness.cpp %r" % (pre, hpre))
    hm = re.search(r"static const char\* exact\[\]=\{([^}]*)\}", h)
    hex_ = re.findall(r'"([A-Z]*)"', hm.group(1)) if hm else []
    if hex_ != exact:
        fail("exactly-matched reserved keys in the source %r differ from the list restated in harness/C19_harness.cpp %r" % (exact, hex_))
    return pre + ["=" + e for e in exact]

def main():
    sizes = probe_sizes()
    est = parse_estimate()
    pre = parse_reserved()
    L = ["(* GENERATED by tools/translators/mem.py from %s — do not edit *)" % REPO,
         "From Coq Require Import NArith List.", "Import ListNotations.", "Open Scope N_scope.", ""]
    for k in sorted(sizes):
        L.append("Definition %s : N := %d." % (k, sizes[k]))
    L += ["",
          "(* include/photospline/detail/fitsio.h, splinetable::estimateMemory, statement by statement *)",
          "Definition est_init : N := %s." % est["init"],
          "Definition est_conv_order (order n : N) : N := %s.   (* order[convolution_dimension] += ... *)" % est["conv_order"],
          "Definition est_conv_nknots (nknots n : N) : N := %s.   (* nknots *= ... *)" % est["conv_nknots"],
          "Definition est_conv_naxis (nknots order : N) : N := %s.   (* naxes[i] = ... *)" % est["conv_naxis"],
          "Definition est_knot_term (nknots order : N) : N := %s.   (* size += ... in the knot loop *)" % est["knot_term"],
          "Definition est_fixed_terms (dim ncoeffs naux : N) : list N :=",
          "  [ " + ";\n    ".join(est["fixed"]) + " ].",
          "Definition KB : N := %s." % est["KB"],
          "Definition est_round (size : N) : N := size + %s." % est["round"],
          "(* true iff countAuxKeywords runs before the first fits_movnam_hdu, i.e. on the primary HDU *)",
          "Definition est_naux_from_primary : bool := %s." % ("true" if est["naux_primary"] else "false"),
          "", "(* src/core/fitsio.cpp reservedFitsKeyword prefixes: %s *)" % " ".join(pre), ""]
    txt = "\n".join(L)
    old = open(OUT).read() if os.path.exists(OUT) else None
    if old != txt:
        open(OUT, "w").write(txt)
    print("Generated_mem.v: sizeof_table=%d ptr=%d FLEN=%d/%d/%d, %d fixed terms, naux counted on %s HDU, %d reserved prefixes" % (
        sizes["sizeof_table"], sizes["sizeof_double_ptr"], sizes["FLEN_KEYWORD"], sizes["FLEN_VALUE"], sizes["FLEN_CARD"],
        len(est["fixed"]), "primary" if est["naux_primary"] else "LAST KNOTS", len(pre)))

if __name__ == "__main__":
    try:
        main()
    except Fail as e:
        # fail closed: leave a file that cannot be compiled so no stale constants are used
        open(OUT, "w").write("(* translator failed: %s *)\nDefinition translator_failed : False := I.\n" % str(e).replace("*)", "* )"))
        print("mem.py FAILED: " + str(e))
        sys.exit(1)
