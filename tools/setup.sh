#!/bin/sh
# setup_cmd: build the framework from files on disk only (offline). Full .vo build, no -vos/-vok.
set -e
cd "$(dirname "$0")/.."
python3 tools/translate_tables.py
cd coq
coq_makefile -f _CoqProject -o Makefile
make -j16
cd ..
python3 - <<'PY'
import sys, os
sys.path.insert(0, "tools")
from common import *
build_extracted("eval_driver.ml", "eval_driver")
PY
echo setup done
