#!/bin/sh
# setup_cmd: build the framework from files on disk only (offline). Full .vo build, no -vos/-vok.
set -e
cd "$(dirname "$0")/.."
python3 - <<'PY'
import sys
sys.path.insert(0, "tools")
from common import *
status, msg = run_translator()
print(msg)
# a translator that fails closed is a broken obligation of the checks that depend on it, not a setup failure
sys.exit(0)
PY
cd coq
make -k -j16 || echo "setup: some theories did not build; the checks that depend on them report it"
cd ..
python3 - <<'PY'
import sys, os, re
sys.path.insert(0, "tools")
from common import *
for f in sorted(os.listdir(EXTRACT)):
    m = re.fullmatch(r"Extract_(\w+)\.v", f)
    if m:
        try:
            print("extracted driver:", build_extracted(m.group(1)))
        except BuildError as e:
            # the check that needs this driver rebuilds it and reports the failure; setup goes on
            print("extracted driver %s did not build: %s" % (m.group(1), str(e)[-300:]))
PY
echo setup done
