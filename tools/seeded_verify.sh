#!/bin/sh
# tools/seeded_verify.sh <id> <worktree> <dir with patch.diff + demo.cpp> "<compile command with $W>" [check ids...]
# Confirms a seeded change: demo passes on the clean worktree, fails with the patch; then runs the listed checks against
# the patched worktree (VERIF_REPO) and reports whether each raised a VIOLATION. Leaves the worktree clean.
ID=$1; W=$2; D=$3; CC=$4; shift 4
cd "$D" || exit 2
git -C "$W" checkout -q -- . ; git -C "$W" clean -fdq
export W
sh -c "$CC -o /tmp/demo_$ID.clean" >/dev/null 2>&1 && ( cd "$D"; timeout 600 /tmp/demo_$ID.clean >/tmp/demo_$ID.clean.out 2>&1 ); echo "demo on clean tree: exit $?"
git -C "$W" apply "$D/patch.diff" || { echo "patch does not apply"; exit 2; }
sh -c "$CC -o /tmp/demo_$ID.patched" >/dev/null 2>&1 && ( cd "$D"; timeout 600 /tmp/demo_$ID.patched >/tmp/demo_$ID.patched.out 2>&1 ); echo "demo on patched tree: exit $?"
cd "${VERIF_DIR:-/verif}"
for c in "$@"; do
  # the evidence file of the registered check describes the UNCHANGED tree: keep it
  cp evidence/$c.json /tmp/seed_evidence_$c.json 2>/dev/null
  VERIF_REPO=$W ./check $c quick > /tmp/seed_${ID}_$c.out 2>&1; rc=$?
  cp /tmp/seed_evidence_$c.json evidence/$c.json 2>/dev/null
  echo "check $c on patched tree: exit $rc; $(grep -c '^VIOLATION' /tmp/seed_${ID}_$c.out) VIOLATION lines; $(grep '^VIOLATION' /tmp/seed_${ID}_$c.out | head -1)"
  grep -- '->' /tmp/seed_${ID}_$c.out | head -2
done
git -C "$W" checkout -q -- . ; git -C "$W" clean -fdq
rm -f /tmp/demo_$ID.clean /tmp/demo_$ID.patched
