#!/usr/bin/env python3
"""translate_tables.py — the translator half of the tie (DESIGN §1 C).

Re-extracts, from /repo's CURRENT working tree, the pieces of the code that are tables rather than
algorithms, and writes them as Gallina data into coq/theories/Generated.v (and as a C++ include for the
harness). Proof obligations over that data are re-checked by coqc on every run.

Fails closed: any text inside a parsed region that is not recognised aborts with exit status 3, which
the checks report as a broken proof obligation.

Tables:
  * get_evaluator's dispatch (include/photospline/detail/bspline_eval.h)
  * PHOTOSPLINE_MAXDIM / PHOTOSPLINE_VECTOR_SIZE (detail/simd.h)
  * reserved FITS keyword list of write_key (detail/aux.h)                      [added with C16]
  * estimateMemory constants (detail/fitsio.h, cfitsio FLEN_*)                  [added with C19]
"""
import re, sys, os

REPO = os.environ.get("VERIF_REPO", "/repo")

class Unparsed(Exception):
    pass

def strip_comments(s):
    s = re.sub(r"/\*.*?\*/", " ", s, flags=re.S)
    s = re.sub(r"//[^\n]*", " ", s)
    return s

def function_body(src, header_re):
    m = re.search(header_re, src)
    if not m:
        raise Unparsed("function header not found: " + header_re)
    i = src.index("{", m.end())
    depth, j = 0, i
    while True:
        if src[j] == "{":
            depth += 1
        elif src[j] == "}":
            depth -= 1
            if depth == 0:
                return src[i + 1 : j]
        j += 1

# ------------------------------------------------------------------------------------------------
def parse_variant(text):
    """'ndsplineeval_coreD_FixedOrder<Float,1,2>' -> ('Fixed',1,2) etc.; also returns whether it is the multibasis twin"""
    t = re.sub(r"\s+", "", text)
    t = re.sub(r"^template", "", t)
    m = re.fullmatch(r"ndsplineeval_(multibasis_)?core<Float>", t)
    if m:
        return (bool(m.group(1)), ("Generic",))
    m = re.fullmatch(r"ndsplineeval_(multibasis_)?coreD<Float,(\d+)>", t)
    if m:
        return (bool(m.group(1)), ("D", int(m.group(2))))
    m = re.fullmatch(r"ndsplineeval_(multibasis_)?coreD_FixedOrder<Float,(\d+),(\d+)>", t)
    if m:
        return (bool(m.group(1)), ("Fixed", int(m.group(2)), int(m.group(3))))
    m = re.fullmatch(r"ndsplineeval_(multibasis_)?core_KnownOrder<Float,([\d,]+)>", t)
    if m:
        return (bool(m.group(1)), ("Known", tuple(int(x) for x in m.group(2).split(","))))
    raise Unparsed("unrecognised evaluator routine: " + text)

TOKEN = re.compile(
    r"""(?P<ifndef>\#ifndef\s+PHOTOSPLINE_NO_EVAL_TEMPLATES)
      |(?P<endif>\#endif)
      |(?P<switch>switch\s*\(\s*(?P<swvar>\w+)\s*\)\s*\{)
      |(?P<case>case\s+(?P<casen>\d+)\s*:)
      |(?P<default>default\s*:)
      |(?P<assign>eval\s*\.\s*(?P<v>v_)?eval_ptr\s*=\s*&\s*splinetable\s*::\s*(?P<target>[^;]+);)
      |(?P<break>break\s*;)
      |(?P<ifknown>(?P<else>else\s+)?if\s*\(\s*detail::orders_are\s*\(\s*\*this\s*,\s*\{(?P<orders>[^}]*)\}\s*\)\s*\)\s*\{)
      |(?P<close>\})
      |(?P<ws>\s+)
    """,
    re.X,
)

def parse_dispatch(body):
    """Returns (cases, overrides).
    cases: list of dict(templ=bool (inside #ifndef NO_EVAL_TEMPLATES), corder=int|None, ndim=int|None, ev=variant, vev=variant)
    overrides: list of dict(templ, orders, ev, vev) in source order (if / else if chain)."""
    # cut the prologue (everything before switch(constOrder)) after checking it computes constOrder as modelled
    pro_end = body.index("switch")
    prologue = re.sub(r"\s+", "", body[:pro_end])
    expected = ("evaluator_type<Float>eval(*this);uint32_tconstOrder=order[0];"
                "for(unsignedintj=1;j<ndim;j++){if(order[j]!=constOrder){constOrder=0;break;}}")
    if prologue != expected:
        raise Unparsed("get_evaluator prologue changed: " + prologue)
    epi = body.rindex("return")
    if re.sub(r"\s+", "", body[epi:]) != "return(eval);":
        raise Unparsed("get_evaluator epilogue changed")
    text = body[pro_end:epi]
    pos = 0
    templ_depth = 0
    stack = []  # entries: ('switch', var, current_label) / ('known', orders)
    cases, overrides = [], []
    cur = None
    while pos < len(text):
        m = TOKEN.match(text, pos)
        if not m:
            raise Unparsed("unrecognised text in get_evaluator: %r" % text[pos : pos + 60])
        pos = m.end()
        k = m.lastgroup if m.lastgroup not in ("swvar", "casen", "v", "target", "else", "orders") else None
        # lastgroup can be an inner group; find the outer one
        for name in ("ifndef", "endif", "switch", "case", "default", "assign", "break", "ifknown", "close", "ws"):
            if m.group(name) is not None:
                k = name
                break
        if k == "ws":
            continue
        if k == "ifndef":
            templ_depth += 1
        elif k == "endif":
            templ_depth -= 1
            if templ_depth < 0:
                raise Unparsed("unbalanced #endif")
        elif k == "switch":
            stack.append(["switch", m.group("swvar"), "none", templ_depth > 0])
        elif k in ("case", "default"):
            if not stack or stack[-1][0] != "switch":
                raise Unparsed("case outside switch")
            stack[-1][2] = int(m.group("casen")) if k == "case" else None
            stack[-1][3] = templ_depth > 0
        elif k == "assign":
            isv = bool(m.group("v"))
            multib, var = parse_variant(m.group("target"))
            if multib != isv:
                raise Unparsed("eval_ptr/v_eval_ptr assigned a routine of the other family: " + m.group("target"))
            if stack and stack[-1][0] == "known":
                ent = stack[-1][2]
            else:
                sw = [s for s in stack if s[0] == "switch"]
                if len(sw) != 2 or sw[0][1] != "constOrder" or sw[1][1] != "ndim":
                    raise Unparsed("assignment outside switch(constOrder){switch(ndim)}")
                if sw[0][2] == "none" or sw[1][2] == "none":
                    raise Unparsed("assignment before first case label")
                key = (sw[0][2], sw[1][2])
                templ = sw[0][3] or sw[1][3]
                if cur is None or cur["key"] != key:
                    cur = {"key": key, "templ": templ, "corder": key[0], "ndim": key[1], "ev": None, "vev": None}
                    cases.append(cur)
                ent = cur
            slot = "vev" if isv else "ev"
            if ent[slot] is not None:
                raise Unparsed("routine assigned twice in one case")
            ent[slot] = var
        elif k == "break":
            pass
        elif k == "ifknown":
            orders = tuple(int(x) for x in m.group("orders").replace(" ", "").split(","))
            if overrides and not m.group("else"):
                raise Unparsed("orders_are chain is not if / else if")
            ent = {"templ": templ_depth > 0, "orders": orders, "ev": None, "vev": None}
            overrides.append(ent)
            stack.append(["known", orders, ent])
        elif k == "close":
            if not stack:
                raise Unparsed("unbalanced }")
            top = stack.pop()
            if top[0] == "switch":
                cur = None
    if stack or templ_depth:
        raise Unparsed("unbalanced get_evaluator body")
    for e in cases + overrides:
        if e["ev"] is None or e["vev"] is None:
            raise Unparsed("case without both routines: %r" % (e,))
    # fall-through check: every case group must end in break or be last — the modelled semantics is
    # "first matching label, no fall-through"; verify textually that each assign pair is followed by break or '}'
    flat = re.sub(r"\s+", "", text)
    for mm in re.finditer(r"eval\.v_eval_ptr=&splinetable::[^;]+;", flat):
        rest = flat[mm.end():]
        if not (rest.startswith("break;") or rest.startswith("}")):
            raise Unparsed("case falls through into the next label")
    return cases, overrides

def coq_variant(v):
    if v[0] == "Generic":
        return "VGeneric"
    if v[0] == "D":
        return "(VD %d)" % v[1]
    if v[0] == "Fixed":
        return "(VFixed %d %d)" % (v[1], v[2])
    if v[0] == "Known":
        return "(VKnown [%s])" % "; ".join(str(x) for x in v[1])
    raise ValueError(v)

def cpp_variant_name(v, multibasis):
    mb = "multibasis_" if multibasis else ""
    if v[0] == "Generic":
        return "template ndsplineeval_%score<Float>" % mb
    if v[0] == "D":
        return "template ndsplineeval_%scoreD<Float,%d>" % (mb, v[1])
    if v[0] == "Fixed":
        return "template ndsplineeval_%scoreD_FixedOrder<Float,%d,%d>" % (mb, v[1], v[2])
    if v[0] == "Known":
        return "template ndsplineeval_%score_KnownOrder<Float,%s>" % (mb, ",".join(str(x) for x in v[1]))

def variant_label(v):
    if v[0] == "Generic":
        return "G"
    if v[0] == "D":
        return "D%d" % v[1]
    if v[0] == "Fixed":
        return "F%d_%d" % (v[1], v[2])
    if v[0] == "Known":
        return "K" + "_".join(str(x) for x in v[1])

def opt(n):
    return "None" if n is None else "(Some %d)" % n

# ------------------------------------------------------------------------------------------------
def parse_define(src, name):
    m = re.search(r"^\s*#\s*define\s+" + name + r"\s+(\d+)\s*$", src, flags=re.M)
    if not m:
        raise Unparsed("#define %s not found" % name)
    return int(m.group(1))

# ------------------------------------------------------------------------------------------------
def generate():
    out = []
    out.append("(* Generated.v — WRITTEN BY tools/translate_tables.py FROM /repo ON EVERY RUN. DO NOT EDIT. *)")
    out.append("From Coq Require Import ZArith List String.")
    out.append("Import ListNotations.")
    out.append("")
    out.append("Inductive variant := VGeneric | VD (D : nat) | VFixed (D O : nat) | VKnown (Os : list nat).")
    out.append("(* a case of switch(constOrder){ switch(ndim){ ... } }: (only without PHOTOSPLINE_NO_EVAL_TEMPLATES,")
    out.append("   constOrder label (None = default), ndim label (None = default), eval_ptr routine, v_eval_ptr routine) *)")
    out.append("Record dcase := mkCase { dc_templ : bool; dc_corder : option nat; dc_ndim : option nat; dc_ev : variant; dc_vev : variant }.")
    out.append("Record dknown := mkKnown { dk_templ : bool; dk_orders : list nat; dk_ev : variant; dk_vev : variant }.")
    ev_h = strip_comments(open(os.path.join(REPO, "include/photospline/detail/bspline_eval.h")).read())
    body = function_body(ev_h, r"splinetable<Alloc>::get_evaluator\s*\(\s*\)\s*const")
    cases, overrides = parse_dispatch(body)
    out.append("Definition dispatch_cases : list dcase := [")
    out.append(";\n".join("  mkCase %s %s %s %s %s" % ("true" if c["templ"] else "false", opt(c["corder"]), opt(c["ndim"]),
                                                       coq_variant(c["ev"]), coq_variant(c["vev"])) for c in cases))
    out.append("].")
    out.append("Definition dispatch_known : list dknown := [")
    out.append(";\n".join("  mkKnown %s [%s] %s %s" % ("true" if o["templ"] else "false", "; ".join(map(str, o["orders"])),
                                                       coq_variant(o["ev"]), coq_variant(o["vev"])) for o in overrides))
    out.append("].")
    simd = open(os.path.join(REPO, "include/photospline/detail/simd.h")).read()
    out.append("Definition MAXDIM : nat := %d." % parse_define(simd, "PHOTOSPLINE_MAXDIM"))
    out.append("Definition VECTOR_SIZE : nat := %d." % parse_define(simd, "PHOTOSPLINE_VECTOR_SIZE"))
    # harness include: every routine named in the table, for function-pointer identification
    variants = []
    for e in cases + overrides:
        for v in (e["ev"], e["vev"]):
            if v not in variants:
                variants.append(v)
    inc = ["// generated by tools/translate_tables.py — routines named in get_evaluator's dispatch"]
    for v in variants:
        inc.append('if(ev.eval_ptr==(&ST::%s)) a="%s"; if(ev.v_eval_ptr==(&ST::%s)) b="%s";' % (cpp_variant_name(v, False), variant_label(v), cpp_variant_name(v, True), variant_label(v)))
    extra = EXTRA_GENERATORS
    for g in extra:
        g(out)
    return "\n".join(out) + "\n", "\n".join(inc) + "\n"

EXTRA_GENERATORS = []

def write_if_changed(path, content):
    try:
        if open(path).read() == content:
            return False
    except FileNotFoundError:
        pass
    os.makedirs(os.path.dirname(path), exist_ok=True)
    with open(path, "w") as f:
        f.write(content)
    return True

def main():
    here = os.path.dirname(os.path.abspath(__file__))
    root = os.path.dirname(here)
    try:
        import translate_extra  # noqa: F401  (registers further generators)
    except ImportError:
        pass
    try:
        v, inc = generate()
    except Unparsed as e:
        print("TRANSLATOR-UNPARSED: %s" % e)
        sys.exit(3)
    ch = write_if_changed(os.path.join(root, "coq/theories/Generated.v"), v)
    write_if_changed(os.path.join(root, "harness/generated_variants.inc"), inc)
    print("Generated.v %s" % ("rewritten" if ch else "unchanged"))

if __name__ == "__main__":
    sys.path.insert(0, os.path.dirname(os.path.abspath(__file__)))
    main()
