#!/usr/bin/env python3
"""writes MANIFEST.json from the table below (kept in one place so it stays valid)"""
import json, os
V = os.path.dirname(os.path.dirname(os.path.abspath(__file__)))

CHECKS = {}
NOT_APPLICABLE = {}
def check(pid, text, note, technique, design_ref):
    CHECKS[pid] = dict(text=text, note=note, technique=technique, design_ref=design_ref)

exec(open(os.path.join(V, "tools", "manifest_entries.py")).read())
for _f in sorted(os.listdir(os.path.join(V, "tools", "manifest.d"))):
    if _f.endswith(".py"):
        exec(open(os.path.join(V, "tools", "manifest.d", _f)).read())

props = [json.loads(l)["id"] for l in open(os.path.join(V, "properties.jsonl"))]
m = {
 "version": 1,
 "setup_cmd": "sh tools/setup.sh",
 "hooks": {"guard": "PHOTOSPLINE_VERIF", "enable": "harness TUs and the repository sources they compile are built with -DPHOTOSPLINE_VERIF by tools/common.py:build_harness",
           "baseline_off_cmd": "sh tools/baseline_off.sh", "source_commits": HOOK_COMMITS, "add_only": True},
 "engines": [{"name": "coq-model-proof+correspondence", "path": "tools/run.py", "serves_properties": sorted(CHECKS),
              "kind_free_text": "Coq 8.16 theorems about hand-written Gallina models (coq/theories), models extracted to OCaml and run against /repo's code rebuilt from the working tree on every run; tables translated into Generated.v"}],
 "checks": [], "not_applicable": [], "notes": NOTES,
}
for pid in props:
    if pid in CHECKS:
        c = CHECKS[pid]
        m["checks"].append({"property_id": pid, "quick_cmd": "./check %s quick" % pid, "thorough_cmd": "./check %s thorough" % pid,
            "evidence_file": "evidence/%s.json" % pid, "replay_cmd_template": "./check %s --replay {path}" % pid, "engine": "coq-model-proof+correspondence",
            "level_claimed": {"category": "proof", "text": c["text"], "design_ref": c["design_ref"]}, "level_note": c["note"], "technique": c["technique"]})
    else:
        m["not_applicable"].append({"property_id": pid, "reason": NOT_APPLICABLE.get(pid, "not yet claimed: model and proof for this property are still being built (see DESIGN.md §10 order of work)")})
json.dump(m, open(os.path.join(V, "MANIFEST.json"), "w"), indent=1)
print("MANIFEST.json: %d checks, %d not_applicable" % (len(m["checks"]), len(m["not_applicable"])))
