HOOK_COMMITS = ["3ac02a7"]
NOTES = ("Every check: translator -> coqc (Properties_<id>.v, Print Assumptions, grep gate) -> harness rebuilt from /repo's working tree "
         "-> model (extracted OCaml) vs implementation -> property oracle -> known_findings.json protocol. See DESIGN.md.")
# per-property entries live in tools/manifest.d/<id>.py (one check(...) call each)
