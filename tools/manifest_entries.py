HOOK_COMMITS = []
NOTES = ("Every check: translator -> coqc (Properties_<id>.v, Print Assumptions, grep gate) -> harness rebuilt from /repo's working tree "
         "-> model (extracted OCaml) vs implementation -> property oracle -> known_findings.json protocol. See DESIGN.md.")

check("C04",
  "Kernel-checked theorems (Properties_C04.v: terminates, accepts_iff, rejects_iff, post, call_operator) about EvalModel.searchcenters for every "
  "well-formed table, every dimension count and every non-NaN coordinate vector, over any arithmetic whose comparison is a total preorder (so +-inf, "
  "signed zeros and denormals are covered). The model is compared exactly (success flag, centers, call-operator result) with the C++ member function, "
  "the evaluator object and the C wrapper on generated tables/points aimed at the proof's case splits; the property's statement is also evaluated "
  "directly on the implementation's output.",
  "Trusted: Coq kernel; IEEE comparison is a total preorder on non-NaN doubles (assumed); unbounded integers in the model; the differential tie "
  "(generator reach) between model and C++; extraction + OCaml floats for running the model.",
  "Coq proof of binary-search invariant over an abstract total preorder + exact differential correspondence", "§4 C04")

check("C03",
  "Kernel-checked theorems for EVERY arithmetic (no float laws): the generic, per-dimension, constant-order and known-mixed-order routines (scalar and multi-basis) "
  "compute the same term whenever the specialised routine is applicable (C03_cores_agree); the dispatch table TRANSLATED from get_evaluator on every run only ever selects "
  "applicable routines and always selects one (C03_dispatch_table_sound/_total by vm_compute over the finite table, lifted by C03_dispatch_sound/_total); hence the evaluator "
  "object equals the member functions (C03_evaluator_eq_member); gradient lane 0 is the plain value and lane j+1 the bitmask derivative 2^j (C03_value_lane); "
  "bspline_nonzero = (bsplvb_simple, bspline_deriv_nonzero). Tie: two harness builds (with/without PHOTOSPLINE_NO_EVAL_TEMPLATES) compare every path bitwise with the "
  "model of the routine actually selected (function-pointer identity vs the model's selection), and the property itself (all paths bit-identical) is evaluated on the implementation.",
  "Trusted: Coq kernel; translator's reading of the switch (fails closed, cross-checked at run time by pointer identity); SIMD lanes modelled as independent scalar lanes; "
  "differential tie; C wrappers compared, not modelled separately.",
  "Coq structural proof (any arithmetic) + translated dispatch table obligations + bitwise differential correspondence", "§4 C03")
