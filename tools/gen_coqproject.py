#!/usr/bin/env python3
"""writes coq/_CoqProject from the .v files present in coq/theories (coqdep orders them); regenerates the
Makefile when the list changed. Generated*.v are produced by the translators before this runs."""
import os, subprocess, sys
V = os.path.dirname(os.path.dirname(os.path.abspath(__file__)))
C = os.path.join(V, "coq")
files = sorted(f for f in os.listdir(os.path.join(C, "theories")) if f.endswith(".v") and not f.startswith("."))
txt = "-Q theories PS\n" + "".join("theories/%s\n" % f for f in files)
p = os.path.join(C, "_CoqProject")
old = open(p).read() if os.path.exists(p) else ""
if old != txt or not os.path.exists(os.path.join(C, "Makefile")):
    open(p, "w").write(txt)
    subprocess.run(["coq_makefile", "-f", "_CoqProject", "-o", "Makefile"], cwd=C, check=True, stdout=subprocess.DEVNULL)
    print("_CoqProject regenerated (%d files)" % len(files))
