#!/usr/bin/env python3
"""run.py — single entry point of every registered check:  ./check <id> quick|thorough [--replay file]

Per run (DESIGN §9): translator -> coqc of Properties_<id> (proof obligations, Print Assumptions, grep gate)
-> harness built from /repo's working tree -> correspondence model vs implementation -> on any break the
property oracle searches for a concrete failing input -> known-findings protocol -> evidence."""
import importlib, os, sys, time, traceback, json
sys.path.insert(0, os.path.dirname(os.path.abspath(__file__)))
sys.path.insert(0, os.path.join(os.path.dirname(os.path.abspath(__file__)), "props"))
from common import *

def main():
    args = sys.argv[1:]
    if not args:
        print("usage: check <id> [quick|thorough] [--replay file]"); sys.exit(2)
    prop = args[0]
    tier = os.environ.get("VERIF_TIER") or "quick"
    replay = None
    i = 1
    while i < len(args):
        if args[i] in ("quick", "thorough"):
            tier = args[i]
        elif args[i] == "--replay":
            replay = args[i + 1]; i += 1
        i += 1
    seed = seed_from_env()
    t0 = time.time()
    mod = importlib.import_module(prop)
    out = Outcome(prop)
    cov = {"checker_cmd": "make -C coq theories/%s.vo (coqc 8.16.1, full .vo build) + coqc theories/%s.v for Print Assumptions" % (mod.PROPERTIES_FILE, mod.PROPERTIES_FILE),
           "trusted_base": list(TRUSTED_BASE) + list(getattr(mod, "TRUSTED_EXTRA", []))}
    proof_ok = True
    broken = []
    # 1. translator (tables -> Generated.v)
    tstatus, msg = run_translator()
    cov["translator"] = msg
    # only the translators this property's theorems depend on (through Generated*.v) are its obligations
    mine = translators_for(mod.PROPERTIES_FILE)
    if mine is None:
        mine = list(tstatus)
    mine = sorted(set(mine) | set(getattr(mod, "TRANSLATORS", [])))
    cov["translators_of_this_property"] = mine
    failed = [t for t in mine if tstatus.get(t, 0) != 0]
    if failed:
        proof_ok = False
        broken.append("translator failed closed: " + ", ".join(failed) + " :: " + msg)
    # 2. proof obligations
    ok, log = coq_build([mod.PROPERTIES_FILE] + list(getattr(mod, "EXTRA_COQ_TARGETS", [])))
    if not ok:
        proof_ok = False
        errs = [l for l in log.split("\n") if "Error" in l or l.startswith("File ")]
        broken.append("coq build of %s failed: %s" % (mod.PROPERTIES_FILE, " | ".join(errs[:6])))
    thms, assumptions = [], {}
    if ok:
        ok2, thms, assumptions, plog = properties_report(mod.PROPERTIES_FILE)
        if not ok2:
            proof_ok = False
            broken.append("coqc %s failed" % mod.PROPERTIES_FILE)
    gate = grep_gate()
    if gate:
        proof_ok = False
        broken.append("grep gate: " + "; ".join(gate[:5]))
    cov["obligations"] = max(1, len(thms)) if thms else 1
    cov["discharged"] = len(thms) if proof_ok else 0
    cov["theorems"] = thms
    cov["print_assumptions"] = assumptions
    cov["grep_gate"] = "clean" if not gate else gate
    # 3./4. correspondence + oracle
    info = {"tier": tier, "seed": seed, "proof_ok": proof_ok, "broken": broken, "replay": replay}
    try:
        c2 = mod.run(info, out)
        cov.update(c2 or {})
    except BuildError as e:
        # the harness no longer builds against the tree: the tie cannot be established
        out.violation("harness-build", "harness does not build against the current tree", {"broken": "harness build", "detail": str(e)[-3000:], "no_failing_input_found": True})
        cov.setdefault("evaluations", 0)
    fresh_found = [v for v in out.violations if v[0] not in open_signatures(prop)]
    if not proof_ok and not fresh_found:
        # a reproduced KNOWN finding is not the failing input of a newly broken obligation
        out.violation("proof-broken", "proof obligation no longer checks and no failing input was found",
                      {"broken": broken, "no_failing_input_found": True})
    elif not proof_ok:
        out.notes.append("proof obligations broken: " + "; ".join(broken))
    rc, nfresh, nknown = out.finish()
    cov["notes"] = out.notes
    cov["known_findings_reproduced"] = nknown
    wall = time.time() - t0
    if replay is None:
        write_evidence(prop, tier, seed, cov, list(getattr(mod, "ASSUMPTIONS", [])), wall, nfresh)
    else:
        print("(replay of one case: the evidence file of the registered check is left as it is)")
    print("%s %s seed=%d: %s in %.1fs (theorems %d/%d, evaluations %s)" % (prop, tier, seed, "OK" if rc == 0 else "VIOLATION", wall,
          cov["discharged"], cov["obligations"], cov.get("evaluations")))
    sys.exit(rc)

if __name__ == "__main__":
    main()
