"""C13 — fit rejects inconsistent arguments instead of corrupting memory.

Correspondence: the extracted model (FitArgsModel.fit_check = the translated check sequence of fit.h run in source
order; fit_step; glamfit_c) against the REAL splinetable::fit and splinetable_glamfit in the *checked* build
(ASan+UBSan), on the lattice of argument shapes. Model Reject <=> std::logic_error of the same check (first error
in source order, same dimension) / non-zero return, with the object identical to its dump before the call; model
Accept => the fit completes (or the solver reports failure) with no sanitizer report. A sanitizer report, crash or
hang is attributed to the case that was running and is the concrete failing input.
Oracle: the property's own list of inconsistencies, evaluated in Python on the shape, against the implementation's
outcome (independent of the Coq model)."""
import os, sys, json, re, subprocess, hashlib, time
from concurrent.futures import ThreadPoolExecutor
from common import *
import common as _common

PROPERTIES_FILE = "Properties_C13"
ASSUMPTIONS = [
    "fit_contract (the precondition of everything fit() does below its sanity block) is derived by hand from fit.h, glam.c, splineutil.c access by access; "
    "its adequacy is tested (accepted shapes run without a sanitizer report), not proved about the C/C++",
    "the ndsparse data object is internally consistent (i[d] and x hold `rows` entries, ranges/i hold `ndim` entries); the C caller's arrays hold the lengths the C interface implies",
    "CHOLMOD/solver outcome abstracted by the boolean solver_ok; sizes unbounded (N) except the uint64 wrap of nknots-order-1 which is modelled; stack depth for huge orders is not modelled",
    "check sequence translated from fit.h by tools/translators/fitargs.py (fails closed); each recognised condition text is given its meaning by FitArgs.g_fires/d_fires (trusted reading)",
]
TRUSTED_EXTRA = ["tools/translators/fitargs.py (sanity block of fit.h -> Generated_fitargs.fit_checks_src; divided_diffs VLA placement)",
                 "harness/C13_harness.cpp (builds exact-length heap arguments from a shape), extract/fitargs_driver.ml, AddressSanitizer/UBSan of g++ 12"]

HUGE = 4000000000
MSG = [
    (r"Input data has dimension 0", "GNdimZero", False),
    (r"Input data has no entries", "GRowsZero", False),
    (r"Number of weights ", "GWeights", False),
    (r"Range of coordinate indices \(\d+\) in dimension (\d+)", "DMaxIdx", True),
    (r"Number of coordinate vectors ", "GNCoords", False),
    (r"Coordinate vector for dimension (\d+) has fewer", "DCoordLen", True),
    (r"Number of spline orders ", "GNOrders", False),
    (r"Number of knot vectors ", "GNKnotVecs", False),
    (r"Knot vector for dimension (\d+) has too few", "DKnotCount", True),
    (r"Knot vector for dimension (\d+) is not in sorted order", "DUnsorted", True),
    (r"Number of smoothing strengths ", "GNSmooth", False),
    (r"Number of penalty orders ", "GNPenalty", False),
    (r"Penalty order \(\d+\) in dimension (\d+)", "DPenaltyOrder", True),
    (r"Requested monotonic dimension ", "GMonodim", False),
]
def classify_msg(m):
    for rx, name, hasdim in MSG:
        mm = re.match(rx, m)
        if mm:
            return name + (":" + mm.group(1) if hasdim else "")
    return "?" + m[:40]

# ------------------------------------------------------------------------------------------------
# shapes
def base_shape(nd, variant=0):
    """a valid, well-posed tiny fit: <= 6 splines and <= 8 abscissae per dimension"""
    orders = [[2, 1, 3], [1, 2, 0], [3, 2, 1]][variant % 3][:nd]
    nspl = [[5, 4, 4], [4, 5, 3], [4, 3, 4]][variant % 3][:nd]
    rg = [[8, 6, 5], [6, 7, 4], [7, 5, 6]][variant % 3][:nd]
    if nd == 3:
        rg = [min(r, 5) for r in rg]
    rows = 1
    for r in rg:
        rows *= r
    return {"pop": 0, "rows": rows, "rg": list(rg), "mx": [r - 1 for r in rg], "nw": rows, "cl": list(rg), "od": list(orders),
            "kl": [o + 1 + n for o, n in zip(orders, nspl)], "ks": [1] * nd, "sm": [1] if variant % 2 == 0 else [1] * nd,
            "po": [1] if variant % 2 == 0 else [min(o, 2) for o in orders], "mono": -1}

def fmt(l):
    return ",".join(str(x) for x in l) if l else "-"
def shape_line(cid, entry, s):
    # cp / kz: where the coordinate and knot VALUES lie (harness/C13_harness.cpp); the argument checks and the model look at lengths,
    # order and sortedness only, so these are extra keys the model driver does not read
    return "%s %s pop=%d rows=%d rg=%s mx=%s nw=%d cl=%s od=%s kl=%s ks=%s sm=%s po=%s mono=%d%s%s" % (
        cid, entry, s["pop"], s["rows"], fmt(s["rg"]), fmt(s["mx"]), s["nw"], fmt(s["cl"]), fmt(s["od"]), fmt(s["kl"]), fmt(s["ks"]),
        fmt(s["sm"]), fmt(s["po"]), s["mono"], (" cp=" + fmt(s["cp"])) if s.get("cp") else "", (" kz=" + fmt(s["kz"])) if s.get("kz") else "")
def shape_key(entry, s):
    return shape_line("", entry, s)

def clone(s):
    return {k: (list(v) if isinstance(v, list) else v) for k, v in s.items()}

def mutations(nd):
    """(name, function) — each makes ONE argument invalid/boundary; functions mutate a clone in place"""
    M = []
    def add(name, f):
        M.append((name, f))
    add("nw-1", lambda s: s.__setitem__("nw", s["rows"] - 1))
    add("nw+1", lambda s: s.__setitem__("nw", s["rows"] + 1))
    add("nw=0", lambda s: s.__setitem__("nw", 0))
    add("ncoords-1", lambda s: s.__setitem__("cl", s["cl"][:-1]))
    add("ncoords+1", lambda s: s.__setitem__("cl", s["cl"] + [8]))
    add("ncoords=0", lambda s: s.__setitem__("cl", []))
    add("norders-1", lambda s: s.__setitem__("od", s["od"][:-1]))
    add("norders+1", lambda s: s.__setitem__("od", s["od"] + [2]))
    def kn(s, f):
        s["kl"], s["ks"] = f(s["kl"], 8), f(s["ks"], 1)
    add("nknots-1", lambda s: kn(s, lambda l, x: l[:-1]))
    add("nknots+1", lambda s: kn(s, lambda l, x: l + [x]))
    for n in sorted(set([0, 1, 2, nd, nd + 1])):
        add("nsmooth=%d" % n, lambda s, n=n: s.__setitem__("sm", [1] * n))
        add("nsmooth0=%d" % n, lambda s, n=n: s.__setitem__("sm", [0] * n))
        add("npenalty=%d" % n, lambda s, n=n: s.__setitem__("po", [1] * n))
    for d in range(nd):
        add("mx=rg@%d" % d, lambda s, d=d: s["mx"].__setitem__(d, s["rg"][d]))
        add("mx=rg+3@%d" % d, lambda s, d=d: s["mx"].__setitem__(d, s["rg"][d] + 3))
        # slack between the largest index used and the declared range (ranges taken from a grid shape): the coordinate
        # vector must still cover the declared range, not just the indices used
        add("mx=rg-3@%d" % d, lambda s, d=d: s["mx"].__setitem__(d, max(0, s["rg"][d] - 3)))
        add("cl=mx+1@%d" % d, lambda s, d=d: d < len(s["cl"]) and s["cl"].__setitem__(d, s["mx"][d] + 1))
        add("cl=mx+2@%d" % d, lambda s, d=d: d < len(s["cl"]) and s["cl"].__setitem__(d, s["mx"][d] + 2))
        add("cl-1@%d" % d, lambda s, d=d: d < len(s["cl"]) and s["cl"].__setitem__(d, s["rg"][d] - 1))
        add("cl+1@%d" % d, lambda s, d=d: d < len(s["cl"]) and s["cl"].__setitem__(d, s["rg"][d] + 1))
        add("cl=0@%d" % d, lambda s, d=d: d < len(s["cl"]) and s["cl"].__setitem__(d, 0))
        add("unsorted@%d" % d, lambda s, d=d: d < len(s["ks"]) and s["kl"][d] >= 2 and s["ks"].__setitem__(d, 0))
        add("kl=o+1@%d" % d, lambda s, d=d: d < len(s["kl"]) and d < len(s["od"]) and s["kl"].__setitem__(d, s["od"][d] + 1))
        add("kl=o@%d" % d, lambda s, d=d: d < len(s["kl"]) and d < len(s["od"]) and s["kl"].__setitem__(d, s["od"][d]))
        add("kl=o+2@%d" % d, lambda s, d=d: d < len(s["kl"]) and d < len(s["od"]) and s["kl"].__setitem__(d, s["od"][d] + 2))
        add("kl=0@%d" % d, lambda s, d=d: d < len(s["kl"]) and s["kl"].__setitem__(d, 0))
        add("order=0@%d" % d, lambda s, d=d: d < len(s["od"]) and s["od"].__setitem__(d, 0))
        add("order=huge@%d" % d, lambda s, d=d: d < len(s["od"]) and s["od"].__setitem__(d, HUGE))
        add("order=40@%d" % d, lambda s, d=d: d < len(s["od"]) and s["od"].__setitem__(d, 40))
        def po(s, d, delta, nz):
            # per-dimension penalty/smoothing entries so that dimension d is addressed
            if len(s["po"]) not in (1, len(s["rg"])) or len(s["sm"]) not in (1, len(s["rg"])) or d >= len(s["od"]):
                return
            n = len(s["rg"])
            if len(s["po"]) == 1 and n > 1:
                s["po"] = [min(s["po"][0], o) for o in s["od"]] if len(s["od"]) == n else s["po"] * n
            if len(s["sm"]) == 1 and n > 1:
                s["sm"] = s["sm"] * n
            if d < len(s["po"]):
                s["po"][d] = min(s["od"][d] + delta, 2 ** 32 - 1)
            if d < len(s["sm"]):
                s["sm"][d] = nz
        for delta in (0, 1, 2, 3):
            add("po=o+%d@%d" % (delta, d), lambda s, d=d, delta=delta: po(s, d, delta, 1))
        add("po=o+1,s=0@%d" % d, lambda s, d=d: po(s, d, 1, 0))
        add("po=huge@%d" % d, lambda s, d=d: po(s, d, HUGE, 1))
        def pns(s, d):
            # penalty order <= order but > number of splines
            if d < len(s["od"]) and d < len(s["kl"]) and s["od"][d] >= 2:
                s["kl"][d] = s["od"][d] + 2      # one spline
                po(s, d, 0, 1)
        add("po>nsplines@%d" % d, lambda s, d=d: pns(s, d))
    # values of a VALID call: every abscissa of one axis outside the knot range / on an end knot / equal, a single-abscissa axis,
    # zero-width and clamped knot vectors (the basis of that axis has all-zero rows or one column)
    def place(s, key, d, v):
        n = len(s["rg"])
        if d < n:
            cur = list(s.get(key) or [0] * n) + [0] * n
            cur = cur[:n]; cur[d] = v; s[key] = cur
    def single(s, d, v):
        if d < len(s["rg"]) and d < len(s["cl"]) and len(s["mx"]) == len(s["rg"]):
            s["rg"][d] = 1; s["mx"][d] = 0; s["cl"][d] = 1
            rows = 1
            for m in s["mx"]:
                rows *= m + 1
            s["rows"] = rows; s["nw"] = rows
            place(s, "cp", d, v)
    for d in range(nd):
        for v in (1, 2, 3, 4, 5, 6):
            add("cp=%d@%d" % (v, d), lambda s, d=d, v=v: place(s, "cp", d, v))
        for v in (1, 2):
            add("kz=%d@%d" % (v, d), lambda s, d=d, v=v: place(s, "kz", d, v))
        for v in (0, 1, 3):
            add("one-abscissa,cp=%d@%d" % (v, d), lambda s, d=d, v=v: single(s, d, v))
    add("mono=0", lambda s: s.__setitem__("mono", 0))
    add("mono=nd-1", lambda s: s.__setitem__("mono", len(s["rg"]) - 1))
    add("mono=nd", lambda s: s.__setitem__("mono", len(s["rg"])))
    add("mono=huge", lambda s: s.__setitem__("mono", HUGE))
    def rows0(s):
        s["rows"] = 0; s["nw"] = 0; s["mx"] = [0] * len(s["rg"])
    add("rows=0", rows0)
    add("rows=1", lambda s: (s.__setitem__("rows", 1), s.__setitem__("nw", 1)))
    add("populated", lambda s: s.__setitem__("pop", 1))
    def ndim0(s):
        for k in ("rg", "mx", "cl", "od", "kl", "ks"):
            s[k] = []
    add("ndim=0", ndim0)
    return M

def lattice_1d():
    """full cross product in one dimension over the per-dimension arguments"""
    out = []
    for o in (0, 1, 2, 3, 40, HUGE):
        kls = sorted(set([0, 1, o, o + 1, o + 2, o + 3, o + 5])) if o < 40 else [0, 1, 8]
        pos = list(range(0, o + 4)) if o < 40 else [0, 2, o, o + 1]
        for kl in kls:
            for p in pos:
                for nz in (0, 1):
                    for mono in (-1, 0, 1):
                        for cld in (-1, 0, 1):
                            for srt in ((1, 0) if kl >= 2 else (1,)):
                                r = 6
                                s = {"pop": 0, "rows": r, "rg": [r], "mx": [r - 1], "nw": r, "cl": [r + cld], "od": [o], "kl": [kl], "ks": [srt],
                                     "sm": [nz], "po": [p], "mono": mono}
                                out.append(("1d", s))
                                if mono == -1 and nz == 1:
                                    # largest used index 3 of a declared range 6: coordinate lengths between the two
                                    for cl in ((4, 5) if cld == 0 else (r + cld,)):
                                        s2 = clone(s); s2["mx"] = [3]; s2["cl"] = [cl]
                                        out.append(("1d", s2))
    return out

def apply_mut(f, s):
    try:
        f(s)
    except IndexError:
        pass          # the argument this mutation addresses no longer exists (e.g. after ndim=0)

def lattice_mut(nd, pairs=True):
    out = []
    M = mutations(nd)
    for variant in range(3):
        b = base_shape(nd, variant)
        out.append(("base", clone(b)))
        for n1, f1 in M:
            s = clone(b); apply_mut(f1, s)
            out.append(("single:" + n1.split("@")[0], s))
        if pairs and variant < 2:
            for i, (n1, f1) in enumerate(M):
                for j, (n2, f2) in enumerate(M):
                    if i != j:
                        s = clone(b); apply_mut(f1, s); apply_mut(f2, s)
                        out.append(("pair", s))
    return out

def c_compatible(s):
    """the C wrapper implies the container counts: return the shape as the C caller would pass it, or None"""
    nd = len(s["rg"])
    if s["nw"] != s["rows"] or s["cl"] != s["rg"] or len(s["od"]) != nd or len(s["kl"]) != nd:
        return None
    c = clone(s)
    for k in ("sm", "po"):
        if len(c[k]) == 1:
            c[k] = c[k] * nd
        elif len(c[k]) != nd:
            return None
    if nd == 0:
        return None
    return c

def feasible(s):
    """the harness allocates every container with exactly the stated length: keep them tiny; values fit uint32"""
    # bspline() in splineutil.c recurses 2^order deep-and-wide: an order above ~8 with enough knots does not terminate in practice
    if any(o > 8 and k >= o + 2 for o, k in zip(s["od"], s["kl"])):
        return False
    return (all(0 <= x <= 64 for x in s["kl"] + s["cl"]) and 0 <= s["nw"] <= 4096 and 0 <= s["rows"] <= 4096 and
            all(0 <= x < 2 ** 32 for x in s["od"] + s["po"] + s["rg"] + s["mx"]) and all(x <= 64 for x in s["rg"]))

def realisable(s):
    """a vector of fewer than two knots is always sorted"""
    s["ks"] = [1 if k < 2 else f for k, f in zip(s["kl"], s["ks"])]
    return s

def build_cases(tier, rng):
    full = [(c, realisable(s)) for c, s in lattice_1d() + lattice_mut(1) + lattice_mut(2) + lattice_mut(3) if feasible(s)]
    seen, cases = set(), []
    def push(cls, entry, s):
        k = shape_key(entry, s)
        if k in seen:
            return
        seen.add(k)
        cases.append({"cls": cls, "entry": entry, "shape": s})
    strata = {}
    for cls, s in full:
        strata.setdefault(cls.split(":")[0], []).append((cls, s))
    if tier == "thorough":
        chosen = full
    else:
        chosen = list(strata.get("base", [])) + list(strata.get("single", []))
        for name, quota in (("1d", 550), ("pair", 450)):
            pool = list(strata.get(name, []))
            rng.shuffle(pool)
            chosen += pool[:quota]
    for cls, s in chosen:
        push(cls, "cpp", s)
        c = c_compatible(s)
        if c is not None and (tier == "thorough" or cls.startswith(("base", "single")) or rng.chance(0.5)):
            push(cls, "c", c)
    b = base_shape(2, 0)
    for e in ("c_nulltable", "c_nodata", "c_nulldata"):
        push("cnull", e, c_compatible(b))
        bad = clone(c_compatible(b)); bad["od"][0] = 0; bad["pop"] = 0
        push("cnull", e, bad)
    for i, c in enumerate(cases):
        c["id"] = "k%d" % i
    return cases

# ------------------------------------------------------------------------------------------------
# the property's own statement, on the shape (independent of the Coq model)
def listed_inconsistencies(entry, s):
    nd = len(s["rg"])
    bad = []
    if s["nw"] != s["rows"]: bad.append("weights-count")
    if len(s["cl"]) != nd: bad.append("coords-count")
    if len(s["od"]) != nd: bad.append("orders-count")
    if len(s["kl"]) != nd: bad.append("knotvecs-count")
    if len(s["sm"]) not in (1, nd): bad.append("smoothing-count")
    if len(s["po"]) not in (1, nd): bad.append("penalty-count")
    if s["rows"] >= 1:
        for d in range(nd):
            if s["mx"][d] >= s["rg"][d]: bad.append("index-out-of-range")
            if d < len(s["cl"]) and s["mx"][d] >= s["cl"][d]: bad.append("index-beyond-coords")
    for d in range(min(nd, len(s["kl"]))):
        if not s["ks"][d]: bad.append("unsorted-knots")
        if d < len(s["od"]) and s["kl"][d] < s["od"][d] + 2: bad.append("too-few-knots")
    if s["mono"] >= 0 and s["mono"] >= nd: bad.append("monodim")
    return sorted(set(bad))

# ------------------------------------------------------------------------------------------------
def parse_kv(line):
    t = line.split(" ", 2)
    d = {"id": t[1]}
    rest = t[2] if len(t) > 2 else ""
    if " msg=" in rest:
        rest, msg = rest.split(" msg=", 1)
        d["msg"] = msg
    for tok in rest.split():
        k, _, v = tok.partition("=")
        d[k] = v
    return d

def san_signature(text):
    m = re.search(r"SUMMARY: AddressSanitizer: (\S+) .*? in (\S+)", text)
    if m:
        fn = re.sub(r"[<(].*", "", m.group(2)).split("::")[-1]
        return "%s@%s" % (m.group(1), fn)
    m = re.search(r"SUMMARY: AddressSanitizer: (\S+)", text)
    if m:
        return m.group(1)
    m = re.search(r"([\w.]+):\d+:\d+: runtime error: ([a-z -]+)", text)
    if m:
        return "ubsan:%s:%s" % (m.group(1), "-".join(m.group(2).split()[:4]))
    if "Assertion" in text:
        return "assert"
    if "TIMEOUT" in text:
        return "hang"
    return "crash"

def watchdog_run(cmd, env, stall):
    """run cmd; kill it when it announces no new case ("@id" on stderr) for `stall` seconds. returns (stdout, stderr, rc)"""
    import threading
    p = subprocess.Popen(cmd, stdout=subprocess.PIPE, stderr=subprocess.PIPE, text=True, env=env, errors="replace")
    so, se, last = [], [], [time.time()]
    def rd_out():
        for l in p.stdout:
            so.append(l)
    def rd_err():
        for l in p.stderr:
            se.append(l)
            if l.startswith("@"):
                last[0] = time.time()
    t1, t2 = threading.Thread(target=rd_out, daemon=True), threading.Thread(target=rd_err, daemon=True)
    t1.start(); t2.start()
    timed_out = False
    while p.poll() is None:
        time.sleep(0.1)
        if time.time() - last[0] > stall:
            p.kill(); timed_out = True
            break
    p.wait(); t1.join(5); t2.join(5)
    return "".join(so), "".join(se) + ("\nTIMEOUT" if timed_out else ""), (-9 if timed_out else p.returncode)

def run_chunk(exe, lines, tag, stall=45):
    """run the harness over `lines`, restarting after each crash. returns ({id: result dict}, {id: crash text}, {id: stderr msgs})"""
    d = build_dir("C13-cases")
    path = os.path.join(d, "chunk_%s.txt" % tag)
    with open(path, "w") as f:
        f.write("\n".join(lines) + "\n")
    res, crashes, msgs = {}, {}, {}
    skip = 0
    env = dict(os.environ)
    env["ASAN_OPTIONS"] = "detect_leaks=0:allocator_may_return_null=1"
    env["UBSAN_OPTIONS"] = "print_stacktrace=1"
    env["OPENBLAS_NUM_THREADS"] = "1"
    env["OMP_NUM_THREADS"] = "1"
    while skip < len(lines):
        so, se, rc = watchdog_run([exe, path, str(skip)], env, stall)
        for l in so.split("\n"):
            if l.startswith("R "):
                r = parse_kv(l)
                res[r["id"]] = r
        cur, announced = None, []
        for l in se.split("\n"):
            if l.startswith("@"):
                cur = l[1:].strip(); announced.append(cur)
            elif cur is not None and l.strip():
                msgs.setdefault(cur, []).append(l)
        if rc == 0:
            break
        if not announced:
            crashes["<startup>"] = se[-3000:]
            break
        bad = announced[-1]
        if bad in res:           # crashed after the result line (destructor / cleanup of that case)
            res[bad]["after"] = "crash"
        crashes[bad] = "exit=%d\n%s" % (rc, "\n".join(msgs.get(bad, []))[-3500:])
        skip += len(announced)
    return res, crashes, msgs

BIGFIT_CORPUS = [  # (seed, n0, n1, n2, kind, smoothing, monodim): heap-use-after-free in recompute_factor before fix 10a35f6
    (1, 8, 7, 6, 1, "1e-2", 2),
]
def run_bigfits(out, tier, seed):
    """valid fits of a few hundred coefficients (plain and monotone, oscillating / decreasing / sparse data) under
    ASan+UBSan: the lattice above uses tiny fits, which never make the NNLS solver grow a column of its factor"""
    exe = _common.build_harness("C13_bigfit", ["C13_bigfit.cpp"], flavour="checked", fitter=True, repo_srcs=_common.CORE_CPP, tag="C13_bigfit")
    rng = Rng(seed).fork("C13-bigfit")
    cfgs = list(BIGFIT_CORPUS)
    for _ in range(10 if tier == "quick" else 60):
        cfgs.append((rng.rint(1, 10 ** 6), rng.rint(5, 9), rng.rint(4, 8), rng.rint(3, 7), rng.rint(0, 3), rng.choice(["0", "1e-4", "1e-2", "1"]), rng.choice([-1, 0, 1, 2, 2])))
    env = dict(os.environ); env.update({"ASAN_OPTIONS": "detect_leaks=0", "OMP_NUM_THREADS": "2"})
    from concurrent.futures import ThreadPoolExecutor
    def one(cfg):
        try:
            p = subprocess.run([exe] + [str(a) for a in cfg], stdout=subprocess.PIPE, stderr=subprocess.PIPE, text=True, timeout=600, env=env)
            return cfg, p.returncode, p.stdout, p.stderr
        except subprocess.TimeoutExpired:
            return cfg, -9, "", "timeout"
    bad = 0
    with ThreadPoolExecutor(max_workers=8) as ex:
        for cfg, rc, so, se in ex.map(one, cfgs):
            if rc == 0 and "ok ncoef" in so:
                continue
            bad += 1
            m = re.search(r"SUMMARY: \w+: ([\w-]+) \S*?([\w.]+):(\d+) in (\w+)", se)
            sig = "C13:cpp:sanitizer:%s@%s" % (m.group(1), m.group(4)) if m else ("C13:bigfit:hang" if rc == -9 else "C13:bigfit:failed")
            out.violation(sig, "a VALID fit (seed n0 n1 n2 kind smoothing monodim = %s) did not complete cleanly in the sanitizer build: %s" % (" ".join(map(str, cfg)), (se.strip().split("\n") or [""])[0][:200]),
                          {"bigfit": list(cfg), "stderr": se[-3000:], "replay_cmd": "harness C13_bigfit " + " ".join(map(str, cfg))})
    return {"bigfits_run": len(cfgs), "bigfits_failed": bad}

def run_impl(exe, cases):
    lines = [shape_line(c["id"], c["entry"], c["shape"]) for c in cases]
    nchunk = max(1, min(NCPU, len(lines) // 8 or 1))
    chunks = [lines[i::nchunk] for i in range(nchunk)]
    res, crashes, msgs = {}, {}, {}
    with ThreadPoolExecutor(max_workers=nchunk) as ex:
        for r, c, m in ex.map(lambda a: run_chunk(exe, a[1], "%d_%d" % (os.getpid(), a[0])), list(enumerate(chunks))):
            res.update(r); crashes.update(c); msgs.update(m)
    return res, crashes, msgs

def run_model(cases):
    try:
        drv = build_extracted("fitargs")
    except BuildError as e:
        return None, str(e)[-1500:]
    d = build_dir("C13-cases")
    path = os.path.join(d, "model_%d.txt" % os.getpid())
    with open(path, "w") as f:
        f.write("\n".join(shape_line(c["id"], c["entry"], c["shape"]) for c in cases) + "\n")
    p = _common.run([drv, path], timeout=900)
    if p.returncode != 0:
        return None, "model driver failed: " + p.stderr[-1500:]
    out = {}
    for l in p.stdout.split("\n"):
        if l.startswith("M "):
            r = parse_kv(l)
            out[r["id"]] = r
    return out, None

# ------------------------------------------------------------------------------------------------
def judge(case, m, r, crash, msgs):
    """returns list of (signature, what, kind) for this case. kind: 'oracle' | 'corr'"""
    entry, s = case["entry"], case["shape"]
    e = "cpp" if entry == "cpp" else "c"
    fails = []
    if crash is not None:
        fails.append(("C13:%s:sanitizer:%s" % (e, san_signature(crash)),
                      "sanitizer report / crash while fitting (model verdict %s)" % (m["check"] if m else "n/a"), "oracle"))
        return fails
    if r is None:
        fails.append(("C13:%s:no-result" % e, "harness produced no result line", "corr"))
        return fails
    if r.get("out") == "badcase":
        return fails
    # impl classification
    if e == "cpp":
        rejected = r["out"] == "logic"
        icls = classify_msg(r.get("msg", "")) if rejected else r["out"]
    else:
        rejected = r["ret"] != "0"
        mm = [l for l in msgs if not l.startswith("@")]
        icls = classify_msg(mm[0]) if (rejected and mm) else ("nonzero" if rejected else "done")
    # --- oracle: the property's list
    if entry in ("c_nulltable", "c_nodata", "c_nulldata"):
        if r["ret"] == "0" or r["same"] != "1":
            fails.append(("C13:c:null-argument-accepted", "splinetable_glamfit returned %s for %s" % (r["ret"], entry), "oracle"))
    else:
        bad = listed_inconsistencies(entry, s)
        if bad:
            if not rejected:
                fails.append(("C13:%s:accepted-inconsistent:%s" % (e, bad[0]), "inconsistent arguments (%s) were not reported: outcome %s" % (",".join(bad), r["out"]), "oracle"))
            elif r["same"] != "1":
                fails.append(("C13:%s:reject-changed-object:%s" % (e, bad[0]), "arguments rejected (%s) but the table differs from its previous dump" % icls, "oracle"))
        if e == "cpp" and r["out"] in ("badalloc", "exc", "unknown"):
            fails.append(("C13:cpp:unexpected-exception:%s" % r["out"], "fit threw %s %s" % (r["out"], r.get("msg", "")), "oracle"))
    # --- correspondence with the model
    if m is not None:
        mc = m["check"]
        if mc.startswith("reject:"):
            want = mc[len("reject:"):]
            if entry in ("c_nulltable", "c_nodata", "c_nulldata"):
                pass
            elif not rejected:
                fails.append(("C13:%s:model-mismatch:model-rejects-%s" % (e, want.split(":")[0]), "model rejects (%s) but the implementation %s" % (want, r["out"]), "corr"))
            else:
                if icls != want and not (e == "c" and icls == "nonzero"):
                    fails.append(("C13:%s:model-mismatch:first-error" % e, "model: first failing check %s; implementation reported %s" % (want, icls), "corr"))
                if r["same"] != "1":
                    fails.append(("C13:%s:model-mismatch:reject-changed-object" % e, "model: rejection leaves the object unchanged; dump differs", "corr"))
        elif mc == "accept":
            if entry in ("c_nulltable", "c_nodata", "c_nulldata"):
                if r["ret"] != m["ret"]:
                    fails.append(("C13:c:model-mismatch:null", "model return %s, implementation %s" % (m["ret"], r["ret"]), "corr"))
            elif m.get("out") in ("runtime", "nonzero") and s.get("pop"):
                # arguments accepted, but the target already holds data: fit_step throws std::runtime_error, table untouched
                ok_impl = (r["out"] == "runtime") if e == "cpp" else (r["ret"] != "0")
                if not ok_impl:
                    fails.append(("C13:%s:model-mismatch:populated-target" % e, "model: a populated target is refused (runtime_error / non-zero); implementation outcome %s ret %s" % (r["out"], r["ret"]), "corr"))
                elif r["same"] != m["same"]:
                    fails.append(("C13:%s:model-mismatch:populated-target-changed" % e, "model: refusing a populated target leaves it unchanged; dump differs", "corr"))
            elif rejected and not (e == "c" and icls == "nonzero" and case.get("twin_runtime")):
                fails.append(("C13:%s:model-mismatch:model-accepts" % e, "model accepts but the implementation rejected with %s" % icls, "corr"))
            elif e == "cpp" and r["out"] not in ("done", "runtime"):
                fails.append(("C13:cpp:model-mismatch:model-accepts", "model accepts; implementation outcome %s" % r["out"], "corr"))
        else:
            fails.append(("C13:%s:model-check-fault" % e, "the model's check sequence leaves its own contract: %s" % mc, "corr"))
    return fails

FLAKY_HANGS = []
def run_cases(exe, cases):
    model, merr = run_model(cases)
    res, crashes, msgs = run_impl(exe, cases)
    # a hang is attributed to the argument shape only if it repeats when the case runs alone (the threaded solver of
    # cholesky_solve.c has a lost wake-up, D7/C12, that strikes at random under load — not a property of the arguments)
    byid = {c["id"]: c for c in cases}
    for cid in [k for k, v in crashes.items() if "TIMEOUT" in v and k in byid]:
        for attempt in range(2):
            r1, c1, m1 = run_chunk(exe, [shape_line(cid, byid[cid]["entry"], byid[cid]["shape"])], "retry_%d_%s" % (os.getpid(), cid))
            if cid not in c1:
                FLAKY_HANGS.append(shape_line(cid, byid[cid]["entry"], byid[cid]["shape"]))
                del crashes[cid]
                res.update(r1); msgs.update(m1)
                break
    # a solver failure (runtime_error) of the C++ twin excuses a non-zero C return on an accepted shape
    rt = set(shape_key("c", c["shape"]) for c in cases if c["entry"] == "cpp" and res.get(c["id"], {}).get("out") == "runtime")
    findings = []
    for c in cases:
        if c["entry"] == "c" and shape_key("c", c["shape"]) in rt:
            c["twin_runtime"] = True
        m = model.get(c["id"]) if model else None
        for sig, what, kind in judge(c, m, res.get(c["id"]), crashes.get(c["id"]), msgs.get(c["id"], [])):
            findings.append((sig, what, kind, c, m, res.get(c["id"]), crashes.get(c["id"])))
    if "<startup>" in crashes:
        findings.append(("C13:harness-startup", "harness crashed before the first case", "corr", cases[0], None, None, crashes["<startup>"]))
    return model, merr, res, crashes, findings

def report(out, findings, limit_per_sig=1):
    seen = {}
    for sig, what, kind, c, m, r, crash in findings:
        if seen.get(sig, 0) >= limit_per_sig:
            seen[sig] = seen.get(sig, 0) + 1
            continue
        seen[sig] = seen.get(sig, 0) + 1
        out.violation(sig, what, {"case": shape_line(c["id"], c["entry"], c["shape"]), "class": c.get("cls"), "model": m, "impl": r,
                                  "sanitizer": (crash or "")[-2500:], "oracle": listed_inconsistencies(c["entry"], c["shape"]), "kind": kind})
    return seen

def load_corpus():
    d = os.path.join(VERIF, "corpus", "C13")
    cases = []
    if os.path.isdir(d):
        for f in sorted(os.listdir(d)):
            if f.endswith(".json"):
                j = json.load(open(os.path.join(d, f)))
                for i, line in enumerate(j["lines"]):
                    cases.append(case_from_line(line, "corpus:" + f[:-5], "c%s_%d" % (f[:-5], i)))
    return cases

def case_from_line(line, cls, cid=None):
    t = line.split()
    kv = dict(x.split("=", 1) for x in t[2:])
    pl = lambda v: [] if v in ("-", "") else [int(x) for x in v.split(",")]
    s = {"pop": int(kv["pop"]), "rows": int(kv["rows"]), "rg": pl(kv["rg"]), "mx": pl(kv["mx"]), "nw": int(kv["nw"]), "cl": pl(kv["cl"]),
         "od": pl(kv["od"]), "kl": pl(kv["kl"]), "ks": pl(kv["ks"]), "sm": pl(kv["sm"]), "po": pl(kv["po"]), "mono": int(kv["mono"])}
    return {"id": cid or t[0], "entry": t[1], "shape": s, "cls": cls}

# ------------------------------------------------------------------------------------------------
def run(info, out):
    tier, seed = info["tier"], info["seed"]
    rng = Rng(seed).fork("C13")
    exe = build_harness("C13_harness", ["C13_harness.cpp"], flavour="checked", fitter=True)
    if info.get("replay"):
        pl = json.load(open(info["replay"]))
        c = case_from_line(pl["case"], "replay", "replay0")
        model, merr, res, crashes, findings = run_cases(exe, [c])
        print("REPLAY case:   " + pl["case"])
        print("REPLAY model:  %s" % (model.get("replay0") if model else merr))
        print("REPLAY impl:   %s" % res.get("replay0"))
        if crashes:
            print("REPLAY sanitizer/crash:\n" + list(crashes.values())[0][-2500:])
        print("REPLAY oracle: listed inconsistencies = %s" % listed_inconsistencies(c["entry"], c["shape"]))
        print("REPLAY findings: %s" % [(f[0], f[1]) for f in findings])
        report(out, findings)
        return {"evaluations": 1, "distinct_nontrivial": 1, "rule": "replay"}
    t0 = time.time()
    cases = load_corpus() + build_cases(tier, rng)
    model, merr, res, crashes, findings = run_cases(exe, cases)
    broken_corr = [f for f in findings if f[2] == "corr"]
    escal = None
    if (not info["proof_ok"] or findings or model is None) and tier == "quick":
        # search harder: the whole lattice (about 10x), then the shapes the model itself says escape the contract first
        extra = build_cases("thorough", Rng(seed).fork("C13-escalate"))
        known = set(shape_key(c["entry"], c["shape"]) for c in cases)
        extra = [c for c in extra if shape_key(c["entry"], c["shape"]) not in known]
        for i, c in enumerate(extra):
            c["id"] = "x%d" % i
        m2, merr2, res2, crashes2, findings2 = run_cases(exe, extra)
        findings += findings2
        escal = len(extra)
        cases_all = cases + extra
        if model is not None and m2 is not None:
            model.update(m2)
        res.update(res2)
    else:
        cases_all = cases
    # model-level counterexamples: the (translated) check sequence accepts but the contract is false
    escapes = []
    if model:
        for c in cases_all:
            m = model.get(c["id"])
            if m and m["check"] == "accept" and m["contract"] == "0" and not c["entry"].startswith("c_"):
                escapes.append(c)
    # when the translator failed closed, Generated_fitargs.v (hence the extracted model) is the one of the last tree
    # that translated: its disagreements with the code are reported only if the oracle alone finds nothing
    stale = any("fitargs" in b and "translator" in b for b in info["broken"])
    if stale and any(f[2] == "oracle" for f in findings):
        findings = [f for f in findings if f[2] == "oracle"]
    # most informative first: sanitizer reports, then oracle, then correspondence
    order = {"oracle": 0, "corr": 1}
    findings.sort(key=lambda f: (0 if ":sanitizer:" in f[0] else 1, order.get(f[2], 2)))
    sigs = report(out, findings)
    bigfit_cov = run_bigfits(out, tier, seed)
    if model is None:
        out.violation("C13:model-unavailable", "the model could not be built/run: " + (merr or ""), {"no_failing_input_found": not findings, "broken": "model build", "detail": merr})
    if (not info["proof_ok"]) and not findings:
        pl = {"no_failing_input_found": True, "broken": info["broken"]}
        if escapes:
            pl["model_counterexample_not_failing_on_impl"] = shape_line(escapes[0]["id"], escapes[0]["entry"], escapes[0]["shape"])
        out.violation("C13:proof-broken", "proof obligations broken and no failing input found on the lattice", pl)
    # ---- coverage
    def nontrivial(c):
        s = c["shape"]
        return c["cls"] != "base"
    keys = set()
    hist_cls, hist_verdict, hist_impl, hist_nd, hist_entry = {}, {}, {}, {}, {}
    for c in cases_all:
        k = shape_key(c["entry"], c["shape"])
        if nontrivial(c):
            keys.add(hashlib.sha256(k.encode()).hexdigest())
        hist_cls[c["cls"].split(":")[0]] = hist_cls.get(c["cls"].split(":")[0], 0) + 1
        hist_nd[len(c["shape"]["rg"])] = hist_nd.get(len(c["shape"]["rg"]), 0) + 1
        hist_entry[c["entry"]] = hist_entry.get(c["entry"], 0) + 1
        m = model.get(c["id"]) if model else None
        if m:
            v = m["check"].split(":")
            v = v[0] + (":" + v[1] if len(v) > 1 else "")
            hist_verdict[v] = hist_verdict.get(v, 0) + 1
        r = res.get(c["id"])
        o = r["out"] if r else "crash"
        hist_impl[o] = hist_impl.get(o, 0) + 1
    samples = [shape_line(c["id"], c["entry"], c["shape"]) + "  => model " + str((model or {}).get(c["id"], {}).get("check")) + " / impl " +
               str(res.get(c["id"], {}).get("out")) for c in (cases_all[len(cases_all) // 7], cases_all[len(cases_all) // 2], cases_all[-9])]
    return {
        "evaluations": len(cases_all),
        "distinct_nontrivial": len(keys),
        "rule": "argument shapes of fit: full 1-d cross product (order {0,1,2,3,40,4e9} x knot count {0,1,o..o+5} x penalty order 0..o+3 x smoothing zero/non-zero x "
                "monodim {none,0,1} x coordinate length {r-1,r,r+1} x sorted/unsorted) + in 1..3 dims every single and every ordered pair of ~%d argument mutations "
                "(counts off by one/empty, index >= range, short coordinates, unsorted/too few knots, order 0/40/huge, penalty order o..o+3/huge, unused penalty order, "
                "penalty order > #splines, monodim in/out, rows 0/1, dimension 0, populated target; and VALUES of otherwise valid calls: all abscissae of an axis above / below the knot range, "
                "on its first / last knot, equal, one abscissa only, zero-width and clamped knot vectors) on 3 valid base fits; C++ entry for all, C entry where the implied lengths hold, "
                "null-pointer C calls; non-trivial = not one of the valid base shapes; distinct by the canonical shape line. quick = all singles + stratified sample, thorough = whole lattice" % len(mutations(3)),
        "samples": samples,
        "traces_validated_against_impl": len([c for c in cases_all if c["id"] in res or c["id"] in crashes]),
        "input_distribution": {"class": hist_cls, "ndim": hist_nd, "entry": hist_entry, "model_verdict": hist_verdict, "impl_outcome": hist_impl},
        "sanitizer_reports": len(crashes),
        "hangs_not_reproduced_when_rerun_alone": FLAKY_HANGS[:5],
        "model_accept_but_contract_false": len(escapes),
        "model_is_stale_translator_failed": stale,
        "escalated_extra_cases": escal,
        "finding_signatures": sigs,
        "correspondence": "fit_check/fit_step/glamfit_c (extracted) vs splinetable::fit / splinetable_glamfit, checked build (ASan+UBSan), exact: first failing check + dimension, object dump unchanged on reject",
        "harness_wall_s": round(time.time() - t0, 1),
    }
