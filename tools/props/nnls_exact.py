"""nnls_exact.py — exact-rational machinery for C11 (python `fractions`):

  * solve_sub / kkt_exact / nnls_optimum : the specification side. The optimum of min 1/2 x'Ax - b'x, x >= 0
    is computed by an exact single-pivot active-set method and *certified* by checking the KKT conditions
    exactly (C11_kkt_unique / C11_kkt_minimises: a KKT point of an SPD system is THE minimiser), with the
    2^n active-set enumeration as the fall-back and as cross-check on tiny systems.
  * block3_mirror : a statement-by-statement python mirror of NnlsModel.block3 (the Coq model of
    nnls_normal_block3) — used for fast witness search and to cross-check the extracted Coq model; it also
    reports the smallest decision margin met, which the correspondence uses to reject cases where rounding in
    the real solver may flip a comparison.
"""
from fractions import Fraction as Fr
import itertools

def solve_sub(A, b, F):
    """exact solution of A[F,F] z = b[F] (Gaussian elimination, first non-zero pivot); None if singular"""
    k = len(F)
    M = [[Fr(A[i][j]) for j in F] + [Fr(b[i])] for i in F]
    for c in range(k):
        p = None
        for r in range(c, k):
            if M[r][c] != 0:
                p = r; break
        if p is None:
            return None
        M[c], M[p] = M[p], M[c]
        inv = 1 / M[c][c]
        M[c] = [v * inv for v in M[c]]
        for r in range(k):
            if r != c and M[r][c] != 0:
                f = M[r][c]
                M[r] = [a - f * bb for a, bb in zip(M[r], M[c])]
    return [M[r][k] for r in range(k)]

def gradient(A, b, x):
    n = len(b)
    return [sum((Fr(A[i][j]) * x[j] for j in range(n) if x[j] != 0), Fr(0)) - Fr(b[i]) for i in range(n)]

def objective(A, b, x):
    n = len(b)
    g = gradient(A, b, x)
    # f = 1/2 x'Ax - b'x = 1/2 x'(g - b)
    return sum((x[i] * (g[i] - Fr(b[i])) for i in range(n)), Fr(0)) / 2

def kkt_exact(A, b, x, tol=0):
    """(ok, worst) — x >= 0, gradient zero (|g| <= tol) on positive components, gradient >= -tol on zero ones"""
    g = gradient(A, b, x)
    worst = Fr(0); ok = True
    for xi, gi in zip(x, g):
        if xi < 0:
            ok = False; worst = max(worst, -xi)
        v = abs(gi) if xi > 0 else max(Fr(0), -gi)
        if v > tol:
            ok = False
        worst = max(worst, v)
    return ok, worst

def nnls_enumerate(A, b):
    """the optimum by enumerating the 2^n active sets (specification; n small)"""
    n = len(b)
    for k in range(n + 1):
        for F in itertools.combinations(range(n), k):
            F = list(F)
            z = solve_sub(A, b, F) if F else []
            if z is None or any(v < 0 for v in z):
                continue
            x = [Fr(0)] * n
            for i, v in zip(F, z):
                x[i] = v
            if kkt_exact(A, b, x)[0]:
                return x
    return None

def nnls_optimum(A, b):
    """exact optimum: Lawson-Hanson in exact arithmetic, certified by the exact KKT test"""
    n = len(b)
    x = [Fr(0)] * n
    P = []
    for _ in range(50 * n + 50):
        g = gradient(A, b, x)
        cand = [i for i in range(n) if i not in P and g[i] < 0]
        if not cand:
            break
        t = min(cand, key=lambda i: g[i])
        P = sorted(P + [t])
        while True:
            z = solve_sub(A, b, P)
            if z is None:
                return nnls_enumerate(A, b)
            if all(v > 0 for v in z):
                x = [Fr(0)] * n
                for i, v in zip(P, z):
                    x[i] = v
                break
            alpha = min(x[i] / (x[i] - v) for i, v in zip(P, z) if v <= 0)
            for i, v in zip(P, z):
                x[i] = x[i] + alpha * (v - x[i])
            P = [i for i in P if x[i] > 0]
            for i in range(n):
                if i not in P:
                    x[i] = Fr(0)
    if kkt_exact(A, b, x)[0]:
        return x
    return nnls_enumerate(A, b)

# ------------------------------------------------------------------------------------------------
def block3_mirror(A, b, tol, max_iter, repaired=False):
    """python mirror of NnlsModel.block3 (model of nnls_normal_block3 + walk_descents' sequential spec).
    returns dict(x, exit, iters, trace, margin, last) with
      exit  : 'kkt' (break on nH2 == 0) | 'maxiter'
      trace : list of events ('free', nH2) / ('solve', nF) / ('feas',) / ('bound', nH1) / ('alpha', index, nH1, reduced)
      last  : kind of the last inner event before the exit ('none' when the loop broke in iteration 0)
      margin: min over all comparisons decided of |lhs - rhs| (relative to the scale of the operands)"""
    n = len(b)
    tol = Fr(tol)
    A = [[Fr(v) for v in r] for r in A]; b = [Fr(v) for v in b]
    x = [Fr(0)] * n
    y = [-v for v in b]
    F, G, H1 = [], list(range(n)), []
    Gp = None                                   # Gprime (None = nGprime < 0)
    trace = []; margin = [None]
    last = "none"
    def note(l, r, scale=None):
        d = abs(l - r)
        s = scale if scale is not None else max(abs(l), abs(r), Fr(1, 10**30))
        m = d / s if s != 0 else d
        if margin[0] is None or m < margin[0]:
            margin[0] = m
    def resid(Fs, xc):                          # calc_residual: x'(Ax - 2b) on the free set
        tot = Fr(0)
        for a, i in enumerate(Fs):
            s = sum((A[i][j] * xc[c] for c, j in enumerate(Fs)), Fr(0)) - 2 * b[i]
            tot += xc[a] * s
        return tot
    full_step = True
    for it in range(max_iter):
        G_ = G if Gp is None else Gp
        ysc = max([abs(v) for v in b] + [Fr(1, 10**30)])
        H2 = []
        for i in G_:
            note(y[i], -tol, ysc)
            if y[i] < -tol:
                H2.append(i)
        if H1:                                   # make H1, H2 disjoint
            common = [i for i in H2 if i in H1]
            H1 = [i for i in H1 if i not in common]
            H2 = [i for i in H2 if i not in common]
        if not H2 and (full_step or not repaired):
            return dict(x=x, exit="kkt", iters=it, trace=trace, margin=margin[0], last=last, nH1=len(H1))
        trace.append(("free", len(H2)))
        feasible = False
        inner = 0
        while not feasible:
            inner += 1
            if inner > 4 * n + 8:
                return dict(x=x, exit="inner-diverged", iters=it, trace=trace, margin=margin[0], last=last, nH1=len(H1))
            # modify_factor: F -= H1, G += H1; F += H2, G -= H2; both sorted
            F = sorted([i for i in F if i not in H1] + H2)
            G = sorted([i for i in G if i not in H2] + H1)
            H1, H2 = [], []
            xF = solve_sub(A, b, F)
            trace.append(("solve", len(F)))
            if xF is None:
                return dict(x=x, exit="singular", iters=it, trace=trace, margin=margin[0], last=last, nH1=0)
            xsc = max([abs(v) for v in xF] + [abs(x[i]) for i in F] + [Fr(1, 10**30)])
            ninf = nbnd = 0
            for a, i in enumerate(F):
                note(xF[a], Fr(0), xsc)
                if xF[a] < 0:
                    ninf += 1
                    note(x[i], tol, xsc)
                    if x[i] < tol:
                        nbnd += 1
            if ninf == 0:
                for a, i in enumerate(F):
                    x[i] = xF[a]
                feasible = True; full_step = True
                trace.append(("feas",)); last = "feas"
            elif ninf == nbnd:
                for a, i in enumerate(F):
                    if xF[a] < 0:
                        H1.append(i); x[i] = Fr(0)
                feasible = False
                trace.append(("bound", len(H1))); last = "bound"
            else:
                # walk_descents, sequential specification
                alphas = [Fr(0), Fr(1)]
                bp = []
                for a, i in enumerate(F):
                    if xF[a] < 0:
                        al = x[i] / (x[i] - xF[a])
                        if 0 < al < 1:
                            bp.append(al)
                bp.sort(reverse=True)
                for u, v in zip(bp, bp[1:]):
                    note(u, v, Fr(1))
                alphas += bp
                def trial(al):
                    xc, h1 = [], []
                    for a, i in enumerate(F):
                        v = (1 - al) * x[i] + al * xF[a]
                        note(v, Fr(0), xsc)
                        if v < 0:
                            v = Fr(0); h1.append(i)
                        xc.append(v)
                    return xc, h1, resid(F, xc)
                _, _, res0 = trial(alphas[0])
                rsc = max(abs(res0), Fr(1, 10**30))
                for k in range(1, len(alphas)):
                    xc, h1, r = trial(alphas[k])
                    note(r, res0, rsc)
                    if r < res0 or k == len(alphas) - 1:
                        for a, i in enumerate(F):
                            x[i] = xc[a]
                        H1 = list(h1)
                        feasible = (r < res0)
                        trace.append(("alpha", k, len(h1), feasible)); last = "alpha"
                        full_step = False
                        break
        if not H1:
            Gp = None
            F_, G_ = F, G
        else:
            F_ = [i for i in F if i not in H1]
            G_ = sorted(G + H1)
            Gp = G_
        for i in G_:
            y[i] = sum((A[i][j] * x[j] for j in F_), Fr(0)) - b[i]
        for i in G_:
            x[i] = Fr(0)
        for i in F_:
            y[i] = Fr(0)
    return dict(x=x, exit="maxiter", iters=max_iter, trace=trace, margin=margin[0], last=last, nH1=len(H1))

# ------------------------------------------------------------------------------------------------
class _Margin:
    """smallest relative distance between the two sides of any comparison decided so far"""
    def __init__(self):
        self.m = None
    def note(self, l, r, scale=None):
        d = abs(l - r)
        s = scale if scale is not None else max(abs(l), abs(r), Fr(1, 10**30))
        v = d / s if s != 0 else d
        if self.m is None or v < self.m:
            self.m = v

def remove_ordered(F, H):
    """the in-place removal loops of nnls_normal_block / modify_factor_p (`while (F[j] != H1[i]) j++`): H must be a
    subsequence of F; mirror of NnlsModel2.remove_ordered"""
    out, h = [], 0
    for f in F:
        if h < len(H) and f == H[h]:
            h += 1
        else:
            out.append(f)
    return out

def pjv_mirror(A, b, tol, escape, exit_both=True, max_trials=5, iter_factor=3):
    """python mirror of NnlsModel2.pjv_run: nnls_normal_block (escape=True: the `|| trials < -murty_steps` disjunct) and
    nnls_normal_block_updown (escape=False). returns dict(x, exit, iters, trace, margin, F)
      trace: ('stuck', trials, nH1, nH2) / ('h1', index) / ('h2', index) / ('iter', k, ninf) / ('solve', nF)"""
    n = len(b)
    tol = Fr(tol)
    A = [[Fr(v) for v in r] for r in A]; b = [Fr(v) for v in b]
    x = [Fr(0)] * n
    y = [-v for v in b]
    F, G = [], list(range(n))
    ninf, trials, murty = n + 1, max_trials, max_trials
    trace = []; mg = _Margin()
    it = iter_factor * n
    bsc = max([abs(v) for v in b] + [Fr(1, 10**30)])
    xsc = Fr(1, 10**30)
    while it > 0:
        it -= 1
        H1, H2 = [], []
        for i in F:
            mg.note(x[i], -tol, xsc)
            if x[i] < -tol:
                H1.append(i)
        for i in G:
            mg.note(y[i], -tol, bsc)
            if y[i] < -tol:
                H2.append(i)
        if (not H1 and not H2) if exit_both else (not H2):
            return dict(x=x, exit="kkt", iters=iter_factor * n - it - 1, trace=trace, margin=mg.m, F=F)
        if ninf <= murty:
            trials = -1
        nH = len(H1) + len(H2)
        if ninf > murty and (nH < ninf or (escape and trials < -murty)):
            if nH <= ninf:
                murty += 1
            ninf = nH
            trials = max_trials
        else:
            trials -= 1
            trace.append(("stuck", trials, len(H1), len(H2)))
            if trials < 0:
                if not H2 or (H1 and H1[-1] > H2[-1]):
                    H1, H2 = ([H1[-1]] if H1 else []), []
                    if H1:
                        trace.append(("h1", H1[0]))
                else:
                    H1, H2 = [], [H2[-1]]
                    trace.append(("h2", H2[0]))
        trace.append(("iter", iter_factor * n - it, ninf))
        G = G + H1
        F = remove_ordered(F, H1)
        F = F + H2
        G = remove_ordered(G, H2)
        G.sort(); F.sort()
        trace.append(("solve", len(F)))
        xF = solve_sub(A, b, F)
        if xF is None:
            return dict(x=x, exit="singular", iters=iter_factor * n - it, trace=trace, margin=mg.m, F=F)
        xsc = max([abs(v) for v in xF] + [Fr(1, 10**30)])
        for a, i in enumerate(F):
            x[i] = xF[a]
        for i in G:
            x[i] = Fr(0)
        for i in F:
            y[i] = Fr(0)
        for i in G:
            y[i] = sum((A[i][j] * xF[a] for a, j in enumerate(F)), Fr(0)) - b[i]
    return dict(x=x, exit="maxiter", iters=iter_factor * n, trace=trace, margin=mg.m, F=F)

def lh_mirror(A, b, tolerance, min_iterations, max_iterations, npos=0, fuel=None):
    """python mirror of NnlsModel2.lh_run (nnls_lawson_hanson with normaleq != 0). returns dict(x, exit, iters, trace, margin, P, Z,
    last_freed); exit: 'allpassive' (nZ == 0) | 'wmax' (wmax <= 0) | 'tol' | 'equilibrium' (alpha == 0) | 'maxiter' | 'mathfailed'
    | 'singular' | 'innerfuel'; trace: ('free', index, nZ, nP) / ('bind', index, nZ, nP)"""
    n = len(b)
    tolerance = Fr(tolerance)
    A = [[Fr(v) for v in r] for r in A]; b = [Fr(v) for v in b]
    if npos == 0:
        npos = n
    Z = list(range(npos)); P = list(range(npos, n))
    x = [Fr(0)] * n
    last_freed = None
    trace = []; mg = _Margin()
    bsc = max([abs(v) for v in b] + [Fr(1, 10**30)])
    it = 0
    def res(e):
        return dict(x=x, exit=e, iters=it, trace=trace, margin=mg.m, P=P, Z=Z, last_freed=last_freed)
    while it < max_iterations or max_iterations == 0:
        w = [b[i] - sum((A[i][j] * x[j] for j in range(n) if x[j] != 0), Fr(0)) for i in range(n)]
        if not Z:
            return res("allpassive")
        wmax = w[Z[0]]; t = 0
        for i in range(1, len(Z)):
            if last_freed != Z[i]:
                mg.note(w[Z[i]], wmax, bsc)
            if w[Z[i]] > wmax and last_freed != Z[i]:
                t = i; wmax = w[Z[t]]
        mg.note(wmax, Fr(0), bsc)
        if wmax <= 0:
            return res("wmax")
        mg.note(wmax, tolerance, bsc)
        if wmax < tolerance and it >= min_iterations:
            if not P:
                return res("tol")
            wpmin = min(w[i] for i in P)
            if -wpmin < tolerance:
                return res("tol")
        trace.append(("free", Z[t], len(Z), len(P)))
        last_freed = Z[t]
        alpha = Fr(-1)
        P = P + [Z[t]]
        Z = Z[:t] + Z[t + 1:]
        inner = 0
        while True:
            inner += 1
            if inner > 2 * n + 2:
                return res("innerfuel")
            p = solve_sub(A, b, P)
            if p is None:
                return res("singular")
            psc = max([abs(v) for v in p] + [abs(x[i]) for i in P] + [Fr(1, 10**30)])
            bad = False
            for a, i in enumerate(P):
                if i < npos:
                    mg.note(p[a], Fr(0), psc)
                    if p[a] <= 0:
                        bad = True; break
            if not bad:
                x = [Fr(0)] * n
                for a, i in enumerate(P):
                    x[i] = p[a]
                break
            alpha = Fr(2); qmax = None
            for a, i in enumerate(P):
                if i >= npos or p[a] > 0:
                    continue
                mg.note(p[a], Fr(0), psc)
                den = x[i] - p[a]
                qtemp = x[i] / den if den != 0 else Fr(0)        # 0/0: NaN in C, 0 in Qc — both fail `qtemp < alpha && qtemp != 0`
                if den != 0:
                    mg.note(qtemp, alpha, Fr(1))
                if den != 0 and qtemp < alpha and qtemp != 0:
                    qmax = i; alpha = qtemp
                elif last_freed == i:
                    alpha = Fr(0); qmax = i
                    break
            if qmax is None:
                return res("mathfailed")
            for a, i in enumerate(P):
                x[i] = x[i] + alpha * (p[a] - x[i])
            x[qmax] = Fr(0)
            newP = []
            for i in P:
                if i < npos:
                    mg.note(x[i], Fr(0), psc)
                if i >= npos or x[i] > 0:
                    newP.append(i)
                    continue
                trace.append(("bind", i, len(Z), len(newP) + (len(P) - P.index(i))))
                x[i] = Fr(0)
                Z = Z + [i]
            P = newP
            if alpha == 0:
                break
        if alpha == 0:
            return res("equilibrium")
        it += 1
    return res("maxiter")
