"""C01 — evaluation equals the tensor-product B-spline sum it represents."""
from evalfam import *
import oracle_exact

PROPERTIES_FILE = "Properties_C01"
ASSUMPTIONS = ["mathematical theorems are over ordered fields (exact arithmetic); the float code is tied bitwise to the same polymorphic Gallina term; the gap (rounding) is measured against exact rationals with the bound K*u*sum|terms|, K = 16*sum(order_d+2), not proved",
               "Python exact oracle (tools/props/oracle_exact.py) is a transcription of BSpline.v, cross-checked for exact equality against the extracted Coq spline_spec on Qc on the small tables of every run",
               "integer index arithmetic unbounded"]

def worst_region(t, xs):
    pr = ["upper-end-repeated", "rmargin", "lmargin", "upper-end", "interior-on", "interior-off"]
    best = len(pr) - 1
    for d, x in enumerate(xs):
        rc = region_class(t, d, x)
        k, o = t.knots[d], t.orders[d]
        na = len(k) - o - 1
        if rc == "upper-end" and k[o] == k[na]:
            rc = "upper-end-repeated"      # the fully supported range is the single point x: the one case left of D17
        rc = rc.replace("rmargin-on", "rmargin").replace("rmargin-off", "rmargin").replace("lmargin-on", "lmargin").replace("lmargin-off", "lmargin")
        if rc in pr:
            best = min(best, pr.index(rc))
    return pr[best]

class C01(EvalCheck):
    PROP = "C01"
    CORRESPONDENCE = "EvalModel.ndsplineeval (bsplvb_simple + coefficient block walk) vs ndsplineeval<float/double>, operator(), C ndsplineeval"
    RULE = ("tables of 1..9 dims, orders 0..5 equal/mixed, knot vectors of length 2*order+2 .. +7 (uniform, irregular, repeated, integer), coefficients random/+-0/denormal/"
            "large/all-ones, padding poisoned with NaN or +-1e300; points: every class of {knot, float neighbours of knots, interval interior, both margins, first "
            "fully supported knot, upper end of full support, last knot}; compared bitwise with the model in both precisions and against the exact rational "
            "tensor-product sum with the measured rounding bound; non-trivial = some coordinate not a plain interior point; distinct by (knots, orders, coefficient hash, coordinate bits)")
    MASKS = lambda self, t, rng: [0]
    KS = lambda self, t, rng: []
    def volume(self, tier):
        return 300 if tier == "quick" else 8000
    def exact_limit(self):
        return 150
    def keyfilter(self, k):
        p = k.split(".")
        return len(p) > 1 and (p[1] == "m0" or p[1] == "op")
    def gen(self, rng, n):
        cases = []
        big = n > 2000
        for ti in range(n):
            small = (ti % 3 == 0)
            classes = IN_CLASSES
            if ti % 10 == 3:
                # constant order 2 or 3 (the templated fixed-order cores), knots of multiplicity order / order+1, points ON them:
                # there a basis function VANISHES while its one-sided derivative does not (and, at multiplicity order+1, the spline jumps)
                t = gen_table(rng, ndim=rng.choice([2, 2, 3, 3, 4, 5]), max_coefs=6000, pattern=rng.choice(["c2", "c3"]),
                              knot_style=rng.choice(["multi", "multi", "clamped"]), coef_style=rng.choice(["rand", "posneg"]), maxextra=5)
                classes = ["repknot"] * 4 + ["knot", "mid", "rand", "full_hi"]
            elif ti % 10 == 5:
                # twin / near-twin neighbouring dimensions (same order and knot count; knots identical, or differing in all but the
                # first knot, or only in the last) evaluated at equal coordinates: anything cached or shared between dimensions
                t = gen_table(rng, ndim=rng.choice([2, 3, 3, 4]), max_coefs=6000, pattern="const", coef_style=rng.choice(["rand", "posneg"]), maxextra=4)
                d = rng.below(t.ndim - 1)
                kind = rng.choice(["same", "first-only", "all-but-last"])
                k0 = list(t.knots[d])
                if kind == "same":
                    k1 = list(k0)
                elif kind == "first-only":
                    k1 = [k0[0]] + [v + (i + 1) * 0.125 * (abs(k0[-1] - k0[0]) / len(k0) + 1e-3) for i, v in enumerate(k0[1:])]
                else:
                    k1 = k0[:-1] + [k0[-1] + abs(k0[-1] - k0[0]) * 0.5 + 1e-3]
                t.knots[d + 1] = k1; t.orders[d + 1] = t.orders[d]
                t.nknots = [len(k) for k in t.knots]; t.naxes = [len(k) - o - 1 for k, o in zip(t.knots, t.orders)]
                nco = 1
                for na in t.naxes: nco *= na
                t.coefs = [to_f32(rng.unit() * 10 - 5) for _ in range(nco)]
                twin = d
            elif ti % 10 == 7:
                # a long axis (dozens to hundreds of spans: lookups that take many bisection steps, or any shortcut for long
                # axes) in a 1-d or 2-d table, with the knot layouts where a wrong span shows: order 0 or multiple knots
                nd = rng.choice([1, 2])
                t = gen_table(rng, ndim=nd, max_coefs=4000, pattern=rng.choice(["mixed", "const"]),
                              knot_style=rng.choice(["uniform", "multi", "irregular", "repeated", "clamped", "symm"]),
                              coef_style=rng.choice(["rand", "posneg"]), maxextra=(400 if nd == 1 else 60))
                if rng.chance(0.5):
                    d = rng.below(t.ndim)          # make one axis order 0 (piecewise constant: every wrong span shows)
                    t.orders[d] = 0; t.naxes[d] = len(t.knots[d]) - 1
                    nco = 1
                    for na in t.naxes: nco *= na
                    t.coefs = [to_f32(rng.unit() * 10 - 5) for _ in range(nco)]
            else:
                t = gen_table(rng, ndim=(rng.choice([1, 1, 2, 2, 3]) if small else None), max_coefs=(120 if small else 30000 if big else 6000),
                              coef_style=rng.choice(["rand", "posneg", "ones", "special"]), maxextra=(3 if small else 7))
            if any(abs(c) > 1e30 for c in t.coefs):
                t.coefs = [c if abs(c) <= 1e30 else to_f32(c * 1e-9) for c in t.coefs]
            qs = []
            for qi in range(8):
                xs, cl = gen_point(rng, t, classes)
                if ti % 10 == 5 and qi % 2 == 0 and in_range(t, twin + 1, xs[twin]):
                    xs[twin + 1] = xs[twin]           # the same coordinate along both twins
                qs.append((xs, self.MASKS(t, rng), self.KS(t, rng), ["exact"] if small else [], cl))
            cases.append((t, qs))
        return add_history_twins(rng, cases)
    def checks_for(self, t, q, iout):
        """(label, k-vector) pairs to judge against the exact specification"""
        return [("m0", [0] * t.ndim)]
    def oracle(self, t, q, iout, mout):
        fails = []
        xs = q[0]
        nco = len(t.coefs)
        if nco > 20000 or not all(math.isfinite(c) for c in t.coefs):
            return fails
        reg = worst_region(t, xs)
        D17 = "C01:x==knots[order]==knots[naxes]"
        ps = oracle_exact.PointSpec(t.orders, t.knots, t.coefs, xs)
        self._ps = ps
        labels = self.checks_for(t, q, iout)
        if nco > 600 and len(labels) > 4:
            labels = labels[:2] + labels[-2:]
        for label, kv in labels:
            try:
                exact, absum, ufl = ps.spec(kv)
            except (OverflowError, ValueError):
                continue
            # cross-check the transcription against the extracted Coq specification (exact equality)
            qk = "q." + label
            if qk in mout:
                if parse_q(mout[qk]) != exact or parse_q(mout[qk + ".abs"]) != absum:
                    fails.append((self.PROP + ":oracle-transcription", "python oracle %s differs from extracted Coq spline_spec %s for %s" % (exact, mout[qk], label)))
            for k, v in iout.items():
                p = k.split(".")
                if p[1] != label or "," in v or v == "THROW":
                    continue
                prec = p[0]
                lim = 1e36 if prec == "f" else 1e300
                if absum > lim:
                    continue
                val = dfrom(int(v, 16))
                ok, eb = tolerance_ok(val, exact, absum, [o + sum(kv) for o in t.orders], prec, ufl)
                if not ok:
                    fails.append((D17 if reg == "upper-end-repeated" else "%s:%s@%s" % (self.PROP, self.kind(label, kv), reg),
                                  "%s = %r but the exact tensor-product sum is %.17g (|err|,bound = %s) at region %s" % (k, val, float(exact), eb, reg)))
        # all coefficients one => value one in the fully supported region
        if all(c == 1.0 for c in t.coefs) and all(t.knots[d][t.orders[d]] <= x <= t.knots[d][len(t.knots[d]) - t.orders[d] - 1] for d, x in enumerate(xs)):
            for k, v in iout.items():
                p = k.split(".")
                if p[1] == "m0" and len(v) == 16:
                    val = dfrom(int(v, 16))
                    if not abs(val - 1.0) <= (1e-4 if p[0] == "f" else 1e-12):
                        fails.append((D17 if reg == "upper-end-repeated" else "%s:all-ones@%s" % (self.PROP, reg), "all-ones table evaluates to %r in the fully supported region (%s)" % (val, k)))
        return fails
    def kind(self, label, kv):
        return "value"

def run(info, out):
    return C01().run(info, out)
