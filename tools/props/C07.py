"""C07 — reading any bytes either fails cleanly or yields a safe, well-formed table.

Every run: valid spline files (model encoder of C06 on random safe tables + the small shipped files) -> mutation generator
(C07mut.py) -> each file through
  * the extracted reader model (C07_Model.read_bytes_checked = FitsModel.read_bytes + the consistency checks that the translator
    readchecks.py found in read_fits_core) and the unchecked model,
  * the real readers in the ASan+UBSan build (harness/C07_harness.cpp): read_fits, read_fits_mem, splinetable(path),
    readsplinefitstable, readsplinefitstable_mem, each followed by the battery (dump, lookup + all evaluations at boundary points,
    == with itself, re-serialise, re-read, destroy) or, after a failure, by "empty? reusable? destructible?".
Compared: outcome class (Accept / Reject) and, on Accept, the dumped table (exact). Oracle (independent of the model): the
property's well-formedness evaluated in Python on the table the library returned; emptiness / reuse / sanitizer verdict.
Classes where the model declines (EUnsupported: data type conversion, NAXIS=0 knot HDU) or where cfitsio's treatment of damaged
header text is not modelled are excluded from the exact comparison only — the oracle and the sanitizer battery still run."""
import os, sys, json, hashlib, struct, shutil, subprocess, math, re
from common import *
from common import run as sh
import C07mut as M

PROPERTIES_FILE = "Properties_C07"
ASSUMPTIONS = [
    "the theorems are about the Gallina reader model (FitsModel.of_doc/read_bytes = read_fits_core statement by statement, C07_Model = its consistency checks, translated from the source on every run); cfitsio and the C++ are tied to it differentially, not verified",
    "knot values are binary64 bit patterns; finiteness and ordering are the sign-magnitude comparison d64_leb on N (proved to be a total preorder on non-NaN patterns; not linked to a formal IEEE-754 semantics)",
    "integer arithmetic of the shape checks is modelled with the uint64 wrap of the C++; the coefficient count product is unbounded in the model",
    "memory safety of the compiled C++ on accepted tables is validated by the ASan+UBSan battery on every run (and proved of the evaluation model by C04/C05 under the hypotheses that C07_wf_safe establishes), not proved of the binary",
    "object emptiness after a failed read / resource balance: proved of the thin object-state model (ndim + owned allocations); the real object is tested (ndim == 0, second read succeeds and compares equal, destructor under ASan); leak detection is C20's",
]
TRUSTED_EXTRA = ["tools/translators/readchecks.py (throw sites of read_fits_core -> Generated_readchecks.v, fails closed)",
                 "extract/c07_driver.ml, harness/C07_harness.cpp (operator new capped at 1 GiB -> std::bad_alloc), tools/props/C07mut.py (mutation generator), the Python well-formedness oracle in tools/props/C07.py"]

ENTRIES = ["rfile", "rmem", "ctor", "crfile", "crmem"]
# mutation classes whose header text damage cfitsio handles in ways FitsModel does not transcribe (outcome class and oracle are
# still checked; only the exact table comparison of auxiliary keys is skipped)
AUX_INEXACT = ()
# damaged header TEXT: cfitsio is lenient in many undocumented ways (mandatory keywords out of place, odd characters ...) that
# FitsModel does not transcribe: no comparison with the model for these classes; the oracle and the battery still run
HEADER_DAMAGE = ("byteflip-header", "byteflip-any", "badcard-legacy", "badcard-legacy-noaux", "badcard-ordern", "badcard-ordern-noaux")

# ------------------------------------------------------------------------------------------------
# base tables: small, safe (the property's well-formedness holds), exercising orders 0..3, repeated knots, +-0, extents, aux keys
def gen_base(rng):
    nd = rng.choice([1, 1, 2, 2, 3])
    orders = [rng.rint(0, 3) for _ in range(nd)]
    naxes = [rng.rint(o + 1, o + 4) for o in orders]
    knots = []
    for o, a in zip(orders, naxes):
        nk = a + o + 1
        style = rng.choice(["uniform", "random", "random", "repeats", "zero"])
        if style == "uniform":
            v = [i * 0.5 - 1.0 for i in range(nk)]
        elif style == "zero":
            v = [float(i - nk // 2) for i in range(nk)]
        else:
            x, v = rng.unit() * 10 - 5, []
            for i in range(nk):
                v.append(x)
                x += 0.0 if (style == "repeats" and rng.chance(0.3)) else rng.unit() * 1.5 + 0.01
        knots.append([dbits(x) for x in v])
    n = 1
    for a in naxes:
        n *= a
    cstyle = rng.choice(["smooth", "smooth", "bits", "ints"])
    coefs = [(rng.next() & 0xffffffff) if cstyle == "bits" else fbits(float(rng.rint(-9, 9))) if cstyle == "ints" else fbits(to_f32((rng.unit() - 0.5) * 10)) for _ in range(n)]
    ext = None
    e = rng.unit()
    if e < 0.8:
        ext = []
        for k, o in zip(knots, orders):
            ext += [k[o], k[len(k) - o - 1]]
    aux = [(("K%d" % i).encode(), str(rng.rint(0, 999)).encode()) for i in range(rng.choice([0, 0, 1, 3]))]
    return {"orders": orders, "naxes": naxes, "knots": knots, "coefs": coefs, "extents": ext, "aux": aux}

def table_text(t):
    nd = len(t["orders"])
    st = [1] * nd
    for i in range(nd - 2, -1, -1):
        st[i] = st[i + 1] * t["naxes"][i + 1]
    L = ["order " + " ".join(map(str, t["orders"])), "naxes " + " ".join(map(str, t["naxes"])), "strides " + " ".join(map(str, st))]
    for i, k in enumerate(t["knots"]):
        L.append("knots %d " % i + " ".join("%016x" % w for w in k))
    L.append("coef " + " ".join("%08x" % w for w in t["coefs"]))
    L.append("extents none" if t["extents"] is None else "extents " + " ".join("%016x" % w for w in t["extents"]))
    L.append("periodtok none")
    for k, v in t["aux"]:
        L.append("aux %s %s" % (k.hex(), v.hex() if v else "-"))
    return "\n".join(L) + "\n"

# ------------------------------------------------------------------------------------------------
# the property's well-formedness, evaluated on a dumped table (the oracle; independent of the Coq model)
def is_nan64(w):
    return ((w >> 52) & 0x7ff) == 0x7ff and (w & ((1 << 52) - 1)) != 0
def is_fin64(w):
    return ((w >> 52) & 0x7ff) != 0x7ff

def parse_dump(lines):
    d = {"knots": {}, "aux": []}
    for l in lines:
        w = l.split()
        if not w:
            continue
        if w[0] in ("ndim",):
            d["ndim"] = int(w[1])
        elif w[0] in ("order", "naxes", "strides", "nknots"):
            d[w[0]] = [int(x) for x in w[1:]]
        elif w[0] == "knots":
            d["knots"][int(w[1])] = [int(x, 16) for x in w[2:]]
        elif w[0] == "coef":
            d["coef"] = [int(x, 16) for x in w[1:]]
        elif w[0] == "extents":
            d["extents"] = None if w[1:] == ["none"] else [int(x, 16) for x in w[1:]]
        elif w[0] == "aux":
            d["aux"].append(tuple(w[1:]))
    return d

def unsafe_reasons(d):
    """list of the well-formedness clauses of the property that the dumped table violates"""
    bad = []
    nd = d.get("ndim", 0)
    if nd < 1:
        return ["ndim"]
    for f in ("order", "naxes", "strides", "nknots"):
        if len(d.get(f, [])) != nd:
            return ["sizes"]
    st = [1] * nd
    for i in range(nd - 2, -1, -1):
        st[i] = st[i + 1] * d["naxes"][i + 1]
    n = 1
    for a in d["naxes"]:
        n *= a
    if st != d["strides"] or len(d.get("coef", [])) != n or (d.get("extents") is not None and len(d["extents"]) != 2 * nd):
        bad.append("sizes")
    for i in range(nd):
        k = d["knots"].get(i, [])
        o, a, nk = d["order"][i], d["naxes"][i], d["nknots"][i]
        if len(k) != nk:
            bad.append("sizes")
        if a != nk - o - 1:
            bad.append("axes-vs-knots-mismatch")
        elif a < o + 1:
            bad.append("too-few-knots")
        if any(not is_fin64(w) for w in k):
            bad.append("nonfinite-knots")
        v = [dfrom(w) for w in k]
        if any(v[j] < v[j - 1] for j in range(1, len(v))):
            bad.append("unsorted-knots")
    out = []
    for b in bad:
        if b not in out:
            out.append(b)
    return out

def has_nan(d):
    return any(((w >> 23) & 0xff) == 0xff and (w & 0x7fffff) for w in d.get("coef", [])) or any(is_nan64(w) for k in d["knots"].values() for w in k)

def declares_more_than_it_holds(b):
    """scan the HDUs the way a FITS reader does; True when a header declares a data unit larger than the rest of the file"""
    pos = 0
    try:
        while pos < len(b):
            cards = {}
            hstart = pos
            while True:
                c = b[pos:pos + 80]
                if len(c) < 80:
                    return False
                pos += 80
                if c[:8] == b"END     ":
                    break
                if c[8:10] == b"= ":
                    cards.setdefault(c[:8].rstrip(), c[10:].split(b"/")[0].strip())
            pos = hstart + (pos - hstart + 2879) // 2880 * 2880
            if hstart == 0:
                # an absurd spline order makes FitsModel.default_extents count to it in unary (nth (N.to_nat order)); the C++ rejects
                # such a file before it gets there
                for k, v in cards.items():
                    if k.startswith(b"ORDER"):
                        try:
                            if not (0 <= int(v) <= 10 ** 6):
                                return True
                        except ValueError:
                            pass
            naxis = int(cards.get(b"NAXIS", b"0"))
            if naxis > 999:
                return True
            n = 1 if naxis else 0
            for j in range(1, naxis + 1):
                n *= max(0, int(cards.get(b"NAXIS%d" % j, b"0")))
            if b"PCOUNT" in cards:
                n = max(0, int(cards.get(b"GCOUNT", b"1"))) * (max(0, int(cards.get(b"PCOUNT", b"0"))) + n)
            nbytes = n * (abs(int(cards.get(b"BITPIX", b"8"))) // 8)
            if nbytes > len(b) - pos + 2880:
                return True
            pos += (nbytes + 2879) // 2880 * 2880
    except (ValueError, OverflowError):
        return False
    return False

# ------------------------------------------------------------------------------------------------
class Runner:
    def __init__(self, tag):
        self.harness = build_harness("C07_harness", ["C07_harness.cpp"], flavour="checked")
        self.model = build_extracted("c07")
        self.encoder = build_extracted("fits")
        self.work = os.path.join(build_dir("C07-work"), tag)
        shutil.rmtree(self.work, ignore_errors=True)
        os.makedirs(self.work)
        self.valid = None
        self.model_timeouts = []
    def p(self, name):
        return os.path.join(self.work, name)
    def stack(self, cmd, timeout=3000):
        return subprocess.run(["bash", "-c", 'ulimit -s unlimited 2>/dev/null || ulimit -s 4000000 2>/dev/null; exec "$0" "$@"'] + cmd,
                              stdout=subprocess.PIPE, stderr=subprocess.PIPE, text=True, timeout=timeout)
    def make_bases(self, tables):
        L = []
        for i, t in enumerate(tables):
            open(self.p("base%d.tbl" % i), "w").write(table_text(t))
            L.append("base%d %s %s" % (i, self.p("base%d.tbl" % i), self.p("base%d.fits" % i)))
        open(self.p("enc.list"), "w").write("\n".join(L) + "\n")
        pe = self.stack([self.encoder, "encode", self.p("enc.list")])
        if pe.returncode != 0:
            raise BuildError("model encoder failed: " + pe.stderr[-500:])
        return [open(self.p("base%d.fits" % i), "rb").read() for i in range(len(tables))]
    def witnesses(self):
        d = self.p("witness")
        os.makedirs(d, exist_ok=True)
        pw = self.stack([self.model, "witnesses", d])
        if pw.returncode != 0:
            raise BuildError("witness emission failed: " + pw.stderr[-500:])
        return [(n, open(os.path.join(d, n + ".fits"), "rb").read()) for n in pw.stdout.split()]
    def checks(self):
        pc = self.stack([self.model, "checks"])
        return pc.stdout.strip().replace("\n", "; ")
    def run_model(self, files):
        """the extracted model on every file. A file whose headers declare more data than the file holds is not given to the model
        (the model converts the declared word count to a unary nat): it is marked 'declined' and only the oracle / battery apply.
        A watchdog does the same for any file the driver spends more than 60 s on."""
        res = {}
        todo = []
        for fid, path in files:
            if declares_more_than_it_holds(open(path, "rb").read()):
                res[fid] = {"checked": "DECLINED", "mem": "DECLINED", "unchecked": "DECLINED", "safe": "NA", "tail": "declared-size-exceeds-file-or-absurd-order"}
            else:
                todo.append((fid, path))
        while todo:
            L = ["%s %s %s" % (fid, path, path + ".mdl") for fid, path in todo]
            open(self.p("m.list"), "w").write("\n".join(L) + "\n")
            try:
                pm = self.stack([self.model, "read", self.p("m.list")], timeout=30 + len(todo) // 10)
                outtxt, rc = pm.stdout, pm.returncode
            except subprocess.TimeoutExpired as e:
                outtxt, rc = (e.stdout or b"").decode() if isinstance(e.stdout, bytes) else (e.stdout or ""), "timeout"
            for l in outtxt.split("\n"):
                w = l.split()
                if len(w) >= 2 and l.endswith(tuple("abcdefghijklmnopqrstuvwxyzABCDEFGHIJKLMNOPQRSTUVWXYZ0123456789")):
                    res[w[0]] = dict(kv.split("=", 1) for kv in w[1:] if "=" in kv) if w[1] != "EXC" else {"checked": "EXC", "mem": "EXC", "unchecked": "EXC", "safe": "NA", "exc": l}
            rest = [(fid, path) for fid, path in todo if fid not in res]
            if rc == 0 or not rest:
                break
            if rc != "timeout" and len(rest) == len(todo):
                raise BuildError("model driver failed: " + str(rc))
            # the first file without a result is the one the driver hung / died on
            res[rest[0][0]] = {"checked": "DECLINED", "mem": "DECLINED", "unchecked": "DECLINED", "safe": "NA", "tail": "model-timeout"}
            self.model_timeouts.append(rest[0][0])
            todo = rest[1:]
        return res
    def run_impl(self, files):
        """returns (status: {(fid, entry): dict}, crashes: [(fid, entry, step, stderr tail)])"""
        L = ["%s %s %s" % (fid, path, path + ".impl") for fid, path in files]
        open(self.p("i.list"), "w").write("\n".join(L) + "\n")
        env = dict(os.environ)
        env["ASAN_OPTIONS"] = "detect_leaks=0:allocator_may_return_null=1:abort_on_error=0:handle_abort=1"
        env["UBSAN_OPTIONS"] = "print_stacktrace=1:halt_on_error=1"
        status, crashes = {}, []
        sf, se = 0, 0
        ids = [fid for fid, _ in files]
        guard = 0
        while sf < len(files) and guard < 5 * len(files) + 10:
            guard += 1
            p = subprocess.run([self.harness, self.p("i.list"), self.valid, str(sf), str(se)], stdout=subprocess.PIPE, stderr=subprocess.PIPE,
                               timeout=3000, env=env, errors="replace", text=True)
            for l in p.stdout.split("\n"):
                w = l.split()
                if len(w) >= 3 and w[1] in ENTRIES:
                    st = {"result": w[2]}
                    for kv in w[3:]:
                        if "=" in kv:
                            k, v = kv.split("=", 1)
                            st[k] = v
                    status[(w[0], w[1])] = st
            if p.returncode == 0:
                break
            ann = [l[1:].split() for l in p.stderr.split("\n") if l.startswith("@")]
            if not ann or int(ann[-1][0]) < 0:
                crashes.append(("<startup>", "", "startup", p.stderr[-2000:]))
                break
            f, e, fid, stepname = int(ann[-1][0]), int(ann[-1][1]), ann[-1][2], ann[-1][3]
            if f >= len(files):
                break        # died after the last file (exit handlers)
            tail = "\n".join(l for l in p.stderr.split("\n") if not l.startswith("@"))
            mm = re.search(r"(ERROR: AddressSanitizer[^\n]*|runtime error:[^\n]*|C07-TIMEOUT|SUMMARY:[^\n]*)", tail)
            crashes.append((fid, ENTRIES[e], stepname, "exit=%d %s" % (p.returncode, mm.group(1) if mm else tail[-400:])))
            sf, se = (f, e + 1) if e < 4 else (f + 1, 0)
        return status, crashes

    def execute(self, files, cov):
        """files: list of (fid, mutation class, bytes). Returns list of (signature, text, payload)."""
        fails = []
        paths = []
        for fid, cls, b in files:
            pth = self.p(fid + ".fits")
            open(pth, "wb").write(b)
            paths.append((fid, pth))
        import time as _t
        t0 = _t.time()
        model = self.run_model(paths)
        for fid in self.model_timeouts:
            cov.setdefault("model_timeouts", []).append([fid, dict((f, c) for f, c, _ in files).get(fid)])
        self.model_timeouts = []
        t1 = _t.time()
        status, crashes = self.run_impl(paths)
        cov["seconds_model"] = round(cov.get("seconds_model", 0) + t1 - t0, 1)
        cov["seconds_impl"] = round(cov.get("seconds_impl", 0) + _t.time() - t1, 1)
        bycls = {fid: (cls, b) for fid, cls, b in files}
        def fail(fid, sig, text, extra=None):
            cls, b = bycls[fid]
            pl = {"mutation_class": cls, "file_hex": b.hex(), "file_len": len(b), "model": model.get(fid), "check": sig,
                  "impl": {e: status.get((fid, e)) for e in ENTRIES}}
            pl.update(extra or {})
            fails.append(("C07:" + sig, text, pl))
        for fid, entry, stepname, tail in crashes:
            if fid == "<startup>":
                raise BuildError("C07 harness died at start-up: " + tail[-600:])
            cls = bycls[fid][0]
            kind = "timeout" if "C07-TIMEOUT" in tail else "crash"
            if stepname == "destroy-nonempty":
                fail(fid, "throw-after-ndim-set:destructor-crash", "%s: after a FAILED read of a %s file the object kept ndim != 0 and its destructor faults (%s)" % (entry, cls, tail[:200]),
                     {"entry": entry, "step": stepname, "stderr": tail})
            else:
                fail(fid, "%s:%s" % (kind, stepname), "%s: %s in step '%s' on a %s file: %s" % (entry, kind, stepname, cls, tail[:200]), {"entry": entry, "step": stepname, "stderr": tail})
            cov["crashes"] = cov.get("crashes", 0) + 1
        crashed = {(fid, entry) for fid, entry, _, _ in crashes}
        for fid, cls, b in files:
            m = model.get(fid)
            if m is None or m.get("checked") == "EXC":
                fail(fid, "model-driver", "model driver produced no result: %s" % (m,))
                continue
            mres = m["checked"]
            # excluded from the model comparison (oracle and battery still run): the model declines (data type conversion ...), or the
            # file ends inside a data unit (cfitsio's disk driver fails on the missing record, its memory driver returns zeros;
            # FitsModel drops the HDU instead), or the library ran out of memory (std::bad_alloc from the capped allocator)
            if m["checked"] == "DECLINED":
                cov["model_declined"] = cov.get("model_declined", 0) + 1
            unsupported = cls in HEADER_DAMAGE or m["checked"] == "DECLINED" or "EUnsupported" in (m["checked"], m["mem"]) or "REJECT:EUnsupported" in (m["checked"], m["mem"])
            oom = any((status.get((fid, e)) or {}).get("msg") == "std::bad_alloc".encode().hex() for e in ENTRIES)
            if oom:
                cov["out_of_memory_files"] = cov.get("out_of_memory_files", 0) + 1
                unsupported = True
            maccept = mres == "ACCEPT"
            cov["model_outcomes"][mres.split(":")[0] if not unsupported else "UNSUPPORTED"] = cov["model_outcomes"].get(mres.split(":")[0] if not unsupported else "UNSUPPORTED", 0) + 1
            mdump = None
            if m["checked"] == "ACCEPT":
                ml = [l.rstrip("\n") for l in open(self.p(fid + ".fits.mdl"))]
                mdump = ml[1:]
            idump = None
            if os.path.exists(self.p(fid + ".fits.impl")):
                idump = [l.rstrip("\n") for l in open(self.p(fid + ".fits.impl"))]
            first_hash = None
            for entry in ENTRIES:
                st = status.get((fid, entry))
                if st is None:
                    if (fid, entry) not in crashed and not any(c[0] == fid for c in crashes):
                        fail(fid, "harness:no-status", "no status line for %s %s" % (fid, entry))
                    continue
                cov["entry_runs"] += 1
                ok = st["result"] == "OK"
                mres = m["mem"] if entry in ("rmem", "crmem") else m["checked"]
                maccept = mres == "ACCEPT"
                cov["impl_outcomes"]["accept" if ok else "reject"] += 1
                # ---- correspondence: outcome class
                # a file that ends inside a data unit: the disk driver fails when the missing record is needed; FitsModel drops the
                # whole HDU (EXTENTS absent -> default extents). Compared only when the model rejects anyway.
                # ... and a file that is not a whole number of blocks: what cfitsio's disk driver makes of the final partial block
                # (header cards in it are seen, data in it gives READ_ERROR) is not transcribed; the memory entry points are
                # compared (they see whole blocks only, modelled by whole_blocks)
                disk = entry in ("rfile", "ctor", "crfile")
                skip = unsupported or (disk and m.get("tail") == "ETruncData" and maccept) or (disk and len(b) % 2880 != 0)
                if not skip:
                    cov["class_comparisons"] += 1
                    if ok != maccept:
                        msg = bytes.fromhex(st["msg"]).decode("latin1") if st.get("msg", "-") not in ("-", None) else ""
                        fail(fid, "correspondence:%s:%s" % ("model-accepts-library-rejects" if maccept else "library-accepts-model-rejects", cls),
                             "%s on a %s file: library %s (%s), model %s" % (entry, cls, "accepts" if ok else "rejects", msg, mres), {"entry": entry})
                else:
                    cov["unsupported_entry_runs"] += 1
                if not ok and (cls == "shipped" or cls.startswith("valid") or cls == "witness-valid"):
                    msg = bytes.fromhex(st["msg"]).decode("latin1") if st.get("msg", "-") not in ("-", None) else ""
                    fail(fid, "valid-file-rejected", "%s REJECTS a well-formed spline file (%s): %s" % (entry, cls, msg), {"entry": entry})
                if ok:
                    # ---- all entry points return the same table
                    if first_hash is None:
                        first_hash = st.get("dumphash")
                    elif st.get("dumphash") != first_hash:
                        fail(fid, "entries-differ", "%s returned a different table than the first successful entry point on a %s file" % (entry, cls), {"entry": entry})
                    # ---- the battery
                    dd = parse_dump(idump) if idump else None
                    nan = has_nan(dd) if dd else False
                    if st.get("ret") != "1":
                        fail(fid, "battery:return-value", "%s returned false without throwing on a %s file" % (entry, cls), {"entry": entry})
                    if st.get("selfeq") != ("0" if nan else "1") or st.get("selfne") != ("1" if nan else "0"):
                        fail(fid, "battery:self-comparison", "%s: t == t is %s (table %s NaN) on a %s file" % (entry, st.get("selfeq"), "holds" if nan else "holds no", cls), {"entry": entry})
                    if st.get("reread") != "1" or st.get("redump") != "1" or st.get("req") != ("0" if nan else "1"):
                        fail(fid, "battery:reserialise", "%s: write_fits_mem/read_fits_mem of the loaded table does not give the table back (%s) on a %s file" % (entry, {k: st.get(k) for k in ("reser", "reread", "redump", "req")}, cls), {"entry": entry})
                    if st.get("destroyed") != "1" and entry != "ctor":
                        fail(fid, "battery:destroy", "%s: loaded table not destroyed" % entry, {"entry": entry})
                    ev = st.get("eval", "0/0/0").split("/")
                    cov["eval_points"] += int(ev[0]); cov["eval_found"] += int(ev[1])
                    if ev[2] != "0":
                        fail(fid, "battery:evaluation-exception", "%s: evaluation threw on an accepted table (%s)" % (entry, st.get("eval")), {"entry": entry})
                else:
                    # ---- fails cleanly: empty, reusable, destructible
                    emp = st.get("empty")
                    if emp == "0":
                        fail(fid, "throw-after-ndim-set:%s" % entry, "%s: a FAILED read of a %s file left the object with ndim != 0 (half-built; destructor and later reads act on unset arrays)" % (entry, cls), {"entry": entry})
                    elif emp == "1":
                        cov["reuse_checks"] += 1
                        if st.get("reuse") != "1" or st.get("reuse_eq") != "1" or st.get("reuse_dump") != "1":
                            fail(fid, "not-reusable:%s" % entry, "%s: after a failed read of a %s file, reading a valid file into the same object gives %s" % (entry, cls, {k: st.get(k) for k in ("reuse", "reuse_eq", "reuse_dump")}), {"entry": entry})
                        if st.get("destroyed") != "1":
                            fail(fid, "battery:destroy", "%s: object not destroyed after failure" % entry, {"entry": entry})
            # ---- oracle on what the library returned (whatever the model says)
            if idump:
                dd = parse_dump(idump)
                why = unsafe_reasons(dd)
                cov["oracle_tables"] += 1
                for r in why:
                    fail(fid, "accepted:%s" % r, "the library ACCEPTED a %s file and returned a table that is not well-formed: %s (order %s naxes %s nknots %s)" % (cls, r, dd.get("order"), dd.get("naxes"), dd.get("nknots")), {"unsafe": why})
                if not why:
                    cov["accepted_safe_tables"] += 1
                # ---- exact comparison with the model
                if m["checked"] == "ACCEPT" and not unsupported and m.get("tail") != "ETruncData" and len(b) % 2880 == 0:
                    a, bm = idump, mdump
                    if cls in AUX_INEXACT:
                        a = [l for l in a if not l.startswith(("aux", "naux"))]; bm = [l for l in bm if not l.startswith(("aux", "naux"))]
                    cov["exact_table_comparisons"] += 1
                    if a != bm:
                        k = next((i for i in range(min(len(a), len(bm))) if a[i] != bm[i]), min(len(a), len(bm)))
                        lab = (a[k] if k < len(a) else bm[k]).split()[0]
                        fail(fid, "correspondence:table:%s" % lab, "accepted %s file: library and model tables differ at '%s': library %s | model %s" % (cls, lab, (a[k] if k < len(a) else "<absent>")[:160], (bm[k] if k < len(bm) else "<absent>")[:160]))
            # ---- model-side oracle: the checked model never accepts an unsafe table (extracted safe_table)
            if m["checked"] == "ACCEPT" and m.get("safe") == "0":
                fail(fid, "model:accepts-unsafe", "the checked reader MODEL accepts a %s file whose table fails safe_table (a required check is missing from read_fits_core: %s)" % (cls, self.checks()))
        for f in os.listdir(self.work):
            if f.endswith((".mdl", ".impl")) or (f.endswith(".fits") and not f.startswith("base") and f != "valid.fits"):
                try:
                    os.unlink(self.p(f))
                except OSError:
                    pass
        return fails

def new_cov():
    return {"model_outcomes": {}, "impl_outcomes": {"accept": 0, "reject": 0}, "entry_runs": 0, "class_comparisons": 0, "unsupported_entry_runs": 0,
            "exact_table_comparisons": 0, "oracle_tables": 0, "accepted_safe_tables": 0, "reuse_checks": 0, "eval_points": 0, "eval_found": 0, "crashes": 0}

def report(fails, out):
    best = {}
    for sig, text, pl in fails:
        if sig not in best or pl["file_len"] < best[sig][1]["file_len"]:
            best[sig] = (text, pl)
    for sig, (text, pl) in sorted(best.items()):
        out.violation(sig, text, pl)

def shipped(rng=None):
    d = os.path.join(REPO, "test", "test_data")
    return sorted(os.path.join(d, f) for f in os.listdir(d) if f.endswith(".fits"))

def load_corpus():
    d = os.path.join(VERIF, "corpus", "C07")
    out = []
    if os.path.isdir(d):
        for f in sorted(os.listdir(d)):
            if f.endswith(".json"):
                j = json.load(open(os.path.join(d, f)))
                out.append(("corpus_" + f[:-5], j.get("mutation_class", "corpus"), bytes.fromhex(j["file_hex"])))
    return out

def run(info, out):
    tier, seed = info["tier"], info["seed"]
    rng = Rng(seed)
    cov = new_cov()
    if info.get("replay"):
        p = json.load(open(info["replay"]))
        if "file_hex" not in p:
            print("replay file names a broken obligation, not a generated input: %s" % (p.get("broken"),))
            return {"evaluations": 1, "distinct_nontrivial": 2}
        r = Runner("replay")
        r.valid = r.p("valid.fits")
        open(r.valid, "wb").write(r.make_bases([gen_base(Rng(1))])[0])
        fails = r.execute([("replay", p.get("mutation_class", "replay"), bytes.fromhex(p["file_hex"]))], cov)
        for sig, text, pl in fails:
            print("replay: %s -> %s" % (sig, text))
        report(fails, out)
        print("replay: %d failing checks; model %s" % (len(fails), fails[0][2]["model"] if fails else "agrees"))
        cov.update({"evaluations": cov["entry_runs"], "distinct_nontrivial": 2, "rule": "replay of " + info["replay"], "samples": [p.get("mutation_class")]})
        return cov
    r = Runner("main")
    nbase = 12 if tier == "quick" else 60
    tables = [gen_base(rng.fork("base%d" % i)) for i in range(nbase)]
    bases = r.make_bases(tables)
    r.valid = r.p("valid.fits")
    open(r.valid, "wb").write(bases[0])
    ship = shipped()
    small_ship = [open(f, "rb").read() for f in ship if os.path.getsize(f) <= 32000]
    fails = []
    files = []
    # corpus and the refutation witnesses of C07_Witness.v first
    files += load_corpus()
    wit = r.witnesses()
    files += [("witness_" + n, "witness-" + n, b) for n, b in wit]
    # every shipped file must load, be well-formed and survive the battery
    files += [("shipped_" + os.path.basename(f)[:-5], "shipped", open(f, "rb").read()) for f in ship]
    fixed = len(files)
    n = 4000 if tier == "quick" else 40000
    pool = bases + small_ship
    for i in range(n):
        g = rng.fork("mut%d" % i)
        b = pool[g.below(len(pool))]
        cls, mb = M.mutate(g, b)
        files.append(("m%d" % i, cls, mb))
    if tier == "thorough":
        for k, b in enumerate(bases[:6] + small_ship[:2]):
            files += [("t%d_%d" % (k, j), c, tb) for j, (c, tb) in enumerate(M.all_truncations(b))]
    else:
        files += [("t0_%d" % j, c, tb) for j, (c, tb) in enumerate(M.all_truncations(bases[1]))]
    CH = 600
    for k in range(0, len(files), CH):
        fails += r.execute(files[k:k + CH], cov)
    # the shipped files are the library's own well-formed files: all must be accepted
    searched = 0
    real = [f for f in fails if not f[0].startswith("C07:harness")]
    if not info["proof_ok"] and not real:
        # a proof obligation broke (typically: a required check is no longer found in read_fits_core) and nothing failed yet:
        # aim at the check classes with ten times the volume
        aimed = [m for m in M.MUTATIONS if m[1].__name__ != "f" or True]
        more = []
        for i in range(min(10 * n, 10000)):
            g = rng.fork("search%d" % i)
            b = pool[g.below(len(pool))]
            cls, mb = M.mutate(g, b)
            if cls.startswith(("valid", "trunc", "nonfits", "foreign", "byteflip")):
                continue
            more.append(("s%d" % i, cls, mb))
        for k in range(0, len(more), CH):
            fails += r.execute(more[k:k + CH], cov)
        searched = len(more)
    report(fails, out)
    dist = {}
    for _, cls, _ in files:
        dist[cls] = dist.get(cls, 0) + 1
    distinct = {hashlib.sha256(b).hexdigest() for _, cls, b in files if not cls.startswith("valid") and cls != "shipped"}
    cov.update({"evaluations": cov["entry_runs"], "distinct_nontrivial": len(distinct),
                "rule": "files: refutation witnesses of C07_Witness.v, the shipped test files, and mutations (C07mut.py: %d mutation kinds) of %d model-encoded random safe tables (1-3 dims, orders 0-3) "
                        "and the small shipped files; truncation at every card and block boundary of a base file; non-trivial = not a 'valid*' / shipped file; distinct by content hash" % (len(M.MUTATIONS), nbase),
                "samples": [{"id": fid, "class": cls, "bytes": len(b)} for fid, cls, b in files[fixed:fixed + 3]],
                "traces_validated_against_impl": cov["class_comparisons"], "input_distribution": dist, "files": len(files), "witness_files": [n for n, _ in wit],
                "translated_checks": r.checks(), "search_volume_after_break": searched, "failing_checks": len(fails)})
    return cov
