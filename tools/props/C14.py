"""C14 — convolution produces the true convolution with the unit-area kernel spline.

Per run:  (1) correspondence: ConvModel.convolve (extracted, binary64 closures, rnd = round to binary32) vs
splinetable::convolve / splinetable_convolve on generated tables x kernels, every output compared exactly (order,
nknots, naxes, strides, extents and knots bitwise, the new coefficients bitwise);
(2) the property's own statement evaluated on the implementation's output: structure (new order, knots = sorted
pairwise sums, untouched dimensions, well-formedness) and values (ndsplineeval of the convolved table vs the exact
integral conv_oracle.conv_spec, tolerance K*2^-24*sum|terms|);
(3) TEST (not a theorem) of the analytic identity behind the algorithm: the transfer matrix of the same Gallina term
at Qc, expanded in the new basis, equals conv_spec as piecewise polynomials (order'+1 points per knot interval)."""
import math, os, sys, json, time, fractions, hashlib, subprocess, shutil
sys.path.insert(0, os.path.dirname(os.path.dirname(os.path.abspath(__file__))))
from common import *
import common as _cm
from evalfam import Table, gen_knots, gen_coef, parse_output, run_impl, parse_q, is_nan_hex, hexlist_equal_mod_nan
import conv_oracle as CO
Fr = fractions.Fraction

PROPERTIES_FILE = "Properties_C14"
ASSUMPTIONS = [
    "std::sort is an oracle: the structure theorems assume only that it returns a sorted permutation of its input (Section hypotheses, discharged for the insertion sort the executed model uses)",
    "integer arithmetic modelled unbounded: uint32/uint64 sizes do not wrap for well-formed tables; `factorial` (32-bit) is exact for arguments <= 12, i.e. order + n <= 12 (the property's range needs <= 10)",
    "the analytic identity (Strom's blossom formula = convolution integral) is proved only for order 0 and 1 with a 2-knot kernel; for all other orders/kernels it is TESTED: model@Qc expanded in the new basis == exact piecewise-polynomial integral, on this run's cases",
    "rounding (double divided differences, float storage) is not proved: measured on every run against the exact integral with tolerance 16*sum_d(order_d+2) * 2^-24 * sum|terms|",
    "model ConvModel.convolve tied to the C++ by exact (bitwise) comparison of every output on this run's cases; memory management of convolve is not modelled",
    "the executed model is the loop-nest form ConvModel.convolve_rows (equal to ConvModel.convolve on every well-formed table: theorem C14_loop_nest_is_cellwise); the driver runs both forms "
    "and insists on bitwise equal coefficients on every table of at most 2000 coefficients",
    "on the size classes (tables of up to 1.5*10^5 new coefficients) every coefficient is compared bitwise with the model, but the exact integral is evaluated only at sampled points "
    "(aimed at chosen coefficient positions, and at the disagreeing positions after any bitwise disagreement)",
]
TRUSTED_EXTRA = ["tools/props/conv_oracle.py: exact piecewise-polynomial convolution integral in Python fractions (cross-checked at start of every run against the closed forms proved in Properties_C14.v)"]

CORRESPONDENCE = "ConvModel.convolve vs splinetable::convolve / splinetable_convolve"
RULE = ("convolutions of tables of 1..4 dims (order 0..5 in the convolved dimension, 0..3 elsewhere; uniform / irregular / integer / dyadic strictly increasing knots from the "
        "minimal count 2*order+2) with kernels of 2..6 strictly increasing knots (symmetric, asymmetric, grid-aligned = coinciding pairwise sums, narrower / wider than the knot "
        "spacing, wider than the whole table), any dimension index, both entry points, both branches of the lower-extent rule; evaluation points: interior, both margins, "
        "knots and their float neighbours, last knot. Size classes (round 3): 'round-block' = the product S of the axis lengths behind the convolved dimension is m*b, "
        "b in {16,64,512,672,1024,4096}, m 1..4, and S+1, S-1; 'cache-block' = S is m*tile (and +-1) with tile = max(16, floor(C/N) rounded down to a multiple of 16), "
        "C in {2048,4096,8192,16384} floats and N the length of the convolved axis in {order+1,2,4,8,12,16,..}; 'large' = 10^4..6*10^4 coefficients with the convolved "
        "dimension first / in the middle / last; 'minimal' = every axis of length exactly order+1; kernels with 2 and with 6 knots forced on each class. These tables "
        "(up to 1.5*10^5 new coefficients) are compared bitwise with the model everywhere; the exact integral is sampled at points aimed at chosen coefficient positions "
        "(first / last trailing position, block boundaries, random) and, after any bitwise disagreement, at the disagreeing positions. "
        "non-trivial = kernel not the centred unit box on a uniform grid with constant coefficients; distinct by (orders, knots, kernel, dim, coefficient hash)")

KIND_KERNEL = ["symmetric", "symmetric", "asymmetric", "asymmetric", "aligned", "aligned", "narrow", "wide", "wide", "huge", "positive", "negative"]
CLASSIFY_CAP = 240

# ================================================================================================
class Case:
    def __init__(self, table, dim, kernel, ext=None, via_c=False, exact=False, points=None, kind=""):
        self.t, self.dim, self.kernel, self.ext, self.via_c, self.exact, self.kind = table, dim, kernel, ext, via_c, exact, kind
        self.points = points or []
        self.qc_rows = None
        self.cls = "regular"          # size class (see RULE): regular | round-block | cache-block | large | minimal
        self.block = None             # (S, b, m, offset) for the block classes
    def lines(self, cid):
        out = self.t.lines()
        if self.ext:
            out.append("E " + " ".join(hexd(x) for x in self.ext))
        out.append("V %s %d %d %s%s%s" % (cid, self.dim, len(self.kernel), " ".join(hexd(x) for x in self.kernel), " c" if self.via_c else "",
                                     (" r%d:%d" % self.qc_rows) if self.qc_rows else (" x" if self.exact else "")))
        for i, xs in enumerate(self.points):
            out.append("Q %s.p%d X %s" % (cid, i, " ".join(hexd(x) for x in xs)))
        return out
    def to_json(self):
        return {"table": self.t.to_json(), "dim": self.dim, "kernel": [hexd(x) for x in self.kernel], "kernel_float": self.kernel,
                "ext": [hexd(x) for x in self.ext] if self.ext else None, "via_c": self.via_c, "exact": self.exact,
                "points": [[hexd(x) for x in xs] for xs in self.points], "kind": self.kind, "cls": self.cls, "block": self.block}
    @staticmethod
    def from_json(p):
        tj = p["table"]
        t = Table(tj["orders"], [[dfrom(int(h, 16)) for h in k] for k in tj["knots"]], [ffrom(int(h, 16)) for h in tj["coefs"]], dfrom(int(tj["pad"], 16)))
        c = Case(t, p["dim"], [dfrom(int(h, 16)) for h in p["kernel"]], [dfrom(int(h, 16)) for h in p["ext"]] if p.get("ext") else None,
                 p.get("via_c", False), p.get("exact", False), [[dfrom(int(h, 16)) for h in xs] for xs in p.get("points", [])], p.get("kind", ""))
        c.cls, c.block = p.get("cls", "regular"), p.get("block")
        return c
    def key(self):
        return hashlib.sha256(json.dumps([self.t.orders, [[hexd(x) for x in k] for k in self.t.knots], [hexd(x) for x in self.kernel], self.dim,
                                          [hexf(c) for c in self.t.coefs]]).encode()).hexdigest()
    def nontrivial(self):
        k = self.t.knots[self.dim]
        uniform = all(abs((k[i + 1] - k[i]) - (k[1] - k[0])) < 1e-12 for i in range(len(k) - 1))
        return not (uniform and len(self.kernel) == 2 and self.kernel[0] == -self.kernel[1] and len(set(self.t.coefs)) == 1)
    def describe(self):
        extra = ""
        if self.cls != "regular":
            extra = " [%s: naxes %s%s]" % (self.cls, self.t.naxes, (", trailing block S=%d = %d*%d%+d" % tuple(self.block)) if self.block else "")
        return "%s dim=%d kernel(%s)=%s%s%s" % (self.t.describe(), self.dim, self.kind, ["%.6g" % x for x in self.kernel], " via C" if self.via_c else "", extra)

def strictly_increasing(ks):
    return all(a < b for a, b in zip(ks, ks[1:]))

def gen_dyadic_knots(rng, order, extra, den=8, maxstep=12):
    n = 2 * order + 2 + extra
    a = rng.rint(-40, 40)
    ks = []
    for _ in range(n):
        ks.append(a / den)
        a += rng.rint(1, maxstep)
    return ks

def gen_kernel(rng, knots, n, kind, dyadic=False):
    h = [b - a for a, b in zip(knots, knots[1:])]
    hmed = sorted(h)[len(h) // 2]
    span = knots[-1] - knots[0]
    if dyadic:
        den = 8
        if kind == "aligned":
            step = max(1, round(hmed * den))
            a = -step * rng.rint(0, n - 1)
            ks = [(a + step * i * rng.choice([1, 1, 2]) if False else a + step * i) / den for i in range(n)]
        else:
            width = {"narrow": 1, "wide": 6, "huge": 60}.get(kind, 3)
            a = rng.rint(-4 * width, 2 * width) if kind not in ("positive", "negative") else (rng.rint(1, 9) if kind == "positive" else -rng.rint(8 * width * n, 9 * width * n))
            ks = []
            for _ in range(n):
                ks.append(a / den)
                a += rng.rint(1, 2 * width)
            if kind == "symmetric":
                half = sorted(set(abs(x) for x in ks if x != 0))[: n // 2]
                ks = sorted([-x for x in half] + ([0.0] if n % 2 else []) + half)
                while len(ks) < n:
                    ks.append(ks[-1] + 1.0 / den)
        return ks
    if kind == "symmetric":
        w = hmed * (0.1 + 3 * rng.unit())
        half = sorted(w * (0.05 + rng.unit()) for _ in range(n // 2))
        ks = [-x for x in reversed(half)] + ([0.0] if n % 2 else []) + half
    elif kind == "aligned":          # on the grid of the table's (median) spacing: many coinciding pairwise sums
        a = -hmed * rng.rint(0, n - 1)
        ks = [a + hmed * i for i in range(n)]
    else:
        w = {"narrow": hmed * 1e-3 * (0.1 + rng.unit()), "wide": hmed * (3 + 10 * rng.unit()), "huge": span * (1 + 3 * rng.unit())}.get(kind, hmed * (0.2 + 2 * rng.unit()))
        if kind == "positive":
            a = w * (0.1 + rng.unit())
        elif kind == "negative":
            a = -w * (n + 1 + rng.unit())
        else:
            a = -w * rng.unit() * n / 2
        ks = []
        for _ in range(n):
            ks.append(a)
            a += w * (0.05 + rng.unit())
    # strictly increasing in floating point
    for i in range(1, n):
        if not ks[i] > ks[i - 1]:
            ks[i] = math.nextafter(ks[i - 1], math.inf) + abs(ks[i - 1]) * 1e-9 + 1e-12
    return ks

def pairwise_sorted(knots, kernel):
    return sorted(t + k for t in knots for k in kernel)

def gen_points(rng, case, npts):
    t, d = case.t, case.dim
    rho = pairwise_sorted(t.knots[d], case.kernel)
    o2 = t.orders[d] + len(case.kernel) - 1
    na2 = len(rho) - o2 - 1
    pts = []
    for _ in range(npts):
        xs = []
        for e in range(t.ndim):
            if e == d:
                cls = rng.choice(["interior", "interior", "interior", "lmargin", "rmargin", "knot", "knot+", "knot-", "rand", "last", "full_lo"])
                if cls == "interior":
                    x = rho[o2] + (rho[na2] - rho[o2]) * rng.unit()
                elif cls == "lmargin":
                    x = rho[0] + (rho[o2] - rho[0]) * rng.unit()
                elif cls == "rmargin":
                    x = rho[na2] + (rho[-1] - rho[na2]) * rng.unit()
                elif cls == "knot":
                    x = rng.choice(rho)
                elif cls == "knot+":
                    x = math.nextafter(rng.choice(rho), math.inf)
                elif cls == "knot-":
                    x = math.nextafter(rng.choice(rho), -math.inf)
                elif cls == "last":
                    x = rho[-1]
                elif cls == "full_lo":
                    x = rho[o2]
                else:
                    x = rho[0] + (rho[-1] - rho[0]) * rng.unit()
                if not (rho[0] < x <= rho[-1]):
                    x = rho[0] + (rho[-1] - rho[0]) * (0.25 + 0.5 * rng.unit())
            else:
                k, o = t.knots[e], t.orders[e]
                na = len(k) - o - 1
                cls = rng.choice(["interior", "interior", "lmargin", "rmargin"])
                lo, hi = (k[o], k[na]) if cls == "interior" else (k[0], k[o]) if cls == "lmargin" else (k[na], k[-1])
                x = lo + (hi - lo) * rng.unit()
                if not (k[0] < x <= k[-1]) or x in k:
                    x = k[0] + (k[-1] - k[0]) * (0.3 + 0.4 * rng.unit())
            xs.append(x)
        pts.append(xs)
    return pts

def gen_case(rng, exact=False, force_order=None, force_n=None):
    ndim = rng.choice([1, 1, 1, 2, 2, 3, 4]) if not exact else rng.choice([1, 1, 2])
    dim = rng.below(ndim)
    orders = [rng.rint(0, 3) for _ in range(ndim)]
    orders[dim] = rng.rint(0, 5) if force_order is None else force_order
    if exact and force_order is None:
        orders[dim] = rng.choice([0, 1, 2, 3, 3, 4, 5])
    n = rng.rint(2, 6) if force_n is None else force_n
    knots = []
    for e, o in enumerate(orders):
        if e == dim:
            extra = rng.choice([0, 0, 1, 2, 3, 5, 8]) if not exact else rng.choice([0, 1, 2, 3])
        else:
            extra = rng.choice([0, 1, 2]) if ndim <= 2 else rng.choice([0, 0, 1])
        if exact:
            knots.append(gen_dyadic_knots(rng, o, extra, maxstep=rng.choice([1, 4, 12])))
        else:
            style = rng.choice(["uniform", "irregular", "irregular", "integer", "dyadic"])
            if style == "dyadic":
                knots.append(gen_dyadic_knots(rng, o, extra))
            else:
                scale = 10.0 ** rng.rint(-2, 2)
                ks = gen_knots(rng, o, extra, style, scale, (rng.unit() * 20 - 10) * scale)
                if not strictly_increasing(ks):
                    ks = gen_dyadic_knots(rng, o, extra)
                knots.append(ks)
    # far from the origin: the convolved axis (or every axis) is an exact translate by 2^e of a dyadic knot vector, e.g. a time axis in
    # seconds since some epoch. The translate is exactly representable, so the convolved table must be the exact translate as well.
    far = False
    if rng.chance(0.25 if exact else 0.15):
        far = True
        e = rng.choice([20, 24, 27, 29, 30, 31, 33, 36, 40])
        sign = rng.choice([1.0, 1.0, -1.0])
        for d in range(ndim):
            if d == dim or rng.chance(0.3):
                base = gen_dyadic_knots(rng, orders[d], max(0, len(knots[d]) - 2 * orders[d] - 2), maxstep=rng.choice([1, 4, 12]))
                if len(base) != len(knots[d]):
                    continue
                sh = [x + sign * 2.0 ** e for x in base]
                if all((y - sign * 2.0 ** e) == x for x, y in zip(base, sh)) and strictly_increasing(sh):
                    knots[d] = sh
    nco = 1
    for k, o in zip(knots, orders):
        nco *= len(k) - o - 1
    cs = rng.choice(["rand", "rand", "posneg", "ones"])
    coefs = [gen_coef(rng, cs) for _ in range(nco)]
    t = Table(orders, knots, coefs, rng.choice([math.nan, 1e300, 0.0]))
    kind = rng.choice(KIND_KERNEL)
    # far from the origin only a kernel on the dyadic grid keeps every knot + kernel-knot sum exact (a kernel narrower than the
    # spacing of the doubles out there cannot be represented at all: the convolution with it is not what the property speaks of)
    kernel = gen_kernel(rng, knots[dim], n, kind, dyadic=exact or far or rng.chance(0.2))
    if far and not all(fractions.Fraction(t) + fractions.Fraction(y) == fractions.Fraction(t + y) for t in knots[dim] for y in kernel):
        kernel = gen_kernel(rng, knots[dim], n, "symmetric", dyadic=True)
        assert all(fractions.Fraction(t) + fractions.Fraction(y) == fractions.Fraction(t + y) for t in knots[dim] for y in kernel)
    ext = None
    if rng.chance(0.3):
        ext = []
        for k, o in zip(knots, orders):
            ext += [k[0] if rng.chance(0.5) else k[o], k[len(k) - o - 1]]
    c = Case(t, dim, kernel, ext, via_c=rng.chance(0.3), exact=exact, kind=kind)
    c.points = gen_points(rng, c, 6 if not exact else 3)
    return c

# ------------------------------------------------------------------------------------------------
# size classes (round 3): tables whose shape sits on round numbers, large tables, minimal axes. The model (loop-nest form, linear in
# the array size) and the code are compared bitwise on every coefficient; the exact integral is sampled at aimed points.
ROUND_BLOCKS = [16, 64, 512, 672, 1024, 4096]
CACHE_SIZES = [2048, 4096, 8192, 16384]            # floats: 8..64 KiB
MAX_OLD, MAX_NEW = 70000, 150000
BIG_KERNELS = ["symmetric", "asymmetric", "aligned", "wide", "positive", "negative"]

def cache_tile(C, N):
    return max(16, (C // N) // 16 * 16)

def prime_factors(n):
    out, p = [], 2
    while p * p <= n:
        while n % p == 0:
            out.append(p); n //= p
        p += 1
    if n > 1:
        out.append(n)
    return out

def split_product(rng, S, nparts):
    """S as a product of at most nparts factors >= 2 (fewer when S has too few prime factors; [S] itself for a prime)"""
    pf = prime_factors(S)
    rng.shuffle(pf)
    nparts = max(1, min(nparts, len(pf)))
    bins = [1] * nparts
    for i, p in enumerate(pf):
        if i < nparts:
            bins[i] *= p
        else:
            # keep the factors comparable: multiply into the smallest bin most of the time
            j = min(range(nparts), key=lambda q: bins[q]) if rng.chance(0.7) else rng.below(nparts)
            bins[j] *= p
    rng.shuffle(bins)
    return bins

def knots_for_axis(rng, order, naxes, strict=True):
    extra = naxes - order - 1
    assert extra >= 0
    style = rng.choice(["uniform", "irregular", "irregular", "integer", "dyadic"])
    if style == "dyadic":
        return gen_dyadic_knots(rng, order, extra)
    scale = 10.0 ** rng.rint(-2, 2)
    ks = gen_knots(rng, order, extra, style, scale, (rng.unit() * 20 - 10) * scale)
    if not strictly_increasing(ks):
        ks = gen_dyadic_knots(rng, order, extra)
    return ks

def new_axis_length(N, order, n):
    return (N + order + 1) * n - (order + n - 1) - 1

def aimed_point(rng, case, pos):
    """a point at which the new coefficient with multi-index [pos] (convolved axis: index in the NEW basis) contributes: in every
    dimension a non-empty knot span inside the support of that basis function"""
    t, d = case.t, case.dim
    xs = []
    for e in range(t.ndim):
        if e == d:
            k = pairwise_sorted(t.knots[d], case.kernel)
            o = t.orders[d] + len(case.kernel) - 1
        else:
            k, o = t.knots[e], t.orders[e]
        j = pos[e]
        spans = [c for c in range(j, j + o + 1) if k[c] < k[c + 1]]
        if not spans:
            return None
        c = rng.choice(spans)
        x = k[c] + (k[c + 1] - k[c]) * (0.1 + 0.8 * rng.unit())
        if not (k[c] < x < k[c + 1]):
            return None
        xs.append(x)
    return xs

def new_shape(case):
    sh = list(case.t.naxes)
    sh[case.dim] = new_axis_length(case.t.naxes[case.dim], case.t.orders[case.dim], len(case.kernel))
    return sh

def unflatten(p, shape):
    idx = []
    for n in reversed(shape):
        idx.append(p % n); p //= n
    return list(reversed(idx))

def aimed_points(rng, case, npts):
    """points aimed at chosen positions of the new coefficient array: first and last trailing position, the last few, the
    neighbourhoods of multiples of 16/64/512 counted along the trailing block, random ones; the leading and convolved indices random"""
    sh = new_shape(case)
    d = case.dim
    S = 1
    for n in sh[d + 1:]:
        S *= n
    S1 = 1
    for n in sh[:d]:
        S1 *= n
    ks = [S - 1, 0, S - 1 - rng.below(min(S, 16)), S // 2]
    for b in (16, 64, 512):
        if S > b:
            q = rng.rint(1, S // b)
            ks += [q * b - 1, min(S - 1, q * b)]
    while len(ks) < npts:
        ks.append(rng.below(S))
    rng.shuffle(ks)
    ks = [S - 1] + ks                   # the last trailing position is always sampled
    pts = []
    for k in ks:
        if len(pts) >= npts:
            break
        pos = unflatten(rng.below(S1), sh[:d]) + [rng.below(sh[d])] + unflatten(k, sh[d + 1:])
        xs = aimed_point(rng, case, pos)
        if xs is not None:
            pts.append(xs)
    return pts

def finish_big_case(rng, orders, knots, dim, n, cls, block=None, coef_style=None):
    nco = 1
    for k, o in zip(knots, orders):
        nco *= len(k) - o - 1
    cs = coef_style or rng.choice(["rand", "rand", "posneg", "ones"])
    coefs = [gen_coef(rng, cs) for _ in range(nco)]
    t = Table(orders, knots, coefs, rng.choice([math.nan, 1e300, 0.0]))
    kind = rng.choice(BIG_KERNELS)
    kernel = gen_kernel(rng, knots[dim], n, kind, dyadic=rng.chance(0.3))
    ext = None
    if rng.chance(0.3):
        ext = []
        for k, o in zip(knots, orders):
            ext += [k[0] if rng.chance(0.5) else k[o], k[len(k) - o - 1]]
    c = Case(t, dim, kernel, ext, via_c=rng.chance(0.3), exact=False, kind=kind)
    c.cls, c.block = cls, block
    c.points = aimed_points(rng, c, 8) + gen_points(rng, c, 2)
    return c

def gen_block_case(rng, cls, b=None, C=None, offset=0, force_n=None):
    """the product S of the axis lengths behind the convolved dimension is m*b + offset (b a round number, or the cache-derived tile
    for the length N of the convolved axis), factored into 1..3 trailing axes; the convolved dimension first or in the middle"""
    for _ in range(200):
        o = rng.choice([0, 0, 1, 1, 2, 3, 3, 4, 5])
        N = rng.choice([o + 1, 2, 4, 8, 12, 16, rng.rint(2, 20)])
        if N < o + 1:
            continue
        if cls == "cache-block":
            b = cache_tile(C, N)
        n = force_n if force_n is not None else rng.choice([2, 2, 3, 4, 6])
        N2 = new_axis_length(N, o, n)
        lead = rng.choice([0, 0, 1])                   # number of dimensions in front of the convolved one
        s1 = rng.choice([2, 3]) if lead else 1
        mmax = min(MAX_OLD // (s1 * N * b), MAX_NEW // (s1 * N2 * b))
        if mmax < 1:
            continue
        m = rng.rint(1, min(4, mmax))
        S = m * b + offset
        if S < 2:
            continue
        parts = split_product(rng, S, min(rng.choice([1, 2, 2, 3, 3]), 3 - lead))
        orders, knots = [], []
        if lead:
            ol = rng.rint(0, s1 - 1)
            orders.append(ol); knots.append(knots_for_axis(rng, ol, s1))
        dim = len(orders)
        orders.append(o); knots.append(knots_for_axis(rng, o, N))
        for f in parts:
            oe = rng.rint(0, min(3, f - 1))
            orders.append(oe); knots.append(knots_for_axis(rng, oe, f))
        return finish_big_case(rng, orders, knots, dim, n, cls, [S, b, m, offset])
    raise RuntimeError("gen_block_case: no shape found")

def gen_large_case(rng, where, force_n=None):
    """10^4..6*10^4 coefficients, the convolved dimension first / in the middle / last"""
    for _ in range(500):
        ndim = rng.choice([2, 3, 3, 4]) if where != "middle" else rng.choice([3, 3, 4])
        dim = 0 if where == "first" else ndim - 1 if where == "last" else rng.rint(1, ndim - 2)
        total = rng.rint(10000, 60000)
        base = total ** (1.0 / ndim)
        orders = [rng.rint(0, 3) for _ in range(ndim)]
        orders[dim] = rng.rint(0, 5)
        lens = [max(o + 1, int(round(base * math.exp(rng.unit() * 1.2 - 0.6)))) for o in orders]
        lens[dim] = max(orders[dim] + 1, min(lens[dim], 40))
        nco = 1
        for l in lens:
            nco *= l
        if not (8000 <= nco <= MAX_OLD):
            continue
        allowed = [n for n in range(2, 7) if nco // lens[dim] * new_axis_length(lens[dim], orders[dim], n) <= MAX_NEW]
        if not allowed:
            continue
        n = force_n if force_n in allowed else rng.choice(allowed)
        knots = [knots_for_axis(rng, o, l) for o, l in zip(orders, lens)]
        return finish_big_case(rng, orders, knots, dim, n, "large")
    raise RuntimeError("gen_large_case: no shape found")

def gen_minimal_case(rng, force_n=None):
    """every axis of length exactly order+1 (the minimal knot count 2*order+2)"""
    ndim = rng.choice([1, 2, 2, 3, 3, 4])
    dim = rng.below(ndim)
    orders = [rng.rint(0, 3) for _ in range(ndim)]
    orders[dim] = rng.rint(0, 5)
    n = force_n if force_n is not None else rng.choice([2, 3, 4, 5, 6])
    knots = [knots_for_axis(rng, o, o + 1) for o in orders]
    c = finish_big_case(rng, orders, knots, dim, n, "minimal")
    c.points = aimed_points(rng, c, 4) + gen_points(rng, c, 4)
    return c

def gen_size_classes(rng, tier):
    """the cases of the size classes for one run"""
    out = []
    reps = 1 if tier == "quick" else 12
    for r in range(reps):
        for b in ROUND_BLOCKS:
            for off in (0, 1, -1):
                out.append(gen_block_case(rng, "round-block", b=b, offset=off, force_n=(2 if (r + off) % 3 == 0 else 6 if (r + off) % 3 == 1 and b <= 672 else None)))
        for C in CACHE_SIZES:
            for off in (0, 0, 0, 1, -1):
                out.append(gen_block_case(rng, "cache-block", C=C, offset=off))
        for where in ("first", "middle", "last"):
            out.append(gen_large_case(rng, where, force_n=2))
            out.append(gen_large_case(rng, where, force_n=rng.choice([6, None])))
        for n in (2, 6, None, None, 2, 6, None, None):
            out.append(gen_minimal_case(rng, force_n=n))
    return out

# ================================================================================================
# the property's statement, evaluated directly on the implementation's output
def frac(x):
    return Fr(x)

class ExactConv:
    """exact value of the convolved surface at a point, and sum of |terms|"""
    def __init__(self, case):
        self.c = case
        t = case.t
        self.kn = [[Fr(x) for x in k] for k in t.knots]
        self.ker = [Fr(x) for x in case.kernel]
        self.coef = [Fr(c) for c in t.coefs]
        self.strides = [1] * t.ndim
        self._other = None
        for i in range(t.ndim - 2, -1, -1):
            self.strides[i] = self.strides[i + 1] * t.naxes[i + 1]
    def basis(self, e, x):
        t = self.c.t
        kn, o = self.kn[e], t.orders[e]
        out = []
        if e == self.c.dim:
            for j in range(t.naxes[e]):
                lo, hi = CO.conv_support(kn, o, j, self.ker)
                if lo < x < hi:
                    v = CO.conv_spec(kn, o, j, self.ker, x)
                    if v:
                        out.append((j, v))
        else:
            right = x < kn[t.naxes[e]]
            for j in range(t.naxes[e]):
                if kn[j] <= x <= kn[j + o + 1]:
                    v = CO.bspline_value(kn, j, o, x, right_continuous=right)
                    if v:
                        out.append((j, v))
        return out
    def value(self, xs):
        return self.value_at(xs, Fr(xs[self.c.dim]))
    def value_at(self, xs, xd):
        key = tuple(xs)
        if self._other is None or self._other[0] != key:
            self._other = (key, [None if e == self.c.dim else self.basis(e, Fr(x)) for e, x in enumerate(xs)])
        bases = [self.basis(e, xd) if b is None else b for e, b in enumerate(self._other[1])]
        total, absum = Fr(0), Fr(0)
        def rec(e, pos, pr):
            nonlocal total, absum
            if e == len(bases):
                term = pr * self.coef[pos]
                total += term
                absum += abs(term)
                return
            for j, v in bases[e]:
                rec(e + 1, pos + j * self.strides[e], pr * v)
        rec(0, 0, Fr(1))
        return total, absum

def structure_oracle(case, iout):
    """order' = order+n-1, knots' = sorted pairwise sums, nknots' = nknots*n, naxes' = nknots'-order'-1, other dimensions unchanged,
    strides row-major, coefficient count = prod naxes, well-formed (nknots >= 2*order+2, knots non-decreasing)"""
    t, d, n = case.t, case.dim, len(case.kernel)
    fails = []
    if iout.get("status") != "ok":
        return [("C14:convolve:status", "convolve did not complete: status=%s" % iout.get("status"))]
    def ints(k):
        return [int(v) for v in iout[k].split(",")]
    order, nknots, naxes, strides = ints("order"), ints("nknots"), ints("naxes"), ints("strides")
    if int(iout["ndim"]) != t.ndim:
        fails.append(("C14:structure:ndim", "ndim changed"))
        return fails
    if order[d] != t.orders[d] + n - 1:
        fails.append(("C14:structure:order", "order in the convolved dimension is %d, expected %d" % (order[d], t.orders[d] + n - 1)))
    rho = pairwise_sorted(t.knots[d], case.kernel)
    if iout["knots.%d" % d] != ",".join(hexd(x) for x in rho):
        got = [dfrom(int(h, 16)) for h in iout["knots.%d" % d].split(",")]
        if sorted(got) != got:
            fails.append(("C14:structure:knots-unsorted", "new knot vector is not sorted"))
        else:
            fails.append(("C14:structure:knots", "new knot vector is not the sorted list of pairwise sums"))
    if nknots[d] != len(t.knots[d]) * n:
        fails.append(("C14:structure:nknots", "nknots %d != %d" % (nknots[d], len(t.knots[d]) * n)))
    for e in range(t.ndim):
        if e != d:
            if order[e] != t.orders[e] or nknots[e] != len(t.knots[e]) or naxes[e] != t.naxes[e] or iout["knots.%d" % e] != ",".join(hexd(x) for x in t.knots[e]):
                fails.append(("C14:structure:other-dimension", "dimension %d (not convolved) changed" % e))
            lo, hi = (case.ext[2 * e], case.ext[2 * e + 1]) if case.ext else (t.knots[e][t.orders[e]], t.knots[e][t.naxes[e]])
            if iout["ext.%d" % e] != hexd(lo) + "," + hexd(hi):
                fails.append(("C14:structure:other-dimension", "extent of dimension %d (not convolved) changed" % e))
        if naxes[e] != nknots[e] - order[e] - 1:
            fails.append(("C14:structure:naxes", "naxes[%d] = %d != nknots-order-1 = %d" % (e, naxes[e], nknots[e] - order[e] - 1)))
        if nknots[e] < 2 * order[e] + 2:
            fails.append(("C14:structure:wf", "nknots[%d] < 2*order+2" % e))
    s = 1
    for e in range(t.ndim - 1, -1, -1):
        if strides[e] != s:
            fails.append(("C14:structure:strides", "strides not row-major: %s for naxes %s" % (strides, naxes)))
            break
        s *= naxes[e]
    if int(iout["ncoef"]) != s:
        fails.append(("C14:structure:ncoef", "coefficient count %s != prod naxes %d" % (iout["ncoef"], s)))
    return fails

def tolerance_K(case):
    orders = list(case.t.orders)
    orders[case.dim] += len(case.kernel) - 1
    return 16 * sum(o + 2 for o in orders)

def point_bound(case, ex, xs, rho):
    """exact value and the tolerance at one point:  K*2^-24*S + (variation of S under a few-ulp shift of x_d) + underflow floor,
    S = max of sum|terms| at x_d and at x_d -+ delta. The shift term accounts for the new knots being ROUNDED sums (the spec uses the exact
    sums): where the surface is tiny (ends of the support) a knot moved by an ulp changes it by a large relative amount."""
    d = case.dim
    K = tolerance_K(case)
    exact, absum = ex.value(xs)
    scale = max(abs(rho[0]), abs(rho[-1]), max(abs(k) for k in case.kernel), max(abs(k) for k in case.t.knots[d]))
    delta = Fr(scale) * Fr(8, 2 ** 52)
    var, S = Fr(0), absum
    for sgn in (-1, 1):
        x2 = list(xs)
        x2d = Fr(xs[d]) + sgn * delta
        e2, a2 = ex.value_at(xs, x2d)
        S = max(S, a2)
        var = max(var, abs(a2 - absum), abs(e2 - exact))
    maxc = max([abs(c) for c in case.t.coefs] + [0.0])
    floor = Fr(1, 2 ** 149) * 64 * (1 + Fr(maxc) * 64)
    return exact, absum, K * Fr(1, 2 ** 24) * S + 4 * var + floor

def value_oracle(case, qouts, stats=None):
    """ndsplineeval of the convolved table vs the exact convolution integral"""
    fails = []
    t, d = case.t, case.dim
    ex = ExactConv(case)
    rho = pairwise_sorted(t.knots[d], case.kernel)
    o2 = t.orders[d] + len(case.kernel) - 1
    na2 = len(rho) - o2 - 1
    K = tolerance_K(case)
    u = Fr(1, 2 ** 24)
    for xs, qo in zip(case.points, qouts):
        if qo is None:
            continue
        if qo.get("sc") != "1":
            fails.append(("C14:value:lookup", "point %r inside the new knot range rejected by searchcenters" % (xs,), xs))
            continue
        # C01's open finding (0/0 at a repeated knot at the upper end of full support) is not C14's business
        if xs[d] == rho[na2] and rho[na2 - 1] == rho[na2]:
            if stats is not None:
                stats["skipped_C01_D17_points"] = stats.get("skipped_C01_D17_points", 0) + 1
            continue
        exact, absum, bound = point_bound(case, ex, xs, rho)
        for path in ("f", "c", "d"):
            v = dfrom(int(qo[path], 16))
            if v != v or v in (math.inf, -math.inf):
                fails.append(("C14:value:nonfinite@order%d,n%d" % (t.orders[d], len(case.kernel)), "evaluation of the convolved table is %r at %r" % (v, xs), xs))
                break
            err = abs(Fr(v) - exact)
            if stats is not None and absum > 0 and err <= bound and bound <= 2 * K * u * absum:
                r = float(err / (u * absum))
                key = "o%d_n%d" % (t.orders[d], len(case.kernel))
                m = stats.setdefault("max_err_over_u_sumabs", {})
                if r > m.get(key, 0.0):
                    m[key] = round(r, 3)
            if err > bound:
                coefs = (qo.get("_coef") or "x").split(",")
                if abs(Fr(v) + exact) <= bound:
                    sig = "C14:value:negated@order%%2==%d" % (t.orders[d] % 2)
                elif all(c in ("00000000", "80000000") for c in coefs):
                    sig = "C14:value:all-zero@order%d" % t.orders[d]
                else:
                    sig = "C14:value:inaccurate"
                fails.append((sig, "convolved table evaluates to %.9g at %r (%s), exact integral %.9g, |err| %.3g > bound %.3g (K=%d, sum|terms| %.3g)" % (
                    v, xs, path, float(exact), float(err), float(bound), K, float(absum)), xs))
                break
    return fails

def strom_identity_test(case, mout, stats, only_interval=None):
    """TEST: sum_i trafo@Qc[i][j] * B'_i(x) == conv_spec_j(x) at order'+1 points of every non-empty new knot interval (hence as
    polynomials); with [only_interval] = l only on the interval [rho_l, rho_l+1) (the model then supplies rows l-m..l only)"""
    if "qtrafo" not in mout:
        return []
    t, d = case.t, case.dim
    kn = [Fr(x) for x in t.knots[d]]
    ker = [Fr(x) for x in case.kernel]
    rho = sorted(a + b for a in kn for b in ker)
    o, n = t.orders[d], len(ker)
    m = o + n - 1
    na2 = len(rho) - m - 1
    r0, r1 = [int(v) for v in mout.get("qrows", "0:%d" % na2).split(":")]
    tr = [[parse_q(e) for e in row.split(",")] for row in mout["qtrafo"].split(";")] if mout["qtrafo"] else []
    assert len(tr) == r1 - r0 and all(len(r) == t.naxes[d] for r in tr), (len(tr), r0, r1)
    fails = []
    neval = 0
    for l in ([only_interval] if only_interval is not None else range(len(rho) - 1)):
        if not rho[l] < rho[l + 1]:
            continue
        for s in range(m + 1):
            x = rho[l] + (rho[l + 1] - rho[l]) * Fr(s + 1, m + 2)
            bvals = [(i, CO.bspline_value(rho, i, m, x)) for i in range(max(0, l - m), min(na2, l + 1))]
            assert all(r0 <= i < r1 for i, _ in bvals)
            for j in range(t.naxes[d]):
                lhs = sum(tr[i - r0][j] * b for i, b in bvals)
                lo, hi = CO.conv_support(kn, o, j, ker)
                rhs = CO.conv_spec(kn, o, j, ker, x) if lo < x < hi else Fr(0)
                neval += 1
                if lhs != rhs:
                    fails.append(("C14:exact:strom-identity@order%d,n%d" % (o, n),
                                  "model@Qc: sum_i trafo[i][%d]*B'_i(%s) = %s but the exact convolution integral is %s" % (j, x, lhs, rhs), None))
                    stats["strom_points"] = stats.get("strom_points", 0) + neval
                    return fails
    stats["strom_points"] = stats.get("strom_points", 0) + neval
    if only_interval is None:
        stats["strom_cases"] = stats.get("strom_cases", 0) + 1
        key = "o%d_n%d" % (o, n)
        stats.setdefault("strom_by_order_n", {})[key] = stats.setdefault("strom_by_order_n", {}).get(key, 0) + 1
    return fails

def _verdict_job(k):
    items, probes, outs, impl_all = _JOB["classify"]
    n = len(items)
    c, cid, xs = items[k]
    p, l, full = probes[k]
    mo_q = outs[k].get("cl%d" % k)
    mo_f = outs[n + k].get("cl%d" % (n + k))
    io = impl_all.get(cid)
    st = {}
    if mo_q is None or mo_f is None or io is None:
        return "unknown", st
    same = all(mo_f.get(key) == v or nanlist_equal(v, mo_f.get(key, "")) for key, v in io.items() if not key.startswith("_"))
    if not same:
        return "impl!=model", st
    fl = strom_identity_test(p, mo_q, st, only_interval=l)
    return ("algorithm" if fl else "rounding"), st

def classify_inaccurate(items, impl_all, stats):
    """items: list of (case, cid, xs). For each: is the deviation from the exact integral explained by rounding alone?
    (a) the implementation's output for the case equals model@IEEE bitwise, and (b) the same Gallina term at Qc reproduces the exact
    integral on the knot interval containing the point. Returns list of verdict strings 'rounding' | 'impl!=model' | 'algorithm' | 'unknown'."""
    if not items:
        return []
    probes = []
    for k, (c, cid, xs) in enumerate(items):
        t, d = c.t, c.dim
        kn = [Fr(x) for x in t.knots[d]]
        ker = [Fr(x) for x in c.kernel]
        rho = sorted(a + b for a in kn for b in ker)
        m = t.orders[d] + len(ker) - 1
        x = Fr(xs[d])
        l = max([i for i in range(len(rho) - 1) if rho[i] < rho[i + 1] and rho[i] <= x] or [0])
        if not rho[l] < rho[l + 1]:
            l = min(i for i in range(len(rho) - 1) if rho[i] < rho[i + 1])
        t1 = Table([t.orders[d]], [t.knots[d]], [1.0] * t.naxes[d], 0.0)
        p = Case(t1, 0, c.kernel, None, False, False, [], c.kind)
        p.qc_rows = (max(0, l - m), l + 1)
        full = Case(c.t, c.dim, c.kernel, c.ext, False, False, [], c.kind)
        probes.append((p, l, full))
    allc = [p for p, _, _ in probes] + [f for _, _, f in probes]
    wd = build_dir("cases-C14-%d-classify" % os.getpid())
    mexe = model_exe()
    from concurrent.futures import ThreadPoolExecutor
    def one(i):
        f = os.path.join(wd, "cl%d.cases" % i)
        open(f, "w").write("\n".join(allc[i].lines("cl%d" % i)) + "\n")
        try:
            p = _cm.run([mexe, f], timeout=600)
            return parse_output(p.stdout) if p.returncode == 0 else {}
        except subprocess.TimeoutExpired:
            return {}
    try:
        with ThreadPoolExecutor(max_workers=NCPU) as ex:
            outs = list(ex.map(one, range(len(allc))))
    finally:
        shutil.rmtree(wd, ignore_errors=True)
    n = len(items)
    _JOB["classify"] = (items, probes, outs, impl_all)
    if n >= 8:
        import multiprocessing as mp
        with mp.get_context("fork").Pool(NCPU) as pool:
            res = pool.map(_verdict_job, range(n), chunksize=1)
    else:
        res = [_verdict_job(k) for k in range(n)]
    verdicts = []
    for v, st in res:
        verdicts.append(v)
        merge_stats(stats, st)
        if v in ("rounding", "algorithm"):
            stats["classified_" + v] = stats.get("classified_" + v, 0) + 1
    return verdicts

# ================================================================================================
_EXE = {}
def impl_exe():
    if "impl" not in _EXE:
        _EXE["impl"] = build_harness("C14_harness", ["C14_harness.cpp"], flavour="faithful")
    return _EXE["impl"]
def model_exe():
    if "model" not in _EXE:
        _EXE["model"] = build_extracted("conv")
    return _EXE["model"]

def execute(cases, tag, model=True):
    """runs cases through implementation and model (sharded over the cores); returns per-case dicts"""
    wd = build_dir("cases-C14-%d-%s" % (os.getpid(), tag))
    nsh = min(NCPU, max(1, len(cases)))
    shards = [[] for _ in range(nsh)]
    nq = [0] * nsh
    for i, c in enumerate(cases):
        shards[i % nsh] += c.lines("%s%d" % (tag, i))
        nq[i % nsh] += 1 + len(c.points)
    files = []
    for s in range(nsh):
        f = os.path.join(wd, "%s_%d.cases" % (tag, s))
        open(f, "w").write("\n".join(shards[s]) + "\n")
        files.append(f)
    iexe = impl_exe()
    mexe = model_exe() if model else None
    from concurrent.futures import ThreadPoolExecutor
    impl, mod, crashes = {}, {}, []
    def run_model(f):
        p = _cm.run([mexe, f], timeout=3000)
        if p.returncode != 0:
            raise BuildError("model driver failed: " + p.stderr[-2000:])
        return parse_output(p.stdout)
    def run_i(f, n):
        try:
            return run_impl(iexe, f, n, timeout=3000)
        except subprocess.TimeoutExpired:
            return {}, [("<timeout>", "timeout")]
    with ThreadPoolExecutor(max_workers=NCPU) as ex:
        fi = [ex.submit(run_i, f, n) for f, n in zip(files, nq)]
        fm = [ex.submit(run_model, f) for f in files] if model else []
        for fu in fi:
            o, cr = fu.result()
            impl.update(o)
            crashes += cr
        for fu in fm:
            mod.update(fu.result())
    shutil.rmtree(wd, ignore_errors=True)
    return impl, mod, crashes

def compare_case(cid, impl, mod):
    """exact comparison of every output of the convolution; returns list of (key, impl, model)"""
    io, mo = impl.get(cid), mod.get(cid)
    if io is None or mo is None:
        return [("<missing line>", str(io)[:80], str(mo)[:80])]
    diffs = []
    for k, v in io.items():
        if k not in mo:
            diffs.append((k, v[:80], "<no model key>"))
        elif mo[k] != v and not nanlist_equal(v, mo[k]):
            a, b = v.split(","), mo[k].split(",")
            where = [i for i, (x, y) in enumerate(zip(a, b)) if x != y]
            idx = where[0] if where else -1
            diffs.append((k, "len %d, %d entries differ, first at %d: %s, last at %d" % (len(a), len(where), idx, a[idx] if idx >= 0 else "", where[-1] if where else -1),
                          "len %d: %s" % (len(b), b[idx] if idx >= 0 else "")))
    return diffs

def coef_diff_positions(io, mo, cap=6):
    """positions of the new coefficient array at which implementation and model differ: first, last and some in between"""
    if not io or not mo or "coef" not in io or "coef" not in mo:
        return []
    a, b = io["coef"].split(","), mo["coef"].split(",")
    where = [i for i, (x, y) in enumerate(zip(a, b)) if x != y and not nanlist_equal(x, y)]
    if len(where) <= cap:
        return where
    step = (len(where) - 1) / float(cap - 1)
    return sorted(set(where[int(round(i * step))] for i in range(cap)))

def nanlist_equal(a, b):
    la, lb = a.split(","), b.split(",")
    if len(la) != len(lb):
        return False
    for x, y in zip(la, lb):
        if x != y:
            try:
                if len(x) == 16 and is_nan_hex(x) and is_nan_hex(y):
                    continue
                if len(x) == 8:
                    fx, fy = ffrom(int(x, 16)), ffrom(int(y, 16))
                    if fx != fx and fy != fy:
                        continue
            except ValueError:
                pass
            return False
    return True

def payload_of(case, cid, impl, mod, extra=None):
    p = {"case": case.to_json(), "describe": case.describe(), "case_lines": case.lines(cid),
         "impl_output": {k: (v if len(v) < 400 else v[:400] + "...") for k, v in (impl.get(cid) or {}).items()},
         "model_output": {k: (v if len(v) < 400 else v[:400] + "...") for k, v in (mod.get(cid) or {}).items()},
         "impl_points": [{k: v for k, v in (impl.get("%s.p%d" % (cid, i)) or {}).items() if not k.startswith("_")} for i in range(len(case.points))]}
    p.update(extra or {})
    return p

def shrink(case, sigbase):
    """try the 1-dimensional reduction (convolved dimension only, unit coefficients, default extents)"""
    t, d = case.t, case.dim
    cands = []
    if t.ndim > 1 or len(set(t.coefs)) > 1 or case.ext:
        k = t.knots[d]
        t1 = Table([t.orders[d]], [k], [1.0] * (len(k) - t.orders[d] - 1), 0.0)
        c1 = Case(t1, 0, case.kernel, None, case.via_c, False, [[xs[d]] for xs in case.points], case.kind)
        cands.append(c1)
    for c1 in cands:
        impl, _, crashes = execute([c1], "shrink", model=False)
        if crashes or "shrink0" not in impl:
            continue
        fl = structure_oracle(c1, impl["shrink0"]) + value_oracle(c1, [impl.get("shrink0.p%d" % i) for i in range(len(c1.points))])
        fl = [f for f in fl if f[0].split("@")[0] == sigbase.split("@")[0]]
        if fl:
            bad = [f[2] for f in fl if len(f) > 2 and f[2]]
            if bad:
                c1.points = [bad[0]]
            return c1, impl
    return None, None

def merge_stats(stats, d):
    for k, v in d.items():
        if isinstance(v, dict):
            t = stats.setdefault(k, {})
            for kk, vv in v.items():
                t[kk] = max(t.get(kk, 0), vv) if k.startswith("max_") else t.get(kk, 0) + vv
        elif isinstance(v, list):
            stats.setdefault(k, []).extend(v)
        else:
            stats[k] = stats.get(k, 0) + v

_JOB = {}
def _case_job(i):
    cases, tag, impl, mod, model = _JOB["args"]
    c = cases[i]
    cid = "%s%d" % (tag, i)
    st = {}
    if cid not in impl:
        return i, None, [], st
    st["convolutions"] = 1
    diffs = []
    if model:
        diffs = compare_case(cid, impl, mod)
        st["compared_values"] = len(impl[cid])
        st["compared_coefficients"] = int(impl[cid].get("ncoef", 0))
    qouts = [impl.get("%s.p%d" % (cid, k)) for k in range(len(c.points))]
    for q in qouts:
        if q is not None:
            q["_coef"] = impl[cid].get("coef", "")
    fails = structure_oracle(c, impl[cid]) + value_oracle(c, qouts, st)
    st["oracle_points"] = sum(1 for q in qouts if q is not None)
    if model and cid in mod:
        fails += strom_identity_test(c, mod[cid], st)
    return i, diffs, fails, st

def analyse(cases, tag, impl, mod, crashes, out, stats, model=True):
    ndiff = nviol = 0
    pending = []
    _JOB["args"] = (cases, tag, impl, mod, model)
    if len(cases) >= 8:
        import multiprocessing as mp
        with mp.get_context("fork").Pool(NCPU) as pool:
            results = pool.map(_case_job, range(len(cases)), chunksize=1)
    else:
        results = [_case_job(i) for i in range(len(cases))]
    for i, diffs, fails, st in results:
        c = cases[i]
        cid = "%s%d" % (tag, i)
        merge_stats(stats, st)
        if diffs is None:
            continue
        if diffs:
            ndiff += 1
            stats.setdefault("diff_cases", []).append((cid, diffs[:4]))
        seen = set()
        for f in fails:
            sig, msg = f[0], f[1]
            if sig in seen:
                continue
            seen.add(sig)
            nviol += 1
            if sig == "C14:value:inaccurate" or sig.startswith("C14:value:nonfinite"):
                pending.append((c, cid, f[2], sig, msg))
                continue
            c2, impl2 = (None, None)
            if not sig.startswith("C14:exact"):
                try:
                    c2, impl2 = shrink(c, sig)
                except Exception:
                    c2 = None
            if c2 is not None:
                p = payload_of(c2, "shrink0", impl2, {}, {"oracle_verdict": msg, "shrunk_from": c.describe()})
            else:
                p = payload_of(c, cid, impl, mod, {"oracle_verdict": msg})
            out.violation(sig, msg, p)
    # value failures that may be pure rounding (catastrophic cancellation in the double divided differences): classify each
    # (bounded: beyond CLASSIFY_CAP failing cases per phase the remaining ones are only counted — they come from the same generator stream)
    if len(pending) > CLASSIFY_CAP:
        stats["inaccurate_cases_beyond_classification_cap"] = stats.get("inaccurate_cases_beyond_classification_cap", 0) + len(pending) - CLASSIFY_CAP
        step = len(pending) / float(CLASSIFY_CAP)
        pending = [pending[int(i * step)] for i in range(CLASSIFY_CAP)]
    verdicts = classify_inaccurate([(c, cid, xs) for c, cid, xs, _, _ in pending], impl, stats)
    for (c, cid, xs, sig, msg), v in zip(pending, verdicts):
        o, n = c.t.orders[c.dim], len(c.kernel)
        if v == "rounding":
            sig2 = "C14:value:rounding-cancellation"
            msg2 = msg + " — implementation == model@IEEE bitwise and the same algorithm at Qc reproduces the integral exactly: the error is floating-point cancellation in the divided differences"
            stats.setdefault("rounding_cancellation_by_order_n", {})
            key = "o%d_n%d_%s" % (o, n, c.kind)
            stats["rounding_cancellation_by_order_n"][key] = stats["rounding_cancellation_by_order_n"].get(key, 0) + 1
        elif v == "algorithm":
            sig2, msg2 = "C14:value:algorithm@order%d,n%d" % (o, n), msg + " — the algorithm at Qc does not reproduce the integral either"
        elif v == "impl!=model":
            dd = [x for x in compare_case(cid, impl, mod) if x[0] == "coef"] if mod else []
            sig2, msg2 = "C14:value:inaccurate@order%d,n%d" % (o, n), msg + " — and the implementation differs from the model" + (
                " (new coefficient array, shape %s: implementation %s; model %s)" % (new_shape(c), dd[0][1], dd[0][2]) if dd else "")
        else:
            sig2, msg2 = "C14:value:inaccurate@order%d,n%d" % (o, n), msg + " — (could not be classified)"
        c1 = Case(c.t, c.dim, c.kernel, c.ext, c.via_c, False, [xs], c.kind)
        out.violation(sig2, msg2, payload_of(c1, cid, impl, mod, {"oracle_verdict": msg2, "classification": v}))
    for qid, detail in crashes:
        cid = qid.split(".")[0]
        idx = int(cid[len(tag):]) if cid.startswith(tag) and cid[len(tag):].isdigit() else None
        p = payload_of(cases[idx], cid, impl, mod) if idx is not None else {}
        p["crash"] = detail
        out.violation("C14:crash" if detail != "timeout" else "C14:hang", "implementation crashed or hung in convolve/evaluation: " + detail.strip().split("\n")[-1][:200], p)
        nviol += 1
    return ndiff, nviol

def directed_points(cases, tag, impl, mod, out, stats, rng):
    """after a bitwise disagreement on the coefficients of a case: ask the property's oracle AT the disagreeing positions (points
    aimed at the first / last / some intermediate differing coefficients). Turns a correspondence break into a concrete failing
    input whenever the difference is visible in the values. Returns 0 (the disagreement itself is already counted)."""
    todo = []
    for cid, _ in stats.get("diff_cases", []):
        if not cid.startswith(tag) or not cid[len(tag):].isdigit():
            continue
        c = cases[int(cid[len(tag):])]
        where = coef_diff_positions(impl.get(cid), mod.get(cid))
        pts = []
        for p in where:
            for _ in range(3):
                xs = aimed_point(rng, c, unflatten(p, new_shape(c)))
                if xs is not None:
                    pts.append(xs); break
        if pts:
            c2 = Case(c.t, c.dim, c.kernel, c.ext, c.via_c, False, pts, c.kind)
            c2.cls, c2.block = c.cls, c.block
            todo.append(c2)
        if len(todo) >= 24:
            break
    if todo:
        atag = tag + "aim"
        impl2, mod2, crashes2 = execute(todo, atag)
        keep = stats.get("diff_cases", [])
        analyse(todo, atag, impl2, mod2, crashes2, out, stats)
        stats["diff_cases"] = keep            # the same disagreements: not counted twice
        stats["directed_oracle_points"] = stats.get("directed_oracle_points", 0) + sum(len(c.points) for c in todo)
    return 0

def load_corpus():
    d = os.path.join(VERIF, "corpus", "C14")
    out = []
    if os.path.isdir(d):
        for f in sorted(os.listdir(d)):
            if f.endswith(".json"):
                out.append(Case.from_json(json.load(open(os.path.join(d, f)))["case"]))
    return out

def replay(path, out):
    p = json.load(open(path))
    if "case" not in p:
        print("replay file names a broken obligation, not an input: %s" % p.get("broken"))
        return {"evaluations": 1, "distinct_nontrivial": 1, "rule": "replay of " + path}
    c = Case.from_json(p["case"])
    impl, mod, crashes = execute([c], "replay")
    stats = {}
    nd, nv = analyse([c], "replay", impl, mod, crashes, out, stats)
    print("case: " + c.describe())
    for k, v in sorted(impl.items()):
        print("impl  %s %s" % (k, {a: (b if len(b) < 200 else b[:200] + "...") for a, b in v.items() if not a.startswith("_")}))
    for k, v in sorted(mod.items()):
        print("model %s %s" % (k, {a: (b if len(b) < 200 else b[:200] + "...") for a, b in v.items()}))
    print("replay: %d model/implementation disagreements, %d oracle failures: %s" % (nd, nv, [v[0] for v in out.violations]))
    return {"evaluations": 1 + len(c.points), "distinct_nontrivial": 1, "rule": "replay of " + path, "samples": [c.describe()]}

def run(info, out):
    tier, seed = info["tier"], info["seed"]
    if info.get("replay"):
        return replay(info["replay"], out)
    assert CO.selftest()
    stats = {}
    nconv = 120 if tier == "quick" else 6000
    nexact = 40 if tier == "quick" else 600
    rng = Rng(seed).fork("C14")
    total_eval = 0
    corpus = load_corpus()
    if corpus:
        impl, mod, crashes = execute(corpus, "corpus")
        stats["corpus_disagreements"] = analyse(corpus, "corpus", impl, mod, crashes, out, stats)[0]
        directed_points(corpus, "corpus", impl, mod, out, stats, rng.fork("aim-corpus"))
        stats["corpus_cases"] = len(corpus)
        total_eval += sum(1 + len(c.points) for c in corpus)
    cases = []
    # every (order, n) pair of the property's range first, then random
    for o in range(6):
        for n in range(2, 7):
            cases.append(gen_case(rng, force_order=o, force_n=n))
    while len(cases) < nconv:
        cases.append(gen_case(rng))
    ex_cases = []
    for o in range(6):
        for n in range(2, 7):
            if tier != "quick" or (o + n) % 2 == seed % 2 or o + n <= 4:
                ex_cases.append(gen_case(rng, exact=True, force_order=o, force_n=n))
    while len(ex_cases) < nexact:
        ex_cases.append(gen_case(rng, exact=True))
    # call HISTORIES: a convolution right after another one in the same process whose inputs agree in part — the same kernel and
    # order and a knot vector equal in its first naxes entries but different in the last order+1; the same knots with another
    # kernel; the same everything in another dimension count. (execute() deals case i to process i mod NCPU: a sibling is placed
    # NCPU positions after its original so that it is the very next call of that process.)
    rh = rng.fork("histories")
    npairs = NCPU * (1 if tier == "quick" else 6)
    firsts, seconds = [], []
    for i in range(npairs):
        a = gen_case(rh.fork("a%d" % i))
        t, d = a.t, a.dim
        o, k = t.orders[d], list(t.knots[d])
        na = len(k) - o - 1
        how = rh.choice(["tail-knots", "tail-knots", "last-knot", "kernel", "coefs"])
        k2, ker2, coefs2 = list(k), list(a.kernel), list(t.coefs)
        if how == "tail-knots":
            w = (k[-1] - k[na - 1]) or 1.0
            k2 = k[:na] + [k[na - 1] + (v - k[na - 1]) * 1.5 + 0.125 * w * (j + 1) for j, v in enumerate(k[na:])]
        elif how == "last-knot":
            k2 = k[:-1] + [k[-1] + abs(k[-1] - k[0]) * 0.25 + 1e-3]
        elif how == "kernel":
            ker2 = [v * 1.25 for v in a.kernel]
        else:
            coefs2 = [to_f32(c * 0.5 + 1.0) for c in t.coefs]
        if not strictly_increasing(k2):
            k2 = list(k)
        kn2 = [list(x) for x in t.knots]; kn2[d] = k2
        b = Case(Table(list(t.orders), kn2, coefs2, t.pad), d, ker2, None, via_c=a.via_c, exact=False, kind=a.kind)
        b.points = gen_points(rh.fork("p%d" % i), b, 6)
        firsts.append(a); seconds.append(b)
    hist = []
    for b0 in range(0, npairs, NCPU):
        hist += firsts[b0:b0 + NCPU] + seconds[b0:b0 + NCPU]
    stats["history_pairs"] = npairs
    allc = cases + ex_cases
    himpl, hmod, hcr = execute(hist, "hist")
    hd, hv = analyse(hist, "hist", himpl, hmod, hcr, out, stats)
    total_eval += sum(1 + len(c.points) for c in hist)
    impl, mod, crashes = execute(allc, "main")
    ndiff, nviol = analyse(allc, "main", impl, mod, crashes, out, stats)
    ndiff += hd; nviol += hv
    ndiff += stats.get("corpus_disagreements", 0)
    total_eval += sum(1 + len(c.points) for c in allc)
    ndiff += directed_points(allc, "main", impl, mod, out, stats, rng.fork("aim-main"))
    # the size classes (round-number trailing blocks, large tables, minimal axes): bitwise everywhere, the exact integral sampled
    big = gen_size_classes(rng.fork("size-classes"), tier)
    BATCH = 48
    for b0 in range(0, len(big), BATCH):
        part = big[b0:b0 + BATCH]
        tag = "big%d_" % (b0 // BATCH)
        impl_b, mod_b, crashes_b = execute(part, tag)
        nd_b, nv_b = analyse(part, tag, impl_b, mod_b, crashes_b, out, stats)
        nd_b += directed_points(part, tag, impl_b, mod_b, out, stats, rng.fork("aim-" + tag))
        for i, c in enumerate(part):          # keep what the evidence samples need, drop the bulk
            if b0 == 0 and i < 2:
                impl["%s%d" % (tag, i)] = impl_b.get("%s%d" % (tag, i), {})
        ndiff += nd_b
        nviol += nv_b
        total_eval += sum(1 + len(c.points) for c in part)
    stats["diff_cases_main"] = [x for x in stats.get("diff_cases", []) if x[0].startswith("main")]
    searched = 0
    known = open_signatures("C14")
    fresh = [v for v in out.violations if v[0] not in known]
    if (ndiff or not info["proof_ok"]) and not fresh:
        rng2 = Rng(seed + 7919).fork("C14-search")
        more = [gen_case(rng2) for _ in range(10 * nconv if tier == "quick" else 2 * nconv)]
        for r in range(4):
            more += gen_size_classes(rng2.fork("size-classes-%d" % r), "quick")
        impl2, _, crashes2 = execute(more, "search", model=False)
        analyse(more, "search", impl2, {}, crashes2, out, stats, model=False)
        searched = sum(1 + len(c.points) for c in more)
        fresh = [v for v in out.violations if v[0] not in known]
        if not fresh and ndiff:
            cid, diffs = stats["diff_cases"][0]
            if cid.startswith("main") and cid[4:].isdigit():
                c = allc[int(cid[4:])]
                p = payload_of(c, cid, impl, mod, {"broken": "correspondence " + CORRESPONDENCE, "disagreements": diffs, "no_failing_input_found": True})
            else:
                p = {"broken": "correspondence " + CORRESPONDENCE, "disagreements": diffs, "no_failing_input_found": True, "case_id": cid}
            out.violation("C14:correspondence:" + diffs[0][0].split(".")[0], "model and implementation disagree on %s; the property oracle found no failing input" % diffs[0][0], p)
    elif ndiff and fresh:
        out.notes.append("model and implementation disagree on %d cases: %s" % (ndiff, stats["diff_cases"][:2]))
    everything = allc + big
    distinct = set(c.key() for c in everything if c.nontrivial())
    dist = {"order_in_convolved_dim": {}, "kernel_knots": {}, "kernel_kind": {}, "ndim": {}, "dim": {}, "entry": {}, "coinciding_sums": 0, "lower_extent_partial": 0,
            "size_class": {}, "size_class_by_kernel_knots": {}, "position_of_convolved_dim": {}, "trailing_block": {}, "old_coefficients": {}, "all_axes_minimal": 0,
            "convolved_axis_minimal": 0}
    for c in everything:
        nco = len(c.t.coefs)
        for k, v in (("order_in_convolved_dim", c.t.orders[c.dim]), ("kernel_knots", len(c.kernel)), ("kernel_kind", c.kind), ("ndim", c.t.ndim), ("dim", c.dim),
                     ("entry", "C wrapper" if c.via_c else "member"), ("size_class", c.cls), ("size_class_by_kernel_knots", "%s/n%d" % (c.cls, len(c.kernel))),
                     ("position_of_convolved_dim", "only" if c.t.ndim == 1 else "first" if c.dim == 0 else "last" if c.dim == c.t.ndim - 1 else "middle"),
                     ("old_coefficients", "<100" if nco < 100 else "<1000" if nco < 1000 else "<10000" if nco < 10000 else "<30000" if nco < 30000 else ">=30000")):
            dist[k][str(v)] = dist[k].get(str(v), 0) + 1
        if c.block:
            S, b, m, off = c.block
            key = "%s:%d*m%+d" % (c.cls, b, off) if c.cls == "round-block" else "%s:tile(C/N)*m%+d" % (c.cls, off)
            dist["trailing_block"][key] = dist["trailing_block"].get(key, 0) + 1
        if all(na == o + 1 for na, o in zip(c.t.naxes, c.t.orders)):
            dist["all_axes_minimal"] += 1
        if c.t.naxes[c.dim] == c.t.orders[c.dim] + 1:
            dist["convolved_axis_minimal"] += 1
        rho = pairwise_sorted(c.t.knots[c.dim], c.kernel)
        if len(set(rho)) < len(rho):
            dist["coinciding_sums"] += 1
        if c.ext and c.ext[2 * c.dim] < c.t.knots[c.dim][c.t.orders[c.dim]]:
            dist["lower_extent_partial"] += 1
    samples = [{"case": c.describe(), "impl": {k: impl.get("main%d" % i, {}).get(k, "")[:100] for k in ("order", "nknots", "naxes", "strides")},
                "point0": impl.get("main%d.p0" % i)} for i, c in list(enumerate(allc))[:3]]
    samples += [{"case": c.describe(), "impl": {k: impl.get("big0_%d" % i, {}).get(k, "")[:100] for k in ("order", "nknots", "naxes", "strides", "ncoef")},
                 "point0": None} for i, c in list(enumerate(big))[:2]]
    for s in samples:
        if s["point0"]:
            s["point0"] = {k: v for k, v in s["point0"].items() if not k.startswith("_")}
    cov = {"evaluations": total_eval + searched, "distinct_nontrivial": len(distinct), "rule": RULE, "samples": samples,
           "traces_validated_against_impl": stats.get("convolutions", 0), "compared_values": stats.get("compared_values", 0),
           "compared_coefficients_bitwise": stats.get("compared_coefficients", 0), "model_vs_impl_disagreeing_cases": ndiff,
           "oracle_points_vs_exact_integral": stats.get("oracle_points", 0),
           "measured_max_error_over_2^-24_sum_abs_terms_by_order_n": stats.get("max_err_over_u_sumabs", {}),
           "strom_identity_TEST": {"cases": stats.get("strom_cases", 0), "exact_point_identities": stats.get("strom_points", 0), "by_order_n": stats.get("strom_by_order_n", {}),
                                   "note": "test, not a theorem: model@Qc transfer matrix expanded in the new basis equals the exact convolution integral as piecewise polynomials"},
           "known_finding_rounding_cancellation": {"points_classified_as_pure_rounding": stats.get("classified_rounding", 0),
                                                   "classified_as_algorithm_error": stats.get("classified_algorithm", 0),
                                                   "by_order_n_kind": stats.get("rounding_cancellation_by_order_n", {}),
                                                   "failing_cases_beyond_classification_cap": stats.get("inaccurate_cases_beyond_classification_cap", 0)},
           "skipped_points_C01_D17": stats.get("skipped_C01_D17_points", 0),
           "directed_oracle_points_after_disagreement": stats.get("directed_oracle_points", 0),
           "size_class_cases": len(big),
           "input_distribution": dist, "search_volume_after_break": searched, "corpus_cases": stats.get("corpus_cases", 0)}
    return cov
