"""C03 — evaluation result independent of the evaluation path selected."""
from evalfam import *

PROPERTIES_FILE = "Properties_C03"
ASSUMPTIONS = ["bit-identity theorems quantify over every arithmetic (no float semantics assumed)",
               "dispatch table translated from get_evaluator by tools/translate_tables.py (fails closed); the routine actually selected at run time is compared with the model's selection by function-pointer identity",
               "SIMD lanes modelled as independent scalar lanes performing the scalar routine's operations (bspline_multi.h); checked bitwise on this run's cases",
               "integer index arithmetic unbounded"]

class C03(EvalCheck):
    PROP = "C03"
    CORRESPONDENCE = "EvalModel/Dispatch vs bspline_eval.h, bspline_multi.h, cinter (all paths, both PHOTOSPLINE_NO_EVAL_TEMPLATES settings)"
    RULE = ("tables of 1..9 dims x order patterns {all 2, all 3, all k (k in 0..5), the translated orders_are patterns, their near misses (extended by 1..3 dimensions, cut short, one entry off), constant-but-one, random mixed} x float/double x "
            "with and without PHOTOSPLINE_NO_EVAL_TEMPLATES (two harness builds); points: knots, float neighbours, margins, upper end, random; "
            "per point: value, every single-bit derivative mask, a random mask, gradient, one arbitrary-order derivative, call operators, C wrappers; "
            "non-trivial = some coordinate not a plain interior random point; distinct by (knots, orders, coordinate bits, masks)")
    def volume(self, tier):
        return 120 if tier == "quick" else 4000
    def flavours(self):
        return [("t", dict(extra_flags=[])), ("n", dict(extra_flags=["-DPHOTOSPLINE_NO_EVAL_TEMPLATES"]))]
    def gen(self, rng, n):
        cases = []
        big = n > 1000
        for ti in range(n):
            nd = rng.rint(1, 9)
            pat = rng.choice(["c2", "c3", "const", "known", "mixed", "mixed", "known_ext", "known_ext", "known_cut", "known_perturb", "const_but_one"])
            t = gen_table(rng, ndim=nd, max_coefs=(60000 if big else 7000), pattern=pat, coef_style=rng.choice(["rand", "posneg"]))
            qs = []
            for qi in range(6):
                xs, cl = gen_point(rng, t, IN_CLASSES)
                masks = [0] + [1 << j for j in range(t.ndim)] + [rng.below(2 ** t.ndim)]
                ks = [[rng.rint(0, o + 1) for o in t.orders]]
                qs.append((xs, sorted(set(masks)), ks, [], cl))
            cases.append((t, qs))
        return add_history_twins(rng, cases)
    def oracle(self, t, q, iout, mout):
        """the property on the implementation alone: every path returns the same bits"""
        fails = []
        groups = {}
        for k, v in iout.items():
            parts = k.split(".")
            if parts[0] in ("sc",):
                groups.setdefault("sc", []).append((k, v))
            elif parts[0] == "var":
                continue
            else:
                groups.setdefault(".".join(parts[:-1]), []).append((k, v))
        for g, kv in groups.items():
            ref = kv[0]
            for k, v in kv[1:]:
                if not hexlist_equal_mod_nan(ref[1], v):
                    fails.append(("C03:path-mismatch:" + g.split(".")[-1][0] + ":" + k.split(".")[-1].rstrip("tn"), "%s=%s but %s=%s" % (ref[0], ref[1], k, v)))
        # value lane and derivative lanes of the gradient evaluation
        for pfx in ("f", "d"):
            g = iout.get(pfx + ".g.member")
            if g and g != "THROW":
                lanes = g.split(",")
                v0 = iout.get(pfx + ".m0.member")
                if v0 and not hexlist_equal_mod_nan(v0, lanes[0]):
                    fails.append(("C03:value-lane", "%s gradient lane 0 %s != plain value %s" % (pfx, lanes[0], v0)))
                for j in range(t.ndim):
                    vj = iout.get("%s.m%d.member" % (pfx, 1 << j))
                    if vj and not hexlist_equal_mod_nan(vj, lanes[j + 1]):
                        fails.append(("C03:deriv-lane", "%s gradient lane %d %s != bitmask derivative %s" % (pfx, j + 1, lanes[j + 1], vj)))
        return fails

def run(info, out):
    return C03().run(info, out)
