"""C02 — derivative and gradient evaluations are the true partial derivatives."""
from evalfam import *
import oracle_exact
from C01 import C01, worst_region

PROPERTIES_FILE = "Properties_C02"
TRUSTED_EXTRA = ["standard-library axioms used by exactly three theorems, C02_formula_is_the_derivative, C02_formula_is_the_derivative_repeated and C02_formula_k_is_the_kth_derivative (real analysis via Coquelicot): ClassicalDedekindReals.sig_not_dec, ClassicalDedekindReals.sig_forall_dec, FunctionalExtensionality.functional_extensionality_dep, Classical_Prop.classic; every other theorem is closed under the global context"]
ASSUMPTIONS = ["'true partial derivative': the evaluation theorems equate the code with de Boor's derivative formula (BSpline.dBfun); that the formula is the derivative of the polynomial piece is proved for non-decreasing knots with the dropped-term convention (algebraically over any ordered field: C02_piece_derivative_formula(_repeated); analytically over R at points strictly inside knot intervals, for every derivative order: C02_formula_k_is_the_kth_derivative); at the knots themselves the one-sided convention is part of the specification (BSpline.side_of)",
               "rounding bound measured against exact rationals, not proved; bound uses the magnitudes of the terms inside the derivative formula",
               "Python exact oracle transcribes BSpline.v; cross-checked against the extracted Coq definitions on Qc on small tables every run"]

D3 = "C02:deriv>=2@x>=upper_full_support_knot"

class C02(C01):
    PROP = "C02"
    CORRESPONDENCE = "EvalModel (bspline_deriv_nonzero, bspline_nonzero, bspline_deriv, gradient lanes) vs ndsplineeval(mask), ndsplineeval_gradient, ndsplineeval_deriv (member, evaluator, C)"
    RULE = ("tables as C01 (1..9 dims; gradient for <= 7); per point: every subset of dimensions as derivative bitmask for ndim <= 4 (sampled above), the gradient, "
            "arbitrary-order derivative vectors with entries 0..order+1 (entries >= 2 only along dimensions with strictly increasing knots); points in interior, margins, on knots and "
            "their float neighbours; bitwise vs the model in both precisions, and vs the exact rational derivative of the tensor-product sum with the measured rounding bound; "
            "non-trivial = some coordinate not a plain interior point; distinct by (knots, orders, coefficients, coordinate bits, masks, k-vectors)")
    def volume(self, tier):
        return 100 if tier == "quick" else 3000
    def keyfilter(self, k):
        return not k.startswith("sc.") and not k.startswith("var.")
    def masks_for(self, t, rng):
        if t.ndim <= 4:
            return list(range(2 ** t.ndim))
        return sorted(set([0] + [1 << j for j in range(t.ndim)] + [rng.below(2 ** t.ndim) for _ in range(4)]))
    def ks_for(self, t, rng):
        out = []
        for _ in range(2):
            kv = []
            for d, o in enumerate(t.orders):
                strict = all(a < b for a, b in zip(t.knots[d], t.knots[d][1:]))
                kv.append(rng.rint(0, o + 1) if strict else rng.rint(0, 1))
            out.append(kv)
        return out
    MASKS = lambda self, t, rng: self.masks_for(t, rng)
    KS = lambda self, t, rng: self.ks_for(t, rng)
    def checks_for(self, t, q, iout):
        out = []
        for m in q[1]:
            out.append(("m%d" % m, [(m >> d) & 1 for d in range(t.ndim)]))
        for kv in q[2]:
            out.append(("k" + ",".join(str(v) for v in kv), list(kv)))
        return out
    def kind(self, label, kv):
        if label.startswith("m"):
            return "bitmask" if any(kv) else "value"
        return "deriv" + str(max(kv))
    def oracle(self, t, q, iout, mout):
        fails = C01.oracle(self, t, q, iout, mout)
        xs = q[0]
        # D3: derivative order >= 2 on a knot at or above the upper end of full support
        def is_d3(sig, msg):
            for kv in q[2]:
                for d, k in enumerate(kv):
                    kk = t.knots[d]; na = len(kk) - t.orders[d] - 1
                    if k >= 2 and xs[d] >= kk[na] and xs[d] in kk:
                        return True
            return False
        out = []
        for sig, msg in fails:
            if sig.startswith("C02:deriv") and int(sig.split("@")[0][len("C02:deriv"):]) >= 2 and is_d3(sig, msg):
                sig = D3
            out.append((sig, msg))
        fails = out
        # gradient: component 0 is the plain value; components judged against the exact derivatives
        if len(t.coefs) <= 20000 and all(math.isfinite(c) for c in t.coefs):
            reg = worst_region(t, xs)
            for k, v in iout.items():
                p = k.split(".")
                if p[1] != "g" or v == "THROW":
                    continue
                lanes = v.split(",")
                ref = iout.get("%s.m0.%s" % (p[0], p[2]))
                if ref is not None and not hexlist_equal_mod_nan(ref, lanes[0]):
                    fails.append(("C02:gradient-value-lane", "%s lane 0 = %s differs from plain value %s" % (k, lanes[0], ref)))
                if p[2] not in ("member", "evt", "evn"):     # the table's own gradient and the evaluator's (templated / generic build)
                    continue
                for j in range(len(lanes)):
                    kv = [1 if d == j - 1 else 0 for d in range(t.ndim)]
                    exact, absum, ufl = self._ps.spec(kv)
                    if absum > (1e36 if p[0] == "f" else 1e300):
                        continue
                    val = dfrom(int(lanes[j], 16))
                    ok, eb = tolerance_ok(val, exact, absum, [o + 1 for o in t.orders], p[0], ufl)
                    if not ok:
                        sig = "C01:x==knots[order]==knots[naxes]" if reg == "upper-end-repeated" else "C02:gradient@%s" % reg
                        fails.append((sig, "%s lane %d = %r but exact is %.17g (|err|,bound=%s)" % (k, j, val, float(exact), eb)))
        return fails

def run(info, out):
    return C02().run(info, out)
