"""C11 — the non-negative least-squares solvers return the constrained optimum.

Correspondence + oracle (DESIGN §4 C11):
  * the REAL solvers (nnls_normal_block3, nnls_normal_block, nnls_normal_block_updown, nnls_lawson_hanson on
    the normal equations and on the least-squares system) are run by harness/C11_harness.c on small SPD
    systems with integer/dyadic data (random, degenerate, ties, badly scaled) and on larger sparse systems;
  * the exact optimum comes from nnls_exact.nnls_optimum (exact active-set method whose answer is certified by
    the exact KKT test; C11_kkt_unique makes "the" optimum well defined) — cross-checked against the Coq
    specification nnls_spec (2^n enumeration, extracted) on the tiny cases;
  * the Coq model NnlsModel.block3 (extracted, exact rationals) is compared with a python mirror (exactly) and
    with the real block3 (trace of the solver's own verbose output, final active set, x) on the cases whose
    exact decision margins are not tiny;
  * the Coq models NnlsModel2.pjv_block / pjv_updown / lh_normaleq (extracted) are compared with their python mirrors (exactly)
    and with the real nnls_normal_block / nnls_normal_block_updown / nnls_lawson_hanson: the sequence of decisions printed by
    the solvers' own `verbose` output (PJV: pass number, number of infeasibilities, Stuck!/trials, the coefficient picked by
    Murty's method, size of the free set; LH: every coefficient freed / constrained with the set sizes = the sequence of active
    sets), the final active set and x, on the cases whose exact decision margins are not tiny;
  * the property's own statement is evaluated on every solver's output: non-negativity, KKT residual within a
    tolerance tied to the solver's tolerance and the conditioning, distance to the optimum.
"""
import json, os, re, subprocess, sys, time, hashlib
from fractions import Fraction as Fr
from multiprocessing import Pool
from common import *
import common as _common
import nnls_exact as NE

PROPERTIES_FILE = "Properties_C11"
ASSUMPTIONS = [
    "CHOLMOD/SuiteSparseQR factorisations, up/down-dates and triangular solves are not modelled: the model has one abstract "
    "operation 'solve the reduced system A[F,F] z = b[F]' (exact, verified before use); their numerical error is covered only by "
    "the tolerance of the oracle (tied to the exact condition number of each generated system)",
    "theorems are over exact ordered fields (executed at Qc); IEEE rounding inside the solvers is tested, not proved",
    "walk_descents is modelled by its sequential specification (first residual-reducing alpha in the order 1, break points "
    "descending; else the last); schedule independence of the threaded implementation is C12's subject",
    "NnlsModel.block3 tied to nnls_normal_block3 by this run's comparison of event traces / active sets / x on well-separated cases, "
    "and to the source text by tools/translators/nnls.py (constants, exit test, every transcribed statement; fails closed)",
    "NnlsModel2.pjv_block / pjv_updown / lh_normaleq tied to nnls_normal_block / nnls_normal_block_updown / nnls_lawson_hanson by this run's "
    "comparison of the solvers' own verbose traces (sequence of decisions / active sets), final active set and x on well-separated cases, and to "
    "the source text by tools/translators/nnls.py (exit tests, progress tests, constants, every transcribed statement; fails closed); "
    "Lawson-Hanson on the least-squares pair (normaleq == 0) is compared with the same model (equal decisions in exact arithmetic: "
    "A'(y - Ax) = A'y - A'Ax), its own branch of the source is not transcribed",
    "C11_lh_exit_kkt_tol_partial carries the hypothesis lh_skipped = false (the coefficient freed last is not back in Z[1..] at the exit); "
    "it is evaluated on every model run and reconstructed from every real trace (counted; 0 expected), not proved",
]
TRUSTED_EXTRA = ["python fractions (exact oracle: optimum certified by exact KKT test; exact condition numbers)",
                 "SuiteSparse (CHOLMOD, SPQR), OpenBLAS as linked by the harness"]

SOLVERS = ["block3", "block", "updown", "lh_ne", "lh_ls"]
EPS = Fr(1, 2**52)

# ------------------------------------------------------------------------------------------------ cases
def fr_str(v):
    v = Fr(v)
    return "%d/%d" % (v.numerator, v.denominator)
def fr_hex(v):
    v = Fr(v)
    return "h%s%x/%x" % ("-" if v < 0 else "", abs(v.numerator), v.denominator)
def fr_parse(s):
    a, _, d = s.partition("/")
    return Fr(int(a), int(d or "1"))

def case_to_json(c):
    return {"kind": c["kind"], "A": [[fr_str(v) for v in r] for r in c["A"]], "b": [fr_str(v) for v in c["b"]],
            "M": [[fr_str(v) for v in r] for r in c["M"]] if c.get("M") else None,
            "y": [fr_str(v) for v in c["y"]] if c.get("y") else None}
def case_from_json(j):
    return {"kind": j.get("kind", "corpus"), "A": [[fr_parse(v) for v in r] for r in j["A"]], "b": [fr_parse(v) for v in j["b"]],
            "M": [[fr_parse(v) for v in r] for r in j["M"]] if j.get("M") else None,
            "y": [fr_parse(v) for v in j["y"]] if j.get("y") else None}
def case_hash(c):
    return hashlib.sha256(json.dumps(case_to_json(c), sort_keys=True).encode()).hexdigest()[:16]

def normal_eq(M, y):
    m, n = len(M), len(M[0])
    A = [[sum(M[k][i] * M[k][j] for k in range(m)) for j in range(n)] for i in range(n)]
    b = [sum(M[k][i] * y[k] for k in range(m)) for i in range(n)]
    return A, b

def gen_case(rng, kind, nmax):
    """integer / dyadic SPD systems A = M'M; the least-squares pair (M, y) is kept when b = M'y"""
    for _ in range(200):
        n = rng.choice([2, 3, 3, 4, 4, 5, 5, 6, 6, 7, 8, 9, 10, 12])
        n = min(n, nmax)
        m = n + rng.rint(0, 3)
        lo, hi = rng.choice([(-4, 8), (-3, 3), (-9, 9), (0, 6), (-1, 5)])
        M = [[rng.rint(lo, hi) for _ in range(n)] for _ in range(m)]
        A, _ = normal_eq(M, [0] * m)
        if NE.solve_sub(A, [0] * n, list(range(n))) is None:
            continue
        y = None
        if kind == "random":
            y = [rng.rint(-12, 12) for _ in range(m)]
            A, b = normal_eq(M, y)
        elif kind == "degenerate":
            # chosen optimum with exact zeros, multipliers with exact zeros (degenerate: x_i = g_i = 0)
            xs = [rng.choice([0, 0, 1, 2, 3, 5]) for _ in range(n)]
            gs = [0 if v > 0 else rng.choice([0, 0, 1, 2, 7]) for v in xs]
            b = [sum(A[i][j] * xs[j] for j in range(n)) - gs[i] for i in range(n)]
            M = None
        elif kind == "ties":
            # repeated structure: equal columns up to permutation give equal multipliers / equal break points
            base = [rng.rint(1, 4) for _ in range(n)]
            c = rng.rint(1, 3)
            A = [[(base[i] * base[j] * c if i != j else base[i] * base[i] * c + rng.choice([1, 2, 2, 4])) for j in range(n)] for i in range(n)]
            v = rng.rint(-6, 9)
            b = [rng.choice([v, v, v, rng.rint(-6, 9)]) for _ in range(n)]
            M = None
            if NE.solve_sub(A, [0] * n, list(range(n))) is None:
                continue
        elif kind == "scaled":
            y = [rng.rint(-12, 12) for _ in range(m)]
            emax = rng.choice([4, 10, 16])
            d = [Fr(2) ** rng.rint(-emax, emax) for _ in range(n)]
            M = [[Fr(M[k][j]) * d[j] for j in range(n)] for k in range(m)]
            A, b = normal_eq(M, y)
        else:
            raise ValueError(kind)
        return {"kind": kind, "A": [[Fr(v) for v in r] for r in A], "b": [Fr(v) for v in b],
                "M": [[Fr(v) for v in r] for r in M] if M else None, "y": [Fr(v) for v in y] if (M and y) else None}
    raise RuntimeError("generator failed")

def gen_sparse(rng, n):
    """larger sparse SPD system: A = B'B + 4 I with B banded integer; returned as triplets"""
    bw = rng.rint(1, 3)
    B = {}
    for i in range(n):
        for j in range(max(0, i - bw), min(n, i + bw + 1)):
            if rng.chance(0.7):
                B[(i, j)] = rng.rint(-3, 4)
    cols = {}
    for (i, j), v in B.items():
        cols.setdefault(i, []).append((j, v))
    A = {}
    for i, ent in cols.items():
        for j1, v1 in ent:
            for j2, v2 in ent:
                A[(j1, j2)] = A.get((j1, j2), 0) + v1 * v2
    for i in range(n):
        A[(i, i)] = A.get((i, i), 0) + 4
    b = [rng.rint(-20, 20) for _ in range(n)]
    return {"kind": "sparse", "n": n, "T": {k: v for k, v in A.items() if v != 0}, "b": b}

# ------------------------------------------------------------------------------------------------ real code
def fmt_dense(cid, solver, c):
    A, b, M, y = c["A"], c["b"], c.get("M"), c.get("y")
    n = len(b)
    ent = [(i, j, A[i][j]) for i in range(n) for j in range(n) if A[i][j] != 0]
    ment = [(i, j, v) for i, r in enumerate(M) for j, v in enumerate(r) if v != 0] if (M and solver == "lh_ls") else []
    L = ["case %s %s %d %d %d %d" % (cid, solver, n, len(ent), len(M) if ment else 0, len(ment))]
    L += ["%d %d %s" % (i, j, hexd(float(v))) for i, j, v in ent]
    L.append(" ".join(hexd(float(v)) for v in b))
    if ment:
        L += ["%d %d %s" % (i, j, hexd(float(v))) for i, j, v in ment]
        L.append(" ".join(hexd(float(v)) for v in y))
    return "\n".join(L) + "\n"
def fmt_sparse(cid, solver, c):
    L = ["case %s %s %d %d 0 0" % (cid, solver, c["n"], len(c["T"]))]
    L += ["%d %d %s" % (i, j, hexd(float(v))) for (i, j), v in sorted(c["T"].items())]
    L.append(" ".join(hexd(float(v)) for v in c["b"]))
    return "\n".join(L) + "\n"

def run_impl(exe, blocks, timeout=3, restarts=None):
    """blocks: list of (id, text). Returns {id: (x list | None, verbose lines)}, hangs (ids given up on).
    The harness is watched for progress: when it prints nothing for `timeout` seconds it is killed and restarted behind
    the last finished case (the unchanged walk_descents can lose a wake-up — C12/D7 — which is not C11's subject);
    a case that hangs three times, or crashes, is recorded and stepped over."""
    import select, threading
    env = dict(os.environ, OMP_NUM_THREADS="1", GOTO_NUM_THREADS="1")
    res, hangs, tries = {}, [], {}
    todo = list(blocks)
    while todo:
        p = subprocess.Popen([exe], stdin=subprocess.PIPE, stdout=subprocess.PIPE, stderr=subprocess.DEVNULL, text=True, env=env, bufsize=1)
        text = "".join(t for _, t in todo)
        def feed(pp=p, tx=text):
            try:
                pp.stdin.write(tx); pp.stdin.close()
            except (BrokenPipeError, OSError, ValueError):
                pass
        th = threading.Thread(target=feed, daemon=True); th.start()
        cur, lines, hung = None, [], False
        fd = p.stdout.fileno()
        buf = b""
        import os as _os
        while True:
            r, _, _ = select.select([fd], [], [], timeout)
            if not r:
                hung = True; p.kill(); break
            chunk = _os.read(fd, 1 << 16)
            if not chunk:
                break
            buf += chunk
            while b"\n" in buf:
                raw, buf = buf.split(b"\n", 1)
                ln = raw.decode("ascii", "replace")
                if ln.startswith("BEGIN "):
                    cur = ln.split()[1]; lines = []
                elif ln.startswith("X ") and cur and ln.split()[1] == cur:
                    t = ln.split()
                    res[cur] = (None if t[2:] == ["NULL"] else [dfrom(int(h, 16)) for h in t[2:]], lines)
                elif ln.startswith("END "):
                    cur = None
                elif cur is not None:
                    lines.append(ln)
        p.wait()
        rest = [(i, t) for i, t in todo if i not in res]
        if not rest:
            break
        first = rest[0][0]
        if restarts is not None:
            restarts.append((first, "hang" if hung else "exit rc=%s" % p.returncode))
        tries[first] = tries.get(first, 0) + 1
        if tries[first] >= 3 or not hung:
            hangs.append((first, "hang" if hung else "crash rc=%s" % p.returncode))
            res[first] = (None, ["<%s>" % hangs[-1][1]])
            rest = rest[1:]
        todo = rest
    return res, hangs

EV_RE = [(re.compile(r"Freeing (\d+) coefficients"), lambda m: "free:%s" % m.group(1)),
         (re.compile(r"Solve\[\d+\] \((\d+) free\)"), lambda m: "solve:%s" % m.group(1)),
         (re.compile(r"Solution entirely feasible"), lambda m: "feas"),
         (re.compile(r"Constraining (\d+) coefficients \(descent at boundary\)"), lambda m: "bound:%s" % m.group(1)),
         (re.compile(r"alpha\[(\d+)\] = \S+, d_res = (\S+)"), lambda m: "alpha:%s:%d" % (m.group(1), 1 if float(m.group(2)) < 0 else 0))]
def impl_trace(lines):
    ev, maxiter = [], False
    for ln in lines:
        if "VARNING" in ln:
            maxiter = True
        for rx, f in EV_RE:
            m = rx.search(ln)
            if m:
                ev.append(f(m)); break
    return ev, maxiter

PJV_RE = [(re.compile(r"Stuck! trials: (-?\d+) nH1: (\d+) nH2: (\d+)"), lambda m: "stuck:%s:%s:%s" % m.groups()),
          (re.compile(r"^\s*H1: (\d+) \("), lambda m: "h1:%s" % m.group(1)),
          (re.compile(r"^\s*H2: (\d+) \("), lambda m: "h2:%s" % m.group(1)),
          (re.compile(r"Iteration (\d+) Infeasibles: (\d+)"), lambda m: "iter:%s:%s" % m.groups()),
          (re.compile(r"Unconstrained solve for (\d+) of \d+"), lambda m: "solve:%s" % m.group(1))]
LH_RE = [(re.compile(r"Freeing coefficient (\d+) \(active: (\d+), passive: (\d+),"), lambda m: "free:%s:%s:%s" % m.groups()),
         (re.compile(r"Constraining coefficient (\d+) \(active: (\d+), passive: (\d+),"), lambda m: "bind:%s:%s:%s" % m.groups())]
def solver_trace(lines, rxs):
    ev = []
    for ln in lines:
        for rx, f in rxs:
            m = rx.search(ln)
            if m:
                ev.append(f(m)); break
    return ev
def tup_events(tr):
    return [":".join(str(v) for v in e) for e in tr]
def lh_sets_from_trace(n, ev):
    """P, Z, last_freed reconstructed from the solver's own Freeing/Constraining lines (in the order of the C arrays)"""
    Z, P, lf = list(range(n)), [], None
    for e in ev:
        t = e.split(":"); i = int(t[1])
        if t[0] == "free":
            if i in Z: Z.remove(i)
            P.append(i); lf = i
        else:
            if i in P: P.remove(i)
            Z.append(i)
    return P, Z, lf
def lh_tolerance(c):
    """the tolerance the harness passes to nnls_lawson_hanson, bit for bit: 1e-12 * max|b_k| (1e-12 when b = 0), in binary64"""
    bmax = max([abs(float(v)) for v in c["b"]] + [0.0])
    return Fr(1e-12 * (bmax if bmax > 0 else 1.0))

# ------------------------------------------------------------------------------------------------ model
def pjv_flags():
    try:
        txt = open(os.path.join(COQDIR, "theories", "Generated_nnls.v")).read()
        g = lambda name, rx: re.search(name + r" : \w+ := " + rx, txt).group(1)
        return dict(block=(g("pjv_block_escape", "(true|false)") == "true", g("pjv_block_exit_both", "(true|false)") == "true"),
                    updown=(g("pjv_updown_escape", "(true|false)") == "true", g("pjv_updown_exit_both", "(true|false)") == "true"),
                    max_trials=int(g("pjv_max_trials", r"(\d+)")), iter_factor=int(g("pjv_iter_factor", r"(\d+)")),
                    tol=Fr(1, 10 ** int(g("pjv_kkt_tol_pow10", r"(\d+)"))))
    except (OSError, AttributeError):
        return dict(block=(True, True), updown=(False, True), max_trials=5, iter_factor=3, tol=Fr(1, 10**6))
PJVF = None

def model_flag():
    try:
        txt = open(os.path.join(COQDIR, "theories", "Generated_nnls.v")).read()
    except OSError:
        return True, 120, 5
    m = re.search(r"block3_exit_requires_full_step : bool := (true|false)", txt)
    mi = re.search(r"block3_max_iter : nat := (\d+)", txt)
    tp = re.search(r"block3_tol_pow10 : Z := (\d+)", txt)
    return m.group(1) == "true", int(mi.group(1)), int(tp.group(1))

def run_model(exe, lines, timeout=600):
    if not lines or exe is None:
        return {}
    p = _common.run([exe], input="\n".join(lines) + "\n", timeout=timeout)
    out = {}
    def q(s):
        a, d = s.split("/"); return Fr(int(a, 16), int(d, 16))
    for ln in p.stdout.split("\n"):
        t = ln.split()
        if not t:
            continue
        if t[0] == "R":
            xi, ti = t.index("X"), t.index("T")
            out[t[1]] = dict(exit=t[2], iters=int(t[3]), full=t[4] == "1", H1=[int(v) for v in t[5][3:].split(",") if v],
                             x=[q(s) for s in t[xi + 1:ti]], trace=t[ti + 1:])
        elif t[0] == "S":
            out[t[1]] = None if t[2] == "NONE" else [q(s) for s in t[3:]]
        elif t[0] == "P":
            xi, ti = t.index("X"), t.index("T")
            out[t[1]] = dict(exit=t[2], iters=int(t[3]), F=[int(v) for v in t[4][2:].split(",") if v],
                             x=[q(s) for s in t[xi + 1:ti]], trace=t[ti + 1:])
        elif t[0] == "L":
            xi, ti = t.index("X"), t.index("T")
            out[t[1]] = dict(exit=t[2], iters=int(t[3]), P=[int(v) for v in t[4][2:].split(",") if v], Z=[int(v) for v in t[5][2:].split(",") if v],
                             lf=None if t[6] == "LF=-" else int(t[6][3:]), skipped=t[7] == "SK=1",
                             x=[q(s) for s in t[xi + 1:ti]], trace=t[ti + 1:])
    return out

def mirror_events(mir):
    ev = []
    for e in mir["trace"]:
        if e[0] == "alpha":
            ev.append("alpha:%d:%d:%d" % (e[1], e[2], int(e[3])))
        elif e[0] == "feas":
            ev.append("feas")
        else:
            ev.append("%s:%d" % (e[0], e[1]))
    return ev

# ------------------------------------------------------------------------------------------------ exact side (pool)
def inv_norm(A):
    """||A^-1||_inf exactly (Gauss-Jordan on [A | I])"""
    n = len(A)
    Mx = [[Fr(v) for v in A[i]] + [Fr(int(i == j)) for j in range(n)] for i in range(n)]
    for c in range(n):
        p = next((r for r in range(c, n) if Mx[r][c] != 0), None)
        if p is None:
            return None
        Mx[c], Mx[p] = Mx[p], Mx[c]
        inv = 1 / Mx[c][c]
        Mx[c] = [v * inv for v in Mx[c]]
        for r in range(n):
            if r != c and Mx[r][c] != 0:
                f = Mx[r][c]
                Mx[r] = [a - f * bb for a, bb in zip(Mx[r], Mx[c])]
    return max(sum(abs(v) for v in row[n:]) for row in Mx)

def exact_side(arg):
    c, repaired, max_iter, tol_pow = arg
    A, b = c["A"], c["b"]
    n = len(b)
    xo = NE.nnls_optimum(A, b)
    ninv = inv_norm(A)
    na = max(sum(abs(v) for v in r) for r in A)
    tol3 = Fr(n) * EPS * 10 ** tol_pow
    mir = NE.block3_mirror(A, b, tol3, max_iter, repaired=repaired)
    pf = PJVF or pjv_flags()
    pm = {sv: NE.pjv_mirror(A, b, pf["tol"], pf[sv][0], exit_both=pf[sv][1], max_trials=pf["max_trials"], iter_factor=pf["iter_factor"])
          for sv in ("block", "updown")}
    lhtol = lh_tolerance(c)
    lhm = NE.lh_mirror(A, b, lhtol, 0, 20 * n + 20)
    return dict(xo=xo, ninv=ninv, na=na, tol3=tol3, mir=mir, pjv=pm, lh=lhm, lhtol=lhtol)

def solver_tol(s, c, tol3):
    n = len(c["b"])
    if s == "block3":
        return tol3
    if s in ("block", "updown"):
        return Fr(1, 10**6)
    bmax = max([abs(v) for v in c["b"]] + [Fr(0)])
    return Fr(1, 10**12) * (bmax if bmax > 0 else 1)

def oracle(s, c, ex, x):
    """the property on the implementation's output: list of (class, text, numbers)"""
    A, b = c["A"], c["b"]
    n = len(b)
    fails = []
    if x is None or len(x) != n or any(v != v or v in (float("inf"), float("-inf")) for v in x):
        return [("nonfinite", "solver returned no / a non-finite vector", {"x": x})], {}
    xf = [Fr(v) for v in x]
    ts = solver_tol(s, c, ex["tol3"])
    xo = ex["xo"]
    xn = max([abs(v) for v in xf] + [abs(v) for v in xo] + [Fr(0)])
    bn = max([abs(v) for v in b] + [Fr(0)])
    kappa = ex["na"] * ex["ninv"]
    scale = ex["na"] * xn + bn
    ra = ts * n * max(Fr(1), ex["na"]) + 64 * n * EPS * kappa * scale          # residual allowed
    da = 4 * n * ex["ninv"] * ra + Fr(1, 10**12) * xn                         # distance allowed
    neg_ok = Fr(0) if s in ("block3", "lh_ne", "lh_ls") else Fr(1, 10**6)
    mn = min(xf)
    if mn < -neg_ok:
        fails.append(("negative", "component %.3e < 0%s" % (float(mn), "" if neg_ok == 0 else " - KKT_TOL"), {"min": float(mn)}))
    g = NE.gradient(A, b, xf)
    worst = Fr(0)
    for xi, gi in zip(xf, g):
        if abs(gi) <= ra:
            continue
        if gi >= -ra and xi <= da:
            continue
        worst = max(worst, abs(gi) if gi < 0 or xi > da else Fr(0))
    if worst > 0:
        fails.append(("kkt-residual", "KKT residual %.3e > allowed %.3e" % (float(worst), float(ra)), {"residual": float(worst), "allowed": float(ra)}))
    dist = max([abs(u - v) for u, v in zip(xf, xo)] + [Fr(0)])
    if dist > da:
        fails.append(("distance", "distance to the exact optimum %.3e > allowed %.3e" % (float(dist), float(da)), {"distance": float(dist), "allowed": float(da)}))
    return fails, {"residual_allowed": float(ra), "distance": float(dist), "kappa": float(kappa)}

def classify_block3(ex, x, ev, maxiter):
    """exit path of a block3 run whose result is not the optimum"""
    if maxiter:
        return "C11:block3-maxiter-exit-not-kkt"
    inner = [e for e in ev if not e.startswith("free") and not e.startswith("solve")]
    if not inner or not inner[-1].startswith("alpha"):
        return "C11:block3:not-optimal-after-" + (inner[-1].split(":")[0] if inner else "no-step")
    mir = ex["mir"]
    agree = mir["exit"] == "kkt" and mir["last"] == "alpha" and x is not None and \
        all(abs(Fr(a) - m) <= Fr(1, 10**8) * max(1, abs(m)) for a, m in zip(x, mir["x"]))
    if not agree:
        return "C11:block3-exit-after-line-search-step"
    last = mir["trace"][-1]
    if mir["nH1"] > 0:
        return "C11:block3-exit-after-partial-step"
    if last[2] == 0:
        return "C11:block3-exit-after-boundary-step"
    return "C11:block3-exit-after-h1h2-cancel"

# ------------------------------------------------------------------------------------------------ run
def load_corpus():
    d = os.path.join(VERIF, "corpus", "C11")
    out = []
    if os.path.isdir(d):
        for f in sorted(os.listdir(d)):
            if f.endswith(".json"):
                j = json.load(open(os.path.join(d, f)))
                c = case_from_json(j); c["kind"] = "corpus:" + f
                out.append(c)
    return out

def check_cases(cases, exe, mexe, out, stats, flags, pool, do_model=True):
    repaired, max_iter, tol_pow = flags
    blocks = []
    for k, c in enumerate(cases):
        for s in SOLVERS:
            if s == "lh_ls" and not c.get("M"):
                continue
            blocks.append(("%d.%s" % (k, s), fmt_dense("%d.%s" % (k, s), s, c)))
    res, hangs = run_impl(exe, blocks, restarts=stats["restarts"])
    for cid, why in hangs:
        stats["hangs"].append((cid, why))
        if not why.startswith("hang"):
            out.violation("C11:harness-crash", "the harness crashed inside a solver", {"case": case_to_json(cases[int(cid.split(".")[0])]), "solver": cid.split(".")[1], "why": why})
    exs = pool.map(exact_side, [(c, repaired, max_iter, tol_pow) for c in cases], chunksize=8)
    # the Coq model (extracted) on the cases with n <= 8; the Coq specification on n <= 4
    mlines = []
    for k, c in enumerate(cases):
        n = len(c["b"])
        if do_model and n <= 8 and all(abs(v.numerator) < 2**60 and v.denominator < 2**60 for r in c["A"] for v in r):
            data = " ".join(fr_str(v) for r in c["A"] for v in r) + " " + " ".join(fr_str(v) for v in c["b"])
            mlines.append("%d.cur cur %d %s" % (k, n, data))
            if n <= 4:
                mlines.append("%d.spec spec %d %s" % (k, n, data))
        if do_model and n <= 8:
            hdata = " ".join(fr_hex(v) for r in c["A"] for v in r) + " " + " ".join(fr_hex(v) for v in c["b"])
            mlines.append("%d.block block %d %s" % (k, n, hdata))
            mlines.append("%d.updown updown %d %s" % (k, n, hdata))
            mlines.append("%d.lh lh %d %s 0 %d %s" % (k, n, fr_hex(lh_tolerance(c)), 20 * n + 20, hdata))
    mres = run_model(mexe, mlines)
    for k, (c, ex) in enumerate(zip(cases, exs)):
        n = len(c["b"])
        stats["evaluations"] += 1
        stats["hist"]["%s/n=%d" % (c["kind"].split(":")[0], n)] = stats["hist"].get("%s/n=%d" % (c["kind"].split(":")[0], n), 0) + 1
        h = case_hash(c)
        nz = sum(1 for v in ex["xo"] if v == 0)
        if 0 < nz < n or c["kind"] != "random":
            stats["distinct"].add(h)
        mir = ex["mir"]
        # --- Coq model vs python mirror (exact), Coq spec vs certified optimum (exact)
        mr = mres.get("%d.cur" % k)
        if mr is not None:
            stats["model_runs"] += 1
            mexit = {"normal": "kkt", "maxiter": "maxiter", "innerfuel": "inner-diverged", "solvefailed": "singular"}[mr["exit"]]
            if mr["x"] != mir["x"] or mr["trace"] != mirror_events(mir) or mexit != mir["exit"]:
                out.violation("C11:model-vs-mirror", "extracted Coq model and its python mirror disagree (machinery fault)",
                              {"case": case_to_json(c), "model": {"x": [str(v) for v in mr["x"]], "trace": mr["trace"], "exit": mr["exit"]},
                               "mirror": {"x": [str(v) for v in mir["x"]], "trace": mirror_events(mir), "exit": mir["exit"]}})
        if ("%d.spec" % k) in mres:
            stats["spec_runs"] += 1
            if mres["%d.spec" % k] != ex["xo"]:
                out.violation("C11:spec-vs-oracle", "Coq nnls_spec (2^n enumeration) and the python optimum disagree (machinery fault)",
                              {"case": case_to_json(c), "spec": [str(v) for v in (mres["%d.spec" % k] or [])], "oracle": [str(v) for v in ex["xo"]]})
        # --- Coq models of the other three solvers vs their python mirrors (exact)
        for sv in ("block", "updown"):
            mr = mres.get("%d.%s" % (k, sv))
            pm = ex["pjv"][sv]
            if mr is not None:
                stats["model2_runs"][sv] = stats["model2_runs"].get(sv, 0) + 1
                mexit = {"normal": "kkt", "maxiter": "maxiter", "solvefailed": "singular"}.get(mr["exit"], mr["exit"])
                if mr["x"] != pm["x"] or mr["trace"] != tup_events(pm["trace"]) or mexit != pm["exit"] or mr["F"] != pm["F"] or mr["iters"] != pm["iters"]:
                    out.violation("C11:model-vs-mirror", "extracted Coq model of %s and its python mirror disagree (machinery fault)" % sv,
                                  {"case": case_to_json(c), "solver": sv, "model": {"x": [str(v) for v in mr["x"]], "trace": mr["trace"], "exit": mr["exit"], "F": mr["F"]},
                                   "mirror": {"x": [str(v) for v in pm["x"]], "trace": tup_events(pm["trace"]), "exit": pm["exit"], "F": pm["F"]}})
            if pm["exit"] != "kkt":
                stats["model2_abnormal_exits"][sv + ":" + pm["exit"]] = stats["model2_abnormal_exits"].get(sv + ":" + pm["exit"], 0) + 1
            elif not NE.kkt_exact(c["A"], c["b"], [max(v, Fr(0)) for v in pm["x"]], Fr(1, 10**6) * (1 + max(sum(abs(v) for v in r) for r in c["A"])))[0]:
                stats["model2_exit_not_kkt"] += 1          # C11_pjv_exit_kkt_tol observed (clipped x, tolerance widened by |A| * KKT_TOL)
        mr = mres.get("%d.lh" % k)
        lm = ex["lh"]
        if mr is not None:
            stats["model2_runs"]["lh"] = stats["model2_runs"].get("lh", 0) + 1
            sk = lm["last_freed"] is not None and lm["last_freed"] in lm["Z"][1:]
            if mr["x"] != lm["x"] or mr["trace"] != tup_events(lm["trace"]) or mr["exit"] != lm["exit"] or mr["P"] != lm["P"] or mr["Z"] != lm["Z"] or \
               mr["lf"] != lm["last_freed"] or mr["iters"] != lm["iters"] or mr["skipped"] != sk:
                out.violation("C11:model-vs-mirror", "extracted Coq model of nnls_lawson_hanson and its python mirror disagree (machinery fault)",
                              {"case": case_to_json(c), "solver": "lh", "model": {"x": [str(v) for v in mr["x"]], "trace": mr["trace"], "exit": mr["exit"], "P": mr["P"], "Z": mr["Z"]},
                               "mirror": {"x": [str(v) for v in lm["x"]], "trace": tup_events(lm["trace"]), "exit": lm["exit"], "P": lm["P"], "Z": lm["Z"]}})
        if lm["last_freed"] is not None and lm["last_freed"] in lm["Z"][1:]:
            stats["lh_skipped_model"] += 1
        if lm["exit"] not in ("wmax", "allpassive", "tol"):
            stats["model2_abnormal_exits"]["lh:" + lm["exit"]] = stats["model2_abnormal_exits"].get("lh:" + lm["exit"], 0) + 1
        elif not NE.kkt_exact(c["A"], c["b"], lm["x"], ex["lhtol"] if lm["exit"] == "tol" else 0)[0]:
            stats["model2_exit_not_kkt"] += 1              # C11_lh_exit_kkt_tol (full statement) observed
        # --- the model's own exit vs the property (exact): the refuted / proved theorem observed on this case
        mk = NE.kkt_exact(c["A"], c["b"], mir["x"], ex["tol3"])[0]
        if mir["exit"] == "kkt" and not mk:
            stats["model_exit_not_kkt"] += 1
        if mir["exit"] not in ("kkt",):
            stats["model_abnormal_exits"][mir["exit"]] = stats["model_abnormal_exits"].get(mir["exit"], 0) + 1
        # --- every real solver: oracle
        for s in SOLVERS:
            cid = "%d.%s" % (k, s)
            if cid not in res:
                continue
            x, lines = res[cid]
            if x is None and lines and lines[0].startswith("<hang"):
                continue
            stats["solver_runs"][s] = stats["solver_runs"].get(s, 0) + 1
            fails, nums = oracle(s, c, ex, x)
            ev, maxiter = impl_trace(lines) if s == "block3" else ([], False)
            if s == "block3" and maxiter:
                stats["block3_maxiter_exits"] += 1
            if fails:
                if s == "block3" and any(f[0] in ("kkt-residual", "distance") for f in fails):
                    sig = classify_block3(ex, x, ev, maxiter)
                else:
                    sig = "C11:%s:%s" % (s, fails[0][0])
                out.violation(sig, "%s on a %s %d-variable system: %s" % (s, c["kind"], n, "; ".join(f[1] for f in fails)),
                              {"case": case_to_json(c), "solver": s, "impl_x": x, "impl_x_hex": [hexd(v) for v in x] if x else None,
                               "optimum": [str(v) for v in ex["xo"]], "optimum_float": [float(v) for v in ex["xo"]],
                               "oracle": [f[1] for f in fails], "impl_trace": ev, "model_trace": mirror_events(mir), "numbers": nums})
                stats["fails"][s] = stats["fails"].get(s, 0) + 1
            # --- block3: model vs code on well-separated cases
            if s == "block3" and x is not None and mir["margin"] is not None and mir["margin"] >= Fr(1, 10**6) and nums.get("kappa", 1e99) < 1e8:
                stats["traces_validated"] += 1
                mev = [":".join(e.split(":")[:2] + e.split(":")[3:]) if e.startswith("alpha") else e for e in mirror_events(mir)]
                # compare up to and including the first step to a break point (alpha index >= 2): there the blocking coefficient is
                # exactly 0 in the model and +-1ulp in the code, and the bookkeeping may legitimately differ afterwards
                def cut(evs):
                    o = []
                    for e in evs:
                        o.append(e)
                        if e.startswith("alpha") and int(e.split(":")[1]) >= 2:
                            break
                    return o
                if cut(mev) != cut(ev):
                    out.violation("C11:block3:trace-model-vs-code", "model and real block3 take different decisions on a well-separated system",
                                  {"case": case_to_json(c), "model_trace": mev, "impl_trace": ev, "margin": float(mir["margin"])})
                tolx = Fr(1, 10**7) * max([abs(v) for v in mir["x"]] + [Fr(1)])
                if cut(mev) == mev and any(abs(Fr(a) - m) > tolx for a, m in zip(x, mir["x"])):
                    out.violation("C11:block3:x-model-vs-code", "model and real block3 follow the same decisions but return different vectors",
                                  {"case": case_to_json(c), "model_x": [float(v) for v in mir["x"]], "impl_x": x, "margin": float(mir["margin"])})
                elif cut(mev) == mev and [i for i, v in enumerate(x) if v > 0] != [i for i, v in enumerate(mir["x"]) if v > 0]:
                    stats["active_set_diff"] += 1
        # --- the other three solvers: model vs code on well-separated cases (the solvers' own verbose traces)
        for s in ("block", "updown", "lh_ne", "lh_ls"):
            cid = "%d.%s" % (k, s)
            if cid not in res or res[cid][0] is None:
                continue
            x, lines = res[cid]
            kappa = float(ex["na"] * ex["ninv"])
            if s in ("block", "updown"):
                pm = ex["pjv"][s]
                ev, mev, mx = solver_trace(lines, PJV_RE), tup_events(pm["trace"]), pm["x"]
                ok_exit = pm["exit"] == "kkt"
                act_model, act_impl = pm["F"], [i for i, v in enumerate(x) if v != 0]
                act_ok = set(act_impl) <= set(act_model)
            else:
                lm = ex["lh"]
                ev, mev, mx = solver_trace(lines, LH_RE), tup_events(lm["trace"]), lm["x"]
                ok_exit = lm["exit"] in ("wmax", "allpassive", "tol")
                P_i, Z_i, lf_i = lh_sets_from_trace(n, ev)
                if lf_i is not None and lf_i in Z_i[1:]:
                    stats["lh_skipped_impl"] += 1
                act_model, act_impl = sorted(lm["P"]), sorted(i for i, v in enumerate(x) if v != 0)
                act_ok = act_model == act_impl and sorted(P_i) == act_model
                mg = lm["margin"]
            mg = pm["margin"] if s in ("block", "updown") else lm["margin"]
            if mg is None or mg < Fr(1, 10**6) or kappa >= 1e8 or not ok_exit:
                continue
            stats["traces2_validated"][s] = stats["traces2_validated"].get(s, 0) + 1
            stats["traces_validated"] += 1
            if ev != mev:
                out.violation("C11:%s:trace-model-vs-code" % s, "model and real %s take different decisions on a well-separated system" % s,
                              {"case": case_to_json(c), "solver": s, "model_trace": mev, "impl_trace": ev, "margin": float(mg)})
                continue
            tolx = Fr(1, 10**7) * max([abs(v) for v in mx] + [Fr(1)])
            if any(abs(Fr(a) - m) > tolx for a, m in zip(x, mx)):
                out.violation("C11:%s:x-model-vs-code" % s, "model and real %s follow the same decisions but return different vectors" % s,
                              {"case": case_to_json(c), "solver": s, "model_x": [float(v) for v in mx], "impl_x": x, "margin": float(mg)})
            elif not act_ok:
                out.violation("C11:%s:active-set-model-vs-code" % s, "model and real %s follow the same decisions but end with different active sets" % s,
                              {"case": case_to_json(c), "solver": s, "model_free_set": act_model, "impl_support": act_impl, "margin": float(mg)})
        if len(stats["samples"]) < 3 and n <= 4:
            stats["samples"].append({"case": case_to_json(c), "optimum": [str(v) for v in ex["xo"]],
                                     "block3": res.get("%d.block3" % k, (None, []))[0], "model_trace": mirror_events(mir)})

def gen_dense_large(rng, n):
    """large DENSE SPD system A = B'B + r I (B dense with dyadic entries in (-1,1), small ridge r = 1/64: many coefficients change
    sides at once): long columns and large passive sets — the regime of the multi-row factor updates (modify_factor / get_column)
    that small enumerable systems never reach"""
    m = n // 2 + 5
    B = [[rng.rint(-63, 63) for _ in range(n)] for _ in range(m)]          # numerators over 64
    Ti = [[0] * n for _ in range(n)]
    for row in B:
        for j1 in range(n):
            v1 = row[j1]
            if v1:
                tj = Ti[j1]
                for j2 in range(n):
                    tj[j2] += v1 * row[j2]
    ridge = Fr(1, 64)
    T = {}
    for i in range(n):
        for j in range(n):
            v = Fr(Ti[i][j], 4096) + (ridge if i == j else 0)
            if v != 0:
                T[(i, j)] = v
    b = [Fr(rng.rint(-63, 63), 64) for _ in range(n)]
    return {"kind": "sparse", "n": n, "T": {k: v for k, v in T.items() if v != 0}, "b": b, "dense": True, "ridge": ridge}

def gen_monofit_system(rng, n):
    """the T-basis normal system of a LONG one-dimensional monotone fit, built exactly as glam.c builds it: quadratic (or linear) B-splines
    on integer knots, data only over part of the knot range (several basis functions have no data under them and are held by the
    penalty alone), second-difference penalty, both transformed to the cumulative basis c = L z:  A = L'(B'WB + lambda D'D)L,
    b = L'B'Wy.  This is the regime in which nnls_normal_block3 re-admits several coefficients at a time while its factor is
    being modified row by row. All entries are dyadic rationals (exact in double). lambda_min(A) >= 1/||A^-1||_inf, certified exactly."""
    from C09 import solve_certified, exact_bspline
    order = rng.choice([2, 2, 1])
    kn = [Fr(i) for i in range(n + order + 1)]
    lo = rng.choice([order + 2, order + 6, (n + order) // 5])
    hi = n - rng.choice([1, 4, (n + order) // 6])
    npts = rng.choice([2 * n, 3 * n])
    xs = sorted(set(Fr(lo) + Fr(int((hi - lo) * 64 * (j + rng.unit()) / npts), 64) for j in range(npts)))
    kind = rng.choice(["convex", "convex", "line", "bump"])
    M = [[Fr(0)] * n for _ in range(n)]
    rv = [Fr(0)] * n
    for x in xs:
        u = (x - lo) / (hi - lo)
        y = {"convex": Fr(35, 64) + u * u, "line": Fr(1, 4) + u, "bump": Fr(1, 2) + u - u * u * Fr(3, 4)}[kind] + Fr(rng.rint(-8, 8), 1024)
        y = Fr(int(y * 4096), 4096) * rng.choice([1, 1, 1000])
        i0 = max(0, int(x) - order)
        nz = [(i, exact_bspline(kn, x, i, order)) for i in range(i0, min(n, int(x) + 1))]
        for i, bi in nz:
            if bi:
                rv[i] += bi * y
                for j, bj in nz:
                    M[i][j] += bi * bj
    lam = Fr(1, 2 ** rng.choice([0, 3, 6, 10]))
    por = 2 if order == 2 else 1
    st = [1, -2, 1] if por == 2 else [-1, 1]
    for r0 in range(n - por):
        for a, sa in enumerate(st):
            for b2, sb in enumerate(st):
                M[r0 + a][r0 + b2] += lam * sa * sb
    # A = L' M L with L = lower-triangular ones:  (L'ML)_{pq} = sum_{i>=p} sum_{j>=q} M_ij  (suffix sums both ways); b = suffix sums of rv
    S = [row[:] for row in M]
    for i in range(n):
        for j in range(n - 2, -1, -1):
            S[i][j] += S[i][j + 1]
    for j in range(n):
        for i in range(n - 2, -1, -1):
            S[i][j] += S[i + 1][j]
    bb = rv[:]
    for i in range(n - 2, -1, -1):
        bb[i] += bb[i + 1]
    z, eps, ninv, why = solve_certified(S, bb)
    if z is None:
        return None
    T = {(i, j): S[i][j] for i in range(n) for j in range(n) if S[i][j] != 0}
    return {"kind": "sparse", "n": n, "T": T, "b": bb, "dense": True, "ridge": 1 / ninv, "monofit": kind}

def check_sparse(rng, exe, out, stats, count, nmax):
    cases = [gen_sparse(rng.fork("sp%d" % i), rng.rint(40, nmax)) for i in range(count)]
    ndl = max(16, count)
    cases += [gen_dense_large(rng.fork("dl%d" % i), rng.choice([150, 200, 200, 260])) for i in range(ndl)]
    stats["large_dense_systems"] = stats.get("large_dense_systems", 0) + ndl
    nmf = 0
    for i in range(max(16, count)):
        c = gen_monofit_system(rng.fork("mf%d" % i), rng.choice([61, 70, 70, 83, 96, 110]))
        if c is not None:
            cases.append(c); nmf += 1
    stats["monotone_fit_systems"] = stats.get("monotone_fit_systems", 0) + nmf
    blocks = []
    for k, c in enumerate(cases):
        for s in ("block3", "block", "updown", "lh_ne"):
            if s == "lh_ne" and c["n"] > 120:
                continue
            if c.get("dense") and s == "block" and k % 5:
                continue            # the large dense family aims at the factor up/down-dates of block3 and updown
            blocks.append(("%d.%s" % (k, s), fmt_sparse("%d.%s" % (k, s), s, c)))
    res, hangs = run_impl(exe, blocks, timeout=30, restarts=stats["restarts"])
    for cid, why in hangs:
        stats["hangs"].append(("sparse." + cid, why))
    for k, c in enumerate(cases):
        n = c["n"]
        na = max(sum(abs(v) for (i, j), v in c["T"].items() if i == r) for r in range(n))
        bn = max(abs(v) for v in c["b"])
        for s in ("block3", "block", "updown", "lh_ne"):
            cid = "%d.%s" % (k, s)
            if cid not in res or res[cid][0] is None:
                continue
            x, lines = res[cid]
            stats["sparse_runs"] += 1
            xf = [Fr(v) for v in x]
            g = [Fr(-v) for v in c["b"]]
            for (i, j), v in c["T"].items():
                if xf[j] != 0:
                    g[i] += v * xf[j]
            xn = max(abs(v) for v in xf)
            ts = Fr(n) * EPS * 10**5 if s == "block3" else Fr(1, 10**6) if s in ("block", "updown") else Fr(1, 10**12) * max(bn, 1)
            # lambda_min(A) >= ridge (4 for the banded family), so kappa <= ||A||/ridge
            rdg = Fr(c.get("ridge", 4))
            ra = ts * n * max(1, na) + 64 * n * EPS * (Fr(na) / rdg) * (na * xn + bn)
            da = n * ra * 4 / rdg                         # ||A^-1|| <= 1/ridge
            neg_ok = Fr(0) if s in ("block3", "lh_ne") else Fr(1, 10**6)
            worst = Fr(0)
            for xi, gi in zip(xf, g):
                if abs(gi) <= ra or (gi >= -ra and xi <= da):
                    continue
                worst = max(worst, abs(gi))
            ev, maxiter = impl_trace(lines) if s == "block3" else ([], False)
            if maxiter:
                stats["block3_maxiter_exits"] += 1
            # the two block-pivoting solvers give up silently after 3*nvar passes ("Iteration <3n> Infeasibles: k" is their last pass)
            capped = s in ("block", "updown") and any(re.match(r"\s*Iteration %d Infeasibles" % (3 * n), l) for l in lines)
            if capped:
                stats["pjv_iteration_cap_exits"] = stats.get("pjv_iteration_cap_exits", 0) + 1
            if min(xf) < -neg_ok or worst > 0:
                sig = ("C11:block3-maxiter-exit-not-kkt" if maxiter else "C11:%s:iteration-cap-exit-not-kkt" % s if capped else "C11:%s:sparse-kkt-residual" % s) if (worst > 0 or capped) else "C11:%s:negative" % s
                out.violation(sig, "%s on a sparse %d-variable system: min x = %.3e, KKT residual %.3e > allowed %.3e" % (s, n, float(min(xf)), float(worst), float(ra)),
                              {"sparse": {"n": n, "T": [[i, j, v] for (i, j), v in sorted(c["T"].items())], "b": c["b"]}, "solver": s,
                               "impl_trace_tail": ev[-12:], "residual": float(worst), "allowed": float(ra)})

def run(info, out):
    t0 = time.time()
    tier, seed = info["tier"], info["seed"]
    rng = Rng(seed)
    exe = build_harness("C11_harness", ["C11_harness.c"], repo_srcs=[], fitter=True)
    try:
        mexe = build_extracted("nnls")
    except BuildError as e:
        mexe = None
        out.notes.append("extracted model does not build (proof/translator broken?): model comparison skipped: " + str(e)[-300:])
    flags = model_flag()
    stats = {"evaluations": 0, "distinct": set(), "hist": {}, "model_runs": 0, "spec_runs": 0, "solver_runs": {}, "fails": {}, "hangs": [],
             "traces_validated": 0, "samples": [], "model_exit_not_kkt": 0, "model_abnormal_exits": {}, "block3_maxiter_exits": 0,
             "active_set_diff": 0, "sparse_runs": 0, "restarts": [], "model2_runs": {}, "model2_abnormal_exits": {}, "model2_exit_not_kkt": 0,
             "lh_skipped_model": 0, "lh_skipped_impl": 0, "traces2_validated": {}}
    global PJVF
    PJVF = pjv_flags()
    pool = Pool(min(NCPU, 16))
    try:
        if info.get("replay"):
            j = json.load(open(info["replay"]))
            if j.get("case"):
                c = case_from_json(j["case"]); c["kind"] = "replay"
                check_cases([c], exe, mexe, out, stats, flags, pool)
                res, _ = run_impl(exe, [("r.%s" % s, fmt_dense("r.%s" % s, s, c)) for s in SOLVERS if s != "lh_ls" or c.get("M")])
                ex = exact_side((c, flags[0], flags[1], flags[2]))
                print("replay: exact optimum", [str(v) for v in ex["xo"]])
                for s in SOLVERS:
                    if "r." + s in res:
                        x, lines = res["r." + s]
                        print("replay: %-7s x = %s  oracle: %s" % (s, x, [f[1] for f in oracle(s, c, ex, x)[0]] or "ok"))
                        if s == "block3":
                            it = impl_trace(lines)[0]
                            print("replay: block3 trace (%d events, last 14)" % len(it), it[-14:], "| model trace", mirror_events(ex["mir"])[-14:], "| model exit", ex["mir"]["exit"])
                        elif s in ("block", "updown"):
                            print("replay: %s trace" % s, solver_trace(lines, PJV_RE)[-16:], "| model trace", tup_events(ex["pjv"][s]["trace"])[-16:], "| model exit", ex["pjv"][s]["exit"], "F", ex["pjv"][s]["F"])
                        else:
                            print("replay: %s trace" % s, solver_trace(lines, LH_RE)[-16:], "| model trace", tup_events(ex["lh"]["trace"])[-16:], "| model exit", ex["lh"]["exit"], "P", ex["lh"]["P"])
            elif j.get("sparse"):
                sp = j["sparse"]
                c = {"kind": "sparse", "n": sp["n"], "T": {(i, jj): v for i, jj, v in sp["T"]}, "b": sp["b"]}
                print("replay of sparse cases: re-run ./check C11 with the same seed (case regenerated from the seed)")
        else:
            corpus = load_corpus()
            check_cases(corpus, exe, mexe, out, stats, flags, pool)
            stats["corpus_cases"] = len(corpus)
            vol = 2000 if tier == "quick" else 40000
            if not info["proof_ok"]:
                vol *= 10 if tier == "quick" else 3
            kinds = ["random"] * 5 + ["degenerate"] * 2 + ["ties"] * 1 + ["scaled"] * 2
            done = 0
            batch = 400
            while done < vol:
                k = min(batch, vol - done)
                cases = [gen_case(rng.fork("c%d" % (done + i)), kinds[(done + i) % len(kinds)], 12) for i in range(k)]
                check_cases(cases, exe, mexe, out, stats, flags, pool)
                done += k
                if time.time() - t0 > (100 if tier == "quick" else 900):
                    stats["stopped_early_at"] = done
                    break
            check_sparse(rng.fork("sparse"), exe, out, stats, 6 if tier == "quick" else 60, 150 if tier == "quick" else 400)
    finally:
        pool.close()
    if stats["restarts"]:
        out.notes.append("harness made no progress and was restarted %d time(s), first on %s (walk_descents lost wake-up, D7, is C12's subject); given up on: %s" % (
            len(stats["restarts"]), stats["restarts"][0], stats["hangs"][:5]))
    return {
        "evaluations": stats["evaluations"] + stats["sparse_runs"],
        "distinct_nontrivial": len(stats["distinct"]),
        "rule": "SPD systems A = M'M, n <= 12, integer/dyadic data: random (b = M'y), degenerate (constructed optimum with exact zeros and zero multipliers), "
                "ties (repeated structure), badly scaled (columns scaled by 2^-16..2^16); non-trivial = the exact optimum has both zero and positive "
                "components, or the case is of a non-random kind; distinct by hash of (A, b, M, y). Plus sparse banded systems n <= 400 (KKT residual only).",
        "samples": stats["samples"],
        "traces_validated_against_impl": stats["traces_validated"],
        "input_distribution": dict(sorted(stats["hist"].items())),
        "solver_runs": stats["solver_runs"], "sparse_solver_runs": stats["sparse_runs"],
        "coq_model_runs": stats["model_runs"], "coq_spec_runs": stats["spec_runs"],
        "oracle_failures_by_solver": stats["fails"],
        "model_normal_exits_not_kkt": stats["model_exit_not_kkt"],
        "model_abnormal_exits": stats["model_abnormal_exits"],
        "block3_maxiter_exits_observed": stats["block3_maxiter_exits"],
        "block3_final_active_set_differs_by_rounding": stats["active_set_diff"],
        "model_is_repaired_algorithm": flags[0],
        "coq_model_runs_other_solvers": stats["model2_runs"],
        "traces_validated_against_impl_by_solver": stats["traces2_validated"],
        "pjv_lh_model_converged_exits_not_kkt": stats["model2_exit_not_kkt"],
        "pjv_lh_model_abnormal_exits": stats["model2_abnormal_exits"],
        "lh_skipped_true_model_runs": stats["lh_skipped_model"],
        "lh_real_traces_ending_with_last_freed_back_in_Z": stats["lh_skipped_impl"],
        "lh_real_traces_note": "real Lawson-Hanson runs whose own trace ends with the coefficient freed last constrained again: the anti-cycling exit "
                               "`alpha == 0` taken after rounding on ill-conditioned (badly scaled) systems, never on a well-separated case (there the trace "
                               "equals the model's, where it does not occur); their outputs are judged by the oracle like all others",
        "corpus_cases": stats.get("corpus_cases", 0),
        "harness_restarts": len(stats["restarts"]), "cases_given_up_after_3_hangs": len(stats["hangs"]),
    }
