"""C05 — lookup and evaluation are memory-safe for every coordinate vector."""
from evalfam import *

PROPERTIES_FILE = "Properties_C05"
ASSUMPTIONS = ["the theorem bounds the MODEL's accesses (index sets written beside the model, statement by statement); that the C++ performs exactly those accesses is validated by ASan+UBSan with assertions enabled on this run's cases, not proved",
               "tables are laid out exactly as the library allocates them (allocate(nknots+2*order)+order), so the sanitizer's red zones sit right after the padding",
               "MSan is not used: the margin code reads (and discards) the knot padding by design"]

class C05(EvalCheck):
    PROP = "C05"
    CORRESPONDENCE = "EvalModel.searchcenters (incl. NaN) vs the checked build (ASan+UBSan, assertions on) of every evaluation entry point"
    RULE = ("tables as C01/C03 (1..9 dims, orders 0..5, minimal and longer knot vectors, repeated knots) x coordinates per dimension from ALL IEEE classes "
            "{NaN, +-inf, +-huge, denormal, +-0, on / next to / between / beyond knots}; entry points: lookup (member, evaluator, C), value, bitmask derivatives, gradient, "
            "arbitrary derivative, evaluator object, call operators; build: -O1 -fsanitize=address,undefined -fno-sanitize-recover=all, assertions enabled; "
            "non-trivial = some coordinate is NaN/inf/denormal/zero/outside/on a knot/in a margin; distinct by (knots, orders, coordinate bits)")
    def volume(self, tier):
        return 200 if tier == "quick" else 6000
    def flavours(self):
        return [("chk", dict(flavour="checked"))]
    def env(self, tag):
        return {"ASAN_OPTIONS": "detect_leaks=0:abort_on_error=0", "UBSAN_OPTIONS": "print_stacktrace=1"}
    def keyfilter(self, k):
        return k.startswith("sc.") or ".g." in k
    def crash_signature(self, t, q, detail):
        m = re.search(r"SUMMARY: (\w+): ([\w-]+) (\S+)", detail)
        if m:
            return "C05:%s@%s" % (m.group(2), os.path.basename(m.group(3)).split(":")[0] + ":" + (m.group(3).split(":")[1] if ":" in m.group(3) else ""))
        m = re.search(r"(\S+):(\d+):\d+: runtime error: ([^\n]+)", detail)
        if m:
            return "C05:ubsan@%s:%s" % (os.path.basename(m.group(1)), m.group(2))
        m = re.search(r"Assertion `([^']+)' failed", detail)
        if m:
            return "C05:assert:" + m.group(1)[:60]
        return "C05:crash:unknown"
    def gen(self, rng, n):
        cases = []
        for ti in range(n):
            t = gen_table(rng, max_coefs=3000, coef_style=rng.choice(["rand", "special"]))
            if ti % 8 == 5:
                # beyond the usual range: 6..9 dimensions with ONE high order (6..10) and the others 0/1 at minimal knot counts —
                # the products ndim x (order+1) at which fixed-size local buffers would be sized (memory safety holds for every
                # well-formed table)
                nd = rng.choice([6, 7, 8, 8, 8, 9])
                orders = [rng.choice([0, 0, 1]) for _ in range(nd)]
                orders[rng.below(nd)] = rng.choice([6, 7, 8, 8, 9, 10])
                if rng.chance(0.5):
                    orders[-1] = max(orders[-1], 1)
                knots = [gen_knots(rng, o, rng.choice([0, 0, 1]), rng.choice(["uniform", "irregular", "integer"]), 1.0, rng.unit() * 4 - 2) for o in orders]
                nco = 1
                for k, o in zip(knots, orders):
                    nco *= len(k) - o - 1
                t = Table(orders, knots, [gen_coef(rng, "rand") for _ in range(nco)], rng.choice([math.nan, 1e300, 0.0]))
            qs = []
            for qi in range(10):
                if qi % 3 == 0:
                    xs, cl = gen_point(rng, t, IN_CLASSES, force_in=True)
                    # poison one or two coordinates with a weird class
                    for _ in range(rng.rint(1, 2)):
                        d = rng.below(t.ndim)
                        c = rng.choice(WEIRD_CLASSES + OUT_CLASSES)
                        xs[d] = gen_coord(rng, t, d, c); cl[d] = c
                elif qi % 3 == 1:
                    xs, cl = gen_point(rng, t, IN_CLASSES + WEIRD_CLASSES + OUT_CLASSES, force_in=False)
                else:
                    xs, cl = gen_point(rng, t, IN_CLASSES, force_in=True)
                masks = sorted(set([0, rng.below(2 ** t.ndim), 2 ** t.ndim - 1]))
                ks = [[rng.rint(0, o + 2) for o in t.orders]]
                qs.append((xs, masks, ks, [], cl))
            cases.append((t, qs))
        return cases
    def nontrivial(self, t, q):
        return any(c not in ("rand", "mid") for c in q[4])
    def oracle(self, t, q, iout, mout):
        fails = []
        xs = q[0]
        # a successful lookup must return in-range centers (otherwise the evaluation that follows reads out of bounds)
        for path in ("member", "ev", "c"):
            v = iout.get("sc." + path)
            if v and v.startswith("1:"):
                cl = [int(c) for c in v[2:].split(",")]
                for d, c in enumerate(cl):
                    o = t.orders[d]; n = len(t.knots[d])
                    if not (o <= c <= n - o - 2):
                        fails.append(("C05:center-out-of-range", "lookup accepted x=%r and returned center %d outside [%d,%d] in dim %d (%s)" % (xs[d], c, o, n - o - 2, d, path)))
        g = iout.get("f.g.member")
        if t.ndim + 1 > 8 and g is not None and g != "THROW":
            fails.append(("C05:gradient-not-refused", "gradient of a %d-dimensional table was not refused" % t.ndim))
        return fails

def run(info, out):
    return C05().run(info, out)
