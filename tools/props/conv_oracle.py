"""conv_oracle.py — exact executable specification of C14 (`conv_spec`), in rationals (fractions.Fraction).

   conv_spec(knots, p, j, kernel, x) = integral over u of B_{j,p}(x-u) * M(u) du
where B_{j,p} is the Cox–de Boor B-spline of degree p on `knots` (partition-of-unity normalisation) and M is the
unit-area B-spline of degree n-2 on the n kernel knots:  M = (n-1)/(kernel[-1]-kernel[0]) * B_{0,n-2}[kernel].

Nothing here uses Strøm's formula, divided differences or truncated powers: both factors are turned into explicit
piecewise polynomials by the Cox–de Boor recurrence on polynomial coefficients, the integration range is split at
every breakpoint of either factor, and each product polynomial is integrated exactly. This is the reference the
algorithm (model@Qc and the C++) is validated against; it is cross-checked in selftest() against the closed forms
that Properties_C14.v proves for degree 0/1 with a box kernel (trapezoid / quadratic pieces).
"""
from fractions import Fraction as Fr

# ---- polynomials: lists of Fractions, lowest degree first ------------------------------------------
def padd(a, b):
    n = max(len(a), len(b))
    return [(a[i] if i < len(a) else 0) + (b[i] if i < len(b) else 0) for i in range(n)]
def pscale(a, s):
    return [c * s for c in a]
def pmul(a, b):
    if not a or not b:
        return []
    out = [Fr(0)] * (len(a) + len(b) - 1)
    for i, x in enumerate(a):
        if x:
            for j, y in enumerate(b):
                out[i + j] += x * y
    return out
def peval(a, x):
    r = Fr(0)
    for c in reversed(a):
        r = r * x + c
    return r
def pcompose_affine(a, c0, c1):
    """a(c0 + c1*y) as a polynomial in y"""
    out, powr = [], [Fr(1)]
    for c in a:
        out = padd(out, pscale(powr, c))
        powr = pmul(powr, [c0, c1])
    return out
def pint(a, lo, hi):
    r = Fr(0)
    for i, c in enumerate(a):
        if c:
            r += c * (hi ** (i + 1) - lo ** (i + 1)) / (i + 1)
    return r

# ---- B-splines as piecewise polynomials --------------------------------------------------------------
def bspline_piece(knots, i, p, l):
    """polynomial (in the absolute variable) of B_{i,p} on the knot interval [knots[l], knots[l+1]); 0/0 := 0"""
    if p == 0:
        return [Fr(1)] if i == l else []
    out = []
    d1 = knots[i + p] - knots[i]
    if d1 != 0:
        out = padd(out, pmul([-knots[i] / d1, Fr(1) / d1], bspline_piece(knots, i, p - 1, l)))
    d2 = knots[i + p + 1] - knots[i + 1]
    if d2 != 0:
        out = padd(out, pmul([knots[i + p + 1] / d2, Fr(-1) / d2], bspline_piece(knots, i + 1, p - 1, l)))
    return out

_PIECES = {}
def bspline_pieces(knots, i, p):
    """[(lo, hi, poly)] over the non-empty knot intervals of the support of B_{i,p}"""
    key = (tuple(knots[i:i + p + 2]), p)
    r = _PIECES.get(key)
    if r is None:
        loc = list(knots[i:i + p + 2])
        r = []
        for l in range(p + 1):
            if loc[l] < loc[l + 1]:
                r.append((loc[l], loc[l + 1], bspline_piece(loc, 0, p, l)))
        if len(_PIECES) > 200000:
            _PIECES.clear()
        _PIECES[key] = r
    return r

def bspline_value(knots, i, p, x, right_continuous=True):
    for lo, hi, poly in bspline_pieces(knots, i, p):
        if (lo <= x < hi) if right_continuous else (lo < x <= hi):
            return peval(poly, x)
    return Fr(0)

def kernel_pieces(kernel):
    n = len(kernel)
    s = Fr(n - 1) / (kernel[-1] - kernel[0])
    return [(lo, hi, pscale(poly, s)) for lo, hi, poly in bspline_pieces(list(kernel), 0, n - 2)]

def conv_spec(knots, p, j, kernel, x):
    """exact (B_{j,p} * M)(x)"""
    bp = bspline_pieces(knots, j, p)
    kp = kernel_pieces(kernel)
    if not bp or not kp:
        return Fr(0)
    # integrate over y: B(y) * M(x - y); M's piece (lo,hi) in u covers y in (x-hi, x-lo)
    total = Fr(0)
    for blo, bhi, bpoly in bp:
        for klo, khi, kpoly in kp:
            lo = max(blo, x - khi)
            hi = min(bhi, x - klo)
            if lo < hi:
                total += pint(pmul(bpoly, pcompose_affine(kpoly, x, Fr(-1))), lo, hi)
    return total

def conv_support(knots, p, j, kernel):
    return knots[j] + kernel[0], knots[j + p + 1] + kernel[-1]

# ---- closed forms proved in Coq (Properties_C14.v) for the cross-check ------------------------------------
def box0_closed(t0, t1, a, b, x):
    """order 0, box kernel on [a,b]: length of [x-b, x-a] ∩ [t0, t1] over (b-a)   (ConvModel/C14_Proofs: conv_box0)"""
    return max(Fr(0), min(x - a, t1) - max(x - b, t0)) / (b - a)
def hat_integral(t0, t1, t2, y):
    """F(y) = integral of the hat function B_{.,1}[t0,t1,t2] from -inf to y   (C14_Proofs: hatF)"""
    if y <= t0:
        return Fr(0)
    if y <= t1:
        return (y - t0) ** 2 / (2 * (t1 - t0))
    if y <= t2:
        return (t1 - t0) / 2 + ((t2 - t1) ** 2 - (t2 - y) ** 2) / (2 * (t2 - t1))
    return (t2 - t0) / 2
def box1_closed(t0, t1, t2, a, b, x):
    return (hat_integral(t0, t1, t2, x - a) - hat_integral(t0, t1, t2, x - b)) / (b - a)

def selftest():
    F = Fr
    # partition of unity / unit area
    kn = [F(0), F(1), F(5, 2), F(3), F(9, 2), F(5), F(7), F(8)]
    for p in range(0, 4):
        for x in (F(13, 4), F(4), F(19, 4)):
            s = sum(bspline_value(kn, i, p, x) for i in range(len(kn) - p - 1))
            if p <= 2:
                assert s == 1, (p, x, s)
    for ker in ([F(-1), F(2)], [F(-1), F(0), F(3)], [F(0), F(1, 2), F(2), F(3)], [F(-2), F(-1), F(0), F(1), F(5)]):
        area = sum(pint(poly, lo, hi) for lo, hi, poly in kernel_pieces(ker))
        assert area == 1, (ker, area)
    # closed forms
    for (t, a, b) in (([F(0), F(1), F(3)], F(-1, 2), F(1, 2)), ([F(-2), F(1, 3), F(5)], F(1), F(4)), ([F(0), F(1), F(2)], F(-5), F(7))):
        for k in range(-40, 60):
            x = F(k, 4)
            assert conv_spec(t, 0, 0, [a, b], x) == box0_closed(t[0], t[1], a, b, x), ("box0", t, a, b, x)
            assert conv_spec(t, 1, 0, [a, b], x) == box1_closed(t[0], t[1], t[2], a, b, x), ("box1", t, a, b, x)
    # total mass is preserved: integral of B*M = integral of B = (t_{j+p+1}-t_j)/(p+1); check via Simpson-exact sampling is overkill —
    # check instead that sum_j conv_j = 1 where the partition of unity holds widely enough
    kn = [F(i) for i in range(12)]
    ker = [F(-1, 2), F(0), F(3, 4)]
    for p in (0, 1, 2, 3):
        x = F(23, 4)
        assert sum(conv_spec(kn, p, j, ker, x) for j in range(len(kn) - p - 1)) == 1
    return True

if __name__ == "__main__":
    print(selftest())
