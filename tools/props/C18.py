"""C18 — the C interface is a faithful, leak-free wrapper.

Correspondence: call sequences (<= 30 calls, 1..3 handles, succeeding and failing operations) are run
  (a) through the REAL extern "C" functions, each call followed by the same operation on a C++ twin object
      (harness/C18_harness.cpp, ASan+UBSan+LSan build, one subprocess per batch with per-case/per-call crash attribution),
  (b) through the Gallina model CApiModel.c_run with the glue table transcribed from the working tree
      (Generated_cinter.wrappers) and the C++ object model of C20 under the tree's cfg — evaluated by coqc (vm_compute).
Compared exactly per call: return code class, per-handle state (NULL / ndim, orders, nknots, naxes, aux keys), number of
live handles / results / buffers.  Every value-returning wrapper (12 accessors, tablesearchcenters, ndsplineeval, ndsplineeval_deriv,
ndsplineeval_gradient) is also called on handles WITHOUT a table (zero-initialised, after a failed read, after splinetable_free) and
on the NULL handle (`op notable`): three-way comparison of the C result, the value the header documents (harness `t` line) and the
model's prediction (CApiModel.c_call through the translated leading check).  Oracle on the implementation alone: C line == twin line (return value, output
buffers, written files byte for byte), dumps equal, process alive (no std::terminate, no sanitizer report), LSan clean
at the end of every sequence that releases what it obtained."""
import os, re, sys, json, subprocess, hashlib, time
from common import *
from common import run as cm_run
import C20 as c20

PROPERTIES_FILE = "Properties_C18"
TRANSLATORS = ["cinter.py", "objfixes.py"]
ASSUMPTIONS = [
    "the C++ members behave as ObjModel.cpp_step says (C20's model, tied by C20's own check); accessors, searchcenters, ndsplineeval, ndsplineeval_deriv, get_aux_value, read_key do not throw (by reading; every call of this run tests it)",
    "tools/translators/cinter.py transcribes the glue shape of every extern \"C\" function correctly (fails closed on any unrecognised statement; the transcription is exercised by the model-vs-implementation comparison of this run)",
    "C18_balanced / C18_memory_safe compose with C20's global invariant (C20_step_preserves) and are therefore about cfg_fixed and about call sequences whose C++ twins satisfy C20's side conditions wf_op (files that pass the dimension check have ndim >= 1 and ndim naxes entries, a fit that passes the sanity checks has >= 1 dimension, a key's byte count is a function of the key); C20_tree_is_fixed ties cfg_fixed to the tree. LeakSanitizer at the end of every sequence stays as the runtime cross-check",
    "memory safety of the per-dimension accessors, tablesearchcenters, ndsplineeval* and grideval on a handle that HOLDS a table is proved under the documented precondition doc_pre (the table is populated, not the empty table splinetable_init leaves: the C++ member itself indexes its arrays, the C++ twin crashes identically); a handle WITHOUT a table / a NULL handle is covered unconditionally (C18_no_table_refused, after repo fix F18_1)",
    "the C caller passes handles whose data member is NULL or came from this interface, result variables and buffer structs that are empty, and arrays of the documented lengths (valid_call)",
]
TRUSTED_EXTRA = ["harness/C18_harness.cpp (C call beside C++ twin; dumps; LSan recoverable check per sequence)",
                 "ASan/UBSan/LeakSanitizer of g++ 12 for the runtime half (real leaks, real terminate)"]

FN = {"init": "splinetable_init", "free": "splinetable_free", "read": "readsplinefitstable", "write": "writesplinefitstable",
      "getkey": "splinetable_get_key", "readkey": "splinetable_read_key", "writekey": "splinetable_write_key", "acc": "accessors",
      "eval": "tablesearchcenters+ndsplineeval", "grad": "ndsplineeval_gradient", "conv": "splinetable_convolve",
      "readmem": "readsplinefitstable_mem", "writemem": "writesplinefitstable_mem", "buffree": "free", "fit": "splinetable_glamfit",
      "grideval": "splinetable_grideval", "nddestroy": "ndsparse_destroy", "perm": "splinetable_permute", "nullarg": "nullarg", "notable": "notable"}
SHAPES = list(c20.SHAPES) + [("s8", [(1, 4)] * 8, [("KEY1", "7")])]
KEYS = dict(c20.KEYS); KEYS.update({"NEWK": 21, "NEWD": 22, "KE~": 23, "ABSENT": 24})
# keys at write_key's length limits (aux.h: at most 66 characters, value at most 67 - keylen characters for a key of more than eight):
# the wrapper must accept and refuse exactly what splinetable<>::write_key does
LIMIT_KEYS = ["L" * 64 + "X", "L" * 65 + "X", "L" * 66 + "X", "NINECHARS", "L" * 58 + "X"]
KEYS.update({k: 25 + i for i, k in enumerate(LIMIT_KEYS)})
PH = {"none": "PNone", "hdu": "PHdu", "dim": "PDim", "order": "POrder", "imgsize": "PImgSize", "coeff": "PCoeff", "extents": "PExtents"}

def cl(xs): return "[" + "; ".join(str(x) for x in xs) + "]"
def coq_file(shape, open_fails, phase, parg):
    name, dims, aux = shape
    ph = "(PKnotSize %d)" % parg if phase == "knotsize" else "(PKnotData %d)" % parg if phase == "knotdata" else PH[phase]
    auxs = "; ".join("({| akey := %d; aklen := %d; avlen := %d |}, %d)" % (KEYS[k], len(k) + 1, c20.stored_vlen(v), c20.raw_vlen(v)) for k, v in aux)
    return "{| f_open_fails := %s; f_fail := %s; f_ndim := %d; f_orders := %s; f_nknots := %s; f_naxes := %s; f_aux := [%s] |}" % (
        "true" if open_fails else "false", ph, len(dims), cl(o for o, _ in dims), cl(k for _, k in dims), cl(k - o - 1 for o, k in dims), auxs)
def call(h, args, nulls=()):
    return "{| c_h := %d; c_nulls := [%s]; c_args := %s |}" % (h, "; ".join('"%s"%%string' % n for n in nulls), args)

def parses(v, t):
    v = v.strip()
    if t == "i":
        m = re.match(r"[+-]?\d+", v)
        return bool(m) and -2**31 <= int(m.group(0)) < 2**31
    return bool(re.match(r"[+-]?(\d+\.?\d*|\.\d+)([eE][+-]?\d+)?", v))

class Env:
    def __init__(self):
        self.harness = build_harness("C18_harness", ["C18_harness.cpp"], flavour="checked", fitter=True)
        self.dir = build_dir("C18_files")
        self.cfgbits = c20.tree_cfg_bits()
        self.inputs, self.unusable = {}, []
        spec = os.path.join(self.dir, "spec.txt")
        with open(spec, "w") as f:
            for name, dims, aux in SHAPES:
                f.write("file %s %d %s %d %s\n" % (os.path.join(self.dir, name + ".fits"), len(dims), " ".join("%d %d" % d for d in dims), len(aux), " ".join("%s %s" % kv for kv in aux)))
        genv = dict(os.environ); genv["ASAN_OPTIONS"] = "detect_leaks=0"
        cm_run([self.harness, "gen", spec], check=True, timeout=300, env=genv)
        names = []
        for si, (name, dims, aux) in enumerate(SHAPES):
            full = open(os.path.join(self.dir, name + ".fits"), "rb").read()
            names.append((name, si))
            for c in (1000, 2880, (len(full) // 2880 - 1) * 2880, len(full) - 1440):
                if 0 < c < len(full):
                    vn = "%s_t%d" % (name, c)
                    open(os.path.join(self.dir, vn + ".fits"), "wb").write(full[:c]); names.append((vn, si))
        open(os.path.join(self.dir, "junk.fits"), "wb").write(b"this is not a FITS file\n" * 200)
        names += [("junk", 0), ("missing", 0)]
        for vn, si in dict(names).items():
            path = os.path.join(self.dir, vn + ".fits")
            p = cm_run([self.harness, "probe", path], timeout=120, env=genv)
            d = {"path": path, "shape": si}
            for line in p.stdout.split("\n"):
                w = line.split()
                if len(w) < 2: continue
                if w[1] == "ok": d[w[0]] = (False, "none", 0)
                elif "failed_to_open" in w[2] or "Unable_to_open" in w[2]: d[w[0]] = (True, "none", 0)
                else:
                    ph = c20.phase_of_msg(w[2])
                    if ph is None: raise BuildError("C18: cannot map the reader's exception to a phase: " + w[2])
                    d[w[0]] = (False, ph[0], ph[1])
            if "_t" in vn and "mem" in d:
                # cfitsio's memory driver reads whole 2880-byte blocks past the end of a truncated buffer (ASan: heap-buffer-overflow in
                # mem_read; C07's domain, not the wrapper's): truncated inputs are only read from disk
                del d["mem"]
            if "mem" not in d: self.unusable.append(vn + ":mem")
            if "disk" in d: self.inputs[vn] = d
        self.good = [vn for vn in self.inputs if self.inputs[vn]["disk"] == (False, "none", 0)]
        self.bad = [vn for vn in self.inputs if self.inputs[vn]["disk"] != (False, "none", 0)]

    def run_harness(self, casefile, ncases, timeout=900):
        out, crashes, skip = {}, {}, 0
        env = dict(os.environ); env["ASAN_OPTIONS"] = "detect_leaks=1:exitcode=77"; env["UBSAN_OPTIONS"] = "print_stacktrace=1"
        while skip < ncases:
            try:
                p = subprocess.run([self.harness, "run", casefile, str(skip)], stdout=subprocess.PIPE, stderr=subprocess.PIPE, text=True, timeout=timeout, env=env, errors="replace")
                rc, so, se = p.returncode, p.stdout, p.stderr
            except subprocess.TimeoutExpired as e:
                rc, so, se = -9, (e.stdout or b"").decode(errors="replace"), (e.stderr or b"").decode(errors="replace") + "\n!TIMEOUT (watchdog)\n"
            parsed, complete = c20.parse_cases(so)
            out.update(parsed)
            announced = [l[1:] for l in se.split("\n") if l.startswith("@")]
            if rc == 0 and len(complete) == len(announced): break
            if not announced:
                crashes["<startup>"] = {"op": "", "stderr": se[-2000:], "exit": rc}; break
            bad = announced[-1]
            tail = [l for l in se.split("\n") if not l.startswith("@")]
            lastop = [l for l in tail if l.startswith("#")]
            crashes[bad] = {"op": lastop[-1] if lastop else "", "stderr": "\n".join(l for l in tail if not l.startswith("#"))[-2500:], "exit": rc,
                            "leak_only": rc == 78}
            skip += len(announced)
        return out, crashes

# ------------------------------------------------------------------------------------------------
def gen_sequence(rng, env, maxlen=30, probe_null=True):
    """returns list of ops: dict(k=kind, line=harness line, calls=[coq ccall terms], expect=...)"""
    nh = rng.rint(1, 3)
    H = {}            # handle -> None (NULL) | dict(dims, keys{name:value}, convs)
    R, B = {}, {}
    ops = []
    def add(kind, line, calls, **kw): ops.append(dict(k=kind, line=line, calls=calls, **kw))
    def shape_state(si): return {"dims": list(SHAPES[si][1]), "keys": dict(SHAPES[si][2]), "convs": 0}
    n = rng.rint(6, maxlen - 8)
    while len(ops) < n:
        h = rng.below(nh); st = H.get(h)
        r = rng.unit()
        if st is None:
            c = rng.below(13)
            if c >= 10:
                # the value-returning wrappers on a handle without a table (never used = zero-initialised / failed read / freed), or on NULL
                fn, a = rng.choice(NOTABLE); nullh = rng.chance(0.25)
                add("notable", "op notable %d %s%s" % (h, fn, " null" if nullh else ""), [call(h, a, ["table"] if nullh else [])], fn=fn, nullh=nullh)
            elif c < 2:
                add("init", "op init %d" % h, [call(h, "AInit")]); H[h] = {"dims": [], "keys": {}, "convs": 0}
            elif c < 6:
                vn = rng.choice(env.good) if rng.chance(0.75) else rng.choice(env.bad)
                d = env.inputs[vn]
                add("read", "op read %d %s" % (h, d["path"]), [call(h, "(ARead %s)" % coq_file(SHAPES[d["shape"]], *d["disk"]))])
                H[h] = shape_state(d["shape"]) if vn in env.good else None
            elif c < 8:
                cands = [vn for vn in env.inputs if "mem" in env.inputs[vn] and vn != "missing"]
                vn = rng.choice(cands); d = env.inputs[vn]
                add("readmem", "op readmem %d %s" % (h, d["path"]), [call(h, "(AReadMem %s)" % coq_file(SHAPES[d["shape"]], *d["mem"]))])
                H[h] = shape_state(d["shape"]) if d["mem"] == (False, "none", 0) else {"dims": [], "keys": {}, "convs": 0}
            elif c < 9:
                # operations on a handle without a table: the wrappers that can report refuse (return 1 / NULL)
                k = rng.choice(["write", "writemem", "conv", "perm", "getkey", "readkey", "writekey", "fit", "grideval", "free"])
                if k == "write": add(k, "op write %d -" % h, [call(h, "(AWrite false)")])
                elif k == "writemem":
                    b = rng.below(2)
                    if b not in B: add(k, "op writemem %d %d" % (h, b), [call(h, "(AWriteMem %d 1 false)" % b)])
                elif k == "conv": add(k, "op conv %d 0 2 0.0 0.5" % h, [call(h, "(AConvolve 0 2)")])
                elif k == "perm": add(k, "op perm %d 0" % h, [call(h, "(APermute [0])")])
                elif k == "getkey": add(k, "op getkey %d KEY1" % h, [call(h, "(AGetKey 1)")])
                elif k == "readkey": add(k, "op readkey %d i KEY1" % h, [call(h, "(AReadKey 1 true)")])
                elif k == "writekey": add(k, "op writekey %d i NEWK 3" % h, [call(h, "(AWriteKey false {| akey := 21; aklen := 5; avlen := 2 |})")])
                elif k == "fit": add(k, "op fit %d 12 2 8 0" % h, [call(h, "(AFit {| ft_invalid := false; ft_fails := false; ft_orders := [2]; ft_nknots := [8] |})")])
                elif k == "grideval":
                    rr = rng.below(2)
                    if rr not in R: add(k, "op grideval %d %d 3" % (h, rr), [call(h, "(AGrideval %d 1)" % rr)])
                else: add("free", "op free %d" % h, [call(h, "AFree")])
            elif probe_null:
                fn, a = rng.choice(NULLARGS)
                add("nullarg", "op nullarg %d %s %s" % (h, fn, a), [call(h, NULL_COQ[fn], [a])], fn=fn)
            continue
        nd = len(st["dims"])
        if nd == 0:     # an empty table
            c = rng.below(12)
            if c < 3:
                ordr, nk, bad = rng.rint(1, 2), rng.rint(7, 9), rng.choice([0, 0, 0, 2, 3, 4])
                add("fit", "op fit %d 12 %d %d %d" % (h, ordr, nk, bad),
                    [call(h, "(AFit {| ft_invalid := %s; ft_fails := false; ft_orders := [%d]; ft_nknots := [%d] |})" % ("true" if bad else "false", ordr, nk))])
                if not bad: H[h] = {"dims": [(ordr, nk)], "keys": dict(st["keys"]), "convs": 0}
            elif c < 5:
                cands = [vn for vn in env.inputs if "mem" in env.inputs[vn] and vn != "missing"]
                vn = rng.choice(cands); d = env.inputs[vn]
                add("readmem", "op readmem %d %s" % (h, d["path"]), [call(h, "(AReadMem %s)" % coq_file(SHAPES[d["shape"]], *d["mem"]))])
                if d["mem"] == (False, "none", 0): H[h] = shape_state(d["shape"])
            elif c < 6: add("write", "op write %d -" % h, [call(h, "(AWrite false)")])
            elif c < 7: add("conv", "op conv %d 0 2 0.0 0.5" % h, [call(h, "(AConvolve 0 2)")])
            elif c < 8: add("perm", "op perm %d" % h, [call(h, "(APermute [])")])     # the caller supplies get_ndim() = 0 entries
            elif c < 9:
                vn = rng.choice(env.good + env.bad); d = env.inputs[vn]
                add("read", "op read %d %s" % (h, d["path"]), [call(h, "(ARead %s)" % coq_file(SHAPES[d["shape"]], *d["disk"]))])
                H[h] = shape_state(d["shape"]) if vn in env.good else None
            elif c < 10: add("free", "op free %d" % h, [call(h, "AFree")]); H[h] = None
            else: add("getkey", "op getkey %d KEY1" % h, [call(h, "(AGetKey 1)")], found=("KEY1" in st["keys"]))
            continue
        c = rng.below(30)
        if c < 2: add("acc", "op acc %d" % h, [call(h, "(AAcc AccKnot)"), call(h, "(AAcc AccNdim)")])
        elif c < 5:
            inside = rng.chance(0.8); q = rng.rint(1, 16 - nd) if inside else rng.choice([-1000, 1000])
            add("eval", "op eval %d %d %d" % (h, q, rng.below(1 << min(nd, 3))),
                [call(h, "(ASearch %s)" % ("true" if inside else "false"))] + ([call(h, "AEval"), call(h, "ADeriv")] if inside else []))
        elif c < 7:
            add("grad", "op grad %d %d" % (h, rng.rint(1, 16 - nd)), [call(h, "AGrad")])
        elif c < 9:
            key = rng.choice(list(st["keys"]) + ["ABSENT"]) if st["keys"] else "ABSENT"
            add("getkey", "op getkey %d %s" % (h, key), [call(h, "(AGetKey %d)" % KEYS[key])])
        elif c < 11:
            key = rng.choice(list(st["keys"]) + ["ABSENT"]) if st["keys"] else "ABSENT"; t = rng.choice("id")
            ok = key in st["keys"] and parses(st["keys"][key], t)
            add("readkey", "op readkey %d %s %s" % (h, t, key), [call(h, "(AReadKey %d %s)" % (KEYS[key], "true" if ok else "false"))])
        elif c < 13:
            t = rng.choice("id"); key = rng.choice(["NEWK", "NEWD", "KE~", "KEY1"]); val = str(rng.rint(1, 99)) if t == "i" else "%d.5" % rng.rint(0, 9)
            if rng.chance(0.3):
                key = rng.choice(LIMIT_KEYS)
                val = rng.choice([str(rng.rint(0, 9)), str(rng.rint(10, 99)), str(rng.rint(100000000, 999999999))]) if (t == "i" or rng.chance(0.5)) else "%d.5" % rng.rint(0, 9)
            inv = "~" in key or len(key) > 66 or (len(key) > 8 and len(val) > 67 - len(key))
            add("writekey", "op writekey %d %s %s %s" % (h, t, key, val),
                [call(h, "(AWriteKey %s {| akey := %d; aklen := %d; avlen := %d |})" % ("true" if inv else "false", KEYS[key], len(key) + 1, len(val) + 1))])
            if not inv: st["keys"][key] = val
        elif c < 15:
            fails = rng.chance(0.3)
            add("write", "op write %d %s" % (h, "/nonexistent-dir/x.fits" if fails else "-"), [call(h, "(AWrite %s)" % ("true" if fails else "false"))])
        elif c < 17:
            b = rng.below(2)
            if b in B: add("buffree", "op buffree %d" % b, [call(0, "(ABufFree %d)" % b)]); del B[b]
            else: add("writemem", "op writemem %d %d" % (h, b), [call(h, "(AWriteMem %d 1 false)" % b)]); B[b] = 1
        elif c < 19:
            if st["convs"] < 1 and rng.chance(0.6) and max(o for o, _ in st["dims"]) <= 2 and nd <= 3:
                dim, nk = rng.below(nd), rng.rint(2, 3)
                add("conv", "op conv %d %d %d %s" % (h, dim, nk, " ".join(str(0.5 * x) for x in range(nk))), [call(h, "(AConvolve %d %d)" % (dim, nk))])
                o, k = st["dims"][dim]; st["dims"][dim] = (o + nk - 1, k * nk); st["convs"] += 1
            else:
                dim, nk = (nd + rng.below(2), 2) if rng.chance(0.6) else (0, 1)
                add("conv", "op conv %d %d %d %s" % (h, dim, nk, " ".join(str(0.5 * x) for x in range(nk))), [call(h, "(AConvolve %d %d)" % (dim, nk))])
        elif c < 21:
            p = list(range(nd)); rng.shuffle(p)
            if rng.chance(0.4) and nd >= 1:
                how = rng.choice(["range", "dup", "big", "bigid", "bigid"])
                j = rng.below(nd)
                if how == "range": p[j] = nd
                elif how == "dup": p[j] = p[0]
                elif how == "big": p[j] = p[j] + 2 ** 32 * rng.choice([1, 2, 2 ** 31 - 1])      # right low 32 bits, wrong value
                else:
                    p = list(range(nd)); p[j] = j + 2 ** 32 * rng.choice([1, 3, 2 ** 31])       # the identity in the low 32 bits of every entry
            valid = sorted(p) == list(range(nd))
            # the model's entries are nat: an entry beyond 2^32 is handed to it as a small out-of-range stand-in (it only asks "< ndim?")
            add("perm", "op perm %d %s" % (h, " ".join(map(str, p))), [call(h, "(APermute %s)" % cl([min(v, nd + 7) for v in p]))])
            if valid: st["dims"] = [st["dims"][j] for j in p]
        elif c < 23:
            rr = rng.below(2)
            if rr in R: add("nddestroy", "op nddestroy %d" % rr, [call(0, "(ANdDestroy %d)" % rr)]); del R[rr]
            elif nd <= 3: add("grideval", "op grideval %d %d %d" % (h, rr, rng.rint(2, 4)), [call(h, "(AGrideval %d 1)" % rr)]); R[rr] = 1
        elif c < 24:
            add("fit", "op fit %d 12 2 8 0" % h, [call(h, "(AFit {| ft_invalid := false; ft_fails := false; ft_orders := [2]; ft_nknots := [8] |})")])   # populated: refused
        elif c < 26:
            vn = rng.choice(env.good) if rng.chance(0.6) else rng.choice(env.bad); d = env.inputs[vn]     # reading into an occupied handle
            add("read", "op read %d %s" % (h, d["path"]), [call(h, "(ARead %s)" % coq_file(SHAPES[d["shape"]], *d["disk"]))])
            H[h] = shape_state(d["shape"]) if vn in env.good else None
        elif c < 27:
            cands = [vn for vn in env.inputs if "mem" in env.inputs[vn] and vn != "missing"]
            vn = rng.choice(cands); d = env.inputs[vn]
            add("readmem", "op readmem %d %s" % (h, d["path"]), [call(h, "(AReadMem %s)" % coq_file(SHAPES[d["shape"]], *d["mem"]))])   # refused
        elif c < 28 and probe_null:
            if rng.chance(0.4):       # the NULL handle passed to a value-returning wrapper while handle h is in use
                fn, a = rng.choice(NOTABLE)
                add("notable", "op notable %d %s null" % (h, fn), [call(h, a, ["table"])], fn=fn, nullh=True)
            else:
                fn, a = rng.choice(NULLARGS)
                add("nullarg", "op nullarg %d %s %s" % (h, fn, a), [call(h, NULL_COQ[fn], [a])], fn=fn)
        else:
            add("free", "op free %d" % h, [call(h, "AFree")]); H[h] = None
    for b in sorted(B): add("buffree", "op buffree %d" % b, [call(0, "(ABufFree %d)" % b)])
    for rr in sorted(R): add("nddestroy", "op nddestroy %d" % rr, [call(0, "(ANdDestroy %d)" % rr)])
    for h in range(3): add("free", "op free %d" % h, [call(h, "AFree")])
    return ops

_F = "{| f_open_fails := true; f_fail := PNone; f_ndim := 0; f_orders := []; f_nknots := []; f_naxes := []; f_aux := [] |}"
NULL_COQ = {"splinetable_init": "AInit", "splinetable_free": "AFree", "readsplinefitstable": "(ARead %s)" % _F, "writesplinefitstable": "(AWrite false)",
            "splinetable_get_key": "(AGetKey 1)", "splinetable_read_key": "(AReadKey 1 true)", "splinetable_write_key": "(AWriteKey false {| akey := 1; aklen := 5; avlen := 2 |})",
            "readsplinefitstable_mem": "(AReadMem %s)" % _F, "writesplinefitstable_mem": "(AWriteMem 1 1 false)", "splinetable_convolve": "(AConvolve 0 2)",
            "splinetable_permute": "(APermute [0])", "splinetable_glamfit": "(AFit {| ft_invalid := false; ft_fails := false; ft_orders := [2]; ft_nknots := [8] |})",
            "splinetable_grideval": "(AGrideval 1 1)"}
NULLARGS = [("splinetable_init", "table"), ("splinetable_free", "table"), ("readsplinefitstable", "path"), ("readsplinefitstable", "table"),
            ("writesplinefitstable", "path"), ("writesplinefitstable", "table"), ("splinetable_get_key", "table"), ("splinetable_get_key", "key"),
            ("splinetable_read_key", "table"), ("splinetable_read_key", "key"), ("splinetable_read_key", "result"), ("splinetable_write_key", "table"),
            ("splinetable_write_key", "key"), ("splinetable_write_key", "value"), ("readsplinefitstable_mem", "buffer"), ("readsplinefitstable_mem", "buffer->data"),
            ("readsplinefitstable_mem", "table"), ("writesplinefitstable_mem", "buffer"), ("writesplinefitstable_mem", "table"), ("splinetable_convolve", "table"),
            ("splinetable_convolve", "knots"), ("splinetable_permute", "table"), ("splinetable_permute", "permutation"), ("splinetable_glamfit", "table"),
            ("splinetable_glamfit", "data"), ("splinetable_grideval", "table"), ("splinetable_grideval", "result")]

# the value-returning wrappers (no failure code): C function, model call
NOTABLE = [("splinetable_ndim", "(AAcc AccNdim)"), ("splinetable_order", "(AAcc AccOrder)"), ("splinetable_nknots", "(AAcc AccNknots)"),
           ("splinetable_knots", "(AAcc AccKnots)"), ("splinetable_knot", "(AAcc AccKnot)"), ("splinetable_lower_extent", "(AAcc AccLower)"),
           ("splinetable_upper_extent", "(AAcc AccUpper)"), ("splinetable_period", "(AAcc AccPeriod)"), ("splinetable_ncoeffs", "(AAcc AccNcoeffs)"),
           ("splinetable_total_ncoeffs", "(AAcc AccTotal)"), ("splinetable_stride", "(AAcc AccStride)"), ("splinetable_coefficients", "(AAcc AccCoeff)"),
           ("tablesearchcenters", "(ASearch true)"), ("ndsplineeval", "AEval"), ("ndsplineeval_deriv", "ADeriv"), ("ndsplineeval_gradient", "AGrad")]
def notable_expect(fn, r0):
    """what the harness prints for the model's prediction r0 of a value-returning wrapper on a handle without a table"""
    if r0[0] == 0: return "int=%d" % r0[1] + (" centers=untouched" if fn == "tablesearchcenters" else "")
    if r0 == [1, 0]: return "ptr=NULL"
    if r0 == [4]: return "g0=nan rest=untouched" if fn == "ndsplineeval_gradient" else "dbl=nan"
    return "<model: %s>" % r0

# ------------------------------------------------------------------------------------------------
MODEL_HEAD = """From Coq Require Import List Arith Bool String.
From PS Require Import ObjResource ObjModel CGlue CApiModel Generated_cinter Generated_objfixes.
Import ListNotations.
Definition rc (r : cres) : list nat := match r with RInt n => [0; n] | RPtr b => [1; if b then 1 else 0] | RVal => [2] | RVoid => [3] | RNaN => [4] | Escaped _ => [5] | Crashed => [6] end.
Definition hobs (cs : cstate) (k : nat) : list nat :=
  (if live cs k then 1 else 0) :: match get_obj (cw cs) k with None => [0] | Some o => [1; ndim o; naux o; List.length (orders o)] ++ orders o ++ nknots o ++ naxes o ++ map akey (auxs o) end.
Definition cnt (cs : cstate) (ps : list nat) : nat := List.length (filter (fun p => negb (is_null (gget cs p))) ps).
Fixpoint obs (cs : cstate) (calls : list ccall) : list (list (list nat)) :=
  match calls with
  | [] => [[ [if all_released cs then 1 else 0; if balancedb (rev (trace (gm cs))) then 1 else 0; List.length (lost (gm cs)); List.length (errs (gm cs));
              if balancedb (rev (trace (wm (cw cs)))) then 1 else 0; List.length (lost (wm (cw cs))); List.length (errs (wm (cw cs)))] ]]
  | x :: t => match c_call wrappers tree_cfg no_fault no_fault cs x with
              | (cs', r) => [rc r; hobs cs' 0; hobs cs' 1; hobs cs' 2; [cnt cs' [0;1;2]; cnt cs' [6;8]; cnt cs' [4;5]; if dead cs' then 1 else 0];
                             [if valid_call cs x then 1 else 0]] :: obs cs' t
              end
  end.
"""
def run_model(cases, tag):
    """cases: list of list of coq call terms -> list of parsed obs"""
    res = []
    chunks = [cases[i:i + 150] for i in range(0, len(cases), 150)]
    procs = []
    d = build_dir("C18_model")
    for ci, ch in enumerate(chunks):
        path = os.path.join(d, "cases_%s_%d.v" % (tag, ci))
        with open(path, "w") as f:
            f.write(MODEL_HEAD)
            for calls in ch:
                f.write("Eval vm_compute in (obs cstate0 [%s]).\n" % ";\n ".join(calls))
        procs.append(subprocess.Popen(["coqc", "-Q", os.path.join(COQDIR, "theories"), "PS", path], stdout=subprocess.PIPE, stderr=subprocess.PIPE, text=True, cwd=d))
        if len(procs) >= 12:
            res += collect(procs); procs = []
    res += collect(procs)
    return res
def collect(procs):
    out = []
    for p in procs:
        so, se = p.communicate(timeout=1500)
        if p.returncode != 0: raise BuildError("C18 model evaluation failed: " + se[-2000:])
        for blk in re.split(r"\n\s*:\s*list \(list \(list nat\)\)", so):
            if "=" not in blk: continue
            txt = blk[blk.index("=") + 1:].replace(";", ",")
            out.append(json.loads(txt))
    return out

# ------------------------------------------------------------------------------------------------
def parse_dump(s):
    if s == "null": return None
    d = dict(kv.split("=", 1) for kv in s.split() if "=" in kv)
    nd = int(d["ndim"])
    li = lambda k: [int(x) for x in d[k].split(",")] if nd and k in d else []
    keys = [] if d.get("aux", "-") == "-" else [KEYS.get(kv.split("=")[0], 999) for kv in d["aux"].split(",")]
    return [nd, int(d["naux"]), li("orders"), li("nk"), li("nax"), keys]

def compare_case(ops, lines, mobs):
    """returns list of (signature, what) problems"""
    probs = []
    per = {}
    for l in lines:
        w = l.split(" ", 2)
        if w[0] in ("c", "t"): per.setdefault(int(w[1]), {})[w[0]] = w[2].split(" ", 1)[1] if " " in w[2] else ""
    # group the s/u/g lines per op in order
    groups, cur = [], None
    for l in lines:
        if l.startswith("c "): cur = {"s": {}, "u": {}, "g": ""}; groups.append(cur)
        elif cur is not None and l[:2] in ("s ", "u "): cur[l[0]][int(l.split()[1])] = l.split(" ", 2)[2]
        elif cur is not None and l.startswith("g "): cur["g"] = l[2:]
    mi = 0
    for i, op in enumerate(ops):
        if i >= len(groups): break
        fn = op.get("fn") or FN[op["k"]]
        c, t = per[i].get("c", ""), per[i].get("t", "")
        if c != t: probs.append(("C18:%s:differs-from-twin" % fn, "op %d `%s`: C gives `%s`, twin `%s`" % (i, op["line"], c, t)))
        g = groups[i]
        for h in range(3):
            if g["s"].get(h) != g["u"].get(h): probs.append(("C18:%s:differs-from-twin" % fn, "op %d `%s`: handle %d is `%s`, twin `%s`" % (i, op["line"], h, g["s"].get(h), g["u"].get(h))))
        # model
        ms = mobs[mi:mi + len(op["calls"])]; mi += len(op["calls"])
        if not ms: continue
        m = ms[-1]
        exp = None; r0 = ms[0][0]
        k = op["k"]
        if k != "nullarg" and not op.get("nullh") and any(x[5] != [1] for x in ms): probs.append(("C18:generator:invalid-call", "op %d `%s` is not a valid call in the model's state" % (i, op["line"])))
        if k == "nullarg":
            ok = (r0 == [0, 1] or r0 == [1, 0] or r0 == [3]) and "refused=1" in c
            if not ok: probs.append(("C18:%s:null-argument" % fn, "op %d `%s`: model %s, C `%s`" % (i, op["line"], r0, c)))
        elif k == "notable":
            want = notable_expect(fn, r0)
            if c != want: probs.append(("C18:%s:model-mismatch" % fn, "op %d `%s`: model %s = `%s`, C `%s` (header: `%s`)" % (i, op["line"], r0, want, c, t)))
        elif k in ("init", "read", "write", "readkey", "writekey", "conv", "readmem", "writemem", "fit", "grideval", "perm"):
            mrc = "rc=%d" % r0[1] if r0[0] == 0 else str(r0)
            if not c.startswith(mrc + " ") and c != mrc: probs.append(("C18:%s:model-mismatch" % fn, "op %d `%s`: model %s, C `%s`" % (i, op["line"], r0, c)))
        elif k == "getkey":
            if (r0 == [1, 1]) != (c != "ptr=NULL") or r0[0] != 1: probs.append(("C18:%s:model-mismatch" % fn, "op %d `%s`: model %s, C `%s`" % (i, op["line"], r0, c)))
        elif k == "eval":
            want = "rc=%d" % r0[1] if r0[0] == 0 else str(r0)
            if not c.startswith(want) or any(x[0] != [2] for x in ms[1:]): probs.append(("C18:%s:model-mismatch" % fn, "op %d `%s`: model %s, C `%s`" % (i, op["line"], [x[0] for x in ms], c)))
        elif k == "grad":
            if not ((r0 == [3] and "threw=0" in c and "nan" not in c) or (r0 == [4] and "threw=1" in c and re.fullmatch(r"g=(nan,)*nan threw=1", c))):
                probs.append(("C18:%s:model-mismatch" % fn, "op %d `%s`: model %s, C `%s`" % (i, op["line"], r0, c)))
        elif k == "acc":
            if any(x[0] != [2] for x in ms): probs.append(("C18:%s:model-mismatch" % fn, "op %d `%s`: model %s" % (i, op["line"], [x[0] for x in ms])))
        elif k in ("free", "buffree", "nddestroy"):
            if r0 != [3]: probs.append(("C18:%s:model-mismatch" % fn, "op %d `%s`: model %s" % (i, op["line"], r0)))
        for h in range(3):
            mh = m[1 + h]; ih = parse_dump(g["s"].get(h, "null"))
            mcanon = None if mh[1] == 0 else [mh[2], mh[3], mh[5:5 + mh[4]], mh[5 + mh[4]:5 + 2 * mh[4]], mh[5 + 2 * mh[4]:5 + 3 * mh[4]], mh[5 + 3 * mh[4]:]]
            if (mh[0] == 1) != (ih is not None) or (ih is not None and mcanon != ih):
                probs.append(("C18:%s:model-mismatch" % fn, "op %d `%s`: handle %d model %s, C %s" % (i, op["line"], h, mcanon, ih)))
        want = "live=%d res=%d buf=%d" % (m[4][0], m[4][1], m[4][2])
        if g["g"] != want or m[4][3] != 0: probs.append(("C18:%s:model-mismatch" % fn, "op %d `%s`: model %s dead=%d, C %s" % (i, op["line"], want, m[4][3], g["g"])))
    return probs

def signature_of_crash(ops, cr):
    m = re.match(r"#(\d+) op (\w+)", cr.get("op", ""))
    k = m.group(2) if m else "?"
    fn = FN.get(k, k)
    if k == "nullarg":
        w = cr["op"].split(); fn = (w[4] if len(w) > 4 else fn) + ":null-argument"
    se = cr.get("stderr", "")
    if k == "notable" and not cr.get("leak_only") and "terminate called" not in se and "!SIGABRT" not in se and "!TIMEOUT" not in se:
        w = cr["op"].split(); fn = w[4] if len(w) > 4 else fn
        return "C18:%s:null-handle-deref" % fn, "a value-returning wrapper dereferences a NULL handle / a handle without a table instead of returning the documented value: " + " ".join(re.findall(r"(?:ERROR: \w+Sanitizer: [\w-]+|runtime error: [^\n]{0,80})", se)[:2])
    if cr.get("leak_only"):
        kinds = set(o["k"] for o in ops)
        return ("C18:ndsparse_destroy:leak" if "nddestroy" in kinds else "C18:sequence:leak"), "LeakSanitizer: the sequence released every handle, result and buffer, yet memory is lost"
    if "terminate called" in se or "!SIGABRT" in se: return "C18:%s:exception-escapes" % fn, "an exception left the extern \"C\" function (std::terminate)"
    if "!TIMEOUT" in se: return "C18:%s:hang" % fn, "watchdog"
    return "C18:%s:crash" % fn.replace(":null-argument:crash", ":null-argument"), "sanitizer report / crash: " + " ".join(re.findall(r"(?:ERROR: \w+Sanitizer: [\w-]+|runtime error: [^\n]{0,80})", se)[:2])

def execute(env, seqs, tag, out, stats):
    cf = os.path.join(env.dir, "cases_%s.txt" % tag)
    with open(cf, "w") as f:
        for i, ops in enumerate(seqs):
            f.write("case %s%d\n" % (tag, i))
            for o in ops: f.write(o["line"] + "\n")
            f.write("end\n")
    t0 = time.time()
    res, crashes = env.run_harness(cf, len(seqs))
    stats["impl_wall"] = stats.get("impl_wall", 0) + time.time() - t0
    t0 = time.time()
    mobs = run_model([[c for o in ops for c in o["calls"]] for ops in seqs], tag)
    stats["model_wall"] = stats.get("model_wall", 0) + time.time() - t0
    for i, ops in enumerate(seqs):
        cid = "%s%d" % (tag, i)
        payload = {"ops": [o["line"].replace(env.dir, "$DIR") for o in ops], "calls_per_op": [[c.replace(env.dir, "$DIR") for c in o["calls"]] for o in ops]}
        if cid in crashes:
            sig, what = signature_of_crash(ops, crashes[cid])
            out.violation(sig, what + " — at `%s`" % crashes[cid].get("op", ""), dict(payload, crash=crashes[cid]))
            stats["crashes"] = stats.get("crashes", 0) + 1
            if not crashes[cid].get("leak_only"): continue
        lines = res.get(cid, [])
        m = mobs[i]
        fin = m[-1][0]
        ncalls = len(m) - 1
        stats["calls"] = stats.get("calls", 0) + ncalls
        for sig, what in compare_case(ops, lines, m[:-1]):
            out.violation(sig, what, payload); stats.setdefault("diffs", []).append(what)
        if fin != [1, 1, 0, 0, 1, 0, 0]:
            out.violation("C18:model-invariant", "model: released/balanced/lost/errs (glue), balanced/lost/errs (objects) = %s at the end of a sequence that frees everything" % fin, payload)
        if "<startup>" in crashes: out.violation("C18:harness:startup", "harness did not start", {"detail": crashes["<startup>"], "no_failing_input_found": True, "broken": "harness"})
        stats["validated"] = stats.get("validated", 0) + (1 if lines else 0)

def replay(env, path, out):
    pl = json.load(open(path))
    lines = [l.replace("$DIR", env.dir) for l in pl["ops"]]
    ops = [dict(k=l.split()[1], line=l, calls=[]) for l in lines]
    for o in ops:
        if o["k"] == "notable": o["fn"] = o["line"].split()[3]
    cf = os.path.join(env.dir, "replay.txt")
    open(cf, "w").write("case replay\n" + "\n".join(lines) + "\nend\n")
    res, crashes = env.run_harness(cf, 1)
    print("replay of %s" % path)
    for l in res.get("replay", []):
        if l[:2] in ("c ", "t ", "en"): print("   " + l)
    if "replay" in crashes:
        sig, what = signature_of_crash(ops, crashes["replay"])
        print("   -> %s: %s at %s\n%s" % (sig, what, crashes["replay"]["op"], crashes["replay"]["stderr"][-600:]))
        out.violation(sig, what, pl)
    else:
        print("   -> completed, LSan clean")

def run(info, out):
    env = Env()
    if info.get("replay"):
        replay(env, info["replay"], out); return {"evaluations": 1, "distinct_nontrivial": 1, "rule": "replay"}
    rng = Rng(info["seed"])
    stats = {}
    # corpus first
    cdir = os.path.join(VERIF, "corpus", "C18")
    corpus = []
    for f in sorted(os.listdir(cdir)) if os.path.isdir(cdir) else []:
        pl = json.load(open(os.path.join(cdir, f)))
        lines = [l.replace("$DIR", env.dir) for l in pl["ops"]]
        ops = [dict(k=l.split()[1], line=l, calls=[c.replace("$DIR", env.dir) for c in cs]) for l, cs in zip(lines, pl["calls_per_op"])]
        for o in ops:
            if o["k"] == "notable": o["fn"] = o["line"].split()[3]; o["nullh"] = o["line"].split()[-1] == "null"
        corpus.append(ops)
    if corpus: execute(env, corpus, "corpus", out, stats)
    nseq = 300 if info["tier"] == "quick" else 3000
    if not info["proof_ok"]: nseq *= 3
    seqs = [gen_sequence(rng.fork("s%d" % i), env) for i in range(nseq)]
    for lo in range(0, nseq, 600):
        execute(env, seqs[lo:lo + 600], "g%d_" % lo, out, stats)
    # (the former known finding C18:accessors:null-handle-deref — fixed by F18_1 — is corpus/C18/c05 and `op notable` above)
    hist, nontriv = {}, set()
    for ops in seqs:
        ks = [o["k"] for o in ops]
        for k in ks: hist[k] = hist.get(k, 0) + 1
        if len(set(ks)) >= 4: nontriv.add(hashlib.sha256("\n".join(o["line"] for o in ops).encode()).hexdigest())
    return {"evaluations": stats.get("calls", 0), "sequences": nseq + len(corpus), "distinct_nontrivial": len(nontriv),
            "rule": "a sequence with at least 4 different kinds of call; every sequence ends by releasing every handle, result and buffer",
            "samples": [[o["line"] for o in s][:12] for s in seqs[:2]], "traces_validated_against_impl": stats.get("validated", 0),
            "input_distribution": {"op_kinds": hist, "inputs_good": len(env.good), "inputs_bad": len(env.bad), "inputs_not_usable_in_memory": env.unusable},
            "crashed_or_leaking_sequences": stats.get("crashes", 0), "impl_wall_s": round(stats.get("impl_wall", 0), 1), "model_wall_s": round(stats.get("model_wall", 0), 1),
            "tree_cfg_bits": env.cfgbits, "first_disagreements": stats.get("diffs", [])[:5]}
