"""oracle_exact.py — the specification of C01/C02 (BSpline.v: Cox-de Boor with 0/0 := 0, the one-sided convention of
the property text, de Boor's derivative formula, the sum over ALL stored coefficients) on exact rationals.
A transcription of BSpline.v for speed (the extracted Qc version costs seconds per query); every run cross-checks
it against the extracted Coq definitions (spline_spec / spline_abs on Qc) for exact equality on small tables."""
from fractions import Fraction
import functools

class Spec1D:
    def __init__(self, knots, order, naxes):
        self.k = [Fraction(x) for x in knots]
        self.order, self.naxes = order, naxes
    def kn(self, i):
        return self.k[i] if 0 <= i < len(self.k) else Fraction(0)
    def basis(self, x, kder):
        """returns (values, absvalues) of d^kder B_{i,order}(x) for i in [0,naxes) as dicts of nonzero entries"""
        x = Fraction(x)
        side = x < self.kn(self.naxes)
        @functools.lru_cache(maxsize=None)
        def B(n, i):
            if n == 0:
                if side:
                    return Fraction(1) if (self.kn(i) <= x < self.kn(i + 1)) else Fraction(0)
                return Fraction(1) if (self.kn(i) < x <= self.kn(i + 1)) else Fraction(0)
            d1 = self.kn(i + n) - self.kn(i)
            d2 = self.kn(i + n + 1) - self.kn(i + 1)
            a = ((x - self.kn(i)) / d1 if d1 != 0 else Fraction(0)) * B(n - 1, i)
            b = ((self.kn(i + n + 1) - x) / d2 if d2 != 0 else Fraction(0)) * B(n - 1, i + 1)
            return a + b
        @functools.lru_cache(maxsize=None)
        def dB(k, n, i):
            if k == 0:
                return B(n, i)
            if n == 0:
                return Fraction(0)
            d1 = self.kn(i + n) - self.kn(i)
            d2 = self.kn(i + n + 1) - self.kn(i + 1)
            return n * ((dB(k - 1, n - 1, i) / d1 if d1 != 0 else 0) - (dB(k - 1, n - 1, i + 1) / d2 if d2 != 0 else 0))
        @functools.lru_cache(maxsize=None)
        def dA(k, n, i):
            if k == 0:
                return abs(B(n, i))
            if n == 0:
                return Fraction(0)
            d1 = abs(self.kn(i + n) - self.kn(i))
            d2 = abs(self.kn(i + n + 1) - self.kn(i + 1))
            return n * ((dA(k - 1, n - 1, i) / d1 if d1 != 0 else 0) + (dA(k - 1, n - 1, i + 1) / d2 if d2 != 0 else 0))
        vals, absv = {}, {}
        for i in range(self.naxes):
            a = dA(kder, self.order, i)
            if a != 0:
                absv[i] = a
                vals[i] = dB(kder, self.order, i)
        return vals, absv

    def underflow_amp(self, x, kder):
        """how much an absolute error of one subnormal ulp made INSIDE the recurrence can grow before it reaches the
        basis values: every later round multiplies by a weight |x - t|/(t' - t) and every derivative round by
        order/(t' - t); deliberately generous (it only scales the 2^-149 / 2^-1074 floor)."""
        x = Fraction(x)
        diffs = [b - a for a, b in zip(self.k, self.k[1:]) if b > a]
        if not diffs:
            return Fraction(1)
        md = min(diffs)
        reach = max(abs(x - self.k[0]), abs(self.k[-1] - x))
        w = max(Fraction(1), reach / md)
        return (2 * w) ** self.order * (max(Fraction(1), 2 * self.order / md)) ** kder

class PointSpec:
    """per-dimension bases at one point, cached by derivative order, so that many k-vectors share them"""
    def __init__(self, orders, knots, coefs, xs):
        self.orders, self.knots, self.coefs, self.xs = orders, knots, coefs, xs
        self.nd = len(orders)
        self.naxes = [len(k) - o - 1 for k, o in zip(knots, orders)]
        self.cache = {}
        self.cmax = max([abs(Fraction(c)) for c in coefs] + [Fraction(0)])
    def basis(self, d, k):
        if (d, k) not in self.cache:
            self.cache[(d, k)] = Spec1D(self.knots[d], self.orders[d], self.naxes[d]).basis(self.xs[d], k)
        return self.cache[(d, k)]
    def spec(self, ks):
        per = [self.basis(d, ks[d]) for d in range(self.nd)]
        val, ab = _contract(self.nd, self.naxes, self.coefs, per)
        nterms, amp = 1, Fraction(1)
        for d, (vals, absv) in enumerate(per):
            nterms *= max(1, len(absv))
            amp *= max(Fraction(1), sum(absv.values(), Fraction(0)))
            amp *= Spec1D(self.knots[d], self.orders[d], self.naxes[d]).underflow_amp(self.xs[d], ks[d])
        return val, ab, nterms * self.cmax * amp

def spline_spec(orders, knots, coefs, xs, ks):
    """(sum over all coefficients of c * prod dB, same with absolute values) as Fractions"""
    v, a, _ = PointSpec(orders, knots, coefs, xs).spec(ks)
    return v, a

def _contract(nd, naxes, coefs, per):
    strides = [1] * nd
    for i in range(nd - 2, -1, -1):
        strides[i] = strides[i + 1] * naxes[i + 1]
    total = [Fraction(0), Fraction(0)]
    def rec(d, pos, pr, pa):
        if d == nd:
            c = Fraction(coefs[pos])
            total[0] += pr * c
            total[1] += pa * abs(c)
            return
        vals, absv = per[d]
        for i, a in absv.items():
            rec(d + 1, pos + i * strides[d], pr * vals[i], pa * a)
    rec(0, 0, Fraction(1), Fraction(1))
    return total[0], total[1]
